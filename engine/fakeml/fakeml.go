// Package fakeml is an in-memory ml.Backend faithful enough for the KV cache
// and the runner: float32 storage, views that alias (offsets and strides
// honoured, byte units as in ggml), and *lazy graph semantics* — Copy / Add /
// custom ops create nodes, Forward appends them (dependencies first) to the
// context's graph, Compute executes forwarded nodes in order, nodes that were
// never forwarded never run, and a graph larger than MaxGraphNodes panics.
package fakeml

import (
	"fmt"

	"github.com/ollama/ollama/fs"
	"github.com/ollama/ollama/ml"
)

type Backend struct {
	ml.Backend // nil: anything not implemented here panics loudly
	Cache      ml.CacheConfig
	MaxNodes   int
	Contexts   int
	Closed     int
}

func (b *Backend) Config() fs.Config           { return nil }
func (b *Backend) CacheConfig() ml.CacheConfig { return b.Cache }
func (b *Backend) NewContext() ml.Context      { b.Contexts++; return &Context{b: b, max: b.maxNodes()} }
func (b *Backend) NewContextSize(n int) ml.Context {
	b.Contexts++
	return &Context{b: b, max: n}
}
func (b *Backend) maxNodes() int {
	if b.MaxNodes == 0 {
		return 8192
	}
	return b.MaxNodes
}

type node struct {
	kind string
	src  []*Tensor
	dst  *Tensor
	run  func()
	done bool
}

type Context struct {
	ml.Context
	b      *Backend
	max    int
	graph  []*node
	seen   map[*node]bool
	views  int
	closed bool
}

func (c *Context) Input() ml.Context    { return c }
func (c *Context) Layer(int) ml.Context { return c }
func (c *Context) MaxGraphNodes() int   { return c.max }
func (c *Context) Reserve() error       { return nil }
func (c *Context) Close()               { c.closed = true; c.b.Closed++ }

func elemSize(d ml.DType) int {
	switch d {
	case ml.DTypeF16:
		return 2
	default:
		return 4
	}
}

// Tensor: up to 4 dimensions, strides in elements, storage shared through buf.
type Tensor struct {
	ml.Tensor
	buf   *[]float32
	off   int
	ne    []int
	nb    []int // strides in elements
	dtype ml.DType
	op    *node   // the node that produces this tensor's contents (nil: plain data / view of plain data)
	base  *Tensor // view parent (for dependency tracking)
}

func newTensor(d ml.DType, shape ...int) *Tensor {
	n := 1
	for _, s := range shape {
		n *= s
	}
	if len(shape) == 0 {
		n = 0
	}
	buf := make([]float32, n)
	t := &Tensor{buf: &buf, ne: append([]int{}, shape...), dtype: d}
	t.nb = make([]int, len(shape))
	st := 1
	for i := range shape {
		t.nb[i] = st
		st *= shape[i]
	}
	return t
}

func (c *Context) Empty(d ml.DType, shape ...int) ml.Tensor { return newTensor(d, shape...) }
func (c *Context) Zeros(d ml.DType, shape ...int) ml.Tensor { return newTensor(d, shape...) }
func (c *Context) FromFloatSlice(s []float32, shape ...int) (ml.Tensor, error) {
	t := newTensor(ml.DTypeF32, shape...)
	if len(s) != len(*t.buf) {
		return nil, fmt.Errorf("invalid shape %v for %d elements", shape, len(s))
	}
	copy(*t.buf, s)
	return t, nil
}
func (c *Context) FromIntSlice(s []int32, shape ...int) (ml.Tensor, error) {
	t := newTensor(ml.DTypeI32, shape...)
	if len(s) != len(*t.buf) {
		return nil, fmt.Errorf("invalid shape %v for %d elements", shape, len(s))
	}
	for i, v := range s {
		(*t.buf)[i] = float32(v)
	}
	return t, nil
}

func (t *Tensor) Dim(n int) int {
	if n >= len(t.ne) {
		return 1
	}
	return t.ne[n]
}
func (t *Tensor) Stride(n int) int {
	if n >= len(t.nb) {
		// like ggml: stride of a missing dimension = size of the whole tensor
		if len(t.nb) == 0 {
			return elemSize(t.dtype)
		}
		return t.nb[len(t.nb)-1] * t.ne[len(t.ne)-1] * elemSize(t.dtype)
	}
	return t.nb[n] * elemSize(t.dtype)
}
func (t *Tensor) Shape() []int    { return append([]int{}, t.ne...) }
func (t *Tensor) DType() ml.DType { return t.dtype }
func (t *Tensor) NumElem() int {
	n := 1
	for _, s := range t.ne {
		n *= s
	}
	return n
}

// index of the k-th logical element (dimension 0 fastest)
func (t *Tensor) idx(k int) int {
	o := t.off
	for i := range t.ne {
		o += (k % t.ne[i]) * t.nb[i]
		k /= t.ne[i]
	}
	return o
}

// At reads one element by coordinates (missing coordinates are 0).
func (t *Tensor) At(coord ...int) float32 {
	o := t.off
	for i, c := range coord {
		if i < len(t.nb) {
			if c < 0 || c >= t.ne[i] {
				panic(fmt.Sprintf("fakeml: coordinate %v out of range for shape %v", coord, t.ne))
			}
			o += c * t.nb[i]
		}
	}
	return (*t.buf)[o]
}

func (t *Tensor) Floats() []float32 {
	out := make([]float32, t.NumElem())
	for k := range out {
		out[k] = (*t.buf)[t.idx(k)]
	}
	return out
}

// View: offset in bytes, then dim0 [, stride1 (bytes), dim1 [, stride2, dim2 [, stride3, dim3]]].
func (t *Tensor) View(ctx ml.Context, offset int, shape ...int) ml.Tensor {
	es := elemSize(t.dtype)
	if offset%es != 0 {
		panic("fakeml: view offset not a multiple of the element size")
	}
	v := &Tensor{buf: t.buf, off: t.off + offset/es, dtype: t.dtype, base: t}
	if len(shape)%2 != 1 {
		panic("fakeml: View needs an odd number of shape arguments")
	}
	v.ne = append(v.ne, shape[0])
	v.nb = append(v.nb, 1)
	for i := 1; i < len(shape); i += 2 {
		if shape[i]%es != 0 {
			panic("fakeml: view stride not a multiple of the element size")
		}
		v.nb = append(v.nb, shape[i]/es)
		v.ne = append(v.ne, shape[i+1])
	}
	// bounds: the last addressed element must be inside the buffer
	last := v.off
	for i := range v.ne {
		if v.ne[i] <= 0 {
			if v.ne[i] == 0 {
				last = v.off
				break
			}
			panic("fakeml: negative view dimension")
		}
		last += (v.ne[i] - 1) * v.nb[i]
	}
	if v.off < 0 || (v.NumElem() > 0 && last >= len(*t.buf)) {
		panic(fmt.Sprintf("fakeml: view [off %d shape %v strides %v] outside a buffer of %d elements", v.off, v.ne, v.nb, len(*t.buf)))
	}
	if c, ok := ctx.(*Context); ok && c != nil {
		c.views++
	}
	return v
}

// Permute as ggml_permute: source dimension i becomes dimension axes[i].
func (t *Tensor) Permute(ctx ml.Context, axes ...int) ml.Tensor {
	ne := []int{1, 1, 1, 1}
	nb := []int{0, 0, 0, 0}
	full := t.NumElem()
	for i := 0; i < 4; i++ {
		d, s := 1, full
		if i < len(t.ne) {
			d, s = t.ne[i], t.nb[i]
		}
		ne[axes[i]] = d
		nb[axes[i]] = s
	}
	v := &Tensor{buf: t.buf, off: t.off, ne: ne, nb: nb, dtype: t.dtype, base: t}
	if c, ok := ctx.(*Context); ok && c != nil {
		c.views++
	}
	return v
}

func (t *Tensor) producer() *node {
	for x := t; x != nil; x = x.base {
		if x.op != nil {
			return x.op
		}
	}
	return nil
}

// Copy copies t into dst element by element in logical order (lazy).
func (t *Tensor) Copy(ctx ml.Context, dst ml.Tensor) ml.Tensor {
	d := dst.(*Tensor)
	if t.NumElem() != d.NumElem() {
		panic(fmt.Sprintf("fakeml: Copy of %v elements into %v", t.ne, d.ne))
	}
	out := &Tensor{buf: d.buf, off: d.off, ne: d.ne, nb: d.nb, dtype: d.dtype, base: d}
	n := &node{kind: "copy", src: []*Tensor{t, d}, dst: d}
	n.run = func() {
		k := t.NumElem()
		tmp := make([]float32, k)
		for i := 0; i < k; i++ {
			tmp[i] = (*t.buf)[t.idx(i)]
		}
		for i := 0; i < k; i++ {
			(*d.buf)[d.idx(i)] = tmp[i]
		}
	}
	out.op = n
	return out
}

// Add (same shape) — lazy, result in fresh storage.
func (t *Tensor) Add(ctx ml.Context, t2 ml.Tensor) ml.Tensor {
	o := t2.(*Tensor)
	out := newTensor(t.dtype, t.ne...)
	n := &node{kind: "add", src: []*Tensor{t, o}, dst: out}
	n.run = func() {
		for i := 0; i < t.NumElem(); i++ {
			(*out.buf)[i] = (*t.buf)[t.idx(i)] + (*o.buf)[o.idx(i%o.NumElem())]
		}
	}
	out.op = n
	return out
}

// AddAlongLast returns t + shift[i_last] (what a RoPE shift does to the position part of a key tag) — lazy.
func AddAlongLast(ctx ml.Context, key, shift ml.Tensor) ml.Tensor {
	t, s := key.(*Tensor), shift.(*Tensor)
	out := newTensor(t.dtype, t.ne...)
	n := &node{kind: "shift", src: []*Tensor{t, s}, dst: out}
	last := len(t.ne) - 1
	n.run = func() {
		inner := t.NumElem() / t.ne[last]
		for i := 0; i < t.NumElem(); i++ {
			(*out.buf)[i] = (*t.buf)[t.idx(i)] + (*s.buf)[s.idx(i/inner)]
		}
	}
	out.op = n
	return out
}

func (c *Context) expand(t *Tensor) {
	if t == nil {
		return
	}
	n := t.producer()
	if n == nil || c.seen[n] {
		return
	}
	c.seen[n] = true
	for _, s := range n.src {
		c.expand(s)
	}
	c.graph = append(c.graph, n)
}

func (c *Context) Forward(ts ...ml.Tensor) ml.Context {
	if c.seen == nil {
		c.seen = map[*node]bool{}
	}
	for _, t := range ts {
		if t == nil {
			continue
		}
		c.expand(t.(*Tensor))
	}
	if len(c.graph)+c.views > c.max {
		panic(fmt.Sprintf("fakeml: graph has %d op nodes and %d views, more than the %d nodes the context can hold", len(c.graph), c.views, c.max))
	}
	return c
}

func (c *Context) Compute(ts ...ml.Tensor) {
	if c.closed {
		panic("fakeml: Compute on a closed context")
	}
	for _, n := range c.graph {
		if !n.done {
			n.run()
			n.done = true
		}
	}
}

// GraphLen reports the number of forwarded op nodes (for harness statistics).
func (c *Context) GraphLen() int { return len(c.graph) }

// Clone deep-copies a plain (non-lazy, non-view) tensor.
func (t *Tensor) Clone() *Tensor {
	if t == nil {
		return nil
	}
	buf := append([]float32{}, (*t.buf)...)
	return &Tensor{buf: &buf, off: t.off, ne: append([]int{}, t.ne...), nb: append([]int{}, t.nb...), dtype: t.dtype}
}

// Raw exposes the storage (harness fingerprints).
func (t *Tensor) Raw() []float32 { return *t.buf }

// Custom is a lazy node with a caller-supplied body: when executed (after all
// deps) fn fills the logical contents of the result. Used by scripted models
// whose output must be a function of what the cache exposed at Compute time.
func Custom(ctx ml.Context, deps []ml.Tensor, shape []int, fn func(out []float32)) ml.Tensor {
	out := newTensor(ml.DTypeF32, shape...)
	n := &node{kind: "custom", dst: out}
	for _, d := range deps {
		if d != nil {
			n.src = append(n.src, d.(*Tensor))
		}
	}
	n.run = func() { fn(*out.buf) }
	out.op = n
	return out
}
