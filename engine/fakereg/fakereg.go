// Package fakereg is an in-process registry + CDN behind an http.RoundTripper:
// no sockets, no net/http goroutines. Every request and every body Read is a
// scheduling point (the network is one object for happens-before purposes)
// and, when enabled, a fault point whose menu is chosen by the explorer.
package fakereg

import (
	"bytes"
	"context"
	"crypto/sha256"
	"encoding/json"
	"errors"
	"fmt"
	"io"
	"net/http"
	"sort"
	"strconv"
	"strings"

	"github.com/ollama/ollama/zzverif/mcrt"
)

type Server struct {
	Host      string            // registry host, e.g. "reg.test"
	CDNHost   string            // if set, blob GETs on Host answer 307 to this host
	Manifests map[string][]byte // "ns/repo:tag" -> manifest bytes
	Blobs     map[string][]byte // "sha256:<hex>" -> content
	ReadSize  int               // bytes per body Read (0: 4)
	PlanChunk int               // chunk size of the chunksums plan (0: 4)

	Faults        bool     // offer per-request faults (class Fault)
	FaultKinds    []string // subset of: 500 404 neterr truncate flip ignore-range stall badjson; nil = default menu
	PlanFaults    bool     // offer broken chunk plans (class Fault)
	AuthChallenge []string // if non-empty: first request without Authorization gets 401 with a challenge chosen from this list

	// UploadRedirect: a PATCH that carries X-Redirect-Uploads is answered 307 to a CDN upload URL (Location) with the
	// next upload URL in Docker-Upload-Location (legacy push: parts then go to the CDN in parallel)
	UploadRedirect bool
	// OtherRepo: blobs the registry holds only in another repository: a HEAD/GET in the pushed repository says 404
	// until the blob is mounted (POST ?mount=) or uploaded there
	OtherRepo map[string]bool

	// AfterResponse: OnNetPoint is also called when a request has been answered, before the caller sees the answer
	AfterResponse bool
	// DashDigests: a lenient registry that also serves a blob asked for as sha256-<hex>
	DashDigests bool
	// Down: the registry answers every request with 503 (an outage that lasts as long as the harness says)
	Down bool
	// OnNetPoint, if set, is called before every request and every body read while faults are possible (the
	// harness uses it to let the client go away exactly there: one deviation wherever in the transfer it is)
	OnNetPoint func(label string)

	Log          []string
	Accepted     map[string]bool // digests whose upload was completed (or found present)
	ManifestPuts []string
	// ManifestPutMissing: for every manifest PUT that arrived, the layers it names that the registry did not hold at
	// that moment ("<repo:tag> <digest>"); the registry accepts the manifest all the same and leaves the verdict to the oracle
	ManifestPutMissing []string
	uploads            map[string]*upload
	nextUpload         int
	NoFaultsLeft       bool // harness switch: serve everything correctly from now on
}

type upload struct {
	digest string
	data   []byte
	have   []bool // which bytes of data were received
}

func Digest(b []byte) string { return fmt.Sprintf("sha256:%x", sha256.Sum256(b)) }

func New(host string) *Server {
	return &Server{Host: host, Manifests: map[string][]byte{}, Blobs: map[string][]byte{}, Accepted: map[string]bool{}, uploads: map[string]*upload{}}
}

func (s *Server) AddBlob(data []byte) string {
	d := Digest(data)
	s.Blobs[d] = data
	return d
}

func (s *Server) logf(f string, a ...any) {
	if len(s.Log) < 4096 {
		s.Log = append(s.Log, fmt.Sprintf(f, a...))
	}
}

var errNet = errors.New("fakereg: connection reset by peer")

type body struct {
	ctx      context.Context
	data     []byte
	pos      int
	readSize int
	truncate int  // -1: none; else fail with unexpected EOF at this offset
	clean    bool // truncation reported as a clean EOF
	stall    int  // -1: none; else block at this offset until the request context is done
	label    string
	closed   bool
	srv      *Server
}

func (b *body) Read(p []byte) (int, error) {
	mcrt.NetPoint("read " + b.label)
	if b.srv != nil && b.srv.OnNetPoint != nil && !b.srv.NoFaultsLeft {
		b.srv.OnNetPoint("read " + b.label)
	}
	if err := b.ctx.Err(); err != nil {
		return 0, context.Cause(b.ctx)
	}
	if b.stall >= 0 && b.pos >= b.stall {
		mcrt.Recv(b.ctx.Done())
		return 0, context.Cause(b.ctx)
	}
	if b.truncate >= 0 && b.pos >= b.truncate {
		if b.clean {
			return 0, io.EOF
		}
		return 0, io.ErrUnexpectedEOF
	}
	if b.pos >= len(b.data) {
		return 0, io.EOF
	}
	n := len(b.data) - b.pos
	if n > b.readSize {
		n = b.readSize
	}
	if n > len(p) {
		n = len(p)
	}
	if b.truncate >= 0 && b.pos+n > b.truncate {
		n = b.truncate - b.pos
	}
	if b.stall >= 0 && b.pos+n > b.stall {
		n = b.stall - b.pos
	}
	copy(p, b.data[b.pos:b.pos+n])
	b.pos += n
	return n, nil
}

func (b *body) Close() error { b.closed = true; return nil }

func (s *Server) resp(req *http.Request, code int, hdr map[string]string, data []byte) *http.Response {
	h := http.Header{}
	for k, v := range hdr {
		h.Set(k, v)
	}
	if _, ok := hdr["Content-Length"]; !ok {
		h.Set("Content-Length", strconv.Itoa(len(data)))
	}
	rs := s.ReadSize
	if rs <= 0 {
		rs = 4
	}
	// only blob bodies are delivered piecewise; manifests, plans and error bodies arrive in one read
	if !strings.Contains(req.URL.Path, "/blobs/") && !strings.HasPrefix(req.URL.Path, "/cdn/") {
		rs = 1 << 20
	}
	cl := int64(len(data))
	if v, err := strconv.ParseInt(h.Get("Content-Length"), 10, 64); err == nil {
		cl = v
	}
	var rb io.ReadCloser = &body{ctx: req.Context(), data: data, readSize: rs, truncate: -1, stall: -1, label: req.Method + " " + req.URL.Path, srv: s}
	if req.Method == "HEAD" {
		rb = http.NoBody
	}
	return &http.Response{Status: fmt.Sprintf("%d %s", code, http.StatusText(code)), StatusCode: code, Proto: "HTTP/1.1", ProtoMajor: 1, ProtoMinor: 1,
		Header: h, Body: rb, ContentLength: cl, Request: req}
}

func (s *Server) errJSON(req *http.Request, code int, ecode, msg string) *http.Response {
	return s.resp(req, code, map[string]string{"Content-Type": "application/json"}, []byte(fmt.Sprintf(`{"errors":[{"code":%q,"message":%q}]}`, ecode, msg)))
}

func parseRange(h string, size int) (int, int, bool) {
	if !strings.HasPrefix(h, "bytes=") {
		return 0, 0, false
	}
	parts := strings.SplitN(strings.TrimPrefix(h, "bytes="), "-", 2)
	if len(parts) != 2 {
		return 0, 0, false
	}
	a, err1 := strconv.Atoi(parts[0])
	b, err2 := strconv.Atoi(parts[1])
	if err1 != nil || err2 != nil || a < 0 || b < a {
		return 0, 0, false
	}
	if b >= size {
		b = size - 1
	}
	if a >= size {
		return 0, 0, false
	}
	return a, b, true
}

// RoundTrip implements http.RoundTripper.
func (s *Server) RoundTrip(req *http.Request) (*http.Response, error) {
	resp, err := s.roundTrip(req)
	if s.AfterResponse && s.OnNetPoint != nil && !s.NoFaultsLeft {
		// the request has been answered; the caller has not looked at the answer yet
		s.OnNetPoint("the answer to " + req.Method + " " + req.URL.Host + req.URL.Path + " is looked at")
	}
	return resp, err
}

func (s *Server) roundTrip(req *http.Request) (*http.Response, error) {
	label := req.Method + " " + req.URL.Host + req.URL.Path
	if req.URL.RawQuery != "" {
		label += "?" + req.URL.RawQuery
	}
	if r := req.Header.Get("Range"); r != "" {
		label += " [" + r + "]"
	}
	mcrt.NetPoint(label)
	if s.OnNetPoint != nil && !s.NoFaultsLeft {
		s.OnNetPoint(label)
	}
	s.logf("%s", label)
	if req.Body != nil && req.Body != http.NoBody {
		defer req.Body.Close()
	}
	if err := req.Context().Err(); err != nil {
		return nil, context.Cause(req.Context())
	}
	if s.Down && !s.NoFaultsLeft {
		return s.errJSON(req, 503, "UNAVAILABLE", "registry down"), nil
	}
	path := req.URL.Path
	isBlobGet := req.Method == "GET" && strings.Contains(path, "/blobs/") && !strings.Contains(path, "/uploads/")

	// ---- faults --------------------------------------------------------------
	fault := "ok"
	if s.Faults && !s.NoFaultsLeft {
		menu := []string{"ok"}
		kinds := s.FaultKinds
		if kinds == nil {
			kinds = []string{"500", "neterr", "truncate", "flip", "ignore-range"}
		}
		for _, k := range kinds {
			switch k {
			case "truncate", "flip", "stall", "truncate-clean":
				// a flipped manifest would itself be "the manifest the registry served": not a fault of the transfer
				if req.Method == "GET" && !(k == "flip" && strings.Contains(path, "/manifests/")) {
					menu = append(menu, k)
				}
			case "307":
				// an upload answered with a redirect (the body of an upload cannot be replayed: the client sees the 307 itself)
				if (req.Method == "PUT" || req.Method == "PATCH") && strings.Contains(path, "/blobs/uploads/") {
					menu = append(menu, k)
				}
			case "ignore-range":
				if isBlobGet && req.Header.Get("Range") != "" {
					menu = append(menu, k)
				}
			case "badjson", "manifest-empty-digest", "manifest-short-digest", "manifest-nohex-digest", "manifest-null-layer", "manifest-negative-size", "manifest-dup-layer", "manifest-wrong-size":
				if strings.Contains(path, "/manifests/") && req.Method == "GET" {
					menu = append(menu, k)
				}
			default:
				menu = append(menu, k)
			}
		}
		fault = menu[mcrt.Choose(mcrt.Fault, "net "+label, menu...)]
		if fault != "ok" {
			mcrt.Observe("fault %s on %s", fault, label)
		}
	}
	switch fault {
	case "500":
		return s.errJSON(req, 500, "INTERNAL", "injected"), nil
	case "503":
		return s.errJSON(req, 503, "UNAVAILABLE", "injected"), nil
	case "404":
		return s.errJSON(req, 404, "NOT_FOUND", "injected"), nil
	case "neterr":
		return nil, errNet
	case "307":
		return s.resp(req, 307, map[string]string{"Location": "https://" + s.Host + "/elsewhere" + path}, nil), nil
	}

	// ---- auth -------------------------------------------------------------------
	if len(s.AuthChallenge) > 0 && req.URL.Host == s.Host && req.Header.Get("Authorization") == "" && !strings.HasPrefix(path, "/token") {
		i := 0
		if !s.NoFaultsLeft {
			i = mcrt.Choose(mcrt.Fault, "challenge "+label, s.AuthChallenge...)
		}
		return s.resp(req, 401, map[string]string{"Www-Authenticate": s.AuthChallenge[i]}, []byte(`{"errors":[{"code":"UNAUTHORIZED"}]}`)), nil
	}
	if strings.HasPrefix(path, "/token") {
		return s.resp(req, 200, map[string]string{"Content-Type": "application/json"}, []byte(`{"token":"tok"}`)), nil
	}

	res := s.route(req)
	if res == nil {
		return nil, errNet
	}
	if fault == "lost-response" {
		// the registry did what was asked; the answer never arrives
		return nil, errNet
	}
	// body-level faults
	if b, ok := res.Body.(*body); ok && res.StatusCode/100 == 2 && len(b.data) > 0 {
		switch fault {
		case "truncate":
			b.truncate = len(b.data) / 2
		case "truncate-clean":
			b.truncate = len(b.data) / 2
			b.clean = true
		case "stall":
			b.stall = len(b.data) / 2
		case "flip":
			d := append([]byte{}, b.data...)
			d[len(d)/2] ^= 0x20
			b.data = d
		case "badjson":
			b.data = []byte(`{"layers": [`)
			res.Header.Set("Content-Length", strconv.Itoa(len(b.data)))
			res.ContentLength = int64(len(b.data))
		case "manifest-empty-digest", "manifest-short-digest", "manifest-nohex-digest", "manifest-null-layer", "manifest-negative-size", "manifest-dup-layer", "manifest-wrong-size":
			// well-formed JSON whose content is malformed: the first layer entry is altered
			var m map[string]any
			if json.Unmarshal(b.data, &m) == nil {
				if layers, ok := m["layers"].([]any); ok && len(layers) > 0 {
					if l0, ok := layers[0].(map[string]any); ok {
						switch fault {
						case "manifest-empty-digest":
							l0["digest"] = ""
						case "manifest-short-digest":
							l0["digest"] = "sha256:ab"
						case "manifest-nohex-digest":
							l0["digest"] = "sha256:" + strings.Repeat("z", 64)
						case "manifest-null-layer":
							layers[0] = nil
						case "manifest-negative-size":
							l0["size"] = -1
						case "manifest-wrong-size":
							if n, ok := l0["size"].(float64); ok {
								l0["size"] = n + 1
							}
						case "manifest-dup-layer":
							m["layers"] = append(layers, l0)
						}
					}
				}
				b.data, _ = json.Marshal(m)
				res.Header.Set("Content-Length", strconv.Itoa(len(b.data)))
				res.ContentLength = int64(len(b.data))
			}
		}
	}
	return res, nil
}

func (s *Server) route(req *http.Request) *http.Response {
	path := req.URL.Path
	parts := strings.Split(strings.TrimPrefix(path, "/v2/"), "/")
	// /v2/<ns>/<repo>/<kind>/<ref>
	if !strings.HasPrefix(path, "/v2/") || len(parts) < 4 {
		// CDN style direct blob path: /cdn/<digest>
		if strings.HasPrefix(path, "/cdn/") {
			return s.serveBlob(req, strings.TrimPrefix(path, "/cdn/"), false)
		}
		if strings.HasPrefix(path, "/cdnup/") && req.Method == "PUT" {
			// /cdnup/<upload id>/<first>-<last>: one part of a redirected upload
			p := strings.Split(strings.TrimPrefix(path, "/cdnup/"), "/")
			u := s.uploads[p[0]]
			var a, b int
			if u == nil || len(p) != 2 {
				return s.errJSON(req, 404, "BLOB_UPLOAD_UNKNOWN", "upload unknown")
			}
			if n, _ := fmt.Sscanf(p[1], "%d-%d", &a, &b); n != 2 || a < 0 || b < a-1 {
				return s.errJSON(req, 400, "BAD_RANGE", p[1])
			}
			var data []byte
			var err error
			if req.Body != nil {
				data, err = io.ReadAll(req.Body)
			}
			if err != nil || len(data) != b-a+1 {
				return s.errJSON(req, 400, "BAD_BODY", fmt.Sprintf("%d bytes for %s: %v", len(data), p[1], err))
			}
			u.put(a, data)
			s.logf("PART-STORED %s %s", p[0], p[1])
			return s.resp(req, 200, map[string]string{"ETag": "x"}, nil)
		}
		return s.errJSON(req, 404, "NOT_FOUND", "no route")
	}
	repo := parts[0] + "/" + parts[1]
	kind, ref := parts[2], strings.Join(parts[3:], "/")
	switch {
	case kind == "manifests" && (req.Method == "GET" || req.Method == "HEAD"):
		m, ok := s.Manifests[repo+":"+ref]
		if !ok {
			return s.errJSON(req, 404, "MANIFEST_UNKNOWN", "manifest unknown")
		}
		return s.resp(req, 200, map[string]string{"Content-Type": "application/vnd.docker.distribution.manifest.v2+json"}, m)
	case kind == "manifests" && req.Method == "PUT":
		data, _ := io.ReadAll(req.Body)
		var m struct {
			Config struct{ Digest string }   `json:"config"`
			Layers []struct{ Digest string } `json:"layers"`
		}
		if json.Unmarshal(data, &m) == nil {
			for _, l := range append(m.Layers, struct{ Digest string }{m.Config.Digest}) {
				if _, ok := s.Blobs[l.Digest]; (!ok || s.OtherRepo[l.Digest]) && l.Digest != "" {
					s.ManifestPutMissing = append(s.ManifestPutMissing, repo+":"+ref+" "+l.Digest)
				}
			}
		}
		s.Manifests[repo+":"+ref] = data
		s.ManifestPuts = append(s.ManifestPuts, repo+":"+ref)
		s.logf("MANIFEST-COMMITTED %s", repo+":"+ref)
		return s.resp(req, 201, nil, nil)
	case kind == "chunksums" && req.Method == "GET":
		return s.serveChunksums(req, repo, ref)
	case kind == "blobs" && len(parts) >= 5 && parts[3] == "uploads":
		return s.serveUpload(req, repo, parts[4:])
	case kind == "blobs" && (req.Method == "GET" || req.Method == "HEAD"):
		if s.CDNHost != "" && req.URL.Host == s.Host && req.Method == "GET" {
			return s.resp(req, 307, map[string]string{"Location": "https://" + s.CDNHost + "/cdn/" + ref}, nil)
		}
		return s.serveBlob(req, ref, false)
	}
	return s.errJSON(req, 404, "NOT_FOUND", "no route")
}

func (s *Server) serveBlob(req *http.Request, digest string, ignoreRange bool) *http.Response {
	if s.DashDigests {
		digest = strings.Replace(digest, "sha256-", "sha256:", 1)
	}
	data, ok := s.Blobs[digest]
	if !ok || s.OtherRepo[digest] {
		return s.errJSON(req, 404, "BLOB_UNKNOWN", "blob unknown")
	}
	if rg := req.Header.Get("Range"); rg != "" && !ignoreRange {
		if a, b, ok := parseRange(rg, len(data)); ok {
			return s.resp(req, 206, map[string]string{"Content-Range": fmt.Sprintf("bytes %d-%d/%d", a, b, len(data))}, data[a:b+1])
		}
		if len(data) == 0 {
			return s.resp(req, 200, nil, data)
		}
		return s.resp(req, 416, nil, nil)
	}
	return s.resp(req, 200, nil, data)
}

// PlanFaultKinds lists the broken chunk plans offered when PlanFaults is set.
var PlanFaultKinds = []string{"ok", "gap", "overlap", "past-end", "duplicate", "wrong-digest", "cut-short", "garbage"}

func (s *Server) serveChunksums(req *http.Request, repo, digest string) *http.Response {
	data, ok := s.Blobs[digest]
	if !ok {
		return s.errJSON(req, 404, "BLOB_UNKNOWN", "blob unknown")
	}
	cs := s.PlanChunk
	if cs <= 0 {
		cs = 4
	}
	type ch struct{ a, b int }
	var chunks []ch
	for a := 0; a < len(data); a += cs {
		b := a + cs - 1
		if b >= len(data) {
			b = len(data) - 1
		}
		chunks = append(chunks, ch{a, b})
	}
	fault := "ok"
	if s.PlanFaults && !s.NoFaultsLeft {
		fault = PlanFaultKinds[mcrt.Choose(mcrt.Fault, "plan "+digest[:12], PlanFaultKinds...)]
		if fault != "ok" {
			mcrt.Observe("plan fault %s", fault)
		}
	}
	var b bytes.Buffer
	line := func(c ch) {
		a, e := c.a, c.b
		if e >= len(data) {
			fmt.Fprintf(&b, "%s %d-%d\n", Digest(data[a:]), a, e)
			return
		}
		fmt.Fprintf(&b, "%s %d-%d\n", Digest(data[a:e+1]), a, e)
	}
	for i, c := range chunks {
		switch {
		case fault == "gap" && i == 1 && len(chunks) > 1:
			continue
		case fault == "overlap" && i == 1:
			line(ch{c.a - 1, c.b})
			continue
		case fault == "past-end" && i == len(chunks)-1:
			line(ch{c.a, c.b + 2})
			continue
		case fault == "duplicate" && i == 0:
			line(c)
		case fault == "wrong-digest" && i == len(chunks)-1:
			fmt.Fprintf(&b, "%s %d-%d\n", Digest([]byte("other")), c.a, c.b)
			continue
		case fault == "cut-short" && i == len(chunks)-1:
			continue
		case fault == "garbage" && i == len(chunks)-1:
			fmt.Fprintf(&b, "not-a-digest x-y\n")
			continue
		}
		line(c)
	}
	loc := fmt.Sprintf("%s://%s/v2/%s/blobs/%s", req.URL.Scheme, req.URL.Host, repo, digest)
	return s.resp(req, 200, map[string]string{"Content-Location": loc}, b.Bytes())
}

func (u *upload) put(a int, data []byte) {
	for len(u.data) < a+len(data) {
		u.data = append(u.data, 0)
		u.have = append(u.have, false)
	}
	copy(u.data[a:], data)
	for i := range data {
		u.have[a+i] = true
	}
}

func (u *upload) complete() bool {
	for _, h := range u.have {
		if !h {
			return false
		}
	}
	return true
}

func (s *Server) serveUpload(req *http.Request, repo string, rest []string) *http.Response {
	q := req.URL.Query()
	switch req.Method {
	case "POST":
		d := q.Get("digest")
		if m := q.Get("mount"); m != "" {
			// cross-repository mount (legacy push of a layer that came FROM another model)
			if _, ok := s.Blobs[m]; ok {
				delete(s.OtherRepo, m)
				s.Accepted[m] = true
				s.logf("BLOB-MOUNTED %s", m)
				return s.resp(req, 201, nil, nil)
			}
		}
		if d != "" {
			if _, ok := s.Blobs[d]; ok {
				// already present: no Location (new client) / 201 (legacy)
				s.Accepted[d] = true
				s.logf("BLOB-PRESENT %s", d)
				return s.resp(req, 201, nil, nil)
			}
		}
		s.nextUpload++
		id := fmt.Sprintf("u%d", s.nextUpload)
		s.uploads[id] = &upload{digest: d}
		loc := fmt.Sprintf("%s://%s/v2/%s/blobs/uploads/%s", req.URL.Scheme, req.URL.Host, repo, id)
		if d != "" {
			loc += "?digest=" + d
		}
		return s.resp(req, 202, map[string]string{"Location": loc, "Docker-Upload-Location": loc}, nil)
	case "PATCH", "PUT":
		id := rest[0]
		u := s.uploads[id]
		if u == nil {
			return s.errJSON(req, 404, "BLOB_UPLOAD_UNKNOWN", "upload unknown")
		}
		loc := fmt.Sprintf("%s://%s/v2/%s/blobs/uploads/%s", req.URL.Scheme, req.URL.Host, repo, id)
		if req.Method == "PATCH" && s.UploadRedirect && req.Header.Get("X-Redirect-Uploads") != "" && s.CDNHost != "" {
			// the body is not consumed: the part goes to the CDN URL, the next part may start at once
			cdn := fmt.Sprintf("https://%s/cdnup/%s/%s", s.CDNHost, id, req.Header.Get("Content-Range"))
			return s.resp(req, 307, map[string]string{"Location": cdn, "Docker-Upload-Location": loc}, nil)
		}
		var data []byte
		if req.Body != nil {
			var err error
			if data, err = io.ReadAll(req.Body); err != nil {
				return s.errJSON(req, 400, "BAD_BODY", err.Error())
			}
		}
		if cr := req.Header.Get("Content-Range"); cr != "" {
			// "a-b"
			var a, b int
			fmt.Sscanf(cr, "%d-%d", &a, &b)
			u.put(a, data)
		} else {
			u.put(len(u.data), data)
		}
		d := q.Get("digest")
		if req.Method == "PUT" && d != "" {
			if !u.complete() || Digest(u.data) != d {
				return s.errJSON(req, 400, "DIGEST_INVALID", "digest mismatch")
			}
			s.Blobs[d] = u.data
			delete(s.OtherRepo, d)
			s.Accepted[d] = true
			s.logf("BLOB-ACCEPTED %s", d)
			return s.resp(req, 201, nil, nil)
		}
		return s.resp(req, 202, map[string]string{"Location": loc, "Docker-Upload-Location": loc}, nil)
	}
	return s.errJSON(req, 405, "UNSUPPORTED", "method")
}

// Multi routes requests to one of several registries by host (each server also answers for its CDN host).
type Multi []*Server

func (m Multi) RoundTrip(req *http.Request) (*http.Response, error) {
	for _, s := range m {
		if req.URL.Host == s.Host || (s.CDNHost != "" && req.URL.Host == s.CDNHost) {
			return s.RoundTrip(req)
		}
	}
	return nil, errNet
}

// SortedBlobDigests is a helper for deterministic iteration.
func (s *Server) SortedBlobDigests() []string {
	var l []string
	for d := range s.Blobs {
		l = append(l, d)
	}
	sort.Strings(l)
	return l
}
