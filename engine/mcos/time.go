package mcos

import "time"

type timeT = time.Time
