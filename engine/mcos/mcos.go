// Package mcos puts the file system under control of the explorer: every FS
// call of instrumented code is a scheduling point (the file system is one
// object for happens-before purposes), mutating calls are *crash points*
// (optionally with write prefixes) and, when enabled, fault points.
//
// Calls are forwarded to the real os package; harnesses point the code under
// test at a per-execution scratch directory (tmpfs).
package mcos

import (
	"errors"
	"fmt"
	"io"
	"io/fs"
	gos "os"
	"path/filepath"
	"strings"
	"syscall"

	"github.com/ollama/ollama/zzverif/mcrt"
)

// Env is the per-execution configuration set by the harness.
type Env struct {
	Root          string             // only paths under Root are crash/fault points
	CrashEnabled  bool               // offer a crash at every mutating call (class Crash)
	WritePrefixes bool               // also offer crashes after a prefix of each write
	FaultsEnabled bool               // offer ENOSPC / short write / close error (class Fault)
	OnCrash       func(label string) // runs with everything frozen; the directory is the crash image
	OnMutate      func(label string) // called before every mutating call (invariant checks "at every point")
	Frozen        bool               // no points, no choices (oracle code running on an image)
	Ops           int                // mutating calls so far
	Log           []string
	Crashed       bool
}

var E *Env

func under(path string) bool {
	if E == nil || E.Root == "" {
		return false
	}
	abs, err := filepath.Abs(path)
	if err != nil {
		return false
	}
	return abs == E.Root || strings.HasPrefix(abs, E.Root+string(filepath.Separator))
}

func rel(path string) string {
	if E != nil && E.Root != "" {
		if abs, err := filepath.Abs(path); err == nil {
			if r, err := filepath.Rel(E.Root, abs); err == nil && !strings.HasPrefix(r, "..") {
				return r
			}
		}
	}
	return path
}

func live() bool { return mcrt.Active() && E != nil && !E.Frozen }

// observe is a point before a read-only call.
func observe(label, path string) {
	if !live() {
		return
	}
	mcrt.FSPoint(label + " " + rel(path))
}

// mutate is a point before a mutating call; it may crash here.
func mutate(label, path string) {
	if !live() {
		return
	}
	l := label + " " + rel(path)
	mcrt.FSPoint(l)
	if !under(path) {
		return
	}
	E.Ops++
	if len(E.Log) < 4096 {
		E.Log = append(E.Log, l)
	}
	if E.OnMutate != nil {
		E.Frozen = true
		E.OnMutate(l)
		E.Frozen = false
	}
	if E.CrashEnabled && mcrt.Choose(mcrt.Crash, "crash before "+l, "no", "crash") == 1 {
		Crash("before " + l)
	}
}

// Crash evaluates the current directory as a crash image and ends the execution.
func Crash(label string) {
	E.Crashed = true
	E.Frozen = true
	mcrt.Observe("CRASH %s", label)
	if E.OnCrash != nil {
		E.OnCrash(label)
	}
	mcrt.Abort()
}

// ---- File ---------------------------------------------------------------------------

// File wraps *os.File so that writes are points / crash points.
type File struct {
	*gos.File
	path string
}

func wrap(f *gos.File, err error, path string) (*File, error) {
	if err != nil {
		return nil, err
	}
	return &File{File: f, path: path}, nil
}

func (f *File) prefixes(n int) []int {
	if n <= 1 {
		return nil
	}
	if n <= 8 {
		l := make([]int, 0, n-1)
		for k := 1; k < n; k++ {
			l = append(l, k)
		}
		return l
	}
	return []int{1, n / 2, n - 1}
}

func (f *File) writePoint(kind string, n int, do func(k int) (int, error)) (int, error, bool) {
	if !live() || f == nil {
		return 0, nil, false
	}
	l := fmt.Sprintf("%s(%d) %s", kind, n, rel(f.path))
	mcrt.FSPoint(l)
	if !under(f.path) {
		return 0, nil, false
	}
	E.Ops++
	if len(E.Log) < 4096 {
		E.Log = append(E.Log, l)
	}
	if E.OnMutate != nil {
		E.Frozen = true
		E.OnMutate(l)
		E.Frozen = false
	}
	if E.CrashEnabled {
		labels := []string{"no", "crash before"}
		var ks []int
		if E.WritePrefixes {
			ks = f.prefixes(n)
			for _, k := range ks {
				labels = append(labels, fmt.Sprintf("crash after %d bytes", k))
			}
		}
		switch c := mcrt.Choose(mcrt.Crash, "crash at "+l, labels...); {
		case c == 1:
			Crash("before " + l)
		case c > 1:
			do(ks[c-2])
			Crash(fmt.Sprintf("after %d bytes of %s", ks[c-2], l))
		}
	}
	if E.FaultsEnabled && n > 0 {
		switch mcrt.Choose(mcrt.Fault, "fault at "+l, "ok", "ENOSPC", "short write") {
		case 1:
			return 0, &fs.PathError{Op: "write", Path: f.path, Err: syscall.ENOSPC}, true
		case 2:
			k, _ := do(n / 2)
			return k, &fs.PathError{Op: "write", Path: f.path, Err: syscall.ENOSPC}, true
		}
	}
	return 0, nil, false
}

func (f *File) Write(p []byte) (int, error) {
	if n, err, done := f.writePoint("write", len(p), func(k int) (int, error) { return f.File.Write(p[:k]) }); done {
		return n, err
	}
	return f.File.Write(p)
}

func (f *File) WriteString(s string) (int, error) { return f.Write([]byte(s)) }

func (f *File) WriteAt(p []byte, off int64) (int, error) {
	if n, err, done := f.writePoint(fmt.Sprintf("writeat@%d", off), len(p), func(k int) (int, error) { return f.File.WriteAt(p[:k], off) }); done {
		return n, err
	}
	return f.File.WriteAt(p, off)
}

// ReadFrom must not bypass Write (os.File implements io.ReaderFrom).
func (f *File) ReadFrom(r io.Reader) (int64, error) {
	buf := make([]byte, 32*1024)
	var total int64
	for {
		n, err := r.Read(buf)
		if n > 0 {
			w, werr := f.Write(buf[:n])
			total += int64(w)
			if werr != nil {
				return total, werr
			}
		}
		if err == io.EOF {
			return total, nil
		}
		if err != nil {
			return total, err
		}
	}
}

func (f *File) Truncate(size int64) error {
	mutate(fmt.Sprintf("ftruncate(%d)", size), f.path)
	return f.File.Truncate(size)
}

func (f *File) Close() error {
	if f == nil {
		return gos.ErrInvalid
	}
	if live() && under(f.path) {
		mcrt.FSPoint("close " + rel(f.path))
		if E.FaultsEnabled && mcrt.Choose(mcrt.Fault, "fault at close "+rel(f.path), "ok", "EIO") == 1 {
			f.File.Close()
			return &fs.PathError{Op: "close", Path: f.path, Err: syscall.EIO}
		}
	}
	return f.File.Close()
}

func (f *File) Sync() error {
	observe("fsync", f.path)
	return f.File.Sync()
}

func (f *File) Name() string { return f.File.Name() }

// ---- package-level calls --------------------------------------------------------------

func Open(name string) (*File, error) {
	observe("open", name)
	f, err := gos.Open(name)
	return wrap(f, err, name)
}

func OpenFile(name string, flag int, perm gos.FileMode) (*File, error) {
	if flag&(gos.O_CREATE|gos.O_TRUNC|gos.O_WRONLY|gos.O_RDWR|gos.O_APPEND) != 0 {
		l := "openfile"
		if flag&gos.O_CREATE != 0 {
			l += "+create"
		}
		if flag&gos.O_TRUNC != 0 {
			l += "+trunc"
		}
		if flag&gos.O_EXCL != 0 {
			l += "+excl"
		}
		mutate(l, name)
	} else {
		observe("open", name)
	}
	f, err := gos.OpenFile(name, flag, perm)
	return wrap(f, err, name)
}

func Create(name string) (*File, error) {
	mutate("create", name)
	f, err := gos.Create(name)
	return wrap(f, err, name)
}

func CreateTemp(dir, pattern string) (*File, error) {
	d := dir
	if d == "" {
		d = gos.TempDir()
	}
	mutate("createtemp", filepath.Join(d, pattern))
	// deterministic names: the real CreateTemp picks random ones, which would leak into logs/fingerprints
	for i := 0; ; i++ {
		name := filepath.Join(d, strings.Replace(pattern, "*", "", 1)+fmt.Sprintf("zz%04d", i))
		if strings.Contains(pattern, "*") {
			name = filepath.Join(d, strings.Replace(pattern, "*", fmt.Sprintf("zz%04d", i), 1))
		}
		f, err := gos.OpenFile(name, gos.O_RDWR|gos.O_CREATE|gos.O_EXCL, 0o600)
		if errors.Is(err, fs.ErrExist) {
			continue
		}
		return wrap(f, err, name)
	}
}

func MkdirTemp(dir, pattern string) (string, error) {
	d := dir
	if d == "" {
		d = gos.TempDir()
	}
	mutate("mkdirtemp", filepath.Join(d, pattern))
	for i := 0; ; i++ {
		name := filepath.Join(d, strings.Replace(pattern, "*", "", 1)+fmt.Sprintf("zz%04d", i))
		err := gos.Mkdir(name, 0o700)
		if errors.Is(err, fs.ErrExist) {
			continue
		}
		return name, err
	}
}

func Stat(name string) (gos.FileInfo, error)  { observe("stat", name); return gos.Stat(name) }
func Lstat(name string) (gos.FileInfo, error) { observe("lstat", name); return gos.Lstat(name) }
func ReadFile(name string) ([]byte, error)    { observe("readfile", name); return gos.ReadFile(name) }
func ReadDir(name string) ([]gos.DirEntry, error) {
	observe("readdir", name)
	return gos.ReadDir(name)
}
func Readlink(name string) (string, error) { observe("readlink", name); return gos.Readlink(name) }
func DirFS(dir string) fs.FS               { observe("dirfs", dir); return gos.DirFS(dir) }

func MkdirAll(path string, perm gos.FileMode) error {
	// creating directories that exist is not a mutation
	if st, err := gos.Stat(path); err == nil && st.IsDir() {
		observe("mkdirall(exists)", path)
		return nil
	}
	mutate("mkdirall", path)
	return gos.MkdirAll(path, perm)
}
func Mkdir(path string, perm gos.FileMode) error { mutate("mkdir", path); return gos.Mkdir(path, perm) }
func Remove(name string) error                   { mutate("remove", name); return gos.Remove(name) }
func RemoveAll(name string) error                { mutate("removeall", name); return gos.RemoveAll(name) }
func Rename(o, n string) error {
	mutate("rename "+rel(o)+" ->", n)
	return gos.Rename(o, n)
}
func Symlink(o, n string) error { mutate("symlink", n); return gos.Symlink(o, n) }
func Link(o, n string) error    { mutate("link", n); return gos.Link(o, n) }
func Truncate(name string, size int64) error {
	mutate(fmt.Sprintf("truncate(%d)", size), name)
	return gos.Truncate(name, size)
}
func Chmod(name string, m gos.FileMode) error { observe("chmod", name); return gos.Chmod(name, m) }

// Chtimes: times never matter to the properties; keep it an observation so it is not a crash point.
func Chtimes(name string, a, m timeT) error { observe("chtimes", name); return gos.Chtimes(name, a, m) }

// WriteFile = create/truncate + one write + close, each its own crash point (as in the real implementation).
func WriteFile(name string, data []byte, perm gos.FileMode) error {
	f, err := OpenFile(name, gos.O_WRONLY|gos.O_CREATE|gos.O_TRUNC, perm)
	if err != nil {
		return err
	}
	_, err = f.Write(data)
	if err1 := f.Close(); err1 != nil && err == nil {
		err = err1
	}
	return err
}

// Walk / Glob are observations.
func Walk(root string, fn filepath.WalkFunc) error {
	observe("walk", root)
	return filepath.Walk(root, fn)
}
func WalkDir(root string, fn fs.WalkDirFunc) error {
	observe("walkdir", root)
	return filepath.WalkDir(root, fn)
}
func Glob(pattern string) ([]string, error) {
	observe("glob", pattern)
	return filepath.Glob(pattern)
}
