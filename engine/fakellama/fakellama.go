// Package llama (fakellama) stands in for github.com/ollama/ollama/llama (the
// cgo binding of llama.cpp) when runner/llamarunner is built for the
// verification harness: the instrumenter rewrites the import. It offers the
// names llamarunner uses, with the same signatures; a name that is missing here
// is a compile error of the harness build (fail closed).
//
// What is modelled: the unified KV cache of llama.cpp as vendored under
// llama/llama.cpp/src/llama-kv-cache.cpp - cells with one position and a set of
// sequence ids; seq_rm / seq_cp / seq_add / clear with the semantics of
// llama_kv_cache_unified (a cell shared by several sequences has ONE position:
// seq_add moves it for all of them; seq_cp shares cells, it does not copy them);
// decode places every batch entry in a free cell (llama_decode defragments and
// retries before it reports "no slot", so only the number of free cells
// matters) and shows each entry the cells of its sequences at positions <= its
// own. The transformer itself is a script: the next token is a function of
// exactly that visible history, so anything the runner does to the cache that
// changes what the model sees changes what it generates.
//
// The conformance of this model to the real llama.cpp cache is checked by
// harness/lconf (operation sequences replayed on a real llama.Context; the real
// library pads the cache to a multiple of 32 cells, so this model reports a full
// cache no later than the library does).
package llama

import (
	"errors"
	"fmt"
	"sort"
	"strings"
)

// ---- model -----------------------------------------------------------------------------------

type Model struct {
	Pieces []string // token id -> text; token 0 is end-of-generation
	AddBOS bool
}

func (m *Model) NumVocab() int             { return len(m.Pieces) }
func (m *Model) TokenIsEog(token int) bool { return token == 0 }
func (m *Model) AddBOSToken() bool         { return m.AddBOS }
func (m *Model) NEmbd() int                { return 2 }
func (m *Model) TokenToPiece(token int) string {
	if token < 0 || token >= len(m.Pieces) {
		return ""
	}
	return m.Pieces[token]
}

// Tokenize maps every character to the token whose piece it is.
func (m *Model) Tokenize(text string, addSpecial bool, parseSpecial bool) ([]int, error) {
	var out []int
	for _, c := range text {
		found := false
		for id, p := range m.Pieces {
			if id > 0 && p == string(c) {
				out = append(out, id)
				found = true
				break
			}
		}
		if !found {
			return nil, fmt.Errorf("no token for %q", c)
		}
	}
	return out, nil
}

func (m *Model) ApplyLoraFromFile(context *Context, loraPath string, scale float32, threads int) error {
	return errors.New("fakellama: no lora")
}

type ModelParams struct {
	NumGpuLayers int
	MainGpu      int
	UseMmap      bool
	UseMlock     bool
	TensorSplit  []float32
	Progress     func(float32)
	VocabOnly    bool
}

func BackendInit() {}
func GetModelArch(modelPath string) (string, error) {
	return "", errors.New("fakellama: no model files")
}
func LoadModelFromFile(modelPath string, params ModelParams) (*Model, error) {
	return nil, errors.New("fakellama: no model files")
}
func FreeModel(model *Model) {}

// ---- batch ------------------------------------------------------------------------------------

type BatchEntry struct {
	Token  int
	Embed  []float32
	Pos    int
	Logits bool
	Seqs   []int
}

type Batch struct {
	batchSize int
	maxSeq    int
	embedSize int
	Entries   []BatchEntry
}

func NewBatch(batchSize int, maxSeq int, embedSize int) (*Batch, error) {
	return &Batch{batchSize: batchSize, maxSeq: maxSeq, embedSize: embedSize}, nil
}
func (b *Batch) Size() int         { return b.batchSize }
func (b *Batch) NumTokens() int    { return len(b.Entries) }
func (b *Batch) IsEmbedding() bool { return b.embedSize != 0 }
func (b *Batch) Clear()            { b.Entries = b.Entries[:0] }
func (b *Batch) Free()             { b.Entries = nil }

// Add mirrors llama.Batch.Add. The real one writes into arrays of
// batchSize*maxSeq entries: an entry beyond that is memory corruption there and
// a panic here.
func (b *Batch) Add(token int, embed []float32, pos int, logits bool, seqIds ...int) {
	if len(b.Entries) >= b.batchSize*max(b.maxSeq, 1) {
		panic(fmt.Sprintf("fakellama: Batch.Add beyond the allocated %d entries", b.batchSize*max(b.maxSeq, 1)))
	}
	b.Entries = append(b.Entries, BatchEntry{Token: token, Embed: embed, Pos: pos, Logits: logits, Seqs: append([]int{}, seqIds...)})
}

// ---- context / KV cache -------------------------------------------------------------------------

type Cell struct {
	Pos   int // -1: empty
	Seqs  []int
	Token int
}

func (c *Cell) has(seq int) bool {
	for _, s := range c.Seqs {
		if s == seq {
			return true
		}
	}
	return false
}

func (c *Cell) erase(seq int) {
	out := c.Seqs[:0]
	for _, s := range c.Seqs {
		if s != seq {
			out = append(out, s)
		}
	}
	c.Seqs = out
}

// Ent is one entry of the history shown to the model.
type Ent struct {
	Token int
	Pos   int
}

type ContextParams struct {
	NumCtx    int
	BatchSize int
	NumSeqMax int
}

func NewContextParams(numCtx int, batchSize int, numSeqMax int, threads int, flashAttention bool, kvCacheType string) ContextParams {
	return ContextParams{NumCtx: numCtx, BatchSize: batchSize, NumSeqMax: numSeqMax}
}

type Context struct {
	model *Model
	Cells []Cell
	// CanShift: llama_kv_self_can_shift (false for e.g. deepseek2 and recurrent models)
	CanShift bool
	// NoPartialRm: seq_rm refuses a range that cuts into a sequence (recurrent models)
	NoPartialRm bool

	// Next decides the token generated after the entry (seq, pos) that sees vis.
	Next func(seq, pos int, vis []Ent) int
	// OnEntry is told, for every batch entry, what the model is shown for it.
	OnEntry func(seq, pos int, vis []Ent)

	out map[int]int // batch index -> generated token, for entries with logits
}

var ErrKvCacheFull = errors.New("could not find a kv cache slot")

func NewContextWithModel(model *Model, params ContextParams) (*Context, error) {
	c := &Context{model: model, CanShift: true, Cells: make([]Cell, params.NumCtx)}
	for i := range c.Cells {
		c.Cells[i].Pos = -1
	}
	return c, nil
}

func (c *Context) Model() *Model { return c.model }

func (c *Context) free() int {
	n := 0
	for i := range c.Cells {
		if c.Cells[i].Pos < 0 {
			n++
		}
	}
	return n
}

// Visible: the cells a token of sequence seq at position pos attends to
// (llama_kv_cache_unified: has_seq_id(seq) && cell.pos <= pos), ordered by position.
func (c *Context) Visible(seq, pos int) []Ent {
	var vis []Ent
	for i := range c.Cells {
		cell := &c.Cells[i]
		if cell.Pos >= 0 && cell.Pos <= pos && cell.has(seq) {
			vis = append(vis, Ent{cell.Token, cell.Pos})
		}
	}
	sort.SliceStable(vis, func(a, b int) bool {
		if vis[a].Pos != vis[b].Pos {
			return vis[a].Pos < vis[b].Pos
		}
		return vis[a].Token < vis[b].Token
	})
	return vis
}

func (c *Context) Decode(batch *Batch) error {
	if len(batch.Entries) > c.free() {
		return ErrKvCacheFull
	}
	if batch.IsEmbedding() {
		return errors.New("fakellama: embedding batches are not modelled")
	}
	c.out = map[int]int{}
	j := 0
	for _, e := range batch.Entries {
		for c.Cells[j].Pos >= 0 {
			j++
		}
		c.Cells[j] = Cell{Pos: e.Pos, Seqs: append([]int{}, e.Seqs...), Token: e.Token}
	}
	for i, e := range batch.Entries {
		for _, s := range e.Seqs {
			vis := c.Visible(s, e.Pos)
			if c.OnEntry != nil {
				c.OnEntry(s, e.Pos, vis)
			}
			if e.Logits && c.Next != nil {
				c.out[i] = c.Next(s, e.Pos, vis)
			}
		}
	}
	return nil
}

func norm(p0, p1 int) (int, int) {
	if p0 < 0 {
		p0 = 0
	}
	if p1 < 0 {
		p1 = int(^uint(0) >> 1)
	}
	return p0, p1
}

func (c *Context) KvCacheSeqRm(seqId int, p0 int, p1 int) bool {
	p0, p1 = norm(p0, p1)
	if c.NoPartialRm && seqId >= 0 {
		last := -1
		for i := range c.Cells {
			if c.Cells[i].Pos > last && c.Cells[i].has(seqId) {
				last = c.Cells[i].Pos
			}
		}
		if last >= 0 && ((0 < p0 && p0 <= last) || (0 < p1 && p1 <= last)) {
			return false
		}
	}
	for i := range c.Cells {
		cell := &c.Cells[i]
		if cell.Pos >= p0 && cell.Pos < p1 {
			if seqId < 0 {
				cell.Seqs = nil
			} else if cell.has(seqId) {
				cell.erase(seqId)
			} else {
				continue
			}
			if len(cell.Seqs) == 0 {
				cell.Pos = -1
			}
		}
	}
	return true
}

func (c *Context) KvCacheSeqCp(srcSeqId int, dstSeqId int, p0 int, p1 int) {
	if srcSeqId == dstSeqId {
		return
	}
	p0, p1 = norm(p0, p1)
	for i := range c.Cells {
		cell := &c.Cells[i]
		if cell.Pos >= p0 && cell.Pos < p1 && cell.has(srcSeqId) && !cell.has(dstSeqId) {
			cell.Seqs = append(cell.Seqs, dstSeqId)
		}
	}
}

func (c *Context) KvCacheSeqAdd(seqId int, p0 int, p1 int, delta int) {
	if delta == 0 {
		return
	}
	p0, p1 = norm(p0, p1)
	if p0 == p1 {
		return
	}
	for i := range c.Cells {
		cell := &c.Cells[i]
		if cell.Pos >= p0 && cell.Pos < p1 && cell.has(seqId) {
			cell.Pos += delta
			if cell.Pos < 0 {
				cell.Pos = -1
				cell.Seqs = nil
			}
		}
	}
}

func (c *Context) KvCacheClear() {
	for i := range c.Cells {
		c.Cells[i] = Cell{Pos: -1}
	}
}
func (c *Context) KvCacheDefrag()                       {}
func (c *Context) KvCacheCanShift() bool                { return c.CanShift }
func (c *Context) SetCrossAttention(state bool)         {}
func (c *Context) Synchronize()                         {}
func (c *Context) GetEmbeddingsSeq(seqId int) []float32 { return []float32{float32(seqId), 1} }
func (c *Context) GetEmbeddingsIth(i int) []float32     { return []float32{float32(i), 2} }

// Dump: canonical description of the cache content (sorted, cell indices dropped).
func (c *Context) Dump() string {
	var l []string
	for i := range c.Cells {
		cell := &c.Cells[i]
		if cell.Pos >= 0 {
			s := append([]int{}, cell.Seqs...)
			sort.Ints(s)
			l = append(l, fmt.Sprintf("p%d%v", cell.Pos, s))
		}
	}
	sort.Strings(l)
	return strings.Join(l, " ")
}

// ---- sampling ---------------------------------------------------------------------------------------

type SamplingParams struct {
	TopK           int
	TopP           float32
	MinP           float32
	TypicalP       float32
	Temp           float32
	RepeatLastN    int
	PenaltyRepeat  float32
	PenaltyFreq    float32
	PenaltyPresent float32
	Mirostat       int
	MirostatTau    float32
	MirostatEta    float32
	PenalizeNl     bool
	Seed           uint32
	Grammar        string
}

type SamplingContext struct{}

func NewSamplingContext(model *Model, params SamplingParams) (*SamplingContext, error) {
	return &SamplingContext{}, nil
}
func (s *SamplingContext) Reset()                           {}
func (s *SamplingContext) Accept(id int, applyGrammar bool) {}

// Sample returns the token the scripted model produced for batch index idx.
func (s *SamplingContext) Sample(llamaContext *Context, idx int) int {
	t, ok := llamaContext.out[idx]
	if !ok {
		panic(fmt.Sprintf("fakellama: sampling from batch index %d, which did not ask for logits in the last decode", idx))
	}
	return t
}

// ---- vision (not modelled: the harness runs text-only models) ------------------------------------------

type ClipContext struct{}

func NewClipContext(llamaContext *Context, modelPath string) (*ClipContext, error) {
	return nil, errors.New("fakellama: no vision")
}
func (c *ClipContext) Free() {}
func (c *ClipContext) NewEmbed(llamaContext *Context, data []byte) ([][]float32, error) {
	return nil, errors.New("fakellama: no vision")
}

type MllamaContext struct{}

func NewMllamaContext(llamaContext *Context, modelPath string) (*MllamaContext, error) {
	return nil, errors.New("fakellama: no vision")
}
func (m *MllamaContext) Free() {}
func (m *MllamaContext) NewEmbed(llamaContext *Context, data []byte, aspectRatioId int) ([][]float32, error) {
	return nil, errors.New("fakellama: no vision")
}
func (m *MllamaContext) EmbedSize(llamaContext *Context) int { return 0 }
