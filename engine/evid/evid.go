// Package evid is the reporting side of every harness: counters, distinct-case
// sets, samples, violations (with known-finding matching and replay files) and
// the evidence file. It also provides the worker fan-out used by harnesses
// whose executions must run in separate processes.
//
// It is mounted into the ollama module by overlay as
// github.com/ollama/ollama/zzverif/evid and uses the standard library only.
package evid

import (
	"bufio"
	"crypto/sha256"
	"encoding/binary"
	"encoding/hex"
	"encoding/json"
	"fmt"
	"hash/fnv"
	"io"
	"log"
	"log/slog"
	"os"
	"os/exec"
	"path/filepath"
	"runtime"
	"sort"
	"strconv"
	"strings"
	"sync"
	"time"
)

// Violation is one oracle failure. Sig identifies the failing input / call
// site / history class and is what known_findings.json is matched against.
type Violation struct {
	Sig    string `json:"signature"`
	Msg    string `json:"message"`
	Replay any    `json:"replay,omitempty"`
	Count  int64  `json:"count"`
}

type Run struct {
	ID    string
	Level string
	Tier  string
	Seed  int64

	mu          sync.Mutex
	start       time.Time
	counters    map[string]int64
	sets        map[string]map[uint64]struct{}
	samples     []any
	sampleEvery int64
	nSampleSeen int64
	viol        map[string]*Violation
	violOrder   []string
	rule        string
	assumptions []string
	extra       map[string]any
	exhaustive  bool
	capNotes    []string
	deadline    time.Time
	worker      bool
}

func Tier() string {
	t := os.Getenv("VERIF_TIER")
	if t != "thorough" {
		t = "quick"
	}
	return t
}

func Thorough() bool { return Tier() == "thorough" }

func Dir() string {
	d := os.Getenv("VERIF_DIR")
	if d == "" {
		d = "/verif"
	}
	return d
}

func IsWorker() bool { return os.Getenv("VERIF_WORKER") != "" }

// ReplayPath returns the replay file given on the command line (--replay p), or "".
func ReplayPath() string {
	for i, a := range os.Args {
		if a == "--replay" && i+1 < len(os.Args) {
			return os.Args[i+1]
		}
	}
	return ""
}

func Start(id, level string) *Run {
	seed, _ := strconv.ParseInt(os.Getenv("VERIF_SEED"), 10, 64)
	if os.Getenv("VERIF_VERBOSE") == "" {
		// the code under test logs through slog/log; keep stdout/stderr for the harness
		slog.SetDefault(slog.New(slog.NewTextHandler(io.Discard, &slog.HandlerOptions{Level: slog.Level(100)})))
		log.SetOutput(io.Discard)
	}
	r := &Run{ID: id, Level: level, Tier: Tier(), Seed: seed, start: time.Now(),
		counters: map[string]int64{}, sets: map[string]map[uint64]struct{}{},
		viol: map[string]*Violation{}, extra: map[string]any{}, exhaustive: true,
		worker: IsWorker()}
	return r
}

// Sub returns an empty Run with the same identity, for a goroutine or a work
// item; merge it back with Merge.
func (r *Run) Sub() *Run {
	s := Start(r.ID, r.Level)
	s.deadline = r.deadline
	return s
}

func (r *Run) Rule(s string)               { r.rule = s }
func (r *Run) Assume(s ...string)          { r.assumptions = append(r.assumptions, s...) }
func (r *Run) Extra(k string, v any)       { r.mu.Lock(); r.extra[k] = v; r.mu.Unlock() }
func (r *Run) SetDeadline(d time.Duration) { r.deadline = r.start.Add(d) }

// Expired reports whether the internal wall-clock budget is used up. A harness
// that stops because of it must call NotExhaustive with what was completed.
func (r *Run) Expired() bool { return !r.deadline.IsZero() && time.Now().After(r.deadline) }

func (r *Run) NotExhaustive(note string) {
	r.mu.Lock()
	r.exhaustive = false
	r.capNotes = append(r.capNotes, note)
	r.mu.Unlock()
}

func (r *Run) Add(counter string, n int64) {
	r.mu.Lock()
	r.counters[counter] += n
	r.mu.Unlock()
}

func (r *Run) Eval() { r.Add("evaluations", 1) }

func (r *Run) Count(counter string) int64 {
	r.mu.Lock()
	defer r.mu.Unlock()
	return r.counters[counter]
}

func Hash(s string) uint64 {
	h := fnv.New64a()
	h.Write([]byte(s))
	return h.Sum64()
}

// Distinct adds key to the named set and reports whether it was new.
// Sets used by the evidence: "nontrivial", "state", "outcome".
func (r *Run) Distinct(set, key string) bool { return r.DistinctH(set, Hash(key)) }

func (r *Run) DistinctH(set string, h uint64) bool {
	r.mu.Lock()
	defer r.mu.Unlock()
	m := r.sets[set]
	if m == nil {
		m = map[uint64]struct{}{}
		r.sets[set] = m
	}
	if _, ok := m[h]; ok {
		return false
	}
	if len(m) >= maxSetSize {
		// the set is full: further members are not stored, the reported size is a lower bound
		r.counters["set_overflow_"+set]++
		return true
	}
	m[h] = struct{}{}
	return true
}

// maxSetSize bounds every distinct-set (memory of the coordinating process).
const maxSetSize = 30000000

// AddDistinct adds n members to the named set that the caller has already deduplicated in a key space
// disjoint from every other contribution (e.g. the states of one configuration), without storing them.
func (r *Run) AddDistinct(set string, n int) { r.Add("+distinct_"+set, int64(n)) }

func (r *Run) SetSize(set string) int {
	r.mu.Lock()
	defer r.mu.Unlock()
	return len(r.sets[set])
}

// Sample keeps the first 3 cases and then every 10^k-th one (at most ~12).
func (r *Run) Sample(v any) {
	r.mu.Lock()
	defer r.mu.Unlock()
	r.nSampleSeen++
	n := r.nSampleSeen
	keep := n <= 3
	if !keep {
		p := int64(10)
		for p < n {
			p *= 10
		}
		keep = p == n
	}
	if keep && len(r.samples) < 16 {
		r.samples = append(r.samples, v)
	}
}

// WantSample tells whether the next Sample call would keep its argument
// (lets callers avoid building expensive sample values).
func (r *Run) WantSample() bool {
	r.mu.Lock()
	defer r.mu.Unlock()
	n := r.nSampleSeen + 1
	if n <= 3 {
		return true
	}
	p := int64(10)
	for p < n {
		p *= 10
	}
	return p == n && len(r.samples) < 16
}

func (r *Run) Violation(sig, msg string, replay any) {
	r.mu.Lock()
	defer r.mu.Unlock()
	v := r.viol[sig]
	if v == nil {
		v = &Violation{Sig: sig, Msg: msg, Replay: replay}
		r.viol[sig] = v
		r.violOrder = append(r.violOrder, sig)
	}
	v.Count++
}

func (r *Run) NumViolations() int {
	r.mu.Lock()
	defer r.mu.Unlock()
	return len(r.viol)
}

// ---- merging -------------------------------------------------------------

type wire struct {
	Item       string              `json:"item,omitempty"`
	Counters   map[string]int64    `json:"c,omitempty"`
	Sets       map[string][]uint64 `json:"s,omitempty"`
	Samples    []any               `json:"smp,omitempty"`
	Viol       []*Violation        `json:"v,omitempty"`
	Extra      map[string]any      `json:"x,omitempty"`
	Exhaustive bool                `json:"ex"`
	CapNotes   []string            `json:"cap,omitempty"`
	Done       bool                `json:"done,omitempty"`
}

func (r *Run) toWire(item string) *wire {
	r.mu.Lock()
	defer r.mu.Unlock()
	w := &wire{Item: item, Counters: r.counters, Sets: map[string][]uint64{}, Samples: r.samples,
		Extra: r.extra, Exhaustive: r.exhaustive, CapNotes: r.capNotes}
	for k, m := range r.sets {
		l := make([]uint64, 0, len(m))
		for h := range m {
			l = append(l, h)
		}
		w.Sets[k] = l
	}
	for _, s := range r.violOrder {
		w.Viol = append(w.Viol, r.viol[s])
	}
	return w
}

func (r *Run) mergeWire(w *wire) {
	r.mu.Lock()
	defer r.mu.Unlock()
	for k, v := range w.Counters {
		r.counters[k] += v
	}
	for k, l := range w.Sets {
		m := r.sets[k]
		if m == nil {
			m = map[uint64]struct{}{}
			r.sets[k] = m
		}
		for _, h := range l {
			if len(m) >= maxSetSize {
				if _, ok := m[h]; !ok {
					r.counters["set_overflow_"+k]++
				}
				continue
			}
			m[h] = struct{}{}
		}
	}
	for _, s := range w.Samples {
		if len(r.samples) < 16 {
			r.samples = append(r.samples, s)
		}
	}
	for _, v := range w.Viol {
		if old := r.viol[v.Sig]; old != nil {
			old.Count += v.Count
		} else {
			r.viol[v.Sig] = v
			r.violOrder = append(r.violOrder, v.Sig)
		}
	}
	for k, v := range w.Extra {
		if _, ok := r.extra[k]; !ok {
			r.extra[k] = v
		}
	}
	if !w.Exhaustive {
		r.exhaustive = false
	}
	r.capNotes = append(r.capNotes, w.CapNotes...)
}

func (r *Run) Merge(s *Run) { r.mergeWire(s.toWire("")) }

// ---- in-process fan-out ----------------------------------------------------

// Parallel runs work(item, sub) for every item on n goroutines (n<=0: NumCPU)
// and merges the sub-runs. Only for code under test without shared mutable state.
func (r *Run) Parallel(n int, items []string, work func(item string, sub *Run)) {
	if n <= 0 {
		n = runtime.NumCPU()
	}
	ch := make(chan string)
	var wg sync.WaitGroup
	for i := 0; i < n; i++ {
		wg.Add(1)
		go func() {
			defer wg.Done()
			for it := range ch {
				sub := r.Sub()
				work(it, sub)
				r.Merge(sub)
			}
		}()
	}
	for _, it := range items {
		ch <- it
	}
	close(ch)
	wg.Wait()
}

// ---- subprocess fan-out ------------------------------------------------------

type FanoutOpts struct {
	Workers int
	// ItemTimeout kills a worker stuck on one item (0 = none).
	ItemTimeout time.Duration
	// OnCrash is called when a worker dies or times out while processing item.
	// If it returns a non-empty signature the event is recorded as a violation
	// with that signature, otherwise as a machinery error (exit 2).
	OnCrash func(item string, stderrTail string, timedOut bool) (sig, msg string)
	// Env entries added to the worker environment.
	Env []string
	// MemLimitMB sets RLIMIT_AS for workers through `ulimit -v` (0 = none).
	MemLimitMB int
}

// Fanout distributes items over worker subprocesses (the same binary with
// VERIF_WORKER=1). In a worker it reads items from stdin and calls work for
// each; in the coordinator it spawns workers and merges their results.
// It returns in the coordinator only; workers exit inside.
func (r *Run) Fanout(items []string, opts FanoutOpts, work func(item string, sub *Run)) {
	if IsWorker() {
		out := bufio.NewWriterSize(os.Stdout, 1<<20)
		enc := json.NewEncoder(out)
		sc := bufio.NewScanner(os.Stdin)
		sc.Buffer(make([]byte, 1<<20), 1<<26)
		for sc.Scan() {
			it := sc.Text()
			sub := r.Sub()
			work(it, sub)
			w := sub.toWire(it)
			w.Done = true
			enc.Encode(w)
			out.Flush()
		}
		os.Exit(0)
	}
	if f := os.Getenv("VERIF_DUMP_ITEMS"); f != "" {
		os.WriteFile(f, []byte(strings.Join(items, "\n")+"\n"), 0o644)
		os.Exit(0)
	}
	if opts.ItemTimeout == 0 {
		// a worker that never answers is a machinery error, not a reason to hang the check
		opts.ItemTimeout = 10 * time.Minute
		if Thorough() {
			// thorough budgets are up to 18 minutes per check and one item may use all of it
			opts.ItemTimeout = 30 * time.Minute
		}
	}
	n := opts.Workers
	if n <= 0 {
		n = runtime.NumCPU()
	}
	if n > len(items) {
		n = len(items)
	}
	var next int
	var nmu sync.Mutex
	take := func() (string, bool) {
		nmu.Lock()
		defer nmu.Unlock()
		if next >= len(items) {
			return "", false
		}
		it := items[next]
		next++
		return it, true
	}
	var wg sync.WaitGroup
	for i := 0; i < n; i++ {
		wg.Add(1)
		go func(wi int) {
			defer wg.Done()
			var p *workerProc
			defer func() {
				if p != nil {
					p.stop()
				}
			}()
			for {
				it, ok := take()
				if !ok {
					return
				}
				if p == nil {
					var err error
					p, err = startWorker(opts, wi)
					if err != nil {
						r.machinery("cannot start worker: " + err.Error())
						return
					}
				}
				w, err, timedOut := p.do(it, opts.ItemTimeout)
				if err != nil {
					tail := p.stderrTail()
					p.stop()
					p = nil
					sig, msg := "", ""
					if opts.OnCrash != nil {
						sig, msg = opts.OnCrash(it, tail, timedOut)
					}
					if sig != "" {
						r.Eval()
						r.Violation(sig, msg, map[string]any{"item": it, "stderr": tail})
					} else {
						r.machinery(fmt.Sprintf("worker failed on item %q: %v\n%s", it, err, tail))
					}
					continue
				}
				r.mergeWire(w)
			}
		}(i)
	}
	wg.Wait()
}

func (r *Run) machinery(msg string) {
	r.mu.Lock()
	defer r.mu.Unlock()
	l, _ := r.extra["machinery_errors"].([]string)
	if len(l) < 20 {
		l = append(l, msg)
	}
	r.extra["machinery_errors"] = l
	r.exhaustive = false
}

type workerProc struct {
	cmd    *exec.Cmd
	in     *bufio.Writer
	inC    interface{ Close() error }
	out    *bufio.Reader
	errBuf *tailBuf
}

type tailBuf struct {
	mu sync.Mutex
	b  []byte
}

func (t *tailBuf) Write(p []byte) (int, error) {
	t.mu.Lock()
	t.b = append(t.b, p...)
	if len(t.b) > 16384 {
		t.b = t.b[len(t.b)-16384:]
	}
	t.mu.Unlock()
	return len(p), nil
}

func startWorker(opts FanoutOpts, wi int) (*workerProc, error) {
	self, err := os.Executable()
	if err != nil {
		return nil, err
	}
	var cmd *exec.Cmd
	if opts.MemLimitMB > 0 {
		sh := fmt.Sprintf("ulimit -v %d; exec \"$0\" \"$@\"", opts.MemLimitMB*1024)
		args := append([]string{"-c", sh, self}, os.Args[1:]...)
		cmd = exec.Command("/bin/bash", args...)
	} else {
		cmd = exec.Command(self, os.Args[1:]...)
	}
	cmd.Env = append(os.Environ(), "VERIF_WORKER=1", "VERIF_WORKER_INDEX="+strconv.Itoa(wi))
	cmd.Env = append(cmd.Env, opts.Env...)
	stdin, err := cmd.StdinPipe()
	if err != nil {
		return nil, err
	}
	stdout, err := cmd.StdoutPipe()
	if err != nil {
		return nil, err
	}
	tb := &tailBuf{}
	cmd.Stderr = tb
	if err := cmd.Start(); err != nil {
		return nil, err
	}
	return &workerProc{cmd: cmd, in: bufio.NewWriter(stdin), inC: stdin, out: bufio.NewReaderSize(stdout, 1<<20), errBuf: tb}, nil
}

func (p *workerProc) do(item string, timeout time.Duration) (*wire, error, bool) {
	if _, err := p.in.WriteString(item + "\n"); err != nil {
		return nil, err, false
	}
	if err := p.in.Flush(); err != nil {
		return nil, err, false
	}
	type res struct {
		w   *wire
		err error
	}
	ch := make(chan res, 1)
	go func() {
		for {
			line, err := p.out.ReadBytes('\n')
			if err != nil {
				ch <- res{nil, fmt.Errorf("worker exited: %v", err)}
				return
			}
			if len(line) == 0 || line[0] != '{' {
				continue // stray prints from code under test
			}
			var w wire
			if err := json.Unmarshal(line, &w); err != nil || !w.Done {
				continue
			}
			ch <- res{&w, nil}
			return
		}
	}()
	if timeout <= 0 {
		x := <-ch
		return x.w, x.err, false
	}
	select {
	case x := <-ch:
		return x.w, x.err, false
	case <-time.After(timeout):
		p.cmd.Process.Kill()
		<-ch
		return nil, fmt.Errorf("timeout after %v", timeout), true
	}
}

func (p *workerProc) stderrTail() string {
	p.errBuf.mu.Lock()
	defer p.errBuf.mu.Unlock()
	return string(p.errBuf.b)
}

func (p *workerProc) stop() {
	p.inC.Close()
	done := make(chan struct{})
	go func() { p.cmd.Wait(); close(done) }()
	select {
	case <-done:
	case <-time.After(5 * time.Second):
		p.cmd.Process.Kill()
		<-done
	}
}

// ---- known findings ----------------------------------------------------------

type Finding struct {
	Property  string `json:"property"`
	Status    string `json:"status"` // "known" or "fixed"
	Signature string `json:"signature"`
	What      string `json:"what"`
	Commit    string `json:"commit,omitempty"`
}

func loadFindings() []Finding {
	b, err := os.ReadFile(filepath.Join(Dir(), "known_findings.json"))
	if err != nil {
		return nil
	}
	var f struct {
		Findings []Finding `json:"findings"`
	}
	json.Unmarshal(b, &f)
	return f.Findings
}

// ---- finish --------------------------------------------------------------------

// Finish writes the evidence file, prints VIOLATION / KNOWN-FINDING lines and
// exits: 0 held, 1 violation, 2 machinery error.
func (r *Run) Finish() {
	if r.worker {
		os.Exit(0)
	}
	r.mu.Lock()
	defer r.mu.Unlock()
	known := map[string]Finding{}
	for _, f := range loadFindings() {
		if f.Property == r.ID && f.Status == "known" {
			known[f.Signature] = f
		}
	}
	var newViol, knownHit []*Violation
	for _, s := range r.violOrder {
		if _, ok := known[s]; ok {
			knownHit = append(knownHit, r.viol[s])
		} else {
			newViol = append(newViol, r.viol[s])
		}
	}
	sort.SliceStable(newViol, func(i, j int) bool { return false })

	cov := map[string]any{}
	for k, v := range r.extra {
		cov[k] = v
	}
	for k, v := range r.counters {
		cov[k] = v
	}
	sizes := map[string]int{}
	for k, m := range r.sets {
		sizes[k] = len(m)
	}
	for k, v := range r.counters {
		// AddDistinct: members counted by the harness itself (key spaces known to be disjoint)
		if set, ok := strings.CutPrefix(k, "+distinct_"); ok {
			sizes[set] += int(v)
			delete(cov, k)
		}
	}
	for k, n := range sizes {
		cov["distinct_"+k] = n
	}
	if _, ok := cov["evaluations"]; !ok {
		cov["evaluations"] = int64(0)
	}
	if _, ok := cov["distinct_nontrivial"]; !ok {
		cov["distinct_nontrivial"] = 0
	}
	if n, ok := sizes["state"]; ok {
		cov["states"] = n
	}
	cov["rule"] = r.rule
	smp := r.samples
	if smp == nil {
		smp = []any{}
	}
	cov["samples"] = smp
	cov["exhaustive"] = r.exhaustive
	if len(r.capNotes) > 0 {
		notes := r.capNotes
		if len(notes) > 20 {
			notes = notes[:20]
		}
		cov["caps_hit"] = notes
	}
	kh := []string{}
	for _, v := range knownHit {
		kh = append(kh, v.Sig)
	}
	cov["known_findings_hit"] = kh
	vs := []map[string]any{}
	for _, v := range newViol {
		vs = append(vs, map[string]any{"signature": v.Sig, "message": v.Msg, "count": v.Count})
	}
	if len(vs) > 0 {
		if len(vs) > 50 {
			vs = vs[:50]
		}
		cov["violation_signatures"] = vs
	}
	ev := map[string]any{
		"property_id": r.ID,
		"tier":        r.Tier,
		"seed":        r.Seed,
		"level":       r.Level,
		"coverage":    cov,
		"assumptions": append([]string{}, r.assumptions...),
		"wall_s":      float64(int(time.Since(r.start).Seconds()*100)) / 100,
		"violations":  len(newViol),
	}
	evDir := filepath.Join(Dir(), "evidence")
	evName := r.ID + ".json"
	part := os.Getenv("VERIF_PART")
	if part != "" {
		// one of several harness runs of this check: vx merges the parts into evidence/<id>.json
		evDir = filepath.Join(evDir, ".parts")
		evName = r.ID + "." + part + ".json"
	}
	os.MkdirAll(evDir, 0o755)
	b, _ := json.MarshalIndent(ev, "", " ")
	if err := os.WriteFile(filepath.Join(evDir, evName), append(b, '\n'), 0o644); err != nil {
		fmt.Fprintln(os.Stderr, "cannot write evidence:", err)
		os.Exit(2)
	}

	for _, v := range knownHit {
		fmt.Printf("KNOWN-FINDING: property=%s %s (%d cases; %s)\n", r.ID, known[v.Sig].What, v.Count, v.Sig)
	}
	repDir := filepath.Join(Dir(), "replays", r.ID)
	for i, v := range newViol {
		if i >= 25 {
			fmt.Printf("... %d more violation signatures (see evidence)\n", len(newViol)-i)
			break
		}
		os.MkdirAll(repDir, 0o755)
		sum := sha256.Sum256([]byte(v.Sig))
		p := filepath.Join(repDir, hex.EncodeToString(sum[:6])+".json")
		rb, _ := json.MarshalIndent(map[string]any{"property": r.ID, "signature": v.Sig, "message": v.Msg,
			"replay": v.Replay, "tier": r.Tier, "part": part}, "", " ")
		os.WriteFile(p, append(rb, '\n'), 0o644)
		fmt.Printf("VIOLATION property=%s replay=%s\n", r.ID, p)
		fmt.Printf("  signature: %s\n  %s\n", v.Sig, strings.ReplaceAll(v.Msg, "\n", "\n  "))
	}
	fmt.Printf("[%s %s] evaluations=%v distinct_nontrivial=%v states=%v exhaustive=%v violations=%d known=%d wall=%.1fs\n",
		r.ID, r.Tier, cov["evaluations"], cov["distinct_nontrivial"], cov["states"], r.exhaustive, len(newViol), len(knownHit),
		time.Since(r.start).Seconds())
	if me, ok := r.extra["machinery_errors"]; ok {
		fmt.Fprintf(os.Stderr, "MACHINERY-ERROR: %v\n", me)
		if len(newViol) == 0 {
			os.Exit(2)
		}
	}
	if len(newViol) > 0 {
		os.Exit(1)
	}
	os.Exit(0)
}

// LoadReplay reads the "replay" member of a replay file into v.
func LoadReplay(path string, v any) error {
	b, err := os.ReadFile(path)
	if err != nil {
		return err
	}
	var f struct {
		Replay json.RawMessage `json:"replay"`
	}
	if err := json.Unmarshal(b, &f); err != nil {
		return err
	}
	return json.Unmarshal(f.Replay, v)
}

// U64 is a tiny helper for building hash keys from integers.
func U64(vs ...uint64) string {
	b := make([]byte, 8*len(vs))
	for i, v := range vs {
		binary.LittleEndian.PutUint64(b[i*8:], v)
	}
	return string(b)
}

// ExtraString returns a string stored with Extra (workers can hand small results to the coordinator this way).
func (r *Run) ExtraString(k string) (string, bool) {
	r.mu.Lock()
	defer r.mu.Unlock()
	v, ok := r.extra[k].(string)
	return v, ok
}

// DropExtraPrefix removes all extras whose key starts with prefix (so that they do not end up in the evidence).
func (r *Run) DropExtraPrefix(prefix string) {
	r.mu.Lock()
	defer r.mu.Unlock()
	for k := range r.extra {
		if strings.HasPrefix(k, prefix) {
			delete(r.extra, k)
		}
	}
}
