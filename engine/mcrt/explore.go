package mcrt

import (
	"fmt"
	"strconv"
	"strings"
	"time"
)

// Bounds is the maximum number of deviations per cost class in one execution
// (Free is ignored; a negative value means unbounded).
type Bounds [NClass]int

func (b Bounds) String() string {
	var s []string
	for c := Class(1); c < NClass; c++ {
		if b[c] != 0 {
			s = append(s, fmt.Sprintf("%s<=%d", c, b[c]))
		}
	}
	return strings.Join(s, " ")
}

type costVec [NClass]int8

func (c costVec) leq(o costVec) bool {
	for i := range c {
		if c[i] > o[i] {
			return false
		}
	}
	return true
}

type pointRec struct {
	classes []Class
	before  costVec
	kind    string
	labels  []string
}

// Explorer is a stateless depth-first explorer of the choice tree with
// per-class deviation bounds and happens-before caching.
type Explorer struct {
	Bounds   Bounds
	Cfg      Config
	NoCache  bool
	Deadline time.Time
	// Body is one execution of the scenario (runs as thread "main").
	Body func()
	// OnExec is called after every execution (complete or pruned).
	OnExec func(choices []int, r *Result)

	Execs       int64
	PrunedExecs int64
	Transitions int64
	HorizonHits int64
	States      map[Key]struct{}
	// MaxStates bounds the States set and the cache (entries each; default 3 million). Beyond it new
	// states are neither recorded (the count becomes a lower bound, StatesCapped) nor cached (less
	// pruning, same verdicts).
	MaxStates    int
	StatesCapped bool
	Stopped      bool // deadline hit
	MaxDepth     int
	cache        map[Key][]costVec
	TotalCap     int // if >0, total deviations over all classes is capped too
}

type oneRun struct {
	x        *Explorer
	prefix   []int
	choices  []int
	points   []pointRec
	cost     costVec
	labels   bool
	diverged string
}

func (r *oneRun) Pick(kind string, opts []Option) int {
	i := len(r.choices)
	c := 0
	if i < len(r.prefix) {
		c = r.prefix[i]
		if c >= len(opts) {
			// replay divergence: must fail loudly
			r.diverged = fmt.Sprintf("choice %d of the prefix is %d but only %d options (%s) are offered", i, c, len(opts), kind)
			panic("mcrt: replay divergence: " + r.diverged)
		}
	}
	p := pointRec{before: r.cost, kind: kind}
	p.classes = make([]Class, len(opts))
	for j, o := range opts {
		p.classes[j] = o.Class
	}
	if r.labels {
		p.labels = make([]string, len(opts))
		for j, o := range opts {
			p.labels[j] = o.Label
		}
	}
	r.points = append(r.points, p)
	r.choices = append(r.choices, c)
	if c > 0 && opts[c].Class != Free {
		r.cost[opts[c].Class]++
	}
	return c
}

func (r *oneRun) Visit(k Key) bool {
	x := r.x
	x.Transitions++
	max := x.MaxStates
	if max == 0 {
		max = 3000000
	}
	if x.States != nil {
		if len(x.States) < max {
			x.States[k] = struct{}{}
		} else if _, ok := x.States[k]; !ok {
			x.StatesCapped = true
		}
	}
	if x.NoCache || len(r.choices) < len(r.prefix) {
		return true
	}
	// beyond the replayed prefix: has this partial order been reached at no greater cost?
	l, known := x.cache[k]
	if !known && len(x.cache) >= max {
		return true
	}
	for _, c := range l {
		if c.leq(r.cost) {
			return false
		}
	}
	out := l[:0]
	for _, c := range l {
		if !r.cost.leq(c) {
			out = append(out, c)
		}
	}
	x.cache[k] = append(out, r.cost)
	return true
}

func (x *Explorer) within(c costVec) bool {
	tot := 0
	for cl := Class(1); cl < NClass; cl++ {
		if x.Bounds[cl] >= 0 && int(c[cl]) > x.Bounds[cl] {
			return false
		}
		tot += int(c[cl])
	}
	if x.TotalCap > 0 && tot > x.TotalCap {
		return false
	}
	return true
}

func (x *Explorer) runOne(prefix []int, labels bool) (*oneRun, *Result) {
	r := &oneRun{x: x, prefix: prefix, labels: labels}
	cfg := x.Cfg
	if labels {
		cfg.Trace = true
	}
	res := Run(r, cfg, x.Body)
	if r.diverged != "" {
		panic("mcrt: replay divergence: " + r.diverged)
	}
	x.Execs++
	if res.Pruned {
		x.PrunedExecs++
	}
	if res.Horizon {
		x.HorizonHits++
	}
	if len(r.choices) > x.MaxDepth {
		x.MaxDepth = len(r.choices)
	}
	return r, res
}

// Explore explores the subtree below prefix completely (within the bounds).
func (x *Explorer) Explore(prefix []int) {
	if x.cache == nil {
		x.cache = map[Key][]costVec{}
	}
	if x.States == nil {
		x.States = map[Key]struct{}{}
	}
	x.explore(prefix)
}

func (x *Explorer) explore(prefix []int) {
	if x.Stopped {
		return
	}
	if !x.Deadline.IsZero() && time.Now().After(x.Deadline) {
		x.Stopped = true
		return
	}
	r, res := x.runOne(prefix, false)
	if x.OnExec != nil {
		x.OnExec(r.choices, res)
	}
	for i := len(prefix); i < len(r.points); i++ {
		p := &r.points[i]
		for alt := 1; alt < len(p.classes); alt++ {
			c := p.before
			if p.classes[alt] != Free {
				c[p.classes[alt]]++
			}
			if !x.within(c) {
				continue
			}
			np := make([]int, i+1)
			copy(np, r.choices[:i])
			np[i] = alt
			x.explore(np)
			if x.Stopped {
				return
			}
		}
	}
}

// Roots runs the default execution and returns it together with every
// admissible one-deviation prefix; exploring each returned prefix (plus the
// default execution itself, which Roots has already reported through OnExec)
// covers the whole tree. Used to shard work over processes.
func (x *Explorer) Roots() [][]int {
	if x.cache == nil {
		x.cache = map[Key][]costVec{}
	}
	if x.States == nil {
		x.States = map[Key]struct{}{}
	}
	r, res := x.runOne(nil, false)
	if x.OnExec != nil {
		x.OnExec(r.choices, res)
	}
	var out [][]int
	for i := 0; i < len(r.points); i++ {
		p := &r.points[i]
		for alt := 1; alt < len(p.classes); alt++ {
			c := p.before
			if p.classes[alt] != Free {
				c[p.classes[alt]]++
			}
			if !x.within(c) {
				continue
			}
			np := make([]int, i+1)
			copy(np, r.choices[:i])
			np[i] = alt
			out = append(out, np)
		}
	}
	return out
}

// Replay re-executes exactly the given choice sequence (then defaults) with
// tracing on and returns the result and the labelled choices.
func (x *Explorer) Replay(choices []int) (*Result, []string) {
	save := x.NoCache
	x.NoCache = true
	defer func() { x.NoCache = save }()
	r, res := x.runOne(choices, true)
	var lab []string
	for i, c := range r.choices {
		p := r.points[i]
		if len(p.labels) > c && (c != 0 || i < len(choices)) {
			lab = append(lab, fmt.Sprintf("#%d %s: %s (%s)", i, p.kind, p.labels[c], p.classes[c]))
		}
	}
	return res, lab
}

// Confirm replays choices n times and reports whether every replay produced
// the same observation log and failure list as want.
func (x *Explorer) Confirm(choices []int, want *Result, n int) bool {
	save := x.NoCache
	x.NoCache = true
	defer func() { x.NoCache = save }()
	for i := 0; i < n; i++ {
		_, res := x.runOne(choices, false)
		if res.LogHash != want.LogHash || strings.Join(res.Failures, "|") != strings.Join(want.Failures, "|") || len(res.Panics) != len(want.Panics) {
			return false
		}
	}
	return true
}

func EncodeChoices(c []int) string {
	// trailing zeros carry no information
	n := len(c)
	for n > 0 && c[n-1] == 0 {
		n--
	}
	s := make([]string, n)
	for i := 0; i < n; i++ {
		s[i] = strconv.Itoa(c[i])
	}
	return strings.Join(s, ".")
}

func DecodeChoices(s string) []int {
	if s == "" {
		return nil
	}
	parts := strings.Split(s, ".")
	out := make([]int, len(parts))
	for i, p := range parts {
		out[i], _ = strconv.Atoi(p)
	}
	return out
}
