package mcrt

import (
	"fmt"
	"unsafe"
)

// Happens-before race detection on designated locations (FastTrack-style,
// full vector clocks; the number of threads per execution is small).

type locState struct {
	wid   uint64 // identity of the last write event (thread sid, segment)
	rsum  uint64 // sum of identities of reads since the last write
	wvc   vclock
	wsite string
	wthr  string
	rvcs  map[int]vclock
	rsite map[int]string
	wheld []*objState         // locks held at the last write
	rheld map[int][]*objState // locks held at the last read of each thread
}

// Acc records an access of the running thread to the location at addr and
// reports a race if it is unordered with a previous conflicting access.
func Acc(addr unsafe.Pointer, write bool, site string) {
	if !Active() {
		return
	}
	e := ex
	t := e.cur
	l := e.locs[addr]
	if l == nil {
		l = &locState{rvcs: map[int]vclock{}, rsite: map[int]string{}}
		e.locs[addr] = l
	}
	report := func(otherSite, otherThr, kind string) {
		msg := fmt.Sprintf("%s: %s by %s unordered with %s by %s", kind, site, t.name, otherSite, otherThr)
		for _, r := range e.res.Races {
			if r == msg {
				return
			}
		}
		e.res.Races = append(e.res.Races, msg)
	}
	if l.wvc != nil && !l.wvc.leq(t.vc) {
		if write {
			report(l.wsite, l.wthr, "write-write race")
		} else {
			report(l.wsite, l.wthr, "read-write race")
		}
	} else if l.wvc != nil && l.wthr != t.name && !l.wvc.leqWeak(t.vc) && disjoint(l.wheld, e.locked) {
		// ordered, but only because a mutex that (at least) one side does not hold happened to be taken
		// in this order: with the other order the two accesses race
		lockReport(e, fmt.Sprintf("lock-order race: %s by %s unordered with %s by %s but for the acquisition order of a lock they do not share", site, t.name, l.wsite, l.wthr))
	}
	// make the prefix key sensitive to the order of conflicting accesses, so that
	// happens-before caching stays sound even when these accesses race
	me := mix(t.sid, uint64(t.nev))
	if write {
		e.note(mix(l.wid, l.rsum))
		l.wid = me
		l.rsum = 0
	} else {
		e.note(l.wid)
		l.rsum += me
	}
	if write {
		for id, rv := range l.rvcs {
			if id != t.id && !rv.leq(t.vc) {
				report(l.rsite[id], e.threads[id].name, "write-read race")
			} else if id != t.id && !rv.leqWeak(t.vc) && disjoint(l.rheld[id], e.locked) {
				lockReport(e, fmt.Sprintf("lock-order race: %s by %s unordered with %s by %s but for the acquisition order of a lock they do not share", site, t.name, l.rsite[id], e.threads[id].name))
			}
		}
		l.wheld = append([]*objState(nil), e.locked...)
		l.rheld = map[int][]*objState{}
		l.wvc = t.vc.clone()
		l.wsite = site
		l.wthr = t.name
		l.rvcs = map[int]vclock{}
		l.rsite = map[int]string{}
	} else {
		l.rvcs[t.id] = t.vc.clone()
		l.rsite[t.id] = site
		if l.rheld == nil {
			l.rheld = map[int][]*objState{}
		}
		l.rheld[t.id] = append([]*objState(nil), e.locked...)
	}
}

func disjoint(a, b []*objState) bool {
	for _, x := range a {
		for _, y := range b {
			if x == y {
				return false
			}
		}
	}
	return true
}

func lockReport(e *exec, msg string) {
	for _, r := range e.res.LockRaces {
		if r == msg {
			return
		}
	}
	e.res.LockRaces = append(e.res.LockRaces, msg)
}

// AccOf is Acc for a typed pointer.
// AccP reports a read of *p at the place of the read and hands p back (for reads that are evaluated conditionally).
func AccP[T any](p *T, site string) *T { Acc(unsafe.Pointer(p), false, site); return p }

func AccOf[T any](p *T, write bool, site string) { Acc(unsafe.Pointer(p), write, site) }
