package mcrt

import (
	"fmt"
	"unsafe"
)

// Happens-before race detection on designated locations (FastTrack-style,
// full vector clocks; the number of threads per execution is small).

type locState struct {
	wid   uint64 // identity of the last write event (thread sid, segment)
	rsum  uint64 // sum of identities of reads since the last write
	wvc   vclock
	wsite string
	wthr  string
	rvcs  map[int]vclock
	rsite map[int]string
}

// Acc records an access of the running thread to the location at addr and
// reports a race if it is unordered with a previous conflicting access.
func Acc(addr unsafe.Pointer, write bool, site string) {
	if !Active() {
		return
	}
	e := ex
	t := e.cur
	l := e.locs[addr]
	if l == nil {
		l = &locState{rvcs: map[int]vclock{}, rsite: map[int]string{}}
		e.locs[addr] = l
	}
	report := func(otherSite, otherThr, kind string) {
		msg := fmt.Sprintf("%s: %s by %s unordered with %s by %s", kind, site, t.name, otherSite, otherThr)
		for _, r := range e.res.Races {
			if r == msg {
				return
			}
		}
		e.res.Races = append(e.res.Races, msg)
	}
	if l.wvc != nil && !l.wvc.leq(t.vc) {
		if write {
			report(l.wsite, l.wthr, "write-write race")
		} else {
			report(l.wsite, l.wthr, "read-write race")
		}
	}
	// make the prefix key sensitive to the order of conflicting accesses, so that
	// happens-before caching stays sound even when these accesses race
	me := mix(t.sid, uint64(t.nev))
	if write {
		e.note(mix(l.wid, l.rsum))
		l.wid = me
		l.rsum = 0
	} else {
		e.note(l.wid)
		l.rsum += me
	}
	if write {
		for id, rv := range l.rvcs {
			if id != t.id && !rv.leq(t.vc) {
				report(l.rsite[id], e.threads[id].name, "write-read race")
			}
		}
		l.wvc = t.vc.clone()
		l.wsite = site
		l.wthr = t.name
		l.rvcs = map[int]vclock{}
		l.rsite = map[int]string{}
	} else {
		l.rvcs[t.id] = t.vc.clone()
		l.rsite[t.id] = site
	}
}

// AccOf is Acc for a typed pointer.
func AccOf[T any](p *T, write bool, site string) { Acc(unsafe.Pointer(p), write, site) }
