package mcrt

import (
	"reflect"
)

// Channels stay real Go channels (values, len, cap, identity are the
// program's own); mcrt only decides *when* an operation may run so that it
// cannot block, and performs unbuffered rendezvous itself.

type chanState struct {
	keep    any // pins the channel: its address is the key, so it must not be reused within the execution
	closed  bool
	closeVC vclock
	q       []vclock // sender clocks of buffered elements, FIFO
}

func (e *exec) chanSt(id uintptr, keep any) *chanState {
	s := e.chans[id]
	if s == nil {
		s = &chanState{keep: keep}
		e.chans[id] = s
	}
	return s
}

var ctxCancelVC vclock // joined clocks of every context cancellation in this execution (see ctx.go)

// Case is one arm of a select.
type Case struct {
	dir     int // 0 recv, 1 send, 2 default
	chv     reflect.Value
	id      uintptr
	deliver func(v any, ok bool)
	take    func() any
	recvNow func() // performs a real, non-blocking receive into the destination
	sendNow func() // performs a real, non-blocking send
}

func RecvCase[T any](ch <-chan T, dst *T, okp *bool) Case {
	c := Case{dir: 0}
	if ch == nil {
		return c
	}
	c.chv = reflect.ValueOf(ch)
	c.id = c.chv.Pointer()
	c.deliver = func(v any, ok bool) {
		if dst != nil {
			if v == nil {
				var z T
				*dst = z
			} else {
				*dst = v.(T)
			}
		}
		if okp != nil {
			*okp = ok
		}
	}
	c.recvNow = func() {
		v, ok := <-ch
		if dst != nil {
			*dst = v
		}
		if okp != nil {
			*okp = ok
		}
	}
	return c
}

func SendCase[T any](ch chan<- T, v T) Case {
	c := Case{dir: 1}
	if ch == nil {
		return c
	}
	c.chv = reflect.ValueOf(ch)
	c.id = c.chv.Pointer()
	c.take = func() any { return v }
	c.sendNow = func() { ch <- v }
	return c
}

func DefaultCase() Case { return Case{dir: 2} }

// ZeroOf lets rewritten code declare a temporary of a channel's element type.
func ZeroOf[T any](ch <-chan T) (z T) { return }

// ZeroOfS is ZeroOf for send-only channel expressions.
func ZeroOfS[T any](ch chan<- T) (z T) { return }

// closedProbe: is an empty channel closed? Consumes nothing because it is
// only called when len==0 and no real sender can be blocked on the channel.
func closedProbe(chv reflect.Value) bool {
	x, ok := chv.TryRecv()
	return x.IsValid() && !ok
}

func (e *exec) caseReady(self *thread, c *Case) bool {
	switch c.dir {
	case 2:
		return false
	case 0:
		if !c.chv.IsValid() {
			return false
		}
		if c.chv.Len() > 0 {
			return true
		}
		cs := e.chanSt(c.id, c.chv)
		if cs.closed || closedProbe(c.chv) {
			cs.closed = true
			return true
		}
		if c.chv.Cap() == 0 {
			return e.findPartner(self, c.id, 1) != nil
		}
		return false
	default:
		if !c.chv.IsValid() {
			return false
		}
		cs := e.chanSt(c.id, c.chv)
		if cs.closed {
			return true // will panic, as in Go
		}
		if c.chv.Cap() > 0 {
			return c.chv.Len() < c.chv.Cap()
		}
		return e.findPartner(self, c.id, 0) != nil
	}
}

// findPartner returns a parked thread (and its case) that can complete an
// unbuffered operation on channel id in direction dir (0: a receiver, 1: a sender).
func (e *exec) findPartner(self *thread, id uintptr, dir int) *thread {
	for _, t := range e.threads {
		if t == self || t.done || t.op == nil || t.op.matched {
			continue
		}
		switch t.op.kind {
		case opRecv:
			if dir == 0 && t.op.ch == id {
				return t
			}
		case opSend:
			if dir == 1 && t.op.ch == id {
				return t
			}
		case opSelect:
			for _, c := range t.op.cases {
				if c.dir == dir && c.chv.IsValid() && c.id == id {
					return t
				}
			}
		}
	}
	return nil
}

func (e *exec) partners(self *thread, id uintptr, dir int) []*thread {
	var out []*thread
	for _, t := range e.threads {
		if t == self || t.done || t.op == nil || t.op.matched {
			continue
		}
		switch t.op.kind {
		case opRecv:
			if dir == 0 && t.op.ch == id {
				out = append(out, t)
			}
		case opSend:
			if dir == 1 && t.op.ch == id {
				out = append(out, t)
			}
		case opSelect:
			for _, c := range t.op.cases {
				if c.dir == dir && c.chv.IsValid() && c.id == id {
					out = append(out, t)
					break
				}
			}
		}
	}
	return out
}

func (e *exec) pickPartner(self *thread, id uintptr, dir int) *thread {
	ps := e.partners(self, id, dir)
	if len(ps) == 0 {
		panic("mcrt: rendezvous without partner")
	}
	if len(ps) == 1 || e.det > 0 {
		return ps[0]
	}
	opts := make([]Option, len(ps))
	for i, p := range ps {
		opts[i] = Option{Label: p.name, Class: Free}
	}
	i := e.ch.Pick("partner", opts)
	e.note(uint64(i) + 1)
	return ps[i]
}

func (e *exec) sendEnabled(t *thread, o *op) bool {
	return e.caseReady(t, o.cases[0])
}
func (e *exec) recvEnabled(t *thread, o *op) bool {
	return e.caseReady(t, o.cases[0])
}
func (e *exec) selectEnabled(t *thread, o *op) bool {
	for _, c := range o.cases {
		if c.dir == 2 || e.caseReady(t, c) {
			return true
		}
	}
	return false
}

// perform executes case c of the running thread, which is known to be ready.
func (e *exec) perform(c *Case) {
	t := e.cur
	cs := e.chanSt(c.id, c.chv)
	if c.dir == 0 {
		if c.chv.Len() > 0 || cs.closed || closedProbe(c.chv) {
			wasEmpty := c.chv.Len() == 0
			c.recvNow()
			if wasEmpty {
				// closed channel
				if cs.closeVC != nil {
					t.vc.join(cs.closeVC)
				} else {
					t.vc.join(ctxCancelVC)
				}
			} else if len(cs.q) > 0 {
				t.vc.join(cs.q[0])
				cs.q = cs.q[1:]
			}
			return
		}
		// unbuffered: take from a parked sender
		p := e.pickPartner(t, c.id, 1)
		var pc *Case
		if p.op.kind == opSend {
			pc = p.op.cases[0]
		} else {
			for i, x := range p.op.cases {
				if x.dir == 1 && x.chv.IsValid() && x.id == c.id {
					pc = x
					p.op.fired = i
					break
				}
			}
		}
		c.deliver(pc.take(), true)
		p.op.matched = true
		t.vc.join(p.vc)
		p.vc.join(t.vc)
		return
	}
	// send
	if cs.closed {
		panic("send on closed channel")
	}
	if c.chv.Cap() > 0 {
		c.sendNow()
		cs.q = append(cs.q, t.vc.clone())
		return
	}
	p := e.pickPartner(t, c.id, 0)
	var pc *Case
	if p.op.kind == opRecv {
		pc = p.op.cases[0]
	} else {
		for i, x := range p.op.cases {
			if x.dir == 0 && x.chv.IsValid() && x.id == c.id {
				pc = x
				p.op.fired = i
				break
			}
		}
	}
	pc.deliver(c.take(), true)
	p.op.matched = true
	t.vc.join(p.vc)
	p.vc.join(t.vc)
}

func Send[T any](ch chan<- T, v T) {
	if !Active() {
		if ex != nil {
			panic(poisonSentinel)
		}
		ch <- v
		return
	}
	e := ex
	c := SendCase(ch, v)
	o := &op{kind: opSend, ch: c.id, label: "send", cases: []*Case{&c}}
	if ch == nil {
		o.kind = opWait
		o.enabled = func() bool { return false }
		o.label = "send on nil channel"
	}
	e.point(o)
	if o.matched {
		return
	}
	e.perform(&c)
}

func Recv[T any](ch <-chan T) T {
	v, _ := Recv2(ch)
	return v
}

func Recv2[T any](ch <-chan T) (T, bool) {
	var v T
	var ok bool
	if !Active() {
		if ex != nil {
			panic(poisonSentinel)
		}
		v, ok = <-ch
		return v, ok
	}
	e := ex
	c := RecvCase(ch, &v, &ok)
	o := &op{kind: opRecv, ch: c.id, label: "recv", cases: []*Case{&c}}
	if ch == nil {
		o.kind = opWait
		o.enabled = func() bool { return false }
		o.label = "recv on nil channel"
	}
	e.point(o)
	if o.matched {
		return v, ok
	}
	e.perform(&c)
	return v, ok
}

func Close[T any](ch chan<- T) {
	if !Active() {
		if ex != nil {
			return
		}
		close(ch)
		return
	}
	e := ex
	id := reflect.ValueOf(ch).Pointer()
	cs := e.chanSt(id, ch)
	close(ch)
	cs.closed = true
	cs.closeVC = e.cur.vc.clone()
}

// Select blocks until one case can proceed and returns its index. Several
// ready cases are a (free) choice, as Go picks among them pseudo-randomly.
func Select(cases ...Case) int {
	if !Active() {
		if ex != nil {
			panic(poisonSentinel)
		}
		panic("mcrt.Select outside an execution")
	}
	e := ex
	ps := make([]*Case, len(cases))
	def := -1
	for i := range cases {
		ps[i] = &cases[i]
		if cases[i].dir == 2 {
			def = i
		}
	}
	o := &op{kind: opSelect, label: "select", cases: ps, fired: -1}
	e.point(o)
	if o.matched {
		e.note(uint64(o.fired) + 100)
		return o.fired
	}
	var ready []int
	for i, c := range ps {
		if c.dir != 2 && e.caseReady(e.cur, c) {
			ready = append(ready, i)
		}
	}
	if len(ready) == 0 {
		if def < 0 {
			panic("mcrt: select scheduled with no ready case")
		}
		e.note(uint64(def) + 100)
		return def
	}
	k := 0
	if len(ready) > 1 && e.det == 0 {
		opts := make([]Option, len(ready))
		for i, r := range ready {
			opts[i] = Option{Label: "case" + string(rune('0'+r)), Class: SelectClass}
		}
		k = e.ch.Pick("select", opts)
	}
	i := ready[k]
	e.note(uint64(i) + 100)
	e.perform(ps[i])
	return i
}

// SelectClass is the cost class of picking a non-first ready select case.
var SelectClass = Free
