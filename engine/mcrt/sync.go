package mcrt

import (
	gosync "sync"
	"unsafe"
)

// ---- vector clocks ---------------------------------------------------------------

// A clock holds two components per thread: index 2i is thread i's component of the happens-before
// relation, index 2i+1 its component of the same relation WITHOUT the edges from a mutex release to the
// next acquisition ("weak" order). Two accesses that are ordered only through such an edge, by threads
// that hold no lock in common, are ordered by the luck of the lock's acquisition order (see Acc).
type vclock []uint32

func (v *vclock) tick(t *thread) {
	for len(*v) <= 2*t.id+1 {
		*v = append(*v, 0)
	}
	(*v)[2*t.id]++
	(*v)[2*t.id+1]++
}

func (v vclock) clone() vclock { return append(vclock(nil), v...) }

func (v *vclock) join(o vclock) {
	for len(*v) < len(o) {
		*v = append(*v, 0)
	}
	for i, x := range o {
		if x > (*v)[i] {
			(*v)[i] = x
		}
	}
}

// joinFull joins the happens-before components only (the edge of a mutex acquisition).
func (v *vclock) joinFull(o vclock) {
	for len(*v) < len(o) {
		*v = append(*v, 0)
	}
	for i := 0; i < len(o); i += 2 {
		if o[i] > (*v)[i] {
			(*v)[i] = o[i]
		}
	}
}

// leq: v happens-before-or-equals o
func (v vclock) leq(o vclock) bool {
	for i := 0; i < len(v); i += 2 {
		x := v[i]
		if x == 0 {
			continue
		}
		if i >= len(o) || x > o[i] {
			return false
		}
	}
	return true
}

// leqWeak: v is ordered before o without any mutex release->acquire edge
func (v vclock) leqWeak(o vclock) bool {
	for i := 1; i < len(v); i += 2 {
		x := v[i]
		if x == 0 {
			continue
		}
		if i >= len(o) || x > o[i] {
			return false
		}
	}
	return true
}

func (v vclock) hash(e *exec) uint64 {
	var h uint64
	for i := 0; i < len(v); i += 2 {
		if x := v[i]; x != 0 {
			h += mix(e.threads[i/2].sid, uint64(x))
		}
	}
	return h
}

// objState is the per-execution state of a synchronisation object, keyed by
// the object's address. Nothing about an execution lives in the object
// itself, so objects that outlive an execution (package-level variables)
// start every execution clean.
type objState struct {
	vc      vclock
	locked  bool
	readers int
	count   int
	running bool
	waiters []*thread
	sig     map[*thread]bool
}

func (e *exec) obj(p unsafe.Pointer) *objState {
	s := e.objs[p]
	if s == nil {
		s = &objState{}
		e.objs[p] = s
	}
	return s
}

// acquire/release edges for the running thread
func (e *exec) acq(s *objState) { e.cur.vc.join(s.vc) }

// acqLock is the acquisition of a mutex: a happens-before edge that the weak order does not have; the
// lock joins the thread's lock set until unlock.
func (e *exec) acqLock(s *objState) {
	e.cur.vc.joinFull(s.vc)
	e.locked = append(e.locked, s)
}

// (a lock may be released by another thread than the one that took it - the scheduler's load() hands
// runner.refMu to the goroutine it starts - so the lock set of an access is "every mutex that is locked
// right now", a superset of what the running thread holds: fewer reports, never a wrong one)
func (e *exec) relLock(s *objState) {
	s.vc.join(e.cur.vc)
	h := e.locked
	for i := len(h) - 1; i >= 0; i-- {
		if h[i] == s {
			e.locked = append(h[:i:i], h[i+1:]...)
			break
		}
	}
}
func (e *exec) rel(s *objState) { s.vc.join(e.cur.vc) }
func (e *exec) acqrel(s *objState) {
	e.cur.vc.join(s.vc)
	s.vc.join(e.cur.vc)
}

// ---- Mutex -----------------------------------------------------------------------

type Mutex struct{ _ uint8 }

func (m *Mutex) Lock() {
	if !Active() {
		return
	}
	e := ex
	s := e.obj(unsafe.Pointer(m))
	e.point(&op{kind: opLock, label: "Lock", enabled: func() bool { return !s.locked }})
	s.locked = true
	e.acqLock(s)
}

func (m *Mutex) TryLock() bool {
	if !Active() {
		return true
	}
	e := ex
	s := e.obj(unsafe.Pointer(m))
	e.point(&op{kind: opYield, label: "TryLock"})
	if s.locked {
		return false
	}
	s.locked = true
	e.acqLock(s)
	return true
}

func (m *Mutex) Unlock() {
	if !Active() {
		return
	}
	e := ex
	s := e.obj(unsafe.Pointer(m))
	if !s.locked {
		panic("sync: unlock of unlocked mutex")
	}
	e.relLock(s)
	s.locked = false
}

type Locker = gosync.Locker

// ---- RWMutex ---------------------------------------------------------------------

type RWMutex struct{ _ uint8 }

func (m *RWMutex) Lock() {
	if !Active() {
		return
	}
	e := ex
	s := e.obj(unsafe.Pointer(m))
	e.point(&op{kind: opLock, label: "Lock(rw)", enabled: func() bool { return !s.locked && s.readers == 0 }})
	s.locked = true
	e.acqLock(s)
}

func (m *RWMutex) Unlock() {
	if !Active() {
		return
	}
	e := ex
	s := e.obj(unsafe.Pointer(m))
	if !s.locked {
		panic("sync: Unlock of unlocked RWMutex")
	}
	e.relLock(s)
	s.locked = false
}

func (m *RWMutex) RLock() {
	if !Active() {
		return
	}
	e := ex
	s := e.obj(unsafe.Pointer(m))
	e.point(&op{kind: opRLock, label: "RLock", enabled: func() bool { return !s.locked }})
	s.readers++
	e.acqLock(s)
}

func (m *RWMutex) RUnlock() {
	if !Active() {
		return
	}
	e := ex
	s := e.obj(unsafe.Pointer(m))
	if s.readers <= 0 {
		panic("sync: RUnlock of unlocked RWMutex")
	}
	e.relLock(s)
	s.readers--
}

func (m *RWMutex) RLocker() Locker { return (*rlocker)(m) }

type rlocker RWMutex

func (r *rlocker) Lock()   { (*RWMutex)(r).RLock() }
func (r *rlocker) Unlock() { (*RWMutex)(r).RUnlock() }

// ---- WaitGroup -------------------------------------------------------------------

type WaitGroup struct{ _ uint8 }

func (w *WaitGroup) Add(n int) {
	if !Active() {
		return
	}
	e := ex
	s := e.obj(unsafe.Pointer(w))
	s.count += n
	if s.count < 0 {
		panic("sync: negative WaitGroup counter")
	}
	e.rel(s)
}

func (w *WaitGroup) Done() { w.Add(-1) }

func (w *WaitGroup) Wait() {
	if !Active() {
		return
	}
	e := ex
	s := e.obj(unsafe.Pointer(w))
	e.point(&op{kind: opWait, label: "WaitGroup.Wait", enabled: func() bool { return s.count == 0 }})
	e.acq(s)
}

// ---- Once ------------------------------------------------------------------------

type Once struct {
	done bool // persistent: once per process, as in Go
}

func (o *Once) Do(f func()) {
	if !Active() {
		if !o.done {
			o.done = true
			f()
		}
		return
	}
	e := ex
	s := e.obj(unsafe.Pointer(o))
	e.point(&op{kind: opWait, label: "Once.Do", enabled: func() bool { return !s.running }})
	if o.done {
		e.acq(s)
		return
	}
	s.running = true
	defer func() {
		o.done = true
		s.running = false
		if Active() {
			e.rel(s)
		}
	}()
	f()
}

func OnceFunc(f func()) func() {
	var o Once
	return func() { o.Do(f) }
}

func OnceValue[T any](f func() T) func() T {
	var o Once
	var v T
	return func() T { o.Do(func() { v = f() }); return v }
}

func OnceValues[T1, T2 any](f func() (T1, T2)) func() (T1, T2) {
	var o Once
	var v1 T1
	var v2 T2
	return func() (T1, T2) { o.Do(func() { v1, v2 = f() }); return v1, v2 }
}

// ---- Cond ------------------------------------------------------------------------

type Cond struct {
	L Locker
	_ uint8
}

func NewCond(l Locker) *Cond { return &Cond{L: l} }

func (c *Cond) Wait() {
	if !Active() {
		panic("mcrt: Cond.Wait outside an execution")
	}
	e := ex
	s := e.obj(unsafe.Pointer(c))
	t := e.cur
	if s.sig == nil {
		s.sig = map[*thread]bool{}
	}
	s.waiters = append(s.waiters, t)
	c.L.Unlock()
	e.point(&op{kind: opWait, label: "Cond.Wait", enabled: func() bool { return s.sig[t] }})
	delete(s.sig, t)
	e.acq(s)
	c.L.Lock()
}

func (c *Cond) Signal() {
	if !Active() {
		return
	}
	e := ex
	s := e.obj(unsafe.Pointer(c))
	e.rel(s)
	if len(s.waiters) > 0 {
		if s.sig == nil {
			s.sig = map[*thread]bool{}
		}
		s.sig[s.waiters[0]] = true
		s.waiters = s.waiters[1:]
	}
}

func (c *Cond) Broadcast() {
	if !Active() {
		return
	}
	e := ex
	s := e.obj(unsafe.Pointer(c))
	e.rel(s)
	if s.sig == nil {
		s.sig = map[*thread]bool{}
	}
	for _, w := range s.waiters {
		s.sig[w] = true
	}
	s.waiters = nil
}

// ---- Map -------------------------------------------------------------------------

// Map wraps sync.Map; every operation is a point and an acquire-release on
// the whole map (conservative: operations on different keys are ordered too).
type Map struct {
	m gosync.Map
}

func (m *Map) pt(label string) {
	if !Active() {
		return
	}
	e := ex
	e.point(&op{kind: opAtomic, label: "sync.Map." + label})
	e.acqrel(e.obj(unsafe.Pointer(m)))
}

func (m *Map) Load(k any) (any, bool)           { m.pt("Load"); return m.m.Load(k) }
func (m *Map) Store(k, v any)                   { m.pt("Store"); m.m.Store(k, v) }
func (m *Map) LoadOrStore(k, v any) (any, bool) { m.pt("LoadOrStore"); return m.m.LoadOrStore(k, v) }
func (m *Map) LoadAndDelete(k any) (any, bool)  { m.pt("LoadAndDelete"); return m.m.LoadAndDelete(k) }
func (m *Map) Delete(k any)                     { m.pt("Delete"); m.m.Delete(k) }
func (m *Map) Swap(k, v any) (any, bool)        { m.pt("Swap"); return m.m.Swap(k, v) }
func (m *Map) CompareAndSwap(k, o, n any) bool {
	m.pt("CompareAndSwap")
	return m.m.CompareAndSwap(k, o, n)
}
func (m *Map) CompareAndDelete(k, o any) bool {
	m.pt("CompareAndDelete")
	return m.m.CompareAndDelete(k, o)
}
func (m *Map) Clear() { m.pt("Clear"); m.m.Clear() }
func (m *Map) Range(f func(k, v any) bool) {
	m.pt("Range")
	// snapshot first so that f (which may hit points) does not run inside the real Range
	type kv struct{ k, v any }
	var l []kv
	m.m.Range(func(k, v any) bool { l = append(l, kv{k, v}); return true })
	for _, x := range l {
		if !f(x.k, x.v) {
			return
		}
	}
}

// Pool is passed through (no blocking, no ordering relevance).
type Pool = gosync.Pool

// ---- atomics ---------------------------------------------------------------------

func atomicPoint(p unsafe.Pointer, label string) {
	if !Active() {
		return
	}
	e := ex
	e.point(&op{kind: opAtomic, label: label})
	e.acqrel(e.obj(p))
}

type Int32 struct{ v int32 }

func (a *Int32) Load() int32   { atomicPoint(unsafe.Pointer(a), "atomic.Load"); return a.v }
func (a *Int32) Store(x int32) { atomicPoint(unsafe.Pointer(a), "atomic.Store"); a.v = x }
func (a *Int32) Add(d int32) int32 {
	atomicPoint(unsafe.Pointer(a), "atomic.Add")
	a.v += d
	return a.v
}
func (a *Int32) Swap(x int32) int32 {
	atomicPoint(unsafe.Pointer(a), "atomic.Swap")
	o := a.v
	a.v = x
	return o
}
func (a *Int32) CompareAndSwap(o, n int32) bool {
	atomicPoint(unsafe.Pointer(a), "atomic.CAS")
	if a.v == o {
		a.v = n
		return true
	}
	return false
}

type Int64 struct{ v int64 }

func (a *Int64) Load() int64   { atomicPoint(unsafe.Pointer(a), "atomic.Load"); return a.v }
func (a *Int64) Store(x int64) { atomicPoint(unsafe.Pointer(a), "atomic.Store"); a.v = x }
func (a *Int64) Add(d int64) int64 {
	atomicPoint(unsafe.Pointer(a), "atomic.Add")
	a.v += d
	return a.v
}
func (a *Int64) Swap(x int64) int64 {
	atomicPoint(unsafe.Pointer(a), "atomic.Swap")
	o := a.v
	a.v = x
	return o
}
func (a *Int64) CompareAndSwap(o, n int64) bool {
	atomicPoint(unsafe.Pointer(a), "atomic.CAS")
	if a.v == o {
		a.v = n
		return true
	}
	return false
}

type Uint32 struct{ v uint32 }

func (a *Uint32) Load() uint32   { atomicPoint(unsafe.Pointer(a), "atomic.Load"); return a.v }
func (a *Uint32) Store(x uint32) { atomicPoint(unsafe.Pointer(a), "atomic.Store"); a.v = x }
func (a *Uint32) Add(d uint32) uint32 {
	atomicPoint(unsafe.Pointer(a), "atomic.Add")
	a.v += d
	return a.v
}
func (a *Uint32) CompareAndSwap(o, n uint32) bool {
	atomicPoint(unsafe.Pointer(a), "atomic.CAS")
	if a.v == o {
		a.v = n
		return true
	}
	return false
}

type Uint64 struct{ v uint64 }

func (a *Uint64) Load() uint64   { atomicPoint(unsafe.Pointer(a), "atomic.Load"); return a.v }
func (a *Uint64) Store(x uint64) { atomicPoint(unsafe.Pointer(a), "atomic.Store"); a.v = x }
func (a *Uint64) Add(d uint64) uint64 {
	atomicPoint(unsafe.Pointer(a), "atomic.Add")
	a.v += d
	return a.v
}
func (a *Uint64) CompareAndSwap(o, n uint64) bool {
	atomicPoint(unsafe.Pointer(a), "atomic.CAS")
	if a.v == o {
		a.v = n
		return true
	}
	return false
}

type Bool struct{ v bool }

func (a *Bool) Load() bool   { atomicPoint(unsafe.Pointer(a), "atomic.Load"); return a.v }
func (a *Bool) Store(x bool) { atomicPoint(unsafe.Pointer(a), "atomic.Store"); a.v = x }
func (a *Bool) Swap(x bool) bool {
	atomicPoint(unsafe.Pointer(a), "atomic.Swap")
	o := a.v
	a.v = x
	return o
}
func (a *Bool) CompareAndSwap(o, n bool) bool {
	atomicPoint(unsafe.Pointer(a), "atomic.CAS")
	if a.v == o {
		a.v = n
		return true
	}
	return false
}

type Value struct{ v any }

func (a *Value) Load() any   { atomicPoint(unsafe.Pointer(a), "atomic.Load"); return a.v }
func (a *Value) Store(x any) { atomicPoint(unsafe.Pointer(a), "atomic.Store"); a.v = x }

type Pointer[T any] struct{ p *T }

func (a *Pointer[T]) Load() *T   { atomicPoint(unsafe.Pointer(a), "atomic.Load"); return a.p }
func (a *Pointer[T]) Store(x *T) { atomicPoint(unsafe.Pointer(a), "atomic.Store"); a.p = x }
func (a *Pointer[T]) Swap(x *T) *T {
	atomicPoint(unsafe.Pointer(a), "atomic.Swap")
	o := a.p
	a.p = x
	return o
}
func (a *Pointer[T]) CompareAndSwap(o, n *T) bool {
	atomicPoint(unsafe.Pointer(a), "atomic.CAS")
	if a.p == o {
		a.p = n
		return true
	}
	return false
}

func AddInt32(p *int32, d int32) int32 {
	atomicPoint(unsafe.Pointer(p), "atomic.Add")
	*p += d
	return *p
}
func AddInt64(p *int64, d int64) int64 {
	atomicPoint(unsafe.Pointer(p), "atomic.Add")
	*p += d
	return *p
}
func AddUint32(p *uint32, d uint32) uint32 {
	atomicPoint(unsafe.Pointer(p), "atomic.Add")
	*p += d
	return *p
}
func AddUint64(p *uint64, d uint64) uint64 {
	atomicPoint(unsafe.Pointer(p), "atomic.Add")
	*p += d
	return *p
}
func LoadInt32(p *int32) int32        { atomicPoint(unsafe.Pointer(p), "atomic.Load"); return *p }
func LoadInt64(p *int64) int64        { atomicPoint(unsafe.Pointer(p), "atomic.Load"); return *p }
func LoadUint32(p *uint32) uint32     { atomicPoint(unsafe.Pointer(p), "atomic.Load"); return *p }
func LoadUint64(p *uint64) uint64     { atomicPoint(unsafe.Pointer(p), "atomic.Load"); return *p }
func StoreInt32(p *int32, v int32)    { atomicPoint(unsafe.Pointer(p), "atomic.Store"); *p = v }
func StoreInt64(p *int64, v int64)    { atomicPoint(unsafe.Pointer(p), "atomic.Store"); *p = v }
func StoreUint32(p *uint32, v uint32) { atomicPoint(unsafe.Pointer(p), "atomic.Store"); *p = v }
func StoreUint64(p *uint64, v uint64) { atomicPoint(unsafe.Pointer(p), "atomic.Store"); *p = v }
func CompareAndSwapInt32(p *int32, o, n int32) bool {
	atomicPoint(unsafe.Pointer(p), "atomic.CAS")
	if *p == o {
		*p = n
		return true
	}
	return false
}
func CompareAndSwapInt64(p *int64, o, n int64) bool {
	atomicPoint(unsafe.Pointer(p), "atomic.CAS")
	if *p == o {
		*p = n
		return true
	}
	return false
}
