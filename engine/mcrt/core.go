// Package mcrt is a controlled runtime for Go code: every goroutine created by
// instrumented code is a managed thread, exactly one managed thread runs at a
// time, and at every synchronisation / time / environment operation (a
// "point") the thread parks and a Chooser decides what happens next. One call
// of Run is one execution; an execution is a pure function of the choice
// sequence, which is what makes exhaustive exploration and replay possible.
//
// Standard library only. State is process-global: one execution at a time.
package mcrt

import (
	"fmt"
	"reflect"
	"runtime"
	"sort"
	"strings"
	"time"
	"unsafe"
)

// Class is the cost class of a non-default choice.
type Class int

const (
	Free    Class = iota // never costs anything
	Preempt              // switching away from a thread that could continue
	Switch               // non-default continuation when the running thread blocked or ended
	Time                 // advancing the clock while something else could run
	Fault                // non-default environment answer (error, short read, ...)
	Cancel               // a client abandoning its request here
	Order                // non-default map iteration order
	Crash                // stop here and image the store
	NClass
)

var classNames = [...]string{"free", "preempt", "switch", "time", "fault", "cancel", "order", "crash"}

func (c Class) String() string { return classNames[c] }

type Option struct {
	Label string
	Class Class
}

// Chooser decides every choice of an execution.
type Chooser interface {
	// Pick returns an index into opts. opts[0] is the default and costs nothing;
	// any other option costs 1 in its class (nothing if the class is Free).
	Pick(kind string, opts []Option) int
	// Visit is called after every transition with the happens-before key of the
	// execution prefix; returning false abandons the execution (subtree already covered).
	Visit(k Key) bool
}

// Key identifies the partial order (happens-before relation plus observed
// choices) of an execution prefix, together with the running thread.
type Key struct{ A, B, Cur uint64 }

type opKind int

const (
	opStart opKind = iota
	opResume
	opYield
	opLock
	opRLock
	opSend
	opRecv
	opSelect
	opWait   // WaitGroup / generic condition
	opSleep  // enabled when now >= deadline
	opIdle   // enabled when nothing else is
	opChoose // environment choice point (always enabled)
	opAtomic
	opFS
	opNet
)

type op struct {
	kind    opKind
	label   string
	enabled func() bool
	ch      uintptr // channel identity for send/recv
	cases   []*Case // select
	fired   int     // select: case index chosen by a partner / the scheduler
	matched bool    // rendezvous already completed by a partner
	deliver func(v any, ok bool)
	take    func() any
	until   time.Duration // opSleep
	idleAdv bool          // opIdle: also wait for all timers
}

type thread struct {
	id     int
	sid    uint64 // schedule-independent identity
	name   string
	wake   chan struct{}
	op     *op
	done   bool
	nspawn int
	nobj   int
	nev    uint32 // local event index
	nnote  uint32
	vc     vclock
	daemon bool
	killed bool
	parked bool
	site   string
}

// PanicRecord is a panic that escaped a managed thread.
type PanicRecord struct {
	Thread string
	Value  string
	Stack  string
}

type Result struct {
	Steps  int
	Pruned bool
	// LockRaces: conflicting accesses to a designated location that are ordered only through the acquisition
	// order of a mutex which at least one of them does not hold (see Acc)
	LockRaces  []string
	Horizon    bool
	Panics     []PanicRecord
	Failures   []string
	Log        []string
	Trace      []string // transition labels, only when Tracing
	Blocked    []string // threads still parked when the execution ended (after main returned)
	LogHash    uint64
	Races      []string
	Aborted    bool
	VirtualEnd time.Duration
}

type exec struct {
	ch       Chooser
	threads  []*thread
	cur      *thread
	parkCh   chan *thread // thread -> controller: I parked / finished
	now      time.Duration
	timers   []*Timer
	ntimer   int
	clockVC  vclock
	objs     map[unsafe.Pointer]*objState
	chans    map[uintptr]*chanState
	locked   []*objState // mutexes locked right now (the lock set of an access, see Acc)
	poison   bool
	res      *Result
	keyA     uint64
	keyB     uint64
	maxSteps int
	maxTime  time.Duration
	tracing  bool
	mainDone bool
	aborted  bool
	det      int // >0: deterministic phase, every choice takes its default without being offered
	locs     map[unsafe.Pointer]*locState
	cleanups []func()
}

var ex *exec

// Active reports whether an execution is in progress (shims fall back to
// simple sequential behaviour otherwise).
func Active() bool { return ex != nil && !ex.poison }

type poisonT struct{}

var poisonSentinel = &poisonT{}

// IsPoison tells recover() wrappers in harness code that the value is the teardown sentinel.
func IsPoison(v any) bool { _, ok := v.(*poisonT); return ok }

type Config struct {
	MaxSteps int           // horizon in transitions (0 = 20000)
	MaxTime  time.Duration // horizon in virtual time (0 = 1000h)
	Trace    bool
}

var baseTime = time.Date(2030, 1, 1, 0, 0, 0, 0, time.UTC)

// Run performs one execution of body (as thread "main") under chooser c.
func Run(c Chooser, cfg Config, body func()) *Result {
	if ex != nil {
		panic("mcrt: nested Run")
	}
	e := &exec{ch: c, parkCh: make(chan *thread), objs: map[unsafe.Pointer]*objState{}, chans: map[uintptr]*chanState{},
		res: &Result{}, maxSteps: cfg.MaxSteps, maxTime: cfg.MaxTime, tracing: cfg.Trace, locs: map[unsafe.Pointer]*locState{}}
	if e.maxSteps == 0 {
		e.maxSteps = 20000
	}
	if e.maxTime == 0 {
		e.maxTime = 1000 * time.Hour
	}
	ex = e
	defer func() { ex = nil }()
	ctxCancelVC = nil
	main := e.newThread(nil, "main", "main")
	clk := e.newThread(nil, "clock", "clock")
	clk.done = true
	e.startThread(main, func() {
		body()
		e.mainDone = true
	})
	e.loop()
	e.teardown()
	for _, f := range e.cleanups {
		f()
	}
	h := uint64(14695981039346656037)
	for _, l := range e.res.Log {
		for i := 0; i < len(l); i++ {
			h = (h ^ uint64(l[i])) * 1099511628211
		}
		h = (h ^ 0xff) * 1099511628211
	}
	e.res.LogHash = h
	e.res.VirtualEnd = e.now
	return e.res
}

// OnExecEnd registers a function run after teardown of the current execution.
func OnExecEnd(f func()) { ex.cleanups = append(ex.cleanups, f) }

func (e *exec) newThread(parent *thread, name, site string) *thread {
	t := &thread{id: len(e.threads), name: name, wake: make(chan struct{}), site: site}
	if parent == nil {
		t.sid = mix(0x9e3779b97f4a7c15, uint64(len(e.threads)+1))
	} else {
		parent.nspawn++
		t.sid = mix(parent.sid, uint64(parent.nspawn))
		t.vc = parent.vc.clone()
	}
	e.threads = append(e.threads, t)
	return t
}

func (e *exec) startThread(t *thread, f func()) {
	t.op = &op{kind: opStart, label: "start " + t.name}
	t.parked = true
	go func() {
		<-t.wake
		defer func() {
			if r := recover(); r != nil {
				// (a panic while the execution is being torn down is an artefact of the teardown itself)
				if !IsPoison(r) && !e.poison {
					buf := make([]byte, 8192)
					buf = buf[:runtime.Stack(buf, false)]
					e.res.Panics = append(e.res.Panics, PanicRecord{Thread: t.name, Value: fmt.Sprint(r), Stack: string(buf)})
				}
			}
			t.done = true
			t.op = nil
			e.parkCh <- t
		}()
		if e.poison {
			panic(poisonSentinel)
		}
		f()
	}()
}

// point publishes o as the calling thread's pending operation, parks, and
// returns once the scheduler has chosen this thread (o is then enabled).
func (e *exec) point(o *op) {
	t := e.cur
	if e.poison {
		panic(poisonSentinel)
	}
	t.op = o
	t.parked = true
	e.parkCh <- t
	<-t.wake
	if e.poison {
		panic(poisonSentinel)
	}
	t.op = nil
}

type transition struct {
	t     *thread // thread to run, or nil
	timer *Timer  // timer to fire, or nil
	adv   bool    // advance the clock
	label string
}

func (e *exec) opEnabled(t *thread) bool {
	o := t.op
	if o == nil || t.done || t.killed {
		return false
	}
	switch o.kind {
	case opStart, opResume, opYield, opChoose, opAtomic, opFS, opNet:
		return true
	case opSleep:
		return e.now >= o.until
	case opIdle:
		return false // handled separately
	case opSend:
		return o.matched || e.sendEnabled(t, o)
	case opRecv:
		return o.matched || e.recvEnabled(t, o)
	case opSelect:
		return o.matched || e.selectEnabled(t, o)
	default:
		return o.enabled()
	}
}

// loop is the controller: it runs until the main thread has finished, or
// nothing can happen, or the horizon is hit, or the chooser prunes.
func (e *exec) loop() {
	// start main
	e.run(e.threads[0])
	for {
		if e.mainDone || e.threads[0].done || e.aborted {
			e.res.Aborted = e.aborted
			return
		}
		if e.res.Steps >= e.maxSteps || e.now > e.maxTime {
			e.res.Horizon = true
			return
		}
		e.fireDue()
		var opts []transition
		cur := e.cur
		curEnabled := cur != nil && !cur.done && e.opEnabled(cur)
		if curEnabled {
			opts = append(opts, transition{t: cur, label: cur.name + ": " + cur.op.label})
		}
		// other threads, round-robin order after the current one
		n := len(e.threads)
		start := 0
		if cur != nil {
			start = cur.id + 1
		}
		for i := 0; i < n; i++ {
			t := e.threads[(start+i)%n]
			if t == cur || t.done || t.op == nil || t.op.kind == opIdle {
				continue
			}
			if e.opEnabled(t) {
				opts = append(opts, transition{t: t, label: t.name + ": " + t.op.label})
			}
		}
		// pending timers (due timers were fired at the top of the iteration)
		nThreadOpts := len(opts)
		var earliest time.Duration = -1
		for _, tm := range e.timers {
			if !tm.armed || tm.deadline >= never {
				continue
			}
			if earliest < 0 || tm.deadline < earliest {
				earliest = tm.deadline
			}
		}
		for _, t := range e.threads {
			if !t.done && !t.killed && t.op != nil && t.op.kind == opSleep && t.op.until > e.now && t.op.until < never {
				if earliest < 0 || t.op.until < earliest {
					earliest = t.op.until
				}
			}
		}
		nActive := len(opts)
		if earliest >= 0 {
			opts = append(opts, transition{adv: true, label: fmt.Sprintf("advance clock to +%v", earliest)})
		}
		// idle waiters: enabled only when nothing else (except possibly clock advance) can happen
		if nActive == 0 {
			for _, t := range e.threads {
				if t.done || t.killed || t.op == nil || t.op.kind != opIdle {
					continue
				}
				if t.op.idleAdv && earliest >= 0 {
					continue // let the clock run first
				}
				opts = append([]transition{{t: t, label: t.name + ": idle"}}, opts...)
				nActive++
				break
			}
		}
		if len(opts) == 0 {
			return // deadlock or quiescence; the harness inspects Blocked
		}
		idx := 0
		if len(opts) > 1 && e.det == 0 {
			os := make([]Option, len(opts))
			for i, o := range opts {
				cl := Switch
				if curEnabled {
					cl = Preempt
				}
				if o.adv {
					cl = Time
					if nActive == 0 {
						cl = Free
					}
				}
				os[i] = Option{Label: o.label, Class: cl}
			}
			_ = nThreadOpts
			idx = e.ch.Pick("sched", os)
			if idx < 0 || idx >= len(opts) {
				panic(fmt.Sprintf("mcrt: chooser returned %d of %d", idx, len(opts)))
			}
		}
		tr := opts[idx]
		e.res.Steps++
		if e.tracing {
			e.res.Trace = append(e.res.Trace, fmt.Sprintf("%4d [+%v] %s", e.res.Steps, e.now, tr.label))
		}
		switch {
		case tr.adv:
			e.now = earliest
			e.clockEvent()
		default:
			e.run(tr.t)
		}
		if !e.ch.Visit(Key{e.keyA, e.keyB, e.curSid()}) {
			e.res.Pruned = true
			return
		}
	}
}

func (e *exec) curSid() uint64 {
	if e.cur == nil || e.cur.done {
		return 0
	}
	return e.cur.sid
}

// run resumes t and waits until some thread parks or finishes.
func (e *exec) run(t *thread) {
	e.cur = t
	t.parked = false
	kind := uint64(t.op.kind)
	t.nev++
	t.nnote = 0
	t.vc.tick(t)
	t.wake <- struct{}{}
	<-e.parkCh
	// stamp the finished segment with the clock it ended with (includes everything it acquired)
	e.event(t, kind)
}

// event stamps one executed transition of t into the prefix key.
func (e *exec) event(t *thread, what uint64) {
	h := mix(mix(t.sid, uint64(t.nev)), mix(what, t.vc.hash(e)))
	e.keyA += h
	e.keyB += mix(h, 0x51ed27)
}

// Note folds an observed value into the running thread's history (choices,
// select cases, values that influence control flow but are not visible to HB).
func (e *exec) note(v uint64) {
	t := e.cur
	t.nnote++
	h := mix(mix(t.sid, uint64(t.nev)), mix(0xabcdef+uint64(t.nnote), v))
	e.keyA += h
	e.keyB += mix(h, 0x77)
}

func (e *exec) teardown() {
	e.poison = true
	for _, t := range e.threads {
		if t.done {
			continue
		}
		if !e.threads[0].done || t.id != 0 {
			lbl := "?"
			if t.op != nil {
				lbl = t.op.label
			}
			if (e.mainDone || t.id != 0) && !t.killed {
				e.res.Blocked = append(e.res.Blocked, t.name+" @ "+lbl)
			}
		}
	}
	// release parked threads one at a time; each unwinds with the sentinel
	for i := 0; i < len(e.threads); i++ {
		t := e.threads[i]
		if t.done {
			continue
		}
		e.cur = t
		t.wake <- struct{}{}
		for {
			d := <-e.parkCh
			if d == t && t.done {
				break
			}
			// a poisoned thread may spawn or park again while unwinding; keep releasing
			if !d.done {
				d.wake <- struct{}{}
			}
		}
	}
}

func chanPtr(c any) uintptr { return reflect.ValueOf(c).Pointer() }

func mix(a, b uint64) uint64 {
	x := a ^ (b + 0x9e3779b97f4a7c15 + (a << 6) + (a >> 2))
	x ^= x >> 33
	x *= 0xff51afd7ed558ccd
	x ^= x >> 33
	x *= 0xc4ceb9fe1a85ec53
	x ^= x >> 33
	return x
}

// ---- harness-facing API -------------------------------------------------------

// Go starts f as a managed thread.
func Go(site string, f func()) {
	e := ex
	if e == nil {
		panic("mcrt.Go outside an execution (" + site + ")")
	}
	if e.poison {
		return
	}
	p := e.cur
	name := fmt.Sprintf("%s#%d", shortSite(site), len(e.threads))
	t := e.newThread(p, name, site)
	e.startThread(t, f)
}

// GoNamed is Go with an explicit thread name (harness threads).
func GoNamed(name string, f func()) {
	e := ex
	if e.poison {
		return
	}
	t := e.newThread(e.cur, name, name)
	e.startThread(t, f)
}

func shortSite(s string) string {
	if i := strings.LastIndexByte(s, '/'); i >= 0 {
		s = s[i+1:]
	}
	return s
}

// Yield is a plain scheduling point.
func Yield(label string) {
	if !Active() {
		return
	}
	ex.point(&op{kind: opYield, label: label})
}

// Choose is an environment answer: option 0 is the default, every other
// option costs 1 in class c.
func Choose(c Class, kind string, labels ...string) int {
	if !Active() {
		return 0
	}
	e := ex
	if len(labels) <= 1 || e.det > 0 {
		return 0
	}
	opts := make([]Option, len(labels))
	for i, l := range labels {
		opts[i] = Option{Label: l, Class: c}
	}
	i := e.ch.Pick(kind, opts)
	if i < 0 || i >= len(labels) {
		panic("mcrt: chooser out of range")
	}
	e.note(uint64(i) + 1)
	if e.tracing {
		e.res.Trace = append(e.res.Trace, fmt.Sprintf("       %s chooses %s=%s", e.cur.name, kind, labels[i]))
	}
	return i
}

// WaitIdle parks the caller until no other thread can run and no timer is
// due; with advance it also lets the clock run until no timer is pending.
func WaitIdle(advance bool) {
	if !Active() {
		return
	}
	ex.point(&op{kind: opIdle, label: "wait-idle", idleAdv: advance})
}

// Observe appends a line to the observation log (hashed for replay checks).
func Observe(format string, args ...any) {
	if ex == nil {
		return
	}
	s := fmt.Sprintf(format, args...)
	ex.res.Log = append(ex.res.Log, s)
	if ex.tracing {
		ex.res.Trace = append(ex.res.Trace, "       # "+s)
	}
}

// Fail records an oracle violation for this execution.
func Fail(format string, args ...any) {
	if ex == nil {
		return
	}
	if ex.poison {
		// the execution is over and its threads are being unwound (a recover() in the code under test may have
		// swallowed the unwinding sentinel and let a thread run on): nothing it does now is a behaviour of the program
		return
	}
	s := fmt.Sprintf(format, args...)
	ex.res.Failures = append(ex.res.Failures, s)
	if ex.tracing {
		ex.res.Trace = append(ex.res.Trace, "       ! "+s)
	}
}

// ThreadName returns the running thread's name.
func ThreadName() string {
	if ex == nil || ex.cur == nil {
		return ""
	}
	return ex.cur.name
}

// Steps returns the number of transitions executed so far (a logical timestamp).
func Steps() int {
	if ex == nil {
		return 0
	}
	return ex.res.Steps
}

// BlockedOthers lists threads other than the caller that are parked on an
// operation that is not enabled right now.
func BlockedOthers() []string {
	e := ex
	var out []string
	for _, t := range e.threads {
		if t == e.cur || t.done || t.op == nil || t.killed {
			continue
		}
		if !e.opEnabled(t) {
			out = append(out, t.name+" @ "+t.op.label)
		}
	}
	sort.Strings(out)
	return out
}

// MapKeys returns the keys of m in an order the explorer owns (Go randomises map
// iteration per loop; un-owned it would break replay).
func MapKeys[M ~map[K]V, K comparable, V any](site string, m M) []K {
	keys := make([]K, 0, len(m))
	for k := range m {
		keys = append(keys, k)
	}
	sort.Slice(keys, func(i, j int) bool { return keyLess(keys[i], keys[j]) })
	if len(keys) < 2 {
		return keys
	}
	// the order is an environment answer (class Order): sorted by default; the alternatives put every other
	// element first at least once (reversed, and for three or more keys the rotations by one and by two)
	labels := []string{"sorted", "reversed"}
	if len(keys) > 2 {
		labels = append(labels, "rotated by 1")
	}
	if len(keys) > 3 {
		labels = append(labels, "rotated by 2")
	}
	switch Choose(Order, "map order "+site, labels...) {
	case 1:
		for i, j := 0, len(keys)-1; i < j; i, j = i+1, j-1 {
			keys[i], keys[j] = keys[j], keys[i]
		}
	case 2:
		keys = append(keys[1:], keys[0])
	case 3:
		keys = append(keys[2:], keys[:2]...)
	}
	return keys
}

func keyLess(a, b any) bool {
	switch x := a.(type) {
	case string:
		return x < b.(string)
	case int:
		return x < b.(int)
	case int64:
		return x < b.(int64)
	case uint64:
		return x < b.(uint64)
	case int32:
		return x < b.(int32)
	case uint32:
		return x < b.(uint32)
	}
	return fmt.Sprintf("%v", a) < fmt.Sprintf("%v", b)
}

var fsObj uint8

// FSPoint is a scheduling point before a file-system call; the file system is
// one object for happens-before purposes (all FS calls are mutually ordered).
func FSPoint(label string) {
	if !Active() {
		return
	}
	e := ex
	e.point(&op{kind: opFS, label: label})
	e.acqrel(e.obj(unsafe.Pointer(&fsObj)))
}

var netObj uint8

// NetPoint is the same for the fake network.
func NetPoint(label string) {
	if !Active() {
		return
	}
	e := ex
	e.point(&op{kind: opNet, label: label})
	e.acqrel(e.obj(unsafe.Pointer(&netObj)))
}

// Abort ends the execution right here (crash): no further transition is
// executed, every thread including the caller is torn down.
func Abort() {
	if ex == nil {
		return
	}
	ex.aborted = true
	panic(poisonSentinel)
}

// Aborted reports whether the current/last execution was ended by Abort.
func (r *Result) WasAborted() bool { return r.Aborted }

// KillOthers makes every thread except the caller dead to the scheduler (the
// process they belonged to has crashed) and disarms all timers. The caller
// goes on as the restarted process.
func KillOthers() {
	e := ex
	if e == nil {
		return
	}
	for _, t := range e.threads {
		if t != e.cur && !t.done {
			t.killed = true
		}
	}
	for _, tm := range e.timers {
		tm.armed = false
	}
}

// Deterministic brackets a phase (harness set-up) in which every choice takes
// its default and is not offered to the explorer.
func Deterministic(on bool) {
	if ex == nil {
		return
	}
	if on {
		ex.det++
	} else if ex.det > 0 {
		ex.det--
	}
}
