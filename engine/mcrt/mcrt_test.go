package mcrt

import (
	"fmt"
	"sort"
	"testing"
	"time"
)

func exploreAll(t *testing.T, b Bounds, nocache bool, body func()) (outcomes map[string]int, x *Explorer) {
	outcomes = map[string]int{}
	x = &Explorer{Bounds: b, Body: body, NoCache: nocache}
	x.OnExec = func(ch []int, r *Result) {
		if r.Pruned {
			return
		}
		k := fmt.Sprint(r.Log, r.Failures, len(r.Panics), r.Blocked)
		outcomes[k]++
	}
	x.Explore(nil)
	return
}

func keys(m map[string]int) []string {
	var l []string
	for k := range m {
		l = append(l, k)
	}
	sort.Strings(l)
	return l
}

// lost update: read; yield; write — needs one preemption
func TestLostUpdate(t *testing.T) {
	body := func() {
		x := 0
		var wg WaitGroup
		for i := 0; i < 2; i++ {
			wg.Add(1)
			GoNamed(fmt.Sprint("w", i), func() {
				defer wg.Done()
				AccOf(&x, false, "r")
				v := x
				Yield("between")
				AccOf(&x, true, "w")
				x = v + 1
			})
		}
		wg.Wait()
		Observe("x=%d", x)
	}
	o0, _ := exploreAll(t, Bounds{Preempt: 0, Switch: -1}, false, body)
	o1, x1 := exploreAll(t, Bounds{Preempt: 1, Switch: -1}, false, body)
	o1n, x1n := exploreAll(t, Bounds{Preempt: 1, Switch: -1}, true, body)
	t.Logf("p0 %v; p1 %v execs=%d pruned=%d; nocache execs=%d", keys(o0), keys(o1), x1.Execs, x1.PrunedExecs, x1n.Execs)
	if len(o0) != 2 { // Yield is a voluntary switch point: both outcomes reachable without preemption? x=2 only by default, x=1 by switching at yield
		t.Logf("note: outcomes with 0 preemptions: %v", keys(o0))
	}
	if len(o1) != 2 {
		t.Fatalf("expected both x=1 and x=2, got %v", keys(o1))
	}
	if fmt.Sprint(keys(o1)) != fmt.Sprint(keys(o1n)) {
		t.Fatalf("cache changed outcomes: %v vs %v", keys(o1), keys(o1n))
	}
}

func TestMutexProtects(t *testing.T) {
	body := func() {
		x := 0
		var mu Mutex
		var wg WaitGroup
		for i := 0; i < 3; i++ {
			wg.Add(1)
			GoNamed(fmt.Sprint("w", i), func() {
				defer wg.Done()
				mu.Lock()
				v := x
				Yield("between")
				x = v + 1
				mu.Unlock()
			})
		}
		wg.Wait()
		Observe("x=%d", x)
	}
	o, x := exploreAll(t, Bounds{Preempt: 2, Switch: -1}, false, body)
	t.Logf("%v execs=%d pruned=%d states=%d", keys(o), x.Execs, x.PrunedExecs, len(x.States))
	if len(o) != 1 {
		t.Fatalf("mutex did not protect: %v", keys(o))
	}
}

func TestDeadlock(t *testing.T) {
	body := func() {
		var a, b Mutex
		var wg WaitGroup
		wg.Add(2)
		GoNamed("t1", func() { defer wg.Done(); a.Lock(); b.Lock(); b.Unlock(); a.Unlock() })
		GoNamed("t2", func() { defer wg.Done(); b.Lock(); a.Lock(); a.Unlock(); b.Unlock() })
		wg.Wait()
		Observe("done")
	}
	o, _ := exploreAll(t, Bounds{Preempt: 1, Switch: -1}, false, body)
	t.Logf("%v", keys(o))
	if len(o) != 2 {
		t.Fatalf("expected a deadlock outcome and a normal one: %v", keys(o))
	}
}

func TestChannels(t *testing.T) {
	body := func() {
		ch := make(chan int)
		bch := make(chan int, 2)
		done := make(chan struct{})
		GoNamed("prod", func() {
			Send(ch, 1)
			Send(bch, 2)
			Send(bch, 3)
			Close(bch)
		})
		GoNamed("cons", func() {
			v := Recv(ch)
			s := v
			for {
				x, ok := Recv2(bch)
				if !ok {
					break
				}
				s = s*10 + x
			}
			Observe("s=%d", s)
			Close(done)
		})
		Recv(done)
	}
	o, x := exploreAll(t, Bounds{Preempt: 2, Switch: -1}, false, body)
	t.Logf("%v execs=%d", keys(o), x.Execs)
	if len(o) != 1 || keys(o)[0] != "[s=123] [] 0 []" {
		t.Fatalf("unexpected: %v", keys(o))
	}
}

func TestSelectAndTimers(t *testing.T) {
	body := func() {
		ch := make(chan int, 1)
		GoNamed("late", func() {
			Sleep(5 * time.Second)
			Send(ch, 7)
		})
		tm := NewTimer(10 * time.Second)
		var v int
		switch Select(RecvCase(ch, &v, nil), RecvCase(tm.C, nil, nil)) {
		case 0:
			Observe("got %d at %v", v, VirtualNow())
		case 1:
			Observe("timeout at %v", VirtualNow())
		}
	}
	o, x := exploreAll(t, Bounds{Preempt: 1, Switch: -1, Time: 1}, false, body)
	t.Logf("%v execs=%d", keys(o), x.Execs)
	oz, _ := exploreAll(t, Bounds{Preempt: 1, Switch: -1, Time: 0}, false, body)
	if len(oz) != 1 || len(o) < 3 {
		t.Fatalf("unexpected: %v / %v", keys(oz), keys(o))
	}
	body2 := func() {
		fired := false
		var mu Mutex
		AfterFunc(time.Second, func() { mu.Lock(); fired = true; mu.Unlock() })
		Yield("work")
		mu.Lock()
		Observe("fired=%v", fired)
		mu.Unlock()
		WaitIdle(true)
	}
	o0, _ := exploreAll(t, Bounds{Preempt: 1, Switch: -1, Time: 0}, false, body2)
	o1, _ := exploreAll(t, Bounds{Preempt: 1, Switch: -1, Time: 1}, false, body2)
	t.Logf("t0 %v t1 %v", keys(o0), keys(o1))
	if len(o0) != 1 || len(o1) != 2 {
		t.Fatalf("time deviation should expose the early firing: %v %v", keys(o0), keys(o1))
	}
}

func TestRaceDetector(t *testing.T) {
	body := func() {
		var x int
		var mu Mutex
		var wg WaitGroup
		wg.Add(2)
		GoNamed("a", func() { defer wg.Done(); mu.Lock(); AccOf(&x, true, "a"); x = 1; mu.Unlock() })
		GoNamed("b", func() { defer wg.Done(); Yield("y"); AccOf(&x, false, "b"); _ = x })
		wg.Wait()
	}
	races := 0
	x := &Explorer{Bounds: Bounds{Preempt: 0, Switch: -1}, Body: body}
	x.OnExec = func(ch []int, r *Result) { races += len(r.Races) }
	x.Explore(nil)
	if races == 0 {
		t.Fatalf("race not found")
	}
}

func TestReplayDeterminism(t *testing.T) {
	body := func() {
		ch := make(chan int, 3)
		var wg WaitGroup
		for i := 0; i < 3; i++ {
			wg.Add(1)
			GoNamed(fmt.Sprint("w", i), func() { defer wg.Done(); Yield("a"); Send(ch, i) })
		}
		wg.Wait()
		Observe("%d%d%d", Recv(ch), Recv(ch), Recv(ch))
	}
	var all [][]int
	x := &Explorer{Bounds: Bounds{Preempt: 1, Switch: -1}, Body: body, NoCache: true}
	res := map[string]*Result{}
	x.OnExec = func(ch []int, r *Result) { all = append(all, append([]int{}, ch...)); res[EncodeChoices(ch)] = r }
	x.Explore(nil)
	for _, c := range all {
		if !x.Confirm(c, res[EncodeChoices(c)], 2) {
			t.Fatalf("replay of %v differs", c)
		}
	}
	t.Logf("%d executions replayed identically", len(all))
}
