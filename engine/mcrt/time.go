package mcrt

import (
	"context"
	"fmt"
	"time"
)

// Virtual time. The clock only moves in explicit "advance" transitions of the
// controller; Now() reads it. Timers fire as controller transitions once due.

type Timer struct {
	C        <-chan time.Time
	c        chan time.Time
	f        func()        // AfterFunc body (runs as a new managed thread)
	internal func()        // controller-side action (context deadlines)
	deadline time.Duration // virtual
	period   time.Duration // tickers
	armed    bool
	label    string
	sid      uint64
	nfire    int
	armVC    vclock
	e        *exec
}

// never is the deadline of timers that cannot fire within any horizon
// ("forever" keep-alives are math.MaxInt64 durations).
const never = time.Duration(1 << 62)

func (e *exec) deadlineFor(d time.Duration) time.Duration {
	dl := e.now + d
	if d > 0 && (dl < e.now || dl > never) {
		return never
	}
	return dl
}

func (e *exec) clock() *thread { return e.threads[1] }

func (e *exec) clockEvent() {
	c := e.clock()
	c.nev++
	c.vc.tick(c)
	h := mix(mix(c.sid, uint64(c.nev)), uint64(e.now))
	e.keyA += h
	e.keyB += mix(h, 0x51ed27)
}

func (e *exec) clockAcq() { e.cur.vc.join(e.clock().vc) }
func (e *exec) clockAcqRel() {
	c := e.clock()
	e.cur.vc.join(c.vc)
	c.vc.join(e.cur.vc)
}

func (e *exec) newTimer(d time.Duration, label string) *Timer {
	t := e.cur
	t.nobj++
	tm := &Timer{deadline: e.deadlineFor(d), armed: true, label: label, sid: mix(t.sid, uint64(t.nobj)+1<<32), e: e}
	e.clockAcqRel()
	tm.armVC = t.vc.clone()
	e.timers = append(e.timers, tm)
	return tm
}

func (e *exec) fire(tm *Timer) {
	tm.nfire++
	if tm.period > 0 {
		tm.deadline += tm.period
	} else {
		tm.armed = false
		e.gcTimers()
	}
	vc := tm.armVC.clone()
	vc.join(e.clock().vc)
	h := mix(mix(tm.sid, uint64(tm.nfire)), vc.hash(e))
	e.keyA += h
	e.keyB += mix(h, 0x51ed27)
	switch {
	case tm.internal != nil:
		ctxCancelVC.join(vc)
		tm.internal()
	case tm.f != nil:
		t := &thread{id: len(e.threads), name: fmt.Sprintf("timer:%s#%d", tm.label, len(e.threads)), wake: make(chan struct{}), site: tm.label}
		t.sid = mix(tm.sid, uint64(tm.nfire)+7)
		t.vc = vc
		e.threads = append(e.threads, t)
		e.startThread(t, tm.f)
	default:
		select {
		case tm.c <- baseTime.Add(e.now):
			cs := e.chanSt(chanPtr(tm.c), tm.c)
			cs.q = append(cs.q, vc)
		default:
		}
	}
	// firing does not change which thread is "current"
}

// fireDue fires every armed timer whose deadline has been reached, in
// (deadline, creation) order. Firing is not a choice: *when the clock moves*
// is the choice (class Time), and timer bodies run as ordinary threads.
func (e *exec) fireDue() {
	for {
		var best *Timer
		for _, tm := range e.timers {
			if tm.armed && tm.deadline <= e.now && (best == nil || tm.deadline < best.deadline) {
				best = tm
			}
		}
		if best == nil {
			return
		}
		if e.tracing {
			e.res.Trace = append(e.res.Trace, fmt.Sprintf("       fire %s (deadline +%v)", best.label, best.deadline))
		}
		e.fire(best)
	}
}

func (e *exec) gcTimers() {
	if len(e.timers) < 64 {
		return
	}
	out := e.timers[:0]
	for _, t := range e.timers {
		if t.armed {
			out = append(out, t)
		}
	}
	e.timers = out
}

func (tm *Timer) drain() {
	if tm.c == nil {
		return
	}
	select {
	case <-tm.c:
		if tm.e != nil && tm.e == ex {
			cs := tm.e.chanSt(chanPtr(tm.c), tm.c)
			if len(cs.q) > 0 {
				cs.q = cs.q[1:]
			}
		}
	default:
	}
}

func (tm *Timer) Stop() bool {
	if !Active() || tm.e != ex {
		was := tm.armed
		tm.armed = false
		return was
	}
	tm.e.clockAcqRel()
	was := tm.armed
	tm.armed = false
	tm.drain()
	return was
}

func (tm *Timer) Reset(d time.Duration) bool {
	if !Active() || tm.e != ex {
		return false
	}
	e := tm.e
	e.clockAcqRel()
	was := tm.armed
	tm.drain()
	tm.deadline = e.deadlineFor(d)
	tm.armVC = e.cur.vc.clone()
	if !tm.armed {
		tm.armed = true
		found := false
		for _, x := range e.timers {
			if x == tm {
				found = true
				break
			}
		}
		if !found {
			e.timers = append(e.timers, tm)
		}
	}
	return was
}

func NewTimer(d time.Duration) *Timer {
	if !Active() {
		c := make(chan time.Time, 1)
		return &Timer{C: c, c: c}
	}
	tm := ex.newTimer(d, "timer")
	tm.c = make(chan time.Time, 1)
	tm.C = tm.c
	return tm
}

func AfterFunc(d time.Duration, f func()) *Timer {
	if !Active() {
		return &Timer{f: f}
	}
	tm := ex.newTimer(d, "afterfunc")
	tm.f = f
	return tm
}

func After(d time.Duration) <-chan time.Time { return NewTimer(d).C }

type Ticker struct {
	C  <-chan time.Time
	tm *Timer
}

func NewTicker(d time.Duration) *Ticker {
	if d <= 0 {
		panic("non-positive interval for NewTicker")
	}
	if !Active() {
		c := make(chan time.Time, 1)
		return &Ticker{C: c, tm: &Timer{c: c}}
	}
	tm := ex.newTimer(d, "ticker")
	tm.period = d
	tm.c = make(chan time.Time, 1)
	tm.C = tm.c
	return &Ticker{C: tm.c, tm: tm}
}

func (t *Ticker) Stop() { t.tm.Stop() }
func (t *Ticker) Reset(d time.Duration) {
	t.tm.period = d
	t.tm.Reset(d)
}

func Tick(d time.Duration) <-chan time.Time { return NewTicker(d).C }

func Now() time.Time {
	if ex == nil {
		return baseTime
	}
	if !ex.poison {
		ex.clockAcq()
	}
	return baseTime.Add(ex.now)
}

func Since(t time.Time) time.Duration { return Now().Sub(t) }
func Until(t time.Time) time.Duration { return t.Sub(Now()) }

func Sleep(d time.Duration) {
	if !Active() {
		if ex != nil {
			panic(poisonSentinel)
		}
		return
	}
	e := ex
	e.clockAcqRel()
	if d <= 0 {
		e.point(&op{kind: opYield, label: "Sleep(0)"})
		return
	}
	e.point(&op{kind: opSleep, label: fmt.Sprintf("Sleep(%v)", d), until: e.deadlineFor(d)})
	e.clockAcq()
}

// VirtualNow returns the virtual time elapsed in this execution.
func VirtualNow() time.Duration {
	if ex == nil {
		return 0
	}
	return ex.now
}

// PendingTimers counts armed timers (harness oracles: "no live timer").
func PendingTimers() int {
	n := 0
	for _, t := range ex.timers {
		if t.armed && t.deadline < never {
			n++
		}
	}
	return n
}

// ---- contexts ------------------------------------------------------------------------

type deadlineCtx struct {
	context.Context // inner cancel context (child of the parent)
	deadline        time.Time
	timedOut        *bool
}

func (c *deadlineCtx) Deadline() (time.Time, bool) { return c.deadline, true }
func (c *deadlineCtx) Err() error {
	if *c.timedOut {
		return context.DeadlineExceeded
	}
	return c.Context.Err()
}

// WithDeadlineD is context.WithTimeout on the virtual clock. The returned
// context reports DeadlineExceeded itself; contexts derived from it with the
// standard library report Canceled after the deadline (documented deviation).
func WithTimeout(parent context.Context, d time.Duration) (context.Context, context.CancelFunc) {
	inner, cancel := context.WithCancel(parent)
	to := false
	c := &deadlineCtx{Context: inner, deadline: Now().Add(d), timedOut: &to}
	if pd, ok := parent.Deadline(); ok && pd.Before(c.deadline) {
		c.deadline = pd
	}
	if !Active() {
		return c, cancel
	}
	e := ex
	var tm *Timer
	if d <= 0 {
		to = true
		cancel()
	} else {
		tm = e.newTimer(d, "ctx-deadline")
		tm.internal = func() {
			if inner.Err() == nil {
				to = true
				cancel()
			}
		}
	}
	return c, func() {
		if Active() && e == ex {
			ctxCancelVC.join(e.cur.vc)
			if tm != nil {
				tm.armed = false
			}
		}
		cancel()
	}
}

func WithDeadline(parent context.Context, t time.Time) (context.Context, context.CancelFunc) {
	return WithTimeout(parent, t.Sub(Now()))
}

// WithCancel is context.WithCancel plus a happens-before edge from cancel to
// whoever observes Done.
func WithCancel(parent context.Context) (context.Context, context.CancelFunc) {
	ctx, cancel := context.WithCancel(parent)
	return ctx, func() {
		if Active() {
			ctxCancelVC.join(ex.cur.vc)
		}
		cancel()
	}
}

func WithCancelCause(parent context.Context) (context.Context, context.CancelCauseFunc) {
	ctx, cancel := context.WithCancelCause(parent)
	return ctx, func(err error) {
		if Active() {
			ctxCancelVC.join(ex.cur.vc)
		}
		cancel(err)
	}
}

// AfterFuncCtx is context.AfterFunc under the controlled scheduler: a managed thread waits for the context to be
// done (or for stop) and then runs f. The thread exists from the registration on, as a blocked thread; a context that
// is never done keeps it blocked, which quiescence detection treats like any other parked goroutine.
func AfterFuncCtx(ctx context.Context, f func()) (stop func() bool) {
	if !Active() {
		return context.AfterFunc(ctx, f)
	}
	stopCh := make(chan struct{})
	state := 0 // 0 pending, 1 running or done, 2 stopped
	GoNamed("ctx-afterfunc", func() {
		var a, b struct{}
		var oka, okb bool
		if Select(RecvCase(ctx.Done(), &a, &oka), RecvCase((<-chan struct{})(stopCh), &b, &okb)) == 0 && state == 0 {
			state = 1
			f()
		}
	})
	return func() bool {
		if state != 0 {
			return false
		}
		state = 2
		Close((chan<- struct{})(stopCh))
		return true
	}
}
