// Package atomic is the controlled stand-in for sync/atomic in instrumented files.
package atomic

import "github.com/ollama/ollama/zzverif/mcrt"

type (
	Int32  = mcrt.Int32
	Int64  = mcrt.Int64
	Uint32 = mcrt.Uint32
	Uint64 = mcrt.Uint64
	Bool   = mcrt.Bool
	Value  = mcrt.Value
)

type Pointer[T any] struct{ mcrt.Pointer[T] }

func AddInt32(p *int32, d int32) int32              { return mcrt.AddInt32(p, d) }
func AddInt64(p *int64, d int64) int64              { return mcrt.AddInt64(p, d) }
func AddUint32(p *uint32, d uint32) uint32          { return mcrt.AddUint32(p, d) }
func AddUint64(p *uint64, d uint64) uint64          { return mcrt.AddUint64(p, d) }
func LoadInt32(p *int32) int32                      { return mcrt.LoadInt32(p) }
func LoadInt64(p *int64) int64                      { return mcrt.LoadInt64(p) }
func LoadUint32(p *uint32) uint32                   { return mcrt.LoadUint32(p) }
func LoadUint64(p *uint64) uint64                   { return mcrt.LoadUint64(p) }
func StoreInt32(p *int32, v int32)                  { mcrt.StoreInt32(p, v) }
func StoreInt64(p *int64, v int64)                  { mcrt.StoreInt64(p, v) }
func StoreUint32(p *uint32, v uint32)               { mcrt.StoreUint32(p, v) }
func StoreUint64(p *uint64, v uint64)               { mcrt.StoreUint64(p, v) }
func CompareAndSwapInt32(p *int32, o, n int32) bool { return mcrt.CompareAndSwapInt32(p, o, n) }
func CompareAndSwapInt64(p *int64, o, n int64) bool { return mcrt.CompareAndSwapInt64(p, o, n) }
