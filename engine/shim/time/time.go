// Package time is the controlled stand-in for the standard time package in
// instrumented files: clock reads, sleeps and timers run on mcrt's virtual
// clock; everything else is the standard library's.
package time

import (
	gotime "time"

	"github.com/ollama/ollama/zzverif/mcrt"
)

type (
	Duration   = gotime.Duration
	Time       = gotime.Time
	Month      = gotime.Month
	Weekday    = gotime.Weekday
	Location   = gotime.Location
	ParseError = gotime.ParseError
	Timer      = mcrt.Timer
	Ticker     = mcrt.Ticker
)

const (
	Nanosecond  = gotime.Nanosecond
	Microsecond = gotime.Microsecond
	Millisecond = gotime.Millisecond
	Second      = gotime.Second
	Minute      = gotime.Minute
	Hour        = gotime.Hour

	Layout      = gotime.Layout
	ANSIC       = gotime.ANSIC
	UnixDate    = gotime.UnixDate
	RFC822      = gotime.RFC822
	RFC1123     = gotime.RFC1123
	RFC3339     = gotime.RFC3339
	RFC3339Nano = gotime.RFC3339Nano
	Kitchen     = gotime.Kitchen
	Stamp       = gotime.Stamp
	DateTime    = gotime.DateTime
	DateOnly    = gotime.DateOnly
	TimeOnly    = gotime.TimeOnly

	January = gotime.January
)

var (
	UTC   = gotime.UTC
	Local = gotime.Local
)

func Now() Time                             { return mcrt.Now() }
func Since(t Time) Duration                 { return mcrt.Since(t) }
func Until(t Time) Duration                 { return mcrt.Until(t) }
func Sleep(d Duration)                      { mcrt.Sleep(d) }
func After(d Duration) <-chan Time          { return mcrt.After(d) }
func Tick(d Duration) <-chan Time           { return mcrt.Tick(d) }
func AfterFunc(d Duration, f func()) *Timer { return mcrt.AfterFunc(d, f) }
func NewTimer(d Duration) *Timer            { return mcrt.NewTimer(d) }
func NewTicker(d Duration) *Ticker          { return mcrt.NewTicker(d) }

func Date(year int, month Month, day, hour, min, sec, nsec int, loc *Location) Time {
	return gotime.Date(year, month, day, hour, min, sec, nsec, loc)
}
func Unix(sec, nsec int64) Time                   { return gotime.Unix(sec, nsec) }
func UnixMilli(ms int64) Time                     { return gotime.UnixMilli(ms) }
func Parse(layout, value string) (Time, error)    { return gotime.Parse(layout, value) }
func ParseDuration(s string) (Duration, error)    { return gotime.ParseDuration(s) }
func LoadLocation(name string) (*Location, error) { return gotime.LoadLocation(name) }
func FixedZone(name string, offset int) *Location { return gotime.FixedZone(name, offset) }
