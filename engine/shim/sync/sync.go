// Package sync is the controlled stand-in for the standard sync package in instrumented files.
package sync

import "github.com/ollama/ollama/zzverif/mcrt"

type (
	Mutex     = mcrt.Mutex
	RWMutex   = mcrt.RWMutex
	WaitGroup = mcrt.WaitGroup
	Once      = mcrt.Once
	Cond      = mcrt.Cond
	Map       = mcrt.Map
	Pool      = mcrt.Pool
	Locker    = mcrt.Locker
)

func NewCond(l Locker) *Cond                                   { return mcrt.NewCond(l) }
func OnceFunc(f func()) func()                                 { return mcrt.OnceFunc(f) }
func OnceValue[T any](f func() T) func() T                     { return mcrt.OnceValue(f) }
func OnceValues[T1, T2 any](f func() (T1, T2)) func() (T1, T2) { return mcrt.OnceValues(f) }
