// Package os is the controlled stand-in for the standard os package in
// instrumented files: file-system calls go through mcos (points, crash and
// fault injection); everything else is the standard library's.
package os

import (
	"io/fs"
	gos "os"
	"time"

	"github.com/ollama/ollama/zzverif/mcos"
)

type (
	File         = mcos.File
	FileInfo     = gos.FileInfo
	FileMode     = gos.FileMode
	DirEntry     = gos.DirEntry
	PathError    = gos.PathError
	LinkError    = gos.LinkError
	SyscallError = gos.SyscallError
	Signal       = gos.Signal
	Process      = gos.Process
	Root         = gos.Root
)

const (
	O_RDONLY = gos.O_RDONLY
	O_WRONLY = gos.O_WRONLY
	O_RDWR   = gos.O_RDWR
	O_APPEND = gos.O_APPEND
	O_CREATE = gos.O_CREATE
	O_EXCL   = gos.O_EXCL
	O_SYNC   = gos.O_SYNC
	O_TRUNC  = gos.O_TRUNC

	PathSeparator     = gos.PathSeparator
	PathListSeparator = gos.PathListSeparator

	ModeDir     = gos.ModeDir
	ModeSymlink = gos.ModeSymlink
	ModePerm    = gos.ModePerm
	ModeType    = gos.ModeType
)

var (
	ErrNotExist         = gos.ErrNotExist
	ErrExist            = gos.ErrExist
	ErrInvalid          = gos.ErrInvalid
	ErrPermission       = gos.ErrPermission
	ErrClosed           = gos.ErrClosed
	ErrDeadlineExceeded = gos.ErrDeadlineExceeded

	Stdin  = gos.Stdin
	Stdout = gos.Stdout
	Stderr = gos.Stderr
	Args   = gos.Args

	Interrupt = gos.Interrupt
	Kill      = gos.Kill
)

func Open(name string) (*File, error) { return mcos.Open(name) }
func OpenFile(name string, flag int, perm FileMode) (*File, error) {
	return mcos.OpenFile(name, flag, perm)
}
func Create(name string) (*File, error)             { return mcos.Create(name) }
func CreateTemp(dir, pattern string) (*File, error) { return mcos.CreateTemp(dir, pattern) }
func MkdirTemp(dir, pattern string) (string, error) { return mcos.MkdirTemp(dir, pattern) }
func Stat(name string) (FileInfo, error)            { return mcos.Stat(name) }
func Lstat(name string) (FileInfo, error)           { return mcos.Lstat(name) }
func ReadFile(name string) ([]byte, error)          { return mcos.ReadFile(name) }
func WriteFile(name string, data []byte, perm FileMode) error {
	return mcos.WriteFile(name, data, perm)
}
func ReadDir(name string) ([]DirEntry, error)   { return mcos.ReadDir(name) }
func Readlink(name string) (string, error)      { return mcos.Readlink(name) }
func DirFS(dir string) fs.FS                    { return mcos.DirFS(dir) }
func MkdirAll(path string, perm FileMode) error { return mcos.MkdirAll(path, perm) }
func Mkdir(path string, perm FileMode) error    { return mcos.Mkdir(path, perm) }
func Remove(name string) error                  { return mcos.Remove(name) }
func RemoveAll(name string) error               { return mcos.RemoveAll(name) }
func Rename(o, n string) error                  { return mcos.Rename(o, n) }
func Symlink(o, n string) error                 { return mcos.Symlink(o, n) }
func Link(o, n string) error                    { return mcos.Link(o, n) }
func Truncate(name string, size int64) error    { return mcos.Truncate(name, size) }
func Chmod(name string, m FileMode) error       { return mcos.Chmod(name, m) }
func Chtimes(name string, a, m time.Time) error { return mcos.Chtimes(name, a, m) }

func OpenRoot(name string) (*Root, error)   { return gos.OpenRoot(name) }
func CopyFS(dir string, fsys fs.FS) error   { return gos.CopyFS(dir, fsys) }
func Getenv(k string) string                { return gos.Getenv(k) }
func LookupEnv(k string) (string, bool)     { return gos.LookupEnv(k) }
func Setenv(k, v string) error              { return gos.Setenv(k, v) }
func Unsetenv(k string) error               { return gos.Unsetenv(k) }
func Environ() []string                     { return gos.Environ() }
func ExpandEnv(s string) string             { return gos.ExpandEnv(s) }
func Exit(code int)                         { gos.Exit(code) }
func Getpid() int                           { return gos.Getpid() }
func Getwd() (string, error)                { return gos.Getwd() }
func Hostname() (string, error)             { return gos.Hostname() }
func UserHomeDir() (string, error)          { return gos.UserHomeDir() }
func UserCacheDir() (string, error)         { return gos.UserCacheDir() }
func UserConfigDir() (string, error)        { return gos.UserConfigDir() }
func Executable() (string, error)           { return gos.Executable() }
func TempDir() string                       { return gos.TempDir() }
func IsNotExist(err error) bool             { return gos.IsNotExist(err) }
func IsExist(err error) bool                { return gos.IsExist(err) }
func IsPermission(err error) bool           { return gos.IsPermission(err) }
func IsTimeout(err error) bool              { return gos.IsTimeout(err) }
func SameFile(a, b FileInfo) bool           { return gos.SameFile(a, b) }
func FindProcess(pid int) (*Process, error) { return gos.FindProcess(pid) }
