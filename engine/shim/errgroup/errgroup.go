// Package errgroup re-implements golang.org/x/sync/errgroup on mcrt primitives.
package errgroup

import (
	"context"
	"fmt"

	"github.com/ollama/ollama/zzverif/mcrt"
)

type Group struct {
	cancel func(error)
	wg     mcrt.WaitGroup
	mu     mcrt.Mutex
	sem    chan struct{}
	err    error
	once   bool
}

func WithContext(ctx context.Context) (*Group, context.Context) {
	ctx, cancel := mcrt.WithCancelCause(ctx)
	return &Group{cancel: cancel}, ctx
}

func (g *Group) done() {
	if g.sem != nil {
		mcrt.Recv(g.sem)
	}
	g.wg.Done()
}

func (g *Group) Wait() error {
	g.wg.Wait()
	if g.cancel != nil {
		g.cancel(g.err)
	}
	return g.err
}

func (g *Group) run(f func() error) {
	mcrt.Go("errgroup.Go", func() {
		defer g.done()
		if err := f(); err != nil {
			g.mu.Lock()
			first := !g.once
			if first {
				g.once = true
				g.err = err
			}
			g.mu.Unlock()
			if first && g.cancel != nil {
				g.cancel(g.err)
			}
		}
	})
}

func (g *Group) Go(f func() error) {
	if g.sem != nil {
		mcrt.Send(g.sem, struct{}{})
	}
	g.wg.Add(1)
	g.run(f)
}

func (g *Group) TryGo(f func() error) bool {
	if g.sem != nil {
		if mcrt.Select(mcrt.SendCase(g.sem, struct{}{}), mcrt.DefaultCase()) == 1 {
			return false
		}
	}
	g.wg.Add(1)
	g.run(f)
	return true
}

func (g *Group) SetLimit(n int) {
	if n < 0 {
		g.sem = nil
		return
	}
	if len(g.sem) != 0 {
		panic(fmt.Errorf("errgroup: modify limit while %v goroutines in the group are still active", len(g.sem)))
	}
	g.sem = make(chan struct{}, n)
}
