// Package context is the controlled stand-in for the standard context package
// in instrumented files: deadlines run on the virtual clock and cancellation
// carries a happens-before edge; contexts themselves are the standard ones.
package context

import (
	gocontext "context"
	"time"

	"github.com/ollama/ollama/zzverif/mcrt"
)

type (
	Context         = gocontext.Context
	CancelFunc      = gocontext.CancelFunc
	CancelCauseFunc = gocontext.CancelCauseFunc
)

var (
	Canceled         = gocontext.Canceled
	DeadlineExceeded = gocontext.DeadlineExceeded
)

func Background() Context                                          { return gocontext.Background() }
func TODO() Context                                                { return gocontext.TODO() }
func WithValue(p Context, k, v any) Context                        { return gocontext.WithValue(p, k, v) }
func WithoutCancel(p Context) Context                              { return gocontext.WithoutCancel(p) }
func Cause(c Context) error                                        { return gocontext.Cause(c) }
func WithCancel(p Context) (Context, CancelFunc)                   { return mcrt.WithCancel(p) }
func WithCancelCause(p Context) (Context, CancelCauseFunc)         { return mcrt.WithCancelCause(p) }
func WithTimeout(p Context, d time.Duration) (Context, CancelFunc) { return mcrt.WithTimeout(p, d) }
func WithDeadline(p Context, t time.Time) (Context, CancelFunc)    { return mcrt.WithDeadline(p, t) }
func AfterFunc(c Context, f func()) (stop func() bool)             { return mcrt.AfterFuncCtx(c, f) }
