// Package filepath is the stand-in for path/filepath in instrumented files:
// directory traversals are file-system observation points, the rest is pure.
package filepath

import (
	"io/fs"
	gofp "path/filepath"

	"github.com/ollama/ollama/zzverif/mcos"
)

type WalkFunc = gofp.WalkFunc

const (
	Separator     = gofp.Separator
	ListSeparator = gofp.ListSeparator
)

var (
	SkipDir       = gofp.SkipDir
	SkipAll       = gofp.SkipAll
	ErrBadPattern = gofp.ErrBadPattern
)

func Join(elem ...string) string                   { return gofp.Join(elem...) }
func Dir(p string) string                          { return gofp.Dir(p) }
func Base(p string) string                         { return gofp.Base(p) }
func Ext(p string) string                          { return gofp.Ext(p) }
func Clean(p string) string                        { return gofp.Clean(p) }
func Abs(p string) (string, error)                 { return gofp.Abs(p) }
func Rel(b, t string) (string, error)              { return gofp.Rel(b, t) }
func Split(p string) (string, string)              { return gofp.Split(p) }
func SplitList(p string) []string                  { return gofp.SplitList(p) }
func ToSlash(p string) string                      { return gofp.ToSlash(p) }
func FromSlash(p string) string                    { return gofp.FromSlash(p) }
func IsAbs(p string) bool                          { return gofp.IsAbs(p) }
func IsLocal(p string) bool                        { return gofp.IsLocal(p) }
func VolumeName(p string) string                   { return gofp.VolumeName(p) }
func Match(pattern, name string) (bool, error)     { return gofp.Match(pattern, name) }
func EvalSymlinks(p string) (string, error)        { return gofp.EvalSymlinks(p) }
func Localize(p string) (string, error)            { return gofp.Localize(p) }
func Walk(root string, fn WalkFunc) error          { return mcos.Walk(root, fn) }
func WalkDir(root string, fn fs.WalkDirFunc) error { return mcos.WalkDir(root, fn) }
func Glob(pattern string) ([]string, error)        { return mcos.Glob(pattern) }
