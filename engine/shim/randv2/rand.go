// Package rand is a deterministic stand-in for math/rand/v2 in instrumented files
// (retry jitter must not perturb replay). Fixed stream per execution is not needed:
// the values only scale sleeps on the virtual clock.
package rand

func Float64() float64                                              { return 0.5 }
func IntN(n int) int                                                { return n / 2 }
func Int64N(n int64) int64                                          { return n / 2 }
func N[T ~int | ~int64 | ~uint | ~uint64 | ~int32 | ~uint32](n T) T { return n / 2 }
