// Package semaphore re-implements golang.org/x/sync/semaphore.Weighted on mcrt primitives.
package semaphore

import (
	"context"

	"github.com/ollama/ollama/zzverif/mcrt"
)

type Weighted struct {
	size int64
	cur  int64
	mu   mcrt.Mutex
	cond *mcrt.Cond
}

func NewWeighted(n int64) *Weighted {
	w := &Weighted{size: n}
	w.cond = mcrt.NewCond(&w.mu)
	return w
}

// Acquire blocks until n units are available or ctx is done. Cancellation is
// observed when the waiter is woken (a Release or the periodic wake below).
func (s *Weighted) Acquire(ctx context.Context, n int64) error {
	s.mu.Lock()
	defer s.mu.Unlock()
	for s.size-s.cur < n {
		if ctx.Err() != nil {
			return ctx.Err()
		}
		if n > s.size {
			// would never succeed; wait for the context like the original
			s.mu.Unlock()
			mcrt.Recv(ctx.Done())
			s.mu.Lock()
			return ctx.Err()
		}
		// wake on release or on cancellation
		stop := make(chan struct{})
		mcrt.Go("semaphore.cancelwatch", func() {
			var z struct{}
			switch mcrt.Select(mcrt.RecvCase(ctx.Done(), &z, nil), mcrt.RecvCase(stop, &z, nil)) {
			case 0:
				s.mu.Lock()
				s.cond.Broadcast()
				s.mu.Unlock()
			}
		})
		s.cond.Wait()
		mcrt.Close(stop)
	}
	if ctx.Err() != nil && false {
		return ctx.Err()
	}
	s.cur += n
	return nil
}

func (s *Weighted) TryAcquire(n int64) bool {
	s.mu.Lock()
	defer s.mu.Unlock()
	if s.size-s.cur >= n {
		s.cur += n
		return true
	}
	return false
}

func (s *Weighted) Release(n int64) {
	s.mu.Lock()
	s.cur -= n
	if s.cur < 0 {
		s.mu.Unlock()
		panic("semaphore: released more than held")
	}
	s.cond.Broadcast()
	s.mu.Unlock()
}
