#!/bin/bash
# Builds the vx driver and warms the build cache for every registered check. Offline, standard library only.
set -e
cd "$(dirname "$0")"
export GOFLAGS=-mod=mod GOPROXY=off
mkdir -p bin evidence replays
go build -o bin/vx ./tools/vx
if [ "$1" != "--no-warm" ]; then
  for id in $(jq -r '.checks[].property_id' MANIFEST.json); do
    ./bin/vx build "$id" || exit 2
  done
fi
echo "setup ok"
