#!/bin/bash
# Builds the vx driver. Offline, standard library only.
set -e
cd "$(dirname "$0")"
export GOFLAGS=-mod=mod GOPROXY=off
mkdir -p bin evidence replays
go build -o bin/vx ./tools/vx
if [ "$1" != "--no-warm" ]; then
  for d in harness/*/; do
    id=$(basename "$d")
    if [ -f "$d/harness.json" ]; then ./bin/vx build "$id" || exit 2; fi
  done
fi
echo "setup ok"
