package llm

// C16 harness, boundary self-check.
//
// The main enumeration only visits FreeMemory values around the decision
// boundaries it *predicts* (c16Reach / c16SubsetSums). This file checks that
// prediction against the real estimator: for a few small configurations it
// sweeps one GPU's FreeMemory over EVERY integer from 0 to beyond the point
// where everything fits, for every combination of enumerated values of the
// other GPUs, and looks where the estimator's result actually changes. Each
// such change point v (result at v differs from result at v-1) must be
// bracketed by the enumerated set: v-1 and v both belong to it. A miss does not
// say anything about ollama; it says the enumeration is thinner than claimed,
// and is reported as not-exhaustive.
//
// The swept cases also go through the oracle (they are real inputs).

import (
	"fmt"

	"github.com/ollama/ollama/api"
	"github.com/ollama/ollama/discover"
	"github.com/ollama/ollama/zzverif/evid"
)

type c16Self struct {
	N      int `json:"gpus"`
	Axis   int `json:"axis"`
	NumGPU int `json:"num_gpu"`
}

func c16SelfGroups(thorough bool) []c16Group {
	mk := func(s c16Shape, ov uint64, n, ng int) []c16Group {
		var out []c16Group
		for axis := 0; axis < n; axis++ {
			out = append(out, c16Group{Shape: s, Ctx: 4, Batch: 512, Parallel: 1, Overhead: ov, Self: &c16Self{N: n, Axis: axis, NumGPU: ng}})
		}
		return out
	}
	var gs []c16Group
	gs = append(gs, mk(c16Shape{Arch: "llama", Blocks: 2, Profile: "growing", Output: "small"}, 0, 1, -1)...)
	gs = append(gs, mk(c16Shape{Arch: "llama", Blocks: 2, Profile: "growing", Output: "small"}, 0, 2, -1)...)
	if thorough {
		gs = append(gs, mk(c16Shape{Arch: "llama", Blocks: 3, Profile: "growing", Output: "small"}, c16OvSml, 1, -1)...)
		gs = append(gs, mk(c16Shape{Arch: "llama", Blocks: 3, Profile: "growing", Output: "small"}, c16OvSml, 2, -1)...)
		gs = append(gs, mk(c16Shape{Arch: "llama", Blocks: 3, Profile: "hole", Output: "tied"}, 0, 2, 2)...)
		gs = append(gs, mk(c16Shape{Arch: "llama", Blocks: 3, Profile: "uniform", Output: "small", Vision: true}, 0, 2, -1)...)
		gs = append(gs, mk(c16Shape{Arch: "llama", Blocks: 2, Profile: "uniform", Output: "none"}, 0, 3, -1)...)
		gs = append(gs, mk(c16Shape{Arch: "llama", Blocks: 2, Profile: "growing", Output: "none"}, 0, 3, 1)...)
	}
	return gs
}

func c16SelfCheck(g *c16Group, sub *evid.Run) {
	cpu0 := c16CPUms()
	defer func() { sub.Add("worker_cpu_ms", c16CPUms()-cpu0) }()
	c16OwnEnv(g.Overhead)
	f := c16Model(g.Shape)
	base := api.DefaultOptions()
	n, axis, ng := g.Self.N, g.Self.Axis, g.Self.NumGPU
	lib := "cuda"
	blocks, hasOut := g.Shape.Blocks, c16HasOutput(g.Shape)
	cp := c16Components(f, g, nil, base, lib, n)
	reach := c16Reach(n, cp.Eff, cp.L0, cp.Out)
	mins := make([]uint64, n)
	sets := make([][]uint64, n)
	member := map[uint64]bool{}
	for p := 0; p < n; p++ {
		zs := []uint64{0}
		if cp.Gzo > 0 {
			if p == 0 && n > 1 {
				zs = []uint64{cp.Gzo}
			} else {
				zs = []uint64{0, cp.Gzo}
			}
		}
		sets[p] = c16FreeSet(&cp, g.Overhead, 0, zs, nil, reach[p], -1, -1, c16Eps3)
	}
	for _, v := range sets[axis] {
		member[v] = true
	}
	top := g.Overhead + cp.G + cp.Gzo + 2*cp.L0 + cp.Out + 4
	for _, e := range cp.Eff {
		top += e
	}
	opts := c16Opts(base, g, ng)
	b1 := make([]discover.GpuInfo, 0, 8)
	b2 := make([]discover.GpuInfo, 0, 8)

	// the other GPUs range over their enumerated sets; the swept axis is pinned to a single dummy value in the product
	others := make([][]uint64, n)
	for p := range others {
		if p == axis {
			others[p] = []uint64{0}
		} else {
			others[p] = sets[p]
		}
	}
	free := make([]uint64, n)
	var sweeps, evals, changes, missed int64
	var firstMiss string
	expired := false
	c16Product(others, free, func() {
		if expired || sub.Expired() {
			expired = true
			return
		}
		sweeps++
		prev := ""
		for v := uint64(0); v <= top; v++ {
			free[axis] = v
			res := c16Run(f, nil, opts, g.Parallel, lib, free, mins, b1, b2)
			evals++
			e := &res.Est
			sig := fmt.Sprint(e.Layers, e.TensorSplit, e.GPUSizes, e.VRAMSize, e.TotalSize, res.Fit, res.Panic)
			if v > 0 && sig != prev {
				changes++
				if !member[v] || !member[v-1] {
					missed++
					if firstMiss == "" {
						firstMiss = fmt.Sprintf("shape %+v gpus=%d num_gpu=%d free=%v: result changes between FreeMemory[%d]=%d and %d", g.Shape, n, ng, append([]uint64{}, free...), axis, v-1, v)
					}
				}
			}
			prev = sig
			if viols := c16Check(blocks, hasOut, g.Overhead, ng, free, &res); len(viols) > 0 {
				c := c16Case{c16Group: *g, Library: lib, NumGPU: ng, Free: append([]uint64{}, free...), Min: append([]uint64{}, mins...)}
				c.Self = nil
				for _, vv := range viols {
					sub.Violation(vv.sig, vv.msg+"\n"+c.String()+"\n"+c16Describe(&res), c)
				}
			}
		}
	})
	sub.Add("selfcheck_sweeps", sweeps)
	sub.Add("selfcheck_sweep_evaluations", evals)
	sub.Add("selfcheck_result_change_points", changes)
	sub.Add("selfcheck_change_points_not_bracketed", missed)
	if expired {
		sub.NotExhaustive(fmt.Sprintf("time budget reached inside boundary self-check %+v gpus=%d axis=%d", g.Shape, n, axis))
	}
	if missed > 0 {
		sub.NotExhaustive(fmt.Sprintf("boundary self-check: %d of %d result changes of the real estimator along a swept FreeMemory axis are not bracketed by enumerated values (first: %s)", missed, changes, firstMiss))
	}
}
