package main

import "github.com/ollama/ollama/llm"

func main() { llm.ZZVerifC16() }
