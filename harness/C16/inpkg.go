package llm

// C16 harness: exhaustive bounded enumeration of (model shape, options, GPU
// list, num_gpu, OLLAMA_GPU_OVERHEAD) configurations through the real
// EstimateGPULayers and PredictServerFit.
//
// GPU free-memory values are not arbitrary numbers: for every configuration a
// probe run of the estimator (all GPUs with practically unlimited memory) yields
// the graph sizes, projector cost and output-layer cost the estimator works
// with; together with the per-block sizes (GroupLayers + GraphSize, the same
// functions the estimator calls) they give every value the estimator can
// compare FreeMemory with:
//
//	overhead + [projector] + max(graph) + minimum + layerBuffer + (sum of a subset of layers / output)
//
// and each GPU's FreeMemory ranges over those thresholds -1, +0, +1 (plus 0,
// "exactly the overhead" and "practically unlimited"), so every decision of the
// estimator is driven to both sides of its boundary in every combination.
//
// The oracle never uses those numbers; it only compares the returned estimate
// with the inputs (see c16Check).

import (
	"bytes"
	"encoding/json"
	"fmt"
	"io"
	"os"
	"path/filepath"
	"runtime"
	"runtime/debug"
	"runtime/pprof"
	"sort"
	"strconv"
	"strings"
	"syscall"
	"time"

	"github.com/ollama/ollama/api"
	"github.com/ollama/ollama/discover"
	"github.com/ollama/ollama/envconfig"
	"github.com/ollama/ollama/fs/ggml"
	"github.com/ollama/ollama/zzverif/evid"
)

const (
	c16Huge    = uint64(1) << 50   // "practically unlimited" free memory (exact in a float64, like every other value used)
	c16MinBig  = uint64(1)<<30 + 7 // a MinimumMemory larger than any graph+layer of the tiny models
	c16MinSml  = uint64(5)         // a tiny MinimumMemory
	c16OvSml   = uint64(3)         // a tiny OLLAMA_GPU_OVERHEAD
	c16OvMid   = uint64(70001)     // larger than a small-context layer
	c16OvBig   = uint64(1)<<31 + 1 // larger than everything else in the model
	c16Unit    = uint64(1000)      // weight bytes of an ordinary block
	c16AllK    = 99                // "no limit on subset cardinality"
	c16ProjEnv = "VERIF_C16_PROJECTOR"
)

// ---- case description (also the replay format) ------------------------------

type c16Shape struct {
	Arch    string `json:"arch"`    // llama | gemma3 | starcoder2 (no graph formula in ggml.GraphSize)
	Blocks  int    `json:"blocks"`  // <arch>.block_count
	Profile string `json:"profile"` // uniform | bigearly | biglate | growing | hole
	Output  string `json:"output"`  // none | small | big | tied
	Vision  bool   `json:"vision"`  // vision tower inside the model file (<arch>.vision.* KV + v.* tensors)
}

type c16Group struct { // one unit of work for a worker process
	Shape    c16Shape `json:"shape"`
	Ctx      int      `json:"ctx"`
	Batch    int      `json:"batch"`
	Parallel int      `json:"parallel"`
	ProjFile bool     `json:"projector_file"`
	Overhead uint64   `json:"overhead"`
	Idx      int      `json:"group_index,omitempty"`
	Of       int      `json:"groups,omitempty"`
	Self     *c16Self `json:"selfcheck,omitempty"` // boundary self-check item, see inpkg_selfcheck.go
	Part     *c16Part `json:"part,omitempty"`      // nil: every level with <=2 GPUs; else one slice of a level with >=3 GPUs
}

// c16Part: levels with three or more GPUs are cut into one work item per
// (level, library, minimum pattern, num_gpu) so that no single item is long.
type c16Part struct {
	Level  int    `json:"level"`
	Lib    string `json:"library"`
	MinPat string `json:"min_pat"`
	NumGPU int    `json:"num_gpu"`
}

type c16Case struct {
	c16Group
	Library string   `json:"library"`
	NumGPU  int      `json:"num_gpu"`
	Free    []uint64 `json:"free"`
	Min     []uint64 `json:"min"`
}

func (c *c16Case) String() string {
	proj := "none"
	if c.ProjFile {
		proj = "file"
	} else if c.Shape.Vision {
		proj = "vision-kv"
	}
	return fmt.Sprintf("model{%s blocks=%d profile=%s output=%s} num_ctx=%d(x%d parallel) num_batch=%d projector=%s library=%s gpus=%d free=%v minimum=%v num_gpu=%d OLLAMA_GPU_OVERHEAD=%d",
		c.Shape.Arch, c.Shape.Blocks, c.Shape.Profile, c.Shape.Output, c.Ctx*c.Parallel, c.Parallel, c.Batch, proj,
		c.Library, len(c.Free), c.Free, c.Min, c.NumGPU, c.Overhead)
}

// ---- tiny GGUF models ---------------------------------------------------------

type c16MemWS struct {
	buf []byte
	pos int64
}

func (m *c16MemWS) Write(p []byte) (int, error) {
	end := m.pos + int64(len(p))
	if end > int64(len(m.buf)) {
		m.buf = append(m.buf, make([]byte, end-int64(len(m.buf)))...)
	}
	copy(m.buf[m.pos:], p)
	m.pos = end
	return len(p), nil
}

func (m *c16MemWS) Seek(off int64, whence int) (int64, error) {
	switch whence {
	case io.SeekStart:
		m.pos = off
	case io.SeekCurrent:
		m.pos += off
	case io.SeekEnd:
		m.pos = int64(len(m.buf)) + off
	}
	if m.pos < 0 {
		return 0, fmt.Errorf("negative seek")
	}
	return m.pos, nil
}

type c16Zeros int64

func (z c16Zeros) WriteTo(w io.Writer) (int64, error) {
	chunk := make([]byte, 4096)
	var n int64
	for n < int64(z) {
		k := int64(z) - n
		if k > int64(len(chunk)) {
			k = int64(len(chunk))
		}
		m, err := w.Write(chunk[:k])
		n += int64(m)
		if err != nil {
			return n, err
		}
	}
	return n, nil
}

func c16Tensor(name string, size uint64) ggml.Tensor {
	return ggml.Tensor{Name: name, Kind: 24 /* I8: one byte per element */, Shape: []uint64{size}, WriterTo: c16Zeros(size)}
}

// c16BlockWeights returns the weight bytes of each block (0 = block has no tensors).
func c16BlockWeights(s c16Shape) []uint64 {
	w := make([]uint64, s.Blocks)
	for i := range w {
		w[i] = c16Unit
		switch s.Profile {
		case "bigearly":
			if i == 0 {
				w[i] = 40 * c16Unit
			}
		case "biglate":
			if i == s.Blocks-1 {
				w[i] = 40 * c16Unit
			}
		case "growing":
			w[i] = uint64(i+1) * c16Unit
		case "hole":
			if i == 1 {
				w[i] = 0
			}
		}
	}
	return w
}

func c16HasOutput(s c16Shape) bool { return s.Output != "none" }

func c16BuildModel(s c16Shape) (*ggml.GGML, error) {
	a := s.Arch
	kv := ggml.KV{
		"general.architecture":         a,
		a + ".context_length":          uint32(8192),
		a + ".embedding_length":        uint32(8),
		a + ".block_count":             uint32(s.Blocks),
		a + ".attention.head_count":    uint32(2),
		a + ".attention.head_count_kv": uint32(1),
		"tokenizer.ggml.tokens":        []string{"a", "b", "c"},
		"tokenizer.ggml.scores":        []float32{0, 0, 0},
		"tokenizer.ggml.token_type":    []int32{0, 0, 0},
	}
	if a == "gemma3" {
		kv[a+".attention.sliding_window"] = uint32(16)
	}
	var ts []ggml.Tensor
	for i, w := range c16BlockWeights(s) {
		if w == 0 {
			continue
		}
		ts = append(ts, c16Tensor(fmt.Sprintf("blk.%d.attn_q.weight", i), w/4))
		ts = append(ts, c16Tensor(fmt.Sprintf("blk.%d.ffn_up.weight", i), w-w/4))
	}
	switch s.Output {
	case "small":
		ts = append(ts, c16Tensor("output_norm.weight", 16), c16Tensor("output.weight", 300))
	case "big":
		ts = append(ts, c16Tensor("output_norm.weight", 16), c16Tensor("output.weight", 1000000))
	case "tied":
		ts = append(ts, c16Tensor("token_embd.weight", 700))
	}
	if s.Vision {
		kv[a+".vision.block_count"] = uint32(1)
		kv[a+".vision.image_size"] = uint32(8)
		kv[a+".vision.patch_size"] = uint32(4)
		kv[a+".vision.num_channels"] = uint32(3)
		kv[a+".vision.attention.head_count"] = uint32(2)
		kv[a+".vision.embedding_length"] = uint32(8)
		ts = append(ts, c16Tensor("v.patch_embd.weight", 400), c16Tensor("v.blk.0.attn_q.weight", 200), c16Tensor("mm.0.weight", 64))
	}
	ws := &c16MemWS{}
	if err := ggml.WriteGGUF(ws, kv, ts); err != nil {
		return nil, err
	}
	f, _, err := ggml.Decode(bytes.NewReader(ws.buf), 0) // what LoadModel does with the file
	return f, err
}

// c16WriteProjector writes a separate projector GGUF (arch mllama so that both
// projector weights and projector graph are non-zero) and returns its path.
func c16WriteProjector(dir string) (string, error) {
	kv := ggml.KV{
		"general.architecture":               "mllama",
		"mllama.vision.image_size":           uint32(8),
		"mllama.vision.patch_size":           uint32(4),
		"mllama.vision.num_channels":         uint32(3),
		"mllama.vision.max_num_tiles":        uint32(2),
		"mllama.vision.embedding_length":     uint32(8),
		"mllama.vision.attention.head_count": uint32(2),
	}
	// (larger than graph + a layer of every model shape: a GPU that is charged for it without having been asked shows)
	ts := []ggml.Tensor{c16Tensor("v.patch_embd.weight", 1500000), c16Tensor("mm.0.weight", 64)}
	p := filepath.Join(dir, "projector.gguf")
	fh, err := os.Create(p)
	if err != nil {
		return "", err
	}
	defer fh.Close()
	if err := ggml.WriteGGUF(fh, kv, ts); err != nil {
		return "", err
	}
	return p, nil
}

// ---- running one case ---------------------------------------------------------

type c16Res struct {
	Est     MemoryEstimate
	Fit     bool
	FitVRAM uint64
	Panic   string
}

func c16Opts(base api.Options, g *c16Group, numGPU int) api.Options {
	o := base
	o.NumCtx = g.Ctx * g.Parallel // what the scheduler passes: per-sequence context times parallel
	o.NumBatch = g.Batch
	o.NumGPU = numGPU
	return o
}

func c16Gpus(buf []discover.GpuInfo, lib string, free, mins []uint64) []discover.GpuInfo {
	buf = buf[:0]
	for i := range free {
		var g discover.GpuInfo
		g.Library = lib
		g.ID = strconv.Itoa(i)
		g.FreeMemory = free[i]
		g.TotalMemory = free[i]
		g.MinimumMemory = mins[i]
		buf = append(buf, g)
	}
	return buf
}

func c16Run(f *ggml.GGML, projectors []string, opts api.Options, par int, lib string, free, mins []uint64, b1, b2 []discover.GpuInfo) (res c16Res) {
	defer func() {
		if p := recover(); p != nil {
			res.Panic = fmt.Sprint(p)
		}
	}()
	res.Est = EstimateGPULayers(c16Gpus(b1, lib, free, mins), f, projectors, opts, par)
	res.Fit, res.FitVRAM = PredictServerFit(c16Gpus(b2, lib, free, mins), f, nil, projectors, opts, par)
	return res
}

// ---- the oracle -----------------------------------------------------------------

type c16Viol struct{ sig, msg string }

// c16Check compares a result with the inputs. Nothing here depends on how the
// free-memory values were chosen.
func c16Check(blocks int, hasOutput bool, overhead uint64, numGPU int, free []uint64, res *c16Res) []c16Viol {
	var out []c16Viol
	if res.Panic != "" {
		return []c16Viol{{"C16/panic/estimator", "the estimator panicked instead of reporting an estimate: " + res.Panic}}
	}
	e := &res.Est

	// per-GPU layer counts, when reported
	var split []int
	splitOK := true
	if e.TensorSplit != "" {
		for _, p := range strings.Split(e.TensorSplit, ",") {
			n, err := strconv.Atoi(p)
			if err != nil {
				splitOK = false
				break
			}
			split = append(split, n)
		}
	}

	// (1) no GPU is assigned more than its free memory less the configured overhead
	for i, sz := range e.GPUSizes {
		if sz == 0 || i >= len(free) {
			continue
		}
		if sz > free[i] || free[i]-sz < overhead {
			kind := "gpu-with-layers"
			if splitOK && i < len(split) && split[i] == 0 {
				kind = "gpu-without-layers"
			}
			out = append(out, c16Viol{"C16/overcommit/" + kind,
				fmt.Sprintf("GPU %d is assigned %d bytes but has free=%d less overhead=%d, i.e. only %d available (exceeds by %d)",
					i, sz, free[i], overhead, int64(free[i])-int64(overhead), int64(sz)+int64(overhead)-int64(free[i]))})
			break
		}
	}

	// (2) layer count bounded by the model (plus output) and by the user's limit
	if e.Layers > blocks+1 {
		out = append(out, c16Viol{"C16/layers/more-than-model", fmt.Sprintf("Layers=%d but the model has %d blocks plus output", e.Layers, blocks)})
	}
	if numGPU >= 0 && e.Layers > numGPU {
		out = append(out, c16Viol{"C16/layers/more-than-num_gpu", fmt.Sprintf("Layers=%d but the user's limit is num_gpu=%d", e.Layers, numGPU)})
	}

	// (3) a reported per-GPU split sums to the layer count
	if e.TensorSplit != "" {
		if !splitOK {
			out = append(out, c16Viol{"C16/split/malformed", fmt.Sprintf("TensorSplit=%q is not a list of integers", e.TensorSplit)})
		} else {
			sum := 0
			for _, n := range split {
				sum += n
			}
			if sum != e.Layers {
				out = append(out, c16Viol{"C16/split/sum-differs-from-layers", fmt.Sprintf("TensorSplit=%q sums to %d but Layers=%d", e.TensorSplit, sum, e.Layers)})
			}
		}
	}

	// (4) total requirement at least the GPU-resident part
	if e.TotalSize < e.VRAMSize {
		out = append(out, c16Viol{"C16/total-below-vram", fmt.Sprintf("TotalSize=%d < VRAMSize=%d", e.TotalSize, e.VRAMSize)})
	}

	// (5) "fits completely" only if everything (that was asked for) was placed
	if res.Fit {
		need := blocks
		if hasOutput {
			need++
		}
		what := fmt.Sprintf("all %d layers of the model", need)
		if numGPU >= 0 && numGPU < need {
			need = numGPU
			what = fmt.Sprintf("the %d layers requested by num_gpu", need)
		}
		if e.Layers < need {
			out = append(out, c16Viol{"C16/fit/declared-with-unplaced-layers",
				fmt.Sprintf("PredictServerFit reported a complete fit but the estimate places only %d layers, not %s", e.Layers, what)})
		}
	}
	return out
}

// ---- decision boundaries ----------------------------------------------------------

type c16Comp struct {
	G   uint64   // max(partial graph, full graph) as used for this library / GPU count
	GP  uint64   // partial graph
	GF  uint64   // full graph
	Gzo uint64   // projector weights + graph (first admitted GPU only)
	Out uint64   // output layer bytes
	L0  uint64   // the "one layer buffer"
	Eff []uint64 // bytes the estimator charges for block i
}

func c16Components(f *ggml.GGML, g *c16Group, projectors []string, base api.Options, lib string, n int) c16Comp {
	free := make([]uint64, n)
	mins := make([]uint64, n)
	for i := range free {
		free[i] = c16Huge
	}
	opts := c16Opts(base, g, -1)
	probe := EstimateGPULayers(c16Gpus(nil, lib, free, mins), f, projectors, opts, g.Parallel) // the probe run
	cp := c16Comp{GP: probe.graphPartialOffload, GF: probe.graphFullOffload,
		Gzo: probe.projectorWeights + probe.projectorGraph, Out: probe.memoryLayerOutput}
	cp.G = max(cp.GP, cp.GF)

	ctx := uint64(opts.NumCtx)
	if len(projectors) > 0 {
		ctx = max(ctx, 2048)
	}
	kv, _, _ := f.GraphSize(ctx, min(ctx, uint64(opts.NumBatch)), g.Parallel, "")
	layers := f.Tensors().GroupLayers()
	var ls uint64
	if b, ok := layers["blk.0"]; ok {
		ls = b.Size()
	}
	if len(kv) > 0 {
		ls += kv[0]
	}
	cp.L0 = ls
	for i := 0; i < g.Shape.Blocks; i++ {
		if b, ok := layers[fmt.Sprintf("blk.%d", i)]; ok {
			ls = b.Size() + kv[i]
		}
		cp.Eff = append(cp.Eff, ls)
	}
	return cp
}

type c16Sum struct {
	v    uint64
	card int
}

// c16SubsetSums: every sum of a sub-multiset of elems, with the smallest number
// of elements producing it, sorted by value.
func c16SubsetSums(elems []uint64) []c16Sum {
	best := map[uint64]int{}
	for mask := 0; mask < 1<<len(elems); mask++ {
		var v uint64
		card := 0
		for i, e := range elems {
			if mask&(1<<i) != 0 {
				v += e
				card++
			}
		}
		if c, ok := best[v]; !ok || card < c {
			best[v] = card
		}
	}
	out := make([]c16Sum, 0, len(best))
	for v, c := range best {
		out = append(out, c16Sum{v, c})
	}
	sort.Slice(out, func(i, j int) bool { return out[i].v < out[j].v })
	return out
}

// c16FreeSet: the FreeMemory values one GPU ranges over.
func c16FreeSet(cp *c16Comp, ov, mn uint64, zs []uint64, sums []c16Sum, reach []uint64, k, kCross int, eps []int64) []uint64 {
	set := map[uint64]struct{}{0: {}, c16Huge: {}}
	if ov > 0 {
		set[ov] = struct{}{}
	}
	add := func(base uint64, kmax int) {
		for _, s := range sums {
			if s.card > kmax {
				continue
			}
			for _, e := range eps {
				v := int64(base+s.v) + e
				if v >= 0 {
					set[uint64(v)] = struct{}{}
				}
			}
		}
	}
	for _, z := range zs {
		add(ov+mn+cp.G+cp.L0+z, k)
		for _, rv := range reach {
			for _, e := range eps {
				if v := int64(ov+mn+cp.G+cp.L0+z+rv) + e; v >= 0 {
					set[uint64(v)] = struct{}{}
				}
			}
		}
		// thresholds as an estimator that forgot overhead and/or minimum would see them
		cross := func(base uint64) {
			if kCross > 0 {
				add(base, kCross)
			} else if kCross == 0 { // the admission threshold only
				set[base+cp.L0] = struct{}{}
				set[base+cp.L0+1] = struct{}{}
			}
		}
		if ov > 0 {
			cross(mn + cp.G + cp.L0 + z)
		}
		if mn > 0 {
			cross(ov + cp.G + cp.L0 + z)
		}
		if ov > 0 && mn > 0 {
			cross(cp.G + cp.L0 + z)
		}
	}
	out := make([]uint64, 0, len(set))
	for v := range set {
		out = append(out, v)
	}
	sort.Slice(out, func(i, j int) bool { return out[i] < out[j] })
	return out
}

// c16Reach computes, for every GPU position of an n-GPU list, every value s such
// that the estimator can compare that GPU's FreeMemory with
// (overhead + projector + graph + minimum + layer buffer) + s: it replays the
// round-robin placement for every set of admitted GPUs and every "drop-out
// history" (GPU p accepts its first c[p] offers and is dropped at the next one)
// and records the bytes already placed plus the layer on offer at each decision,
// including the output layer's offers at the end. Only used to choose inputs.
func c16Reach(n int, eff []uint64, l0, out uint64) [][]uint64 {
	nb := len(eff)
	sets := make([]map[uint64]struct{}, n)
	for p := range sets {
		sets[p] = map[uint64]struct{}{0: {}, l0: {}} // below admission; admission (= buffer + one more layer)
	}
	never := nb + 1
	alloc := make([]uint64, n)
	acc := make([]int, n)
	c := make([]int, n)
	for mask := 1; mask < 1<<n; mask++ {
		var adm []int
		for p := 0; p < n; p++ {
			if mask&(1<<p) != 0 {
				adm = append(adm, p)
			}
		}
		for i := range c {
			c[i] = 0
		}
		for {
			list := append([]int{}, adm...)
			for p := range alloc {
				alloc[p], acc[p] = 0, 0
			}
			placed := 0
			for i := 0; i < nb; i++ {
				for j := len(list); j > 0; j-- {
					g := list[i%j]
					sets[g][alloc[g]+eff[i]] = struct{}{}
					if acc[g] < c[g] {
						alloc[g] += eff[i]
						acc[g]++
						placed++
						break
					}
					list = append(list[:i%j], list[i%j+1:]...)
				}
			}
			if out > 0 {
				for j := len(list); j > 0; j-- {
					g := list[placed%j]
					sets[g][alloc[g]+out] = struct{}{}
				}
			}
			// next history over the admitted GPUs
			k := len(adm) - 1
			for ; k >= 0; k-- {
				c[adm[k]]++
				if c[adm[k]] <= never {
					break
				}
				c[adm[k]] = 0
			}
			if k < 0 {
				break
			}
		}
	}
	res := make([][]uint64, n)
	for p, m := range sets {
		for v := range m {
			res[p] = append(res[p], v)
		}
		sort.Slice(res[p], func(i, j int) bool { return res[p][i] < res[p][j] })
	}
	return res
}

// ---- enumeration plan ----------------------------------------------------------------

type c16Level struct {
	N         int      `json:"gpus"`
	Opts      string   `json:"opts"`       // all | lite | one : which (ctx,batch,parallel) combinations run this level
	MinBlocks int      `json:"min_blocks"` // model shapes with fewer blocks skip this level
	MaxBlocks int      `json:"max_blocks"` // model shapes with more blocks skip this level
	Profiles  []string `json:"profiles"`   // nil = all
	Outputs   []string `json:"outputs"`    // nil = all
	Vision    string   `json:"vision"`     // all | none | some (vision tower only with uniform profile and small/none output)
	Proj      string   `json:"proj_file"`  // all | nofile
	Sums      string   `json:"sums"`       // subsets: thresholds with any <=K layers/output; reach: all thresholds reachable by round-robin placement with drop-outs
	K         int      `json:"k"`
	KCross    int      `json:"k_cross"` // thresholds with <=KCross layers computed without overhead and/or minimum; -1 none
	Eps       []int64  `json:"eps"`
	Libs      []string `json:"libs"`
	NumGPU    string   `json:"num_gpu"`   // all: {-1,0,1,B,B+1,999} (thorough also 2,B-1) | six: the first list | core: {-1,1,B,999}
	MinPats   []string `json:"min_pats"`  // zero | big | small | alt
	Overs     []uint64 `json:"overheads"` // nil = all
	Vector    string   `json:"vector"`    // product | pattern
}

type c16Plan struct {
	Blocks    []int      `json:"blocks"`
	Profiles  []string   `json:"profiles"`
	Outputs   []string   `json:"outputs"`
	Ctx       []int      `json:"ctx"`
	Batch     []int      `json:"batch"`
	Parallel  []int      `json:"parallel"`
	Overheads []uint64   `json:"overheads"`
	Extra     []c16Shape `json:"extra_shapes"`
	Levels    []c16Level `json:"levels"`
}

var c16Eps3 = []int64{-1, 0, 1}

func c16MakePlan(thorough bool) c16Plan {
	p := c16Plan{
		Blocks:   []int{0, 1, 2, 3, 5},
		Profiles: []string{"uniform", "bigearly", "biglate", "growing", "hole"},
		Outputs:  []string{"none", "small", "big", "tied"},
		Ctx:      []int{4, 2048},
		Batch:    []int{1, 512},
		Parallel: []int{1, 4},
	}
	cm := []string{"cuda", "metal"}
	cmc := []string{"cuda", "metal", "cpu"}
	zb := []string{"zero", "big"}
	ug := []string{"uniform", "growing"}
	ns := []string{"none", "small"}
	if !thorough {
		p.Overheads = []uint64{0, c16OvMid}
		// an architecture GraphSize has no formula for: the estimator falls back to a graph estimate of its own
		p.Extra = []c16Shape{
			{Arch: "starcoder2", Blocks: 2, Profile: "uniform", Output: "small"},
			{Arch: "starcoder2", Blocks: 3, Profile: "growing", Output: "none"},
		}
		p.Levels = []c16Level{
			{N: 1, Opts: "all", MaxBlocks: 5, Vision: "some", Proj: "all", Sums: "subsets", K: c16AllK, KCross: 1, Eps: c16Eps3, Libs: cmc, NumGPU: "all", MinPats: zb, Vector: "product"},
			{N: 2, Opts: "one", MaxBlocks: 3, Vision: "some", Proj: "all", Sums: "reach", KCross: 0, Eps: c16Eps3, Libs: cm, NumGPU: "all", MinPats: zb, Vector: "product"},
			{N: 2, Opts: "one", MinBlocks: 4, MaxBlocks: 5, Vision: "none", Proj: "nofile", Sums: "reach", KCross: -1, Eps: c16Eps3, Libs: cm, NumGPU: "core", MinPats: []string{"zero"}, Vector: "product"},
			{N: 3, Opts: "one", MaxBlocks: 3, Profiles: ug, Outputs: ns, Vision: "none", Proj: "nofile", Sums: "reach", KCross: -1, Eps: c16Eps3, Libs: cm, NumGPU: "core", MinPats: []string{"zero"}, Vector: "product"},
			{N: 4, Opts: "one", MaxBlocks: 3, Profiles: []string{"uniform"}, Outputs: []string{"small"}, Vision: "none", Proj: "nofile", Sums: "subsets", K: 1, KCross: -1, Eps: c16Eps3, Libs: []string{"cuda"}, NumGPU: "core", MinPats: []string{"zero"}, Vector: "product"},
			// projector / vision tower with three GPUs: the GPU that is charged for the projector need not be the first of the list
			{N: 3, Opts: "one", MaxBlocks: 2, Profiles: []string{"uniform"}, Outputs: []string{"small"}, Vision: "some", Proj: "all", Sums: "reach", KCross: -1, Eps: c16Eps3, Libs: []string{"cuda"}, NumGPU: "core", MinPats: []string{"zero"}, Vector: "product"},
		}
		return p
	}
	p.Overheads = []uint64{0, c16OvSml, c16OvMid, c16OvBig}
	p.Extra = []c16Shape{
		{Arch: "llama", Blocks: 8, Profile: "uniform", Output: "small"},
		{Arch: "llama", Blocks: 8, Profile: "uniform", Output: "big"},
		{Arch: "gemma3", Blocks: 1, Profile: "uniform", Output: "small"},
		{Arch: "gemma3", Blocks: 3, Profile: "growing", Output: "tied", Vision: true},
		{Arch: "gemma3", Blocks: 7, Profile: "uniform", Output: "small"},
		{Arch: "gemma3", Blocks: 7, Profile: "uniform", Output: "none", Vision: true},
		{Arch: "starcoder2", Blocks: 2, Profile: "uniform", Output: "small"},
		{Arch: "starcoder2", Blocks: 3, Profile: "growing", Output: "none"},
		{Arch: "starcoder2", Blocks: 5, Profile: "biglate", Output: "big"},
	}
	zbs := []string{"zero", "big", "small"}
	core := []uint64{0, c16OvMid}
	nsb := []string{"none", "small", "big"}
	p.Levels = []c16Level{
		{N: 1, Opts: "all", MaxBlocks: 8, Vision: "all", Proj: "all", Sums: "subsets", K: c16AllK, KCross: 1, Eps: c16Eps3, Libs: cmc, NumGPU: "all", MinPats: zbs, Vector: "product"},
		{N: 2, Opts: "lite", MaxBlocks: 8, Vision: "all", Proj: "all", Sums: "reach", KCross: 0, Eps: c16Eps3, Libs: cm, NumGPU: "six", MinPats: []string{"zero", "big", "alt"}, Overs: core, Vector: "product"},
		{N: 2, Opts: "all", MaxBlocks: 3, Vision: "some", Proj: "all", Sums: "reach", KCross: 0, Eps: c16Eps3, Libs: cmc, NumGPU: "core", MinPats: []string{"small"}, Overs: []uint64{c16OvSml}, Vector: "product"},
		{N: 3, Opts: "one", MaxBlocks: 5, Outputs: nsb, Vision: "none", Proj: "nofile", Sums: "reach", KCross: -1, Eps: c16Eps3, Libs: cm, NumGPU: "core", MinPats: []string{"zero"}, Overs: core, Vector: "product"},
		{N: 3, Opts: "one", MaxBlocks: 3, Vision: "some", Proj: "nofile", Sums: "reach", KCross: -1, Eps: c16Eps3, Libs: cm, NumGPU: "core", MinPats: []string{"alt"}, Overs: []uint64{c16OvMid}, Vector: "product"},
		{N: 4, Opts: "one", MaxBlocks: 3, Profiles: ug, Outputs: []string{"small"}, Vision: "none", Proj: "nofile", Sums: "reach", KCross: -1, Eps: c16Eps3, Libs: cm, NumGPU: "core", MinPats: []string{"zero"}, Overs: []uint64{c16OvMid}, Vector: "product"},
		{N: 3, Opts: "one", MaxBlocks: 3, Profiles: ug, Outputs: ns, Vision: "some", Proj: "all", Sums: "reach", KCross: -1, Eps: c16Eps3, Libs: cm, NumGPU: "core", MinPats: []string{"zero"}, Overs: core, Vector: "product"},
		{N: 6, Opts: "one", MaxBlocks: 8, Profiles: ug, Vision: "none", Proj: "nofile", Sums: "subsets", K: 2, KCross: -1, Eps: c16Eps3, Libs: cm, NumGPU: "core", MinPats: zb, Overs: core, Vector: "pattern"},
		{N: 8, Opts: "one", MaxBlocks: 8, Profiles: ug, Vision: "none", Proj: "nofile", Sums: "subsets", K: 2, KCross: -1, Eps: c16Eps3, Libs: cm, NumGPU: "core", MinPats: zb, Overs: core, Vector: "pattern"},
	}
	return p
}

func (p *c16Plan) shapes() []c16Shape {
	var out []c16Shape
	extraDone := false
	for _, b := range p.Blocks { // simplest first
		if b > 3 && !extraDone {
			// the few extra shapes (other arch, 7-8 blocks) run before the big block of 5-block shapes so that
			// a time budget, if it ever bites, cuts the most redundant part of the list
			out = append(out, p.Extra...)
			extraDone = true
		}
		for _, prof := range p.Profiles {
			if b < 2 && prof != "uniform" {
				continue // the profiles coincide below two blocks
			}
			for _, o := range p.Outputs {
				for _, v := range []bool{false, true} {
					out = append(out, c16Shape{Arch: "llama", Blocks: b, Profile: prof, Output: o, Vision: v})
				}
			}
		}
	}
	if !extraDone {
		out = append(out, p.Extra...)
	}
	return out
}

func c16In(xs []string, x string) bool {
	if xs == nil {
		return true
	}
	for _, y := range xs {
		if y == x {
			return true
		}
	}
	return false
}

func c16OptsClass(g *c16Group) int { // 2: the single representative, 1: lite, 0: the rest
	if g.Ctx == 4 && g.Batch == 512 && g.Parallel == 1 {
		return 2
	}
	if g.Ctx == 2048 && g.Batch == 1 && g.Parallel == 4 {
		return 1
	}
	return 0
}

func (p *c16Plan) groups() []c16Group {
	var out []c16Group
	for _, s := range p.shapes() {
		for _, ctx := range p.Ctx {
			for _, batch := range p.Batch {
				for _, par := range p.Parallel {
					for _, pf := range []bool{false, true} {
						if pf && s.Vision {
							continue // an explicit projector file overrides the in-model vision tower
						}
						for _, ov := range p.Overheads {
							g := c16Group{Shape: s, Ctx: ctx, Batch: batch, Parallel: par, ProjFile: pf, Overhead: ov}
							small := false
							for li := range p.Levels {
								lv := &p.Levels[li]
								if !lv.applies(&g) {
									continue
								}
								if lv.N <= 2 {
									small = true
								}
							}
							if small {
								out = append(out, g)
							}
							for li := range p.Levels {
								lv := &p.Levels[li]
								if !lv.applies(&g) || lv.N <= 2 {
									continue
								}
								for _, lib := range lv.Libs {
									for _, mp := range lv.MinPats {
										for _, ng := range c16NumGPUs(lv.NumGPU, s.Blocks) {
											gp := g
											gp.Part = &c16Part{Level: li, Lib: lib, MinPat: mp, NumGPU: ng}
											out = append(out, gp)
										}
									}
								}
							}
						}
					}
				}
			}
		}
	}
	return out
}

func c16Dedup(xs []int) []int {
	seen := map[int]bool{}
	var out []int
	for _, x := range xs {
		if x < -1 || seen[x] {
			continue
		}
		seen[x] = true
		out = append(out, x)
	}
	return out
}

func c16NumGPUs(kind string, blocks int) []int {
	if kind == "core" {
		return c16Dedup([]int{-1, 1, blocks, 999})
	}
	if evid.Thorough() && kind == "all" {
		return c16Dedup([]int{-1, 0, 1, 2, blocks - 1, blocks, blocks + 1, 999})
	}
	return c16Dedup([]int{-1, 0, 1, blocks, blocks + 1, 999})
}

func c16Mins(pat string, n int) []uint64 {
	m := make([]uint64, n)
	for i := range m {
		switch pat {
		case "big":
			m[i] = c16MinBig
		case "small":
			m[i] = c16MinSml
		case "alt":
			if i%2 == 0 {
				m[i] = c16MinBig
			}
		}
	}
	return m
}

func (l *c16Level) applies(g *c16Group) bool {
	oc := c16OptsClass(g)
	if (l.Opts == "lite" && oc < 1) || (l.Opts == "one" && oc < 2) {
		return false
	}
	s := &g.Shape
	if s.Blocks < l.MinBlocks || s.Blocks > l.MaxBlocks || !c16In(l.Profiles, s.Profile) || !c16In(l.Outputs, s.Output) {
		return false
	}
	if s.Vision {
		switch l.Vision {
		case "none":
			return false
		case "some":
			if s.Profile != "uniform" || (s.Output != "small" && s.Output != "none") {
				return false
			}
		}
	}
	if l.Proj == "nofile" && g.ProjFile {
		return false
	}
	if l.Overs != nil {
		ok := false
		for _, o := range l.Overs {
			ok = ok || o == g.Overhead
		}
		if !ok {
			return false
		}
	}
	return true
}

// ---- worker: one group -------------------------------------------------------------------

type c16ModelCache struct {
	key string
	f   *ggml.GGML
}

var c16Cache c16ModelCache

func c16Model(s c16Shape) *ggml.GGML {
	key := fmt.Sprintf("%+v", s)
	if c16Cache.key == key {
		return c16Cache.f
	}
	f, err := c16BuildModel(s)
	if err != nil {
		panic(fmt.Sprintf("C16 harness: cannot build model %+v: %v", s, err))
	}
	c16Cache = c16ModelCache{key, f}
	return f
}

// c16OwnEnv sets every environment variable the estimator reads.
func c16OwnEnv(overhead uint64) {
	os.Setenv("OLLAMA_GPU_OVERHEAD", strconv.FormatUint(overhead, 10))
	os.Unsetenv("OLLAMA_FLASH_ATTENTION") // would consult real GPU discovery
	os.Unsetenv("OLLAMA_KV_CACHE_TYPE")
	if got := envconfig.GpuOverhead(); got != overhead {
		panic(fmt.Sprintf("C16 harness: envconfig.GpuOverhead()=%d after setting %d", got, overhead))
	}
}

func c16Projectors(g *c16Group) []string {
	if !g.ProjFile {
		return nil
	}
	p := os.Getenv(c16ProjEnv)
	if p == "" {
		panic("C16 harness: projector file path not set")
	}
	return []string{p}
}

type c16Stats struct {
	evals, nontrivial, fit, partial, full, tight, dropped, capped int64
	byN                                                           [9]int64
	byLevel                                                       [16]int64
	dupSlices                                                     int64
}

func c16CPUms() int64 {
	var ru syscall.Rusage
	if syscall.Getrusage(syscall.RUSAGE_SELF, &ru) != nil {
		return 0
	}
	return (ru.Utime.Sec+ru.Stime.Sec)*1000 + int64(ru.Utime.Usec+ru.Stime.Usec)/1000
}

func c16Group1(g *c16Group, plan *c16Plan, sub *evid.Run, dry bool) {
	if sub.Expired() {
		sub.NotExhaustive("time budget reached: work item not run: " + c16ItemName(g))
		sub.Add("work_items_skipped", 1)
		return
	}
	cpu0 := c16CPUms()
	defer func() { sub.Add("worker_cpu_ms", c16CPUms()-cpu0) }()
	c16OwnEnv(g.Overhead)
	f := c16Model(g.Shape)
	projectors := c16Projectors(g)
	base := api.DefaultOptions()
	blocks := g.Shape.Blocks
	hasOut := c16HasOutput(g.Shape)
	var st c16Stats
	b1 := make([]discover.GpuInfo, 0, 8)
	b2 := make([]discover.GpuInfo, 0, 8)

	curLevel := 0
	seenSlice := map[string]bool{}
	// samples: from about eight work items spread over the list (plus the very first case of the run): the first
	// non-trivial case that is not the all-unlimited one
	sampling := g.Of > 0 && g.Idx%max(1, g.Of/8) == 0
	sampled := false
	maxN := 0 // samples are taken from the level with the most GPUs this item runs
	for li := range plan.Levels {
		lv := &plan.Levels[li]
		if lv.applies(g) && ((g.Part == nil && lv.N <= 2) || (g.Part != nil && g.Part.Level == li)) {
			maxN = max(maxN, lv.N)
		}
	}
	stop := false
	one := func(lib string, numGPU int, free, mins []uint64) {
		if stop {
			return
		}
		if st.evals&8191 == 8191 && sub.Expired() {
			stop = true
			return
		}
		st.evals++
		st.byN[len(free)]++
		st.byLevel[curLevel]++
		if dry {
			return
		}
		opts := c16Opts(base, g, numGPU)
		res := c16Run(f, projectors, opts, g.Parallel, lib, free, mins, b1, b2)
		viols := c16Check(blocks, hasOut, g.Overhead, numGPU, free, &res)
		e := &res.Est
		if e.Layers > 0 {
			st.nontrivial++
			need := blocks
			if hasOut {
				need++
			}
			if e.Layers < need {
				st.partial++
			} else {
				st.full++
			}
			for i, sz := range e.GPUSizes {
				if sz > 0 && i < len(free) && free[i] >= sz+g.Overhead && free[i]-sz-g.Overhead <= 1 {
					st.tight++
					break
				}
			}
			if numGPU >= 0 && e.Layers == numGPU {
				st.capped++
			}
		}
		if res.Fit {
			st.fit++
		}
		h := evid.Hash(lib) ^ uint64(len(free))*0x9e3779b97f4a7c15 ^ uint64(blocks)<<8 ^ uint64(e.Layers)<<16 ^ evid.Hash(e.TensorSplit)<<1
		if res.Fit {
			h ^= 0x5555
		}
		if e.Graph != 0 && e.Graph == e.graphFullOffload && e.graphFullOffload != e.graphPartialOffload {
			h ^= 0xaaaa0000
		}
		if hasOut {
			h ^= 0x1000000
		}
		sub.DistinctH("outcome", h)
		if (g.Idx == 0 && g.Of > 0 && st.evals == 1) || (sampling && !sampled && e.Layers > 0 && len(free) == maxN && free[len(free)-1] != c16Huge && free[0] != c16Huge) {
			sampled = sampled || e.Layers > 0
			c := c16Case{c16Group: *g, Library: lib, NumGPU: numGPU, Free: append([]uint64{}, free...), Min: append([]uint64{}, mins...)}
			sub.Sample(map[string]any{"case": c, "layers": e.Layers, "split": e.TensorSplit, "gpu_sizes": append([]uint64{}, e.GPUSizes...),
				"vram": e.VRAMSize, "total": e.TotalSize, "fit": res.Fit})
		}
		if len(viols) == 0 {
			return
		}
		c := c16Case{c16Group: *g, Library: lib, NumGPU: numGPU, Free: append([]uint64{}, free...), Min: append([]uint64{}, mins...)}
		// determinism: the same verdict five more times
		for k := 0; k < 5; k++ {
			r2 := c16Run(f, projectors, opts, g.Parallel, lib, free, mins, b1, b2)
			v2 := c16Check(blocks, hasOut, g.Overhead, numGPU, free, &r2)
			if c16Sigs(v2) != c16Sigs(viols) {
				sub.Violation("C16/nondeterministic-estimate", "re-running the same configuration gave a different verdict: "+c.String(), c)
				return
			}
		}
		for _, v := range viols {
			sub.Violation(v.sig, v.msg+"\n"+c.String()+"\n"+c16Describe(&res), c)
		}
	}

	for li := range plan.Levels {
		lv := &plan.Levels[li]
		if !lv.applies(g) {
			continue
		}
		if (g.Part == nil && lv.N > 2) || (g.Part != nil && g.Part.Level != li) {
			continue
		}
		curLevel = li
		n := lv.N
		for _, lib := range lv.Libs {
			if g.Part != nil && g.Part.Lib != lib {
				continue
			}
			cp := c16Components(f, g, projectors, base, lib, n)
			elems := append([]uint64{}, cp.Eff...)
			if cp.Out > 0 {
				elems = append(elems, cp.Out)
			}
			sums := c16SubsetSums(elems)
			k, kc := lv.K, lv.KCross
			var reach [][]uint64
			if lv.Sums == "reach" {
				reach = c16Reach(n, cp.Eff, cp.L0, cp.Out)
				k = -1
			}
			if lib == "cpu" { // the estimate is empty for cpu whatever the numbers; keep a thin slice
				k, kc, reach = 1, -1, nil
			}
			for _, mp := range lv.MinPats {
				if mp == "alt" && n == 1 {
					continue // same as big
				}
				if g.Part != nil && g.Part.MinPat != mp {
					continue
				}
				mins := c16Mins(mp, n)
				sets := make([][]uint64, n)
				for p := 0; p < n; p++ {
					zs := []uint64{0}
					if cp.Gzo > 0 {
						if p == 0 && n > 1 {
							zs = []uint64{cp.Gzo} // GPU 0 is always asked first, with the projector on it
						} else {
							zs = []uint64{0, cp.Gzo}
						}
					}
					var rp []uint64
					if reach != nil {
						rp = reach[p]
					}
					sets[p] = c16FreeSet(&cp, g.Overhead, mins[p], zs, sums, rp, k, kc, lv.Eps)
				}
				for _, ng := range c16NumGPUs(lv.NumGPU, blocks) {
					// two levels must never enumerate the same (gpus, library, minimum pattern, num_gpu) slice of a group:
					// that is what keeps all enumerated tuples pairwise distinct
					if g.Part != nil && g.Part.NumGPU != ng {
						continue
					}
					slice := fmt.Sprintf("%d|%s|%s|%d", n, lib, mp, ng)
					if seenSlice[slice] {
						st.dupSlices++
						continue
					}
					seenSlice[slice] = true
					free := make([]uint64, n)
					if !sub.Expired() {
						if lv.Vector == "pattern" {
							c16Patterns(sets[0], n, free, func() { one(lib, ng, free, mins) })
						} else {
							c16Product(sets, free, func() { one(lib, ng, free, mins) })
						}
					}
					if stop || sub.Expired() {
						sub.NotExhaustive(fmt.Sprintf("time budget reached inside work item %s (level %d, gpus=%d, %s, %s, num_gpu=%d)", c16ItemName(g), li, n, lib, mp, ng))
						c16Flush(sub, &st)
						return
					}
				}
			}
		}
	}
	c16Flush(sub, &st)
}

func c16ItemName(g *c16Group) string {
	b, _ := json.Marshal(g)
	return string(b)
}

func c16Flush(sub *evid.Run, st *c16Stats) {
	sub.Add("evaluations", st.evals)
	sub.Add("distinct_nontrivial", st.nontrivial)
	sub.Add("cases_fit_declared", st.fit)
	sub.Add("cases_partial_offload", st.partial)
	sub.Add("cases_all_layers_placed", st.full)
	sub.Add("cases_a_gpu_filled_to_within_1_byte", st.tight)
	sub.Add("cases_stopped_by_num_gpu", st.capped)
	sub.Add("work_items", 1)
	if st.dupSlices > 0 {
		sub.Add("overlapping_level_slices_skipped", st.dupSlices)
	}
	for n, c := range st.byN {
		if c > 0 {
			sub.Add(fmt.Sprintf("cases_with_%d_gpus", n), c)
		}
	}
	for l, c := range st.byLevel {
		if c > 0 {
			sub.Add(fmt.Sprintf("cases_in_level_%d", l), c)
		}
	}
}

func c16Sigs(vs []c16Viol) string {
	var s []string
	for _, v := range vs {
		s = append(s, v.sig)
	}
	return strings.Join(s, ";")
}

func c16Describe(r *c16Res) string {
	e := &r.Est
	return fmt.Sprintf("estimate: Layers=%d TensorSplit=%q GPUSizes=%v VRAMSize=%d TotalSize=%d Graph=%d (partial=%d full=%d output=%d projector=%d) PredictServerFit=%v",
		e.Layers, e.TensorSplit, e.GPUSizes, e.VRAMSize, e.TotalSize, e.Graph, e.graphPartialOffload, e.graphFullOffload, e.memoryLayerOutput,
		e.projectorWeights+e.projectorGraph, r.Fit)
}

// c16Product calls fn for every element of sets[0] x ... x sets[n-1] (written into free).
func c16Product(sets [][]uint64, free []uint64, fn func()) {
	n := len(sets)
	idx := make([]int, n)
	for {
		for i := range idx {
			free[i] = sets[i][idx[i]]
		}
		fn()
		i := n - 1
		for ; i >= 0; i-- {
			idx[i]++
			if idx[i] < len(sets[i]) {
				break
			}
			idx[i] = 0
		}
		if i < 0 {
			return
		}
	}
}

// c16Patterns: structured vectors for many GPUs: for every ordered pair (a,b) of
// values: a..a b..b split after 1, n/2 and n-1 GPUs, and a,b,a,b,... alternating.
func c16Patterns(set []uint64, n int, free []uint64, fn func()) {
	for _, a := range set {
		for _, b := range set {
			if a == b {
				for i := range free {
					free[i] = a
				}
				fn()
				continue
			}
			for _, split := range c16Dedup([]int{1, n / 2, n - 1}) {
				for i := range free {
					if i < split {
						free[i] = a
					} else {
						free[i] = b
					}
				}
				fn()
			}
			if n > 2 {
				for i := range free {
					if i%2 == 0 {
						free[i] = a
					} else {
						free[i] = b
					}
				}
				fn()
			}
		}
	}
}

// ---- entry point ----------------------------------------------------------------------------

func ZZVerifC16() {
	r := evid.Start("C16", "exploration")
	thorough := evid.Thorough()
	plan := c16MakePlan(thorough)

	if p := evid.ReplayPath(); p != "" {
		os.Exit(c16Replay(p))
	}

	dry := os.Getenv("VERIF_C16_DRY") != ""
	if evid.IsWorker() {
		// one worker process per core; the estimator allocates a lot of short-lived garbage
		runtime.GOMAXPROCS(2)
		debug.SetGCPercent(2000)
	}
	if pf := os.Getenv("VERIF_C16_PROF"); pf != "" && evid.IsWorker() && os.Getenv("VERIF_WORKER_INDEX") == "0" {
		fh, _ := os.Create(pf)
		pprof.StartCPUProfile(fh)
		go func() { time.Sleep(20 * time.Second); pprof.StopCPUProfile(); fh.Close() }()
	}
	budget := 105 * time.Second
	if thorough {
		budget = 17 * time.Minute
	}
	if v, err := strconv.Atoi(os.Getenv("VERIF_C16_BUDGET_S")); err == nil && v > 0 {
		budget = time.Duration(v) * time.Second // for machines shared with other jobs
	}
	r.SetDeadline(budget)
	r.Extra("time_budget_s", int(budget/time.Second))

	var projDir string
	if !evid.IsWorker() {
		d, err := os.MkdirTemp(c16TempRoot(), "verif-c16-")
		if err != nil {
			fmt.Fprintln(os.Stderr, "C16: cannot create temp dir:", err)
			os.Exit(2)
		}
		projDir = d
		pp, err := c16WriteProjector(d)
		if err != nil {
			os.RemoveAll(d)
			fmt.Fprintln(os.Stderr, "C16: cannot write projector:", err)
			os.Exit(2)
		}
		os.Setenv(c16ProjEnv, pp)
	}

	groups := plan.groups()
	only := os.Getenv("VERIF_C16_ONLY") // debugging aid: run only the groups whose JSON contains this text
	var items []string
	if !dry {
		for _, sg := range c16SelfGroups(thorough) { // long single items first
			b, _ := json.Marshal(&sg)
			if only == "" || strings.Contains(string(b), only) {
				items = append(items, string(b))
			}
		}
	}
	for i := range groups {
		groups[i].Idx, groups[i].Of = i, len(groups)
		b, _ := json.Marshal(&groups[i])
		if only == "" || strings.Contains(string(b), only) {
			items = append(items, string(b))
		}
	}
	if only != "" {
		r.NotExhaustive(fmt.Sprintf("VERIF_C16_ONLY=%q: only %d of the groups were run", only, len(items)))
	}

	r.Rule("Exhaustive cartesian enumeration, simplest model first, of: model shape (arch, block count, layer-size profile, output layer kind, in-model vision tower) x " +
		"(num_ctx, num_batch, parallel) x projector file x OLLAMA_GPU_OVERHEAD x library x GPU count x MinimumMemory pattern x num_gpu x per-GPU FreeMemory. " +
		"FreeMemory of each GPU ranges over the estimator's own decision boundaries, obtained from a probe run of EstimateGPULayers with unlimited memory " +
		"(graph sizes, projector and output cost) and the per-block sizes: overhead + [projector] + max(graph) + minimum + layer buffer + (sum of any <=K blocks/output) + eps, " +
		"plus the same thresholds computed without overhead and/or minimum (k_cross), plus 0, exactly-the-overhead and 2^50. " +
		"Each case runs the real EstimateGPULayers and PredictServerFit once and the five clauses are compared with the inputs. " +
		"All value lists are de-duplicated, so the enumerated tuples are pairwise distinct inputs; evaluations counts them and distinct_nontrivial counts " +
		"those in which the estimator placed at least one layer on a GPU (Layers>0: per-GPU bound, split sum and total>=vram are then non-vacuous). " +
		"distinct_outcome counts distinct (library, gpus, blocks, Layers, TensorSplit, fit, full/partial graph) result classes. " +
		"Boundary self-check (selfcheck_* counters, not included in evaluations): for a few small configurations one GPU's FreeMemory is swept over every integer " +
		"from 0 to beyond a complete fit, for every combination of enumerated values of the other GPUs; every point where the real estimator's result changes must have " +
		"both neighbours in the enumerated value set, otherwise the run is marked not exhaustive.")
	r.Assume(
		"clause 1 is checked as GPUSizes[i] + OLLAMA_GPU_OVERHEAD <= FreeMemory[i] for every GPU with GPUSizes[i] > 0 (a GPU with nothing assigned is not compared)",
		"clause 3 is checked whenever TensorSplit is non-empty (the estimator reports a split only for more than one GPU and at least one layer)",
		"clause 5 (PredictServerFit true): with num_gpu<0 every block plus the output layer (when the model has output/token_embd tensors) must be placed; with num_gpu>=0 the request-relative reading min(num_gpu, all layers) is used, so an explicit partial request is not flagged",
		"a panic inside the estimator is reported as a violation (it reports nothing)",
		"all quantities stay far below 2^63: uint64 wrap-around of FreeMemory/MinimumMemory/overhead sums is outside the enumerated space",
		"OLLAMA_FLASH_ATTENTION and OLLAMA_KV_CACHE_TYPE are unset (flash attention would consult real GPU discovery); OLLAMA_GPU_OVERHEAD is set explicitly per case group and read back through envconfig; each worker process runs its cases sequentially",
		"all GPUs of a list share Library and Variant (PredictServerFit then evaluates exactly one group); rocm/oneapi behave as cuda in the estimator (only \"metal\" and \"cpu\" are special-cased) and are not enumerated separately",
		"model files are tiny GGUFs written by the real WriteGGUF and read by the real Decode; graph sizes come from the real GraphSize for arch llama (and gemma3 in the thorough tier)",
	)
	r.Extra("bounds", plan)
	r.Extra("bounds_legend", "levels[i] = one GPU count with its depth. opts: all = ctx{4,2048} x batch{1,512} x parallel{1,4}; lite = (4,512,1) and (2048,1,4); one = (4,512,1). "+
		"min_blocks/max_blocks, profiles, outputs (null = all): which model shapes take part. vision: all | none | some (vision tower only with uniform profile and small/none output). "+
		"proj_file: all = with and without a separate projector file | nofile. sums: subsets = layer buffer + every sum of <=k blocks/output (k=99: every subset); "+
		"reach = every threshold reachable by round-robin placement with drop-outs (k unused). k_cross: the same thresholds computed without overhead and/or minimum, "+
		"up to k_cross layers (0 = admission threshold only, -1 = none). eps: offsets added to each threshold. num_gpu: all = {-1,0,1,B,B+1,999} (thorough: also 2,B-1) | six = the first list | core = {-1,1,B,999}. "+
		"min_pats: zero | big (2^30+7) | small (5) | alt (big,0,big,...). overheads: null = all listed in bounds.overheads. vector: product = full cartesian product of the per-GPU value sets | "+
		"pattern = for every ordered pair (a,b) of values: a..a b..b split after 1, n/2, n-1 GPUs and a,b,a,b,...; cpu library always uses k=1 without cross thresholds.")
	r.Extra("work_items_total", len(items))
	r.Extra("constants", map[string]any{"unlimited": c16Huge, "minimum_big": c16MinBig, "minimum_small": c16MinSml,
		"overhead_small": c16OvSml, "overhead_mid": c16OvMid, "overhead_big": c16OvBig, "block_unit_bytes": c16Unit})

	r.Fanout(items, evid.FanoutOpts{
		ItemTimeout: 10 * time.Minute,
		OnCrash: func(item, tail string, timedOut bool) (string, string) {
			return "", "" // a dying worker is a machinery error; estimator panics are caught in-process
		},
	}, func(item string, sub *evid.Run) {
		var g c16Group
		if err := json.Unmarshal([]byte(item), &g); err != nil {
			panic(err)
		}
		if g.Self != nil {
			c16SelfCheck(&g, sub)
			return
		}
		c16Group1(&g, &plan, sub, dry)
	})

	if projDir != "" {
		os.RemoveAll(projDir)
	}
	if dry {
		fmt.Printf("dry run: %d groups, %d cases\n", len(groups), r.Count("evaluations"))
		for l := range plan.Levels {
			fmt.Printf("  level %d (gpus=%d): %d\n", l, plan.Levels[l].N, r.Count(fmt.Sprintf("cases_in_level_%d", l)))
		}
		os.Exit(0)
	}
	r.Finish()
}

func c16TempRoot() string {
	if st, err := os.Stat("/dev/shm"); err == nil && st.IsDir() {
		return "/dev/shm"
	}
	return ""
}

func c16Replay(path string) int {
	var c c16Case
	if err := evid.LoadReplay(path, &c); err != nil {
		fmt.Fprintln(os.Stderr, "C16: cannot load replay:", err)
		return 2
	}
	if len(c.Free) == 0 || len(c.Free) != len(c.Min) {
		fmt.Fprintln(os.Stderr, "C16: replay case has no GPUs")
		return 2
	}
	d, err := os.MkdirTemp(c16TempRoot(), "verif-c16-")
	if err != nil {
		fmt.Fprintln(os.Stderr, err)
		return 2
	}
	defer os.RemoveAll(d)
	pp, err := c16WriteProjector(d)
	if err != nil {
		fmt.Fprintln(os.Stderr, err)
		return 2
	}
	os.Setenv(c16ProjEnv, pp)
	c16OwnEnv(c.Overhead)
	f := c16Model(c.Shape)
	g := c.c16Group
	opts := c16Opts(api.DefaultOptions(), &g, c.NumGPU)
	res := c16Run(f, c16Projectors(&g), opts, g.Parallel, c.Library, c.Free, c.Min, nil, nil)
	fmt.Println("replaying:", c.String())
	if res.Panic != "" {
		fmt.Println("panic:", res.Panic)
	} else {
		fmt.Println(c16Describe(&res))
	}
	viols := c16Check(c.Shape.Blocks, c16HasOutput(c.Shape), c.Overhead, c.NumGPU, c.Free, &res)
	if len(viols) == 0 {
		fmt.Println("C16 holds for this case")
		return 0
	}
	for _, v := range viols {
		fmt.Printf("VIOLATION property=C16 replay=%s\n  signature: %s\n  %s\n", path, v.sig, v.msg)
	}
	return 1
}
