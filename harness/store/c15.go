package server

// C15: interleavings of concurrent API handlers on one real Server (real
// Scheduler, real store, mock runner): happens-before race detection on the
// designated shared locations, panic capture, and the "ps never lists a torn
// down runner" monitor.

import (
	"bytes"
	gocontext "context"
	"crypto/sha256"
	"encoding/json"
	"errors"
	"fmt"
	"io"
	"net/http"
	"net/http/httptest"
	gos "os"
	"slices"
	"sort"
	"strings"
	gotime "time"

	"github.com/gin-gonic/gin"

	"github.com/ollama/ollama/api"
	"github.com/ollama/ollama/discover"
	"github.com/ollama/ollama/fs/ggml"
	"github.com/ollama/ollama/llm"
	"github.com/ollama/ollama/zzverif/evid"
	"github.com/ollama/ollama/zzverif/mcos"
	"github.com/ollama/ollama/zzverif/mcrt"
)

type z15Srv struct {
	name     string
	closedAt int // step at which Close ran (0: still running)
	w        *z15World
}

func (s *z15Srv) Ping(ctx gocontext.Context) error {
	s.w.mockPoint("Ping")
	mcrt.Yield("mock.Ping")
	s.w.mockPoint("Ping returns")
	return nil
}
func (s *z15Srv) WaitUntilRunning(ctx gocontext.Context) error {
	s.w.mockPoint("WaitUntilRunning")
	mcrt.Yield("mock.WaitUntilRunning")
	if s.w.loadFail {
		return errors.New("runner process died while loading")
	}
	err := ctx.Err()
	s.w.mockPoint("WaitUntilRunning returns")
	return err
}
func (s *z15Srv) Completion(ctx gocontext.Context, req llm.CompletionRequest, fn func(llm.CompletionResponse)) error {
	if s.closedAt != 0 {
		mcrt.Fail("C15: completion-on-closed-runner: a request runs on runner %s after it was shut down", s.name)
	}
	s.w.mockPoint("Completion")
	mcrt.Yield("mock.Completion")
	if strings.Contains(req.Prompt, "long") {
		// a generation that takes longer than any load or keep-alive period (virtual time)
		mcrt.Sleep(6 * gotime.Minute)
	}
	if s.closedAt != 0 && ctx.Err() == nil {
		mcrt.Fail("C15: closed-in-use: runner %s was shut down while a request that has not ended was running on it", s.name)
	}
	fn(llm.CompletionResponse{Content: "hi"})
	mcrt.Yield("mock.Completion")
	if s.closedAt != 0 && ctx.Err() == nil {
		mcrt.Fail("C15: closed-in-use: runner %s was shut down while a request that has not ended was running on it", s.name)
	}
	fn(llm.CompletionResponse{Done: true, DoneReason: llm.DoneReasonStop, PromptEvalCount: 1, EvalCount: 1})
	return nil
}
func (s *z15Srv) Embedding(ctx gocontext.Context, input string) ([]float32, error) {
	mcrt.Yield("mock.Embedding")
	return []float32{0.5, 0.5}, nil
}
func (s *z15Srv) Tokenize(ctx gocontext.Context, content string) ([]int, error) {
	return make([]int, len(strings.Fields(content))), nil
}
func (s *z15Srv) Detokenize(ctx gocontext.Context, tokens []int) (string, error) { return "", nil }
func (s *z15Srv) Close() error {
	mcrt.Yield("mock.Close")
	if s.closedAt != 0 {
		mcrt.Fail("C15: runner %s shut down twice", s.name)
	}
	s.closedAt = mcrt.Steps()
	mcrt.Observe("close %s", s.name)
	return nil
}
func (s *z15Srv) EstimatedVRAM() uint64                  { return 1 << 20 }
func (s *z15Srv) EstimatedTotal() uint64                 { return 1 << 20 }
func (s *z15Srv) EstimatedVRAMByGPU(gpuID string) uint64 { return 1 << 20 }

type z15World struct {
	*ztWorld
	h       http.Handler
	s       *Server
	servers []*z15Srv
	stop    func()
	// loadFail: every runner started from now on dies while loading (WaitUntilRunning reports an error)
	loadFail bool
	// onMock: called by the mock runner before and after its calls (a client that goes away exactly there)
	onMock func(label string)
}

func (w *z15World) mockPoint(label string) {
	if w.onMock != nil {
		w.onMock("runner." + label)
	}
}

func (w *z15World) call(method, path string, body any) (int, string) {
	var rd io.Reader
	if body != nil {
		b, _ := json.Marshal(body)
		rd = bytes.NewReader(b)
	}
	// like net/http: the request context ends when the handler returns
	// (mcrt.WithCancel: the cancellation carries the happens-before edge that net/http's does)
	ctx, cancel := mcrt.WithCancel(gocontext.Background())
	req := httptest.NewRequest(method, path, rd).WithContext(ctx)
	rec := httptest.NewRecorder()
	w.h.ServeHTTP(rec, req)
	cancel()
	return rec.Code, rec.Body.String()
}

// callRaw sends a body as it is (blob upload).
func (w *z15World) callRaw(method, path string, body []byte) (int, string) {
	ctx, cancel := mcrt.WithCancel(gocontext.Background())
	req := httptest.NewRequest(method, path, bytes.NewReader(body)).WithContext(ctx)
	rec := httptest.NewRecorder()
	w.h.ServeHTTP(rec, req)
	cancel()
	return rec.Code, rec.Body.String()
}

// callGone is call with a client that may go away at any point: its request context is cancelled by a
// separate thread, the handler keeps running until it returns (as under net/http).
func (w *z15World) callGone(method, path string, body any, late bool) (int, string) {
	var rd io.Reader
	if body != nil {
		b, _ := json.Marshal(body)
		rd = bytes.NewReader(b)
	}
	ctx, cancel := mcrt.WithCancel(gocontext.Background())
	if !late {
		// a thread of its own: it goes away at whatever scheduling point it gets to run (early by default,
		// elsewhere at the price of schedule deviations)
		mcrt.GoNamed("client", func() {
			mcrt.Yield("client goes away")
			mcrt.Observe("client gone")
			cancel()
		})
	} else {
		// or exactly before a request or a piece of a body, however late in the transfer (one deviation of class cancel)
		gone := false
		w.srv.OnNetPoint = func(label string) {
			if !gone && mcrt.Choose(mcrt.Cancel, "client goes away before "+label, "no", "yes") == 1 {
				gone = true
				mcrt.Observe("client gone before %s", label)
				cancel()
			}
		}
		w.onMock = w.srv.OnNetPoint
		defer func() { w.srv.OnNetPoint, w.onMock = nil, nil }()
	}
	req := httptest.NewRequest(method, path, rd).WithContext(ctx)
	rec := httptest.NewRecorder()
	w.h.ServeHTTP(rec, req)
	cancel()
	return rec.Code, rec.Body.String()
}

type z15Req struct {
	Kind string `json:"kind"` // generate, chat, embed, unload, ps, tags, show, create, copy, delete, pull, push (-gone: the client goes away)
	A    string `json:"a,omitempty"`
	B    string `json:"b,omitempty"`
}

func (q z15Req) String() string { return strings.TrimSpace(q.Kind + " " + q.A + " " + q.B) }

var z15Stream = false

func (w *z15World) do(q z15Req) {
	var code int
	var body string
	switch q.Kind {
	case "generate":
		code, body = w.call("POST", "/api/generate", api.GenerateRequest{Model: q.A, Prompt: "hello", Stream: &z15Stream})
	case "generate0":
		code, body = w.call("POST", "/api/generate", api.GenerateRequest{Model: q.A, Prompt: "hello", Stream: &z15Stream, KeepAlive: &api.Duration{Duration: 0}})
	case "generate-long":
		code, body = w.call("POST", "/api/generate", api.GenerateRequest{Model: q.A, Prompt: "hello long", Stream: &z15Stream})
	case "generate0-long":
		code, body = w.call("POST", "/api/generate", api.GenerateRequest{Model: q.A, Prompt: "hello long", Stream: &z15Stream, KeepAlive: &api.Duration{Duration: 0}})
	case "generate0-gone":
		// keep_alive 0 and a client that goes away while the request is being served
		code, body = w.callGone("POST", "/api/generate", api.GenerateRequest{Model: q.A, Prompt: "hello", Stream: &z15Stream, KeepAlive: &api.Duration{Duration: 0}}, false)
	case "generate-gone-late":
		// the client goes away exactly before or after one of the runner's calls (one deviation wherever it falls)
		code, body = w.callGone("POST", "/api/generate", api.GenerateRequest{Model: q.A, Prompt: "hello", Stream: &z15Stream}, true)
	case "generate-gone":
		code, body = w.callGone("POST", "/api/generate", api.GenerateRequest{Model: q.A, Prompt: "hello", Stream: &z15Stream}, false)
	case "chat":
		code, body = w.call("POST", "/api/chat", api.ChatRequest{Model: q.A, Messages: []api.Message{{Role: "user", Content: "hello"}}, Stream: &z15Stream})
	case "embed":
		code, body = w.call("POST", "/api/embed", api.EmbedRequest{Model: q.A, Input: "hello"})
	case "unload":
		code, body = w.call("POST", "/api/generate", api.GenerateRequest{Model: q.A, KeepAlive: &api.Duration{Duration: 0}})
	case "ps":
		start := mcrt.Steps()
		code, body = w.call("GET", "/api/ps", nil)
		var ps api.ProcessResponse
		if code == 200 && json.Unmarshal([]byte(body), &ps) == nil {
			seen := map[string]bool{}
			for _, m := range ps.Models {
				if seen[m.Name] {
					mcrt.Fail("C15: ps-duplicate: /api/ps lists %s twice", m.Name)
				}
				seen[m.Name] = true
				// the model must have had a live runner at some instant of the ps request
				live := false
				for _, sv := range w.servers {
					if strings.HasPrefix(m.Name, sv.name+":") || m.Name == sv.name {
						if sv.closedAt == 0 || sv.closedAt >= start {
							live = true
						}
					}
				}
				if !live {
					mcrt.Fail("C15: torn-ps: /api/ps lists %s but its runner had been shut down before the request started", m.Name)
				}
			}
		}
	case "tags":
		code, body = w.call("GET", "/api/tags", nil)
	case "show":
		code, body = w.call("POST", "/api/show", api.ShowRequest{Model: q.A})
	case "show-options":
		// show with option overrides, on a model that has no parameters of its own
		code, body = w.call("POST", "/api/show", api.ShowRequest{Model: q.A, Options: map[string]any{"temperature": 0.5}})
	case "create":
		d := z4GGUF(&z12World{ztWorld: w.ztWorld}, 1)
		code, body = w.call("POST", "/api/create", api.CreateRequest{Model: q.A, Files: map[string]string{"m.gguf": d}, System: q.B, Stream: &z15Stream})
	case "copy":
		code, body = w.call("POST", "/api/copy", api.CopyRequest{Source: q.A, Destination: q.B})
	case "delete":
		code, body = w.call("DELETE", "/api/delete", api.DeleteRequest{Model: q.A})
	case "blob":
		// upload of a model file that is not in the store yet (variant q.A of the harness's file)
		data := append([]byte{}, ztGGUFBlob()...)
		data[len(data)-1] ^= q.A[0]
		code, body = w.callRaw("POST", "/api/blobs/"+fmt.Sprintf("sha256:%x", sha256.Sum256(data)), data)
	case "pull":
		code, body = w.call("POST", "/api/pull", api.PullRequest{Model: ztName, Stream: &z15Stream})
	case "pull-gone", "pull-gone-late":
		code, body = w.callGone("POST", "/api/pull", api.PullRequest{Model: ztName, Stream: &z15Stream}, q.Kind == "pull-gone-late")
	case "push":
		code, body = w.call("POST", "/api/push", api.PushRequest{Model: q.A, Stream: &z15Stream})
	case "push-gone", "push-gone-late":
		code, body = w.callGone("POST", "/api/push", api.PushRequest{Model: q.A, Stream: &z15Stream}, q.Kind == "push-gone-late")
	default:
		panic("bad request kind " + q.Kind)
	}
	b := strings.TrimSpace(body)
	if len(b) > 60 {
		b = b[:60]
	}
	mcrt.Observe("%s -> %d %s", q, code, b)
	if code == 500 && b == "" {
		mcrt.Fail("C15: handler-panic: %s made its handler panic (recovered by gin: 500 with an empty body)", q)
	}
}

type z15Scenario struct {
	Name   string            `json:"name"`
	Env    map[string]string `json:"env,omitempty"`
	Loaded []string          `json:"loaded,omitempty"` // models with a runner already loaded when the requests start
	Reqs   []z15Req          `json:"reqs"`
	Cap    int               `json:"quick_total_cap,omitempty"`
	// Redirect: the fake registry redirects upload parts to its CDN (parts then go up in parallel)
	Redirect bool `json:"redirect,omitempty"`
	// LoadFail: the runners the requests start die while loading
	LoadFail bool `json:"load_fail,omitempty"`
	// Extra: models in the store besides a and b (each from a file of its own)
	Extra []string `json:"extra,omitempty"`
	// CPU: no GPU; the scheduler then admits a further model as long as system memory lasts (the harness's tiny
	// model files have no layers, so on a GPU they never "fit completely" next to another model)
	CPU bool `json:"cpu,omitempty"`
}

func z15Body(sc z15Scenario) func() {
	return func() {
		for _, k := range []string{"OLLAMA_MAX_LOADED_MODELS", "OLLAMA_NUM_PARALLEL", "OLLAMA_KEEP_ALIVE"} {
			gos.Unsetenv(k)
		}
		for k, v := range sc.Env {
			gos.Setenv(k, v)
		}
		zw := ztNewWorld(nil)
		w := &z15World{ztWorld: zw}
		mcos.E.Frozen = true
		mcrt.Deterministic(true)
		ctx, stop := gocontext.WithCancel(gocontext.Background())
		s := &Server{}
		var err error
		gin.SetMode(gin.ReleaseMode)
		gin.DefaultWriter = io.Discard
		gin.DefaultErrorWriter = io.Discard
		if gos.Getenv("VERIF_DEBUG_DUMP") != "" {
			gin.DefaultErrorWriter = gos.Stderr
		}
		w.h, err = s.GenerateRoutes(nil)
		if err != nil {
			panic(err)
		}
		sched := InitScheduler(ctx)
		gpu := discover.GpuInfo{Library: "metal", ID: "0"}
		gpu.TotalMemory, gpu.FreeMemory = 1<<40, 1<<40
		if sc.CPU {
			gpu.Library = "cpu"
		}
		sched.getGpuFn = func() discover.GpuInfoList { return discover.GpuInfoList{gpu} }
		sched.getCpuFn = sched.getGpuFn
		sched.newServerFn = func(gpus discover.GpuInfoList, model string, f *ggml.GGML, adapters []string, projectors []string, opts api.Options, numParallel int) (llm.LlamaServer, error) {
			mcrt.Yield("mock.NewServer")
			name := "?"
			if m, err := json.Marshal(model); err == nil {
				name = string(m)
			}
			// model name from the request that loads it: find by model path in the store
			for _, n := range []string{"a", "b", "e"} {
				if mm, err := GetModel(n); err == nil && mm.ModelPath == model {
					name = n
				}
			}
			sv := &z15Srv{name: name, w: w}
			w.servers = append(w.servers, sv)
			mcrt.Observe("start runner %s", name)
			return sv, nil
		}
		s.sched = sched
		w.s = s
		sched.Run(ctx)
		// store: two models (different files so that they are different runners)
		zz := &z12World{ztWorld: zw}
		for i, n := range append([]string{"a", "b"}, sc.Extra...) {
			d := z4GGUF(zz, i+1)
			if code, body := w.call("POST", "/api/create", api.CreateRequest{Model: n, Files: map[string]string{"m.gguf": d}, Stream: &z15Stream}); code != 200 {
				mcrt.Fail("C15: setup create failed: %d %s", code, body)
				return
			}
			mcrt.WaitIdle(false)
		}
		w.publish("lib/model:tag", []int{10}, 0, 3)
		w.srv.NoFaultsLeft = true
		for _, q := range sc.Reqs {
			if strings.HasPrefix(q.Kind, "push") {
				// two local models under registry names that share their first layer (3 upload parts)
				w.srv.UploadRedirect = sc.Redirect
				shared := ztData(10, 5)
				zw.storeLocal("reg.test/lib/up:tag", [][]byte{shared}, ztData(2, 6), "")
				zw.storeLocal("reg.test/lib/up2:tag", [][]byte{shared, ztData(3, 7)}, nil, "")
				break
			}
		}
		for _, n := range sc.Loaded {
			w.do(z15Req{Kind: "generate", A: n})
			mcrt.WaitIdle(false)
		}
		mcrt.Deterministic(false)
		mcos.E.Frozen = false
		w.loadFail = sc.LoadFail

		var wg mcrt.WaitGroup
		for i, q := range sc.Reqs {
			q := q
			wg.Add(1)
			mcrt.GoNamed(fmt.Sprintf("req%d:%s", i, q.Kind), func() {
				defer wg.Done()
				w.do(q)
			})
		}
		wg.Wait()
		mcrt.Observe("all requests returned")
		if z15Drain {
			// all requests have finished: once their keep-alive periods have elapsed every runner that was started
			// has been shut down and nothing is reported as loaded
			mcrt.WaitIdle(true)
			for _, sv := range w.servers {
				if sv.closedAt == 0 {
					mcrt.Fail("C15: not-drained: all requests have finished and all timers have run, runner %s was never shut down", sv.name)
				}
			}
			sched.loadedMu.Lock()
			n := len(sched.loaded)
			sched.loadedMu.Unlock()
			if n != 0 {
				mcrt.Fail("C15: not-drained: all requests have finished and all timers have run, %d runner(s) still listed as loaded", n)
			}
		}
		mcrt.WaitIdle(false)
		stop()
		mcrt.WaitIdle(false)
	}
}

// z15Drain: judge the drain clause of C02 at the end of every execution (set by the C02 part)
var z15Drain bool

func z15Scenarios(thorough bool) []z15Scenario {
	l := []z15Scenario{
		{Name: "generate|ps", Reqs: []z15Req{{Kind: "generate", A: "a"}, {Kind: "ps"}}},
		{Name: "generate0|ps", Reqs: []z15Req{{Kind: "generate0", A: "a"}, {Kind: "ps"}}},
		{Name: "unload|ps", Loaded: []string{"a"}, Reqs: []z15Req{{Kind: "unload", A: "a"}, {Kind: "ps"}}},
		{Name: "generate0-gone", Cap: 2, Reqs: []z15Req{{Kind: "generate0-gone", A: "a"}}},
		{Name: "generate-gone|generate", Reqs: []z15Req{{Kind: "generate-gone", A: "a"}, {Kind: "generate", A: "a"}}},
		{Name: "generate-gone-late|generate", Cap: 2, Reqs: []z15Req{{Kind: "generate-gone-late", A: "a"}, {Kind: "generate", A: "a"}}},
		{Name: "generate|generate", Reqs: []z15Req{{Kind: "generate", A: "a"}, {Kind: "generate", A: "a"}}},
		{Name: "generate-a|generate-b max1", Env: map[string]string{"OLLAMA_MAX_LOADED_MODELS": "1"}, Reqs: []z15Req{{Kind: "generate", A: "a"}, {Kind: "generate", A: "b"}}},
		// three models, room for two: the request for the third has to pick a victim (sorts the loaded runners by
		// keep-alive) while another request / ps touches the same runners
		{Name: "generate-e|generate-a max2", Cap: 2, Extra: []string{"e"}, Env: map[string]string{"OLLAMA_MAX_LOADED_MODELS": "2"}, Loaded: []string{"a", "b"}, Reqs: []z15Req{{Kind: "generate", A: "e"}, {Kind: "generate", A: "a"}}},
		{Name: "generate-e|unload-a max2 cpu", CPU: true, Cap: 2, Extra: []string{"e"}, Env: map[string]string{"OLLAMA_MAX_LOADED_MODELS": "2"}, Loaded: []string{"a", "b"}, Reqs: []z15Req{{Kind: "generate", A: "e"}, {Kind: "unload", A: "a"}}},
		{Name: "generate-e|generate-a max2 cpu", CPU: true, Cap: 1, Extra: []string{"e"}, Env: map[string]string{"OLLAMA_MAX_LOADED_MODELS": "2"}, Loaded: []string{"a", "b"}, Reqs: []z15Req{{Kind: "generate", A: "e"}, {Kind: "generate", A: "a"}}},
		{Name: "generate-e|ps max2 cpu", CPU: true, Cap: 2, Extra: []string{"e"}, Env: map[string]string{"OLLAMA_MAX_LOADED_MODELS": "2"}, Loaded: []string{"a", "b"}, Reqs: []z15Req{{Kind: "generate", A: "e"}, {Kind: "ps"}}},
		// a generation that outlasts every timeout of the server (virtual time), alone and next to an unload request
		{Name: "generate0-long", Cap: 2, Reqs: []z15Req{{Kind: "generate0-long", A: "a"}}},
		{Name: "generate-long|unload", Cap: 2, Reqs: []z15Req{{Kind: "generate-long", A: "a"}, {Kind: "unload", A: "a"}}},
		{Name: "chat|unload", Loaded: []string{"a"}, Reqs: []z15Req{{Kind: "chat", A: "a"}, {Kind: "unload", A: "a"}}},
		{Name: "embed|ps", Reqs: []z15Req{{Kind: "embed", A: "a"}, {Kind: "ps"}}},
		{Name: "generate-loadfail|ps", LoadFail: true, Reqs: []z15Req{{Kind: "generate", A: "a"}, {Kind: "ps"}}},
		{Name: "generate-loadfail|generate", LoadFail: true, Cap: 2, Reqs: []z15Req{{Kind: "generate", A: "a"}, {Kind: "generate", A: "a"}}},
		{Name: "generate|delete", Cap: 1, Reqs: []z15Req{{Kind: "generate", A: "a"}, {Kind: "delete", A: "a"}}},
		{Name: "create|tags", Cap: 1, Reqs: []z15Req{{Kind: "create", A: "c", B: "S1"}, {Kind: "tags"}}},
		{Name: "create|create", Cap: 1, Reqs: []z15Req{{Kind: "create", A: "c", B: "S1"}, {Kind: "create", A: "c", B: "S2"}}},
		{Name: "copy|delete", Cap: 1, Reqs: []z15Req{{Kind: "copy", A: "a", B: "d"}, {Kind: "delete", A: "a"}}},
		{Name: "show-options|tags", Cap: 1, Reqs: []z15Req{{Kind: "show-options", A: "a"}, {Kind: "tags"}}},
		{Name: "delete|show", Cap: 1, Reqs: []z15Req{{Kind: "delete", A: "a"}, {Kind: "show", A: "a"}}},
		{Name: "create|delete-sharing", Cap: 1, Reqs: []z15Req{{Kind: "create", A: "c", B: ""}, {Kind: "delete", A: "a"}}},
		{Name: "blob|blob same", Cap: 1, Reqs: []z15Req{{Kind: "blob", A: "x"}, {Kind: "blob", A: "x"}}},
		{Name: "blob|blob", Cap: 1, Reqs: []z15Req{{Kind: "blob", A: "x"}, {Kind: "blob", A: "y"}}},
		{Name: "pull|pull", Cap: 1, Reqs: []z15Req{{Kind: "pull"}, {Kind: "pull"}}},
		{Name: "pull-gone-late", Cap: 2, Reqs: []z15Req{{Kind: "pull-gone-late"}}},
		{Name: "push-gone-late", Cap: 2, Reqs: []z15Req{{Kind: "push-gone-late", A: "reg.test/lib/up:tag"}}},
		{Name: "push-gone-late redirect", Cap: 1, Redirect: true, Reqs: []z15Req{{Kind: "push-gone-late", A: "reg.test/lib/up:tag"}}},
		{Name: "pull-gone", Cap: 2, Reqs: []z15Req{{Kind: "pull-gone"}}},
		{Name: "push-gone", Cap: 2, Reqs: []z15Req{{Kind: "push-gone", A: "reg.test/lib/up:tag"}}},
		{Name: "push-gone redirect", Cap: 1, Redirect: true, Reqs: []z15Req{{Kind: "push-gone", A: "reg.test/lib/up:tag"}}},
		{Name: "push|push", Cap: 1, Reqs: []z15Req{{Kind: "push", A: "reg.test/lib/up:tag"}, {Kind: "push", A: "reg.test/lib/up2:tag"}}},
	}
	if thorough {
		l = append(l,
			z15Scenario{Name: "generate|unload|ps", Reqs: []z15Req{{Kind: "generate", A: "a"}, {Kind: "unload", A: "a"}, {Kind: "ps"}}},
			z15Scenario{Name: "generate-a|generate-b|ps max1", Env: map[string]string{"OLLAMA_MAX_LOADED_MODELS": "1"}, Reqs: []z15Req{{Kind: "generate", A: "a"}, {Kind: "generate", A: "b"}, {Kind: "ps"}}},
			z15Scenario{Name: "create|copy|delete", Reqs: []z15Req{{Kind: "create", A: "c", B: "S1"}, {Kind: "copy", A: "a", B: "c"}, {Kind: "delete", A: "c"}}},
			z15Scenario{Name: "pull|tags", Reqs: []z15Req{{Kind: "pull"}, {Kind: "tags"}}},
			z15Scenario{Name: "push-gone|push", Redirect: true, Reqs: []z15Req{{Kind: "push-gone", A: "reg.test/lib/up:tag"}, {Kind: "push", A: "reg.test/lib/up2:tag"}}},
			z15Scenario{Name: "pull-gone|pull", Reqs: []z15Req{{Kind: "pull-gone"}, {Kind: "pull"}}},
			z15Scenario{Name: "chat|chat|ps", Reqs: []z15Req{{Kind: "chat", A: "a"}, {Kind: "chat", A: "a"}, {Kind: "ps"}}},
		)
	}
	return l
}

var errZ15 = errors.New("unused")

func z15RaceSig(race string) string {
	// "<kind>: <name> @ file:line by T unordered with <name> @ file:line by T" -> kind + the two location names
	kind := race
	if i := strings.Index(race, ":"); i > 0 {
		kind = race[:i]
	}
	var names []string
	for _, part := range strings.Split(race, " unordered with ") {
		part = strings.TrimPrefix(part, kind+": ")
		if i := strings.Index(part, " @ "); i > 0 {
			n := part[:i]
			site := part[i+3:]
			if j := strings.Index(site, " by "); j > 0 {
				site = site[:j]
			}
			// function-level site: file without the line number
			if k := strings.LastIndex(site, ":"); k > 0 {
				site = site[:k]
			}
			names = append(names, n+"@"+site[strings.LastIndex(site, "/")+1:])
		}
	}
	sort.Strings(names)
	return "C15/race/" + strings.Join(names, "~")
}

// z1Scenarios: the scenarios of the handler part of C01 (requests that use, share, lose and outlive runners)
var z1Scenarios = []string{"generate0|ps", "generate0-gone", "generate-gone|generate", "generate-gone-late|generate", "generate|generate", "generate-a|generate-b max1",
	"generate0-long", "generate-long|unload", "chat|unload", "generate-loadfail|generate", "generate-e|generate-a max2 cpu", "generate-e|unload-a max2 cpu",
	"generate|unload|ps", "chat|chat|ps"}

var z1ThoroughOnly = []string{"generate0|ps", "generate-a|generate-b max1", "generate-e|generate-a max2 cpu", "generate|unload|ps", "chat|chat|ps"}

func ZZVerifC15() { z15Main("C15") }

// ZZVerifC02Handlers is the second part of C02: every handler returns (the request was answered), and once all have
// returned and the keep-alive periods are over, every runner has been shut down.
func ZZVerifC02Handlers() { z15Drain = true; z15Main("C02") }

// ZZVerifC01Handlers is the second part of C01: the same server, driven through its HTTP handlers (scheduleRunner,
// the request contexts net/http would give them), judged by the runner monitors only.
func ZZVerifC01Handlers() { z15Main("C01") }

func z15Main(id string) {
	r := evid.Start(id, "model_checking")
	thorough := evid.Thorough()
	ztSetupProcess("c15")
	defer ztCleanupProcess()
	scs := z15Scenarios(thorough)
	if id == "C01" || id == "C02" {
		var sub []z15Scenario
		for _, s := range scs {
			if slices.Contains(z1Scenarios, s.Name) && (thorough || !slices.Contains(z1ThoroughOnly, s.Name)) {
				sub = append(sub, s)
			}
		}
		scs = sub
	}
	by := map[string]z15Scenario{}
	var names []string
	for _, s := range scs {
		if only := gos.Getenv("VERIF_SCENARIO"); only != "" && only != s.Name {
			continue // (debugging aid; the run is then marked as not exhaustive below)
		}
		by[s.Name] = s
		names = append(names, s.Name)
	}
	var bounds mcrt.Bounds
	bounds[mcrt.Preempt] = 1
	bounds[mcrt.Switch] = 1
	bounds[mcrt.Time] = 1
	bounds[mcrt.Order] = 1
	bounds[mcrt.Cancel] = 1
	total := 2
	budget := 300 * gotime.Second
	if id == "C01" || id == "C02" {
		budget = 150 * gotime.Second
	}
	if thorough {
		bounds[mcrt.Preempt] = 2
		bounds[mcrt.Switch] = 2
		total = 3
		budget = 18 * gotime.Minute
	}
	if p := evid.ReplayPath(); p != "" {
		var rp z15Replay
		if err := evid.LoadReplay(p, &rp); err != nil {
			fmt.Println("replay:", err)
			gos.Exit(2)
		}
		x := &mcrt.Explorer{Bounds: rp.Bounds, TotalCap: rp.Total, Body: z15Body(rp.Scenario), Cfg: mcrt.Config{MaxSteps: 30000}, NoCache: true}
		res, labels := x.Replay(mcrt.DecodeChoices(rp.Choices))
		ztCleanupProcess()
		js, _ := json.Marshal(rp.Scenario)
		fmt.Printf("scenario %s\n", js)
		for _, l := range labels {
			fmt.Println("  choice", l)
		}
		for _, t := range res.Trace {
			fmt.Println(t)
		}
		bad := false
		for _, f := range res.Failures {
			fmt.Println("FAILS:", f)
			bad = true
		}
		for _, rc := range res.Races {
			fmt.Println("RACE:", rc)
			bad = true
		}
		for _, rc := range res.LockRaces {
			fmt.Println("RACE (under another lock order):", rc)
			bad = true
		}
		for _, pn := range res.Panics {
			fmt.Println("PANIC:", pn.Value, "\n", pn.Stack)
			bad = true
		}
		if bad {
			gos.Exit(1)
		}
		fmt.Println("holds on this execution")
		gos.Exit(0)
	}
	deadline := gotime.Now().Add(budget)
	capOf := func(n string) int {
		if c := by[n].Cap; c > 0 && !thorough {
			return c
		}
		return total
	}
	onExec := func(sub *evid.Run, name string, x *mcrt.Explorer) func([]int, *mcrt.Result) {
		return func(choices []int, res *mcrt.Result) {
			if res.Pruned {
				return
			}
			key := name + "\n" + strings.Join(res.Log, "\n")
			if sub.Distinct("outcome", key) {
				sub.Distinct("nontrivial", key)
				if sub.WantSample() {
					sub.Sample(map[string]any{"scenario": name, "log": res.Log})
				} else {
					sub.Sample(nil)
				}
			}
			type viol struct{ sig, msg string }
			var vs []viol
			if id == "C02" {
				// a request whose client is still there never got its answer: its handler never returned
				returned := false
				for _, l := range res.Log {
					returned = returned || l == "all requests returned"
				}
				if !returned && !res.Horizon && !res.Aborted && len(res.Panics) == 0 {
					// (a request whose client went away may stay without a reply: "a cancelled request receives at most one")
					var stuck []string
					for _, b := range res.Blocked {
						if strings.HasPrefix(b, "req") && !strings.Contains(strings.SplitN(b, " ", 2)[0], "-gone") {
							stuck = append(stuck, b)
						}
					}
					if len(stuck) > 0 {
						vs = append(vs, viol{"C02/handlers/request-never-answered", "C02: a request whose client is still there never received a reply: its handler never returned: " + strings.Join(stuck, ", ") + "; all blocked threads: " + strings.Join(res.Blocked, ", ")})
					}
				}
				for _, f := range res.Failures {
					if strings.Contains(f, "not-drained") {
						f = strings.Replace(f, "C15:", "C02:", 1)
						vs = append(vs, viol{ztSig("C02", f, "handlers"), f})
					}
				}
			}
			failures, races, lockRaces, panics := res.Failures, res.Races, res.LockRaces, res.Panics
			if id == "C02" {
				failures = nil
			}
			if id != "C15" {
				races, lockRaces, panics = nil, nil, nil // (judged by the C15 check)
			}
			for _, f := range failures {
				if id == "C01" {
					// the runner monitors only: used after shut-down, shut down twice, shut down in use
					if strings.Contains(f, "completion-on-closed-runner") || strings.Contains(f, "shut down twice") || strings.Contains(f, "closed-in-use") {
						f = strings.Replace(f, "C15:", "C01:", 1)
						vs = append(vs, viol{ztSig("C01", f, "handlers"), f})
					}
					continue
				}
				vs = append(vs, viol{ztSig("C15", f, "handlers"), f})
			}
			for _, rc := range races {
				vs = append(vs, viol{z15RaceSig(rc), "C15: data race: " + rc})
			}
			for _, rc := range lockRaces {
				vs = append(vs, viol{strings.Replace(z15RaceSig(rc), "C15/race/", "C15/lock-order-race/", 1), "C15: data race under another lock order: " + rc})
			}
			for _, p := range panics {
				site := "?"
				for _, ln := range strings.Split(p.Stack, "\n") {
					if strings.Contains(ln, "ollama/server.") && !strings.Contains(ln, "zz_verif") {
						site = strings.TrimSpace(ln)
						if i := strings.Index(site, "("); i > 0 {
							site = site[:i]
						}
						site = site[strings.LastIndex(site, ".")+1:]
						break
					}
				}
				vs = append(vs, viol{"C15/panic/" + site, "C15: panic in " + p.Thread + ": " + strings.SplitN(p.Value, "\n", 2)[0]})
			}
			if len(vs) == 0 {
				return
			}
			if !x.Confirm(choices, res, 5) {
				sub.Extra("machinery_errors", []string{"nondeterministic replay in " + name + " " + mcrt.EncodeChoices(choices)})
				return
			}
			sc := by[name]
			for _, v := range vs {
				sub.Violation(v.sig, v.msg+"\nscenario "+name+"\nchoices "+mcrt.EncodeChoices(choices)+"\nlog:\n  "+strings.Join(res.Log, "\n  "),
					z15Replay{Scenario: sc, Choices: mcrt.EncodeChoices(choices), Bounds: bounds, Total: capOf(name)})
			}
		}
	}
	if gos.Getenv("VERIF_SCENARIO") != "" {
		r.NotExhaustive("VERIF_SCENARIO set: only one scenario was run")
	}
	var items []string
	if !evid.IsWorker() {
		for _, n := range names {
			x := &mcrt.Explorer{Bounds: bounds, TotalCap: capOf(n), Body: z15Body(by[n]), Cfg: mcrt.Config{MaxSteps: 30000}}
			x.OnExec = onExec(r, n, x)
			for _, p := range x.Roots() {
				items = append(items, n+"#"+mcrt.EncodeChoices(p))
			}
			r.Add("evaluations", x.Execs)
			r.Add("transitions", x.Transitions)
			for k := range x.States {
				r.DistinctH("state", k.A^k.B^k.Cur)
			}
		}
	}
	r.Fanout(items, evid.FanoutOpts{Env: []string{"GOMAXPROCS=2"}, MemLimitMB: 4096}, func(item string, sub *evid.Run) {
		parts := strings.SplitN(item, "#", 2)
		x := &mcrt.Explorer{Bounds: bounds, TotalCap: capOf(parts[0]), Body: z15Body(by[parts[0]]), Cfg: mcrt.Config{MaxSteps: 30000}, Deadline: deadline}
		x.OnExec = onExec(sub, parts[0], x)
		x.Explore(mcrt.DecodeChoices(parts[1]))
		sub.Add("evaluations", x.Execs)
		sub.Add("traces_validated_against_impl", x.Execs-x.PrunedExecs)
		sub.Add("transitions", x.Transitions)
		sub.Add("pruned_by_hb_cache", x.PrunedExecs)
		for k := range x.States {
			sub.DistinctH("state", k.A^k.B^k.Cur)
		}
		if x.Stopped {
			sub.NotExhaustive("time budget reached in " + item)
		}
	})
	if id == "C02" {
		r.Rule("handler part of C02: the scenarios of the handler part of C01 (concurrent generate / chat / unload / ps requests, clients that go away, a runner that dies while loading, three models with room for two, a generation that outlasts every server-side timeout) on one real Server, every schedule within the deviation bounds; every request's handler must return (scheduleRunner got its one reply) and, after all have returned and every keep-alive timer has run, every runner that was started has been shut down and the scheduler lists nothing as loaded. Non-trivial = distinct observation logs.")
		r.Extra("bounds", fmt.Sprintf("%s; total deviations <= %d (scenarios with quick_total_cap: that value in the quick tier)", bounds.String(), total))
		r.Extra("scenarios", names)
		r.Finish()
		return
	}
	if id == "C01" {
		r.Rule("handler part of C01: for each scenario of concurrent generate / chat / unload / ps requests (incl. clients that go away, a runner that dies while loading, three models with room for two, a generation that outlasts every server-side timeout in virtual time) on one real Server - real scheduleRunner, real Scheduler loops and timers, request contexts as net/http gives them, mock runner - every schedule within the deviation bounds; monitors inside the mock runner: no completion starts on a runner that was shut down, no runner is shut down twice, no runner is shut down while a request whose context has not ended is running on it. Non-trivial = distinct observation logs.")
		r.Extra("bounds", fmt.Sprintf("%s; total deviations <= %d (scenarios with quick_total_cap: that value in the quick tier)", bounds.String(), total))
		r.Extra("scenarios", names)
		r.Assume("a request is in progress until its handler returns or its context ends (a client that went away has released the runner)")
		r.Finish()
		return
	}
	r.Rule("for each pair (thorough: also triples) of concurrent API requests on one real Server (real Scheduler loops and timers, real store on the controlled FS, mock runner, fake registry) every schedule within the deviation bounds; in every execution a vector-clock happens-before detector checks every access package server makes, in statements of its own, to a field of a struct type it declares or to one of its package-level variables (locations of sync / atomic / channel / context types excepted: they are scheduling points with clocks of their own), and reports conflicting accesses that are unordered or ordered only through the acquisition order of a lock the two do not share; panics in any goroutine and gin-recovered handler panics are captured, and every model /api/ps lists must have had a live runner at some instant of the ps request. Non-trivial = distinct observation logs.")
	r.Extra("bounds", fmt.Sprintf("%s; total deviations <= %d (scenarios with quick_total_cap: that value in the quick tier)", bounds.String(), total))
	r.Extra("scenarios", names)
	r.Assume("races are reported for package server's own state (fields of its struct types, its package variables; element accesses a[i].f / m[k].f included); memory behind values of other packages' types (api.Options contents, gin contexts, maps and slices reached through a local copy of the header) is covered only by the panic and torn-view monitors",
		"request contexts end when the handler returns, as under net/http")
	r.Finish()
}

type z15Replay struct {
	Scenario z15Scenario `json:"scenario"`
	Choices  string      `json:"choices"`
	Bounds   mcrt.Bounds `json:"bounds"`
	Total    int         `json:"total_cap"`
}
