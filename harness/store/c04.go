package server

// C04: breadth-first search over sequences of API operations (create from
// files / from a model, copy, delete, pull, restart-prune) on a small name
// alphabet with case variants, through the real gin router; invariants on
// every reached store state; states deduplicated on the directory content.

import (
	"bytes"
	gocontext "context"
	"crypto/sha256"
	"encoding/json"
	"fmt"
	"net/http"
	"net/http/httptest"
	gos "os"
	"path/filepath"
	"sort"
	"strings"
	gotime "time"

	"github.com/ollama/ollama/api"
	"github.com/ollama/ollama/fs/ggml"
	"github.com/ollama/ollama/zzverif/evid"
	"github.com/ollama/ollama/zzverif/fakereg"
	"github.com/ollama/ollama/zzverif/mcos"
	"github.com/ollama/ollama/zzverif/mcrt"
)

type z4Op struct {
	Kind   string `json:"op"` // create, from, copy, delete, pull, restart
	Name   string `json:"name,omitempty"`
	Src    string `json:"src,omitempty"`
	GGUF   int    `json:"gguf,omitempty"`
	System string `json:"system,omitempty"`
	// License and Template: further layers of a create; a license with the text of a system prompt
	// shares one blob under two media types, a template overrides the one create detects in the file
	License  string `json:"license,omitempty"`
	Template string `json:"template,omitempty"`
	// Dash: the model file is named by the other accepted spelling of its digest, "sha256-<hex>"
	Dash bool `json:"dash,omitempty"`
	// upload: the bytes of model file GGUF are sent to /api/blobs/<digest>; As (if not 0) announces them under the digest
	// of another file, Upper spells the right digest in upper-case hex
	As    int  `json:"as,omitempty"`
	Upper bool `json:"upper,omitempty"`
	// Streamed: the request asks for the streamed (NDJSON) answer; success = the last line says so and no line carries an error
	Streamed bool `json:"streamed,omitempty"`
}

func (o z4Op) extras() string {
	s := ""
	if o.License != "" {
		s += fmt.Sprintf(",license=%q", o.License)
	}
	if o.Template != "" {
		s += fmt.Sprintf(",template=%q", o.Template)
	}
	if o.Dash {
		s += ",digest spelled sha256-"
	}
	if o.Upper && o.Kind == "create" {
		s += ",digest in upper case"
	}
	if o.Streamed {
		s += ",streamed"
	}
	return s
}

func (o z4Op) String() string {
	switch o.Kind {
	case "create":
		return fmt.Sprintf("create(%s,G%d,sys=%q%s)", o.Name, o.GGUF, o.System, o.extras())
	case "from":
		return fmt.Sprintf("create(%s from %s,sys=%q%s)", o.Name, o.Src, o.System, o.extras())
	case "copy":
		return fmt.Sprintf("copy(%s->%s)", o.Src, o.Name)
	case "delete":
		return fmt.Sprintf("delete(%s)", o.Name)
	case "pullh":
		return fmt.Sprintf("pull(%s)", o.Name)
	case "upload":
		return fmt.Sprintf("upload(G%d as G%d upper=%v)", o.GGUF, o.As, o.Upper)
	default:
		return o.Kind
	}
}

var z4Names = []string{"a", "A", "b", "ns/a", "NS/a", "a:t2"}

func z4Alphabet(thorough bool) []z4Op {
	var l []z4Op
	for _, n := range z4Names {
		l = append(l, z4Op{Kind: "create", Name: n, GGUF: 1})
	}
	l = append(l, z4Op{Kind: "create", Name: "a", GGUF: 2}, z4Op{Kind: "create", Name: "a", GGUF: 1, System: "S1"}, z4Op{Kind: "create", Name: "b", GGUF: 1, System: "S2"})
	for _, n := range []string{"b", "A", "ns/a"} {
		l = append(l, z4Op{Kind: "from", Name: n, Src: "a", System: "S1"})
	}
	l = append(l, z4Op{Kind: "from", Name: "a", Src: "b", System: "S2"})
	for _, p := range [][2]string{{"a", "b"}, {"a", "A"}, {"b", "a"}, {"a", "ns/a"}, {"A", "b"}, {"ns/a", "NS/a"}, {"b", "a:t2"}} {
		l = append(l, z4Op{Kind: "copy", Src: p[0], Name: p[1]})
	}
	for _, n := range []string{"a", "A", "b", "ns/a", "a:t2"} {
		l = append(l, z4Op{Kind: "delete", Name: n})
	}
	l = append(l, z4Op{Kind: "pull"}, z4Op{Kind: "restart"})
	// layers shared in less obvious ways: the same bytes as system prompt of one model and license of another;
	// a template detected from the model file (G3 carries a chat template create recognises) kept by one model
	// and overridden in another
	l = append(l,
		z4Op{Kind: "create", Name: "b", GGUF: 1, License: "S1"},
		z4Op{Kind: "create", Name: "a", GGUF: 3},
		z4Op{Kind: "create", Name: "b", GGUF: 3, Template: z4Template},
		z4Op{Kind: "from", Name: "b", Src: "a", Template: z4Template},
		z4Op{Kind: "create", Name: "b", GGUF: 2, Dash: true},
		z4Op{Kind: "create", Name: "b", GGUF: 1, Upper: true},
		// the default namespace in another letter case, and a pull by short name from the default registry
		z4Op{Kind: "create", Name: "Library/a", GGUF: 1},
		z4Op{Kind: "pullh", Name: "a"},
		z4Op{Kind: "pullh", Name: "dash"},
		// a model made of an adapter only
		z4Op{Kind: "create", Name: "b", GGUF: 4},
		// streamed creates from a model that is neither in the store nor on the registry, onto a new and onto an existing name
		// uploads of the bytes of a file that may be in use, announced under a wrong or differently spelled digest
		z4Op{Kind: "upload", GGUF: 1, As: 2},
		z4Op{Kind: "upload", GGUF: 1, Upper: true},
		z4Op{Kind: "from", Name: "b", Src: "nosuch", Streamed: true},
		z4Op{Kind: "from", Name: "a", Src: "nosuch", System: "S2", Streamed: true})
	return l
}

const z4Template = "{{ .Prompt }} T"

// z4ChatML is the chatml entry of template/index.json: create recognises it in tokenizer.chat_template
// and adds the matching template and parameter layers by itself.
const z4ChatML = "{% if messages[0]['role'] == 'system' %}{% set system_message = messages[0]['content'] %}{% endif %}{% if system_message is defined %}{{ system_message }}{% endif %}{% for message in messages %}{% set content = message['content'] %}{% if message['role'] == 'user' %}{{ '<|im_start|>user\\n' + content + '<|im_end|>\\n<|im_start|>assistant\\n' }}{% elif message['role'] == 'assistant' %}{{ content + '<|im_end|>' + '\\n' }}{% endif %}{% endfor %}"

// z4Bytes: the bytes of the harness's model file number k
func z4Bytes(k int) []byte {
	data := append([]byte{}, ztGGUFBlob()...)
	if k == 2 {
		// a second, different model file: same structure, one tensor byte changed
		data[len(data)-1] ^= 0xff
	}
	if k == 3 {
		data = ztGGUFWith(ggml.KV{"tokenizer.chat_template": z4ChatML})
	}
	if k == 4 {
		data = ztGGUFWith(ggml.KV{"general.type": "adapter"})
	}
	return data
}

func z4GGUF(w *z12World, k int) string {
	data := z4Bytes(k)
	d := fmt.Sprintf("sha256:%x", sha256.Sum256(data))
	if _, err := gos.Stat(w.blobFile(d)); err != nil {
		gos.MkdirAll(filepath.Join(w.models, "blobs"), 0o755)
		gos.WriteFile(w.blobFile(d), data, 0o644)
	}
	return d
}

func z4License(o z4Op) any {
	if o.License == "" {
		return nil
	}
	return o.License
}

func z4Full(name string) string {
	// canonical lower-case full name for "same model up to case" comparisons
	n := name
	tag := "latest"
	if i := strings.LastIndex(n, ":"); i >= 0 {
		n, tag = n[:i], n[i+1:]
	}
	if !strings.Contains(n, "/") {
		n = "library/" + n
	}
	return strings.ToLower("registry.ollama.ai/" + n + "/" + tag)
}

// apply executes op through the router; returns whether it reported success.
func (w *z12World) z4Apply(o z4Op) (bool, string) {
	stream := false
	switch o.Kind {
	case "create":
		d := z4GGUF(w, o.GGUF)
		if o.Dash {
			d = strings.Replace(d, ":", "-", 1)
		}
		if o.Upper {
			d = "sha256:" + strings.ToUpper(strings.TrimPrefix(d, "sha256:"))
		}
		code, body := ztCall(w.h, "POST", "/api/create", api.CreateRequest{Model: o.Name, Files: map[string]string{"m.gguf": d}, System: o.System, Template: o.Template, License: z4License(o), Stream: &stream})
		mcrt.WaitIdle(false)
		return code == 200, body
	case "from":
		if o.Streamed {
			yes := true
			code, body := ztCall(w.h, "POST", "/api/create", api.CreateRequest{Model: o.Name, From: o.Src, System: o.System, Template: o.Template, License: z4License(o), Stream: &yes})
			mcrt.WaitIdle(false)
			return code == 200 && !strings.Contains(body, `"error"`) && strings.Contains(body, `"success"`), body
		}
		code, body := ztCall(w.h, "POST", "/api/create", api.CreateRequest{Model: o.Name, From: o.Src, System: o.System, Template: o.Template, License: z4License(o), Stream: &stream})
		mcrt.WaitIdle(false)
		return code == 200, body
	case "copy":
		code, body := ztCall(w.h, "POST", "/api/copy", api.CopyRequest{Source: o.Src, Destination: o.Name})
		return code == 200, body
	case "delete":
		code, body := ztCall(w.h, "DELETE", "/api/delete", api.DeleteRequest{Model: o.Name})
		return code == 200, body
	case "upload":
		data := z4Bytes(o.GGUF)
		d := fmt.Sprintf("sha256:%x", sha256.Sum256(data))
		if o.As != 0 {
			d = fmt.Sprintf("sha256:%x", sha256.Sum256(z4Bytes(o.As)))
		}
		if o.Upper {
			d = "sha256:" + strings.ToUpper(strings.TrimPrefix(d, "sha256:"))
		}
		req := httptest.NewRequest("POST", "/api/blobs/"+d, bytes.NewReader(data))
		rec := &ztRecorder{ResponseRecorder: httptest.NewRecorder()}
		w.h.ServeHTTP(rec, req)
		return rec.Code/100 == 2, rec.Body.String()
	case "pullh":
		// pull through the API handler, from the default registry (host and namespace are implied by the short name)
		code, body := ztCall(w.h, "POST", "/api/pull", api.PullRequest{Model: o.Name, Stream: &stream})
		mcrt.WaitIdle(false)
		return code == 200 && !strings.Contains(body, `"error"`), body
	case "pull":
		err := PullModel(gocontext.Background(), ztName, &registryOptions{}, func(api.ProgressResponse) {})
		mcrt.WaitIdle(false)
		return err == nil, fmt.Sprint(err)
	case "restart":
		ztResetGlobals()
		w.h = ztRouter()
		err := ztRestart()
		return err == nil, fmt.Sprint(err)
	}
	panic("bad op")
}

type z4Result struct {
	Fingerprint string
	Failures    []string
	Listed      int
	NoEffect    []string // operations that reported success without the effect their name promises (observed, not judged)
	AutoTmpl    int      // creates from the file with a recognised chat template that produced a template layer by themselves
}

// z4Run replays history from an empty store and checks the invariants after every operation.
func z4Run(history []z4Op) z4Result {
	var out z4Result
	res := mcrt.Run(z12Chooser{}, mcrt.Config{MaxSteps: 200000}, func() {
		zw := ztNewWorld(nil)
		mcos.E.Frozen = true // no crash/fault points here; FS calls pass straight through
		w := &z12World{ztWorld: zw, h: ztRouter()}
		w.srv.NoFaultsLeft = true
		w.publish("lib/model:tag", []int{10, 3}, 2, 3)
		// the default registry serves library/a:latest
		def := fakereg.New("registry.ollama.ai")
		def.NoFaultsLeft = true
		def.CDNHost = "cdn.ollama.test" // (the legacy downloader needs the blob GET to be redirected)
		{
			// a complete small model: config, model file (a third variant of the harness's GGUF), licence
			gguf := append([]byte{}, ztGGUFBlob()...)
			gguf[len(gguf)-1] ^= 0x55
			cfg := []byte(`{"model_format":"gguf","model_family":"llama","model_families":["llama"],"model_type":"1B","file_type":"F32","architecture":"amd64","os":"linux","rootfs":{"type":"layers","diff_ids":[]}}`)
			lic := ztData(5, 9)
			mb, _ := json.Marshal(ztManifest{SchemaVersion: 2, MediaType: "application/vnd.docker.distribution.manifest.v2+json",
				Config: ztLayer{"application/vnd.docker.container.image.v1+json", def.AddBlob(cfg), len(cfg)},
				Layers: []ztLayer{{"application/vnd.ollama.image.model", def.AddBlob(gguf), len(gguf)}, {"application/vnd.ollama.image.license", def.AddBlob(lic), len(lic)}}})
			def.Manifests["library/a:latest"] = mb
			// the same model under another name, its manifest spelling the digests sha256-<hex> (the file name form,
			// which GetBlobsPath accepts)
			def.DashDigests = true
			def.Manifests["library/dash:latest"] = []byte(strings.ReplaceAll(string(mb), `"sha256:`, `"sha256-`))
		}
		http.DefaultTransport = fakereg.Multi{w.srv, def}
		for i, o := range history {
			before := w.snapshot()
			ok, detail := w.z4Apply(o)
			if gos.Getenv("VERIF_DEBUG_DUMP") != "" {
				fmt.Fprintf(gos.Stderr, "OP %v -> %v %s\n", o, ok, strings.TrimSpace(detail))
			}
			after := w.snapshot()
			where := fmt.Sprintf("after %v", history[:i+1])
			if ok && o.Kind == "create" && o.GGUF == 3 && o.Template == "" {
				for name, raw := range after.Manifests {
					if strings.EqualFold(name, z4Full(o.Name)) && strings.Contains(raw, "application/vnd.ollama.image.template") {
						out.AutoTmpl++
					}
				}
			}
			// I2: models not named by the operation keep their manifest bytes
			target := z4Full(o.Name)
			if o.Kind == "pull" {
				target = "reg.test/lib/model/tag"
			}
			for name, raw := range before.Manifests {
				if strings.EqualFold(name, target) || o.Kind == "restart" {
					continue
				}
				if after.Manifests[name] != raw {
					mcrt.Fail("C04: bystander-changed: %s changed or removed the manifest of %s, which it does not name (%s)", o, name, where)
				}
			}
			// I1: everything listed can be shown and is complete
			code, body := ztCall(w.h, "GET", "/api/tags", nil)
			var tags api.ListResponse
			if code != 200 || json.Unmarshal([]byte(body), &tags) != nil {
				mcrt.Fail("C04: list-fails: /api/tags answers %d %s (%s)", code, body, where)
				return
			}
			listed := map[string]bool{}
			for _, m := range tags.Models {
				if c, b := ztCall(w.h, "POST", "/api/show", api.ShowRequest{Model: m.Name}); c != 200 {
					clause := "listed-not-showable"
					// a complete model without weights of its own (made of an adapter only) is a case of its own
					for mn, raw := range after.Manifests {
						if strings.EqualFold(mn, z4Full(m.Name)) && strings.Contains(raw, "application/vnd.ollama.image.adapter") && !strings.Contains(raw, "application/vnd.ollama.image.model") {
							clause = "listed-not-showable-adapter-only"
						}
					}
					mcrt.Fail("C04: %s: %s is listed but /api/show answers %d %s (%s)", clause, m.Name, c, strings.TrimSpace(b), where)
				}
				lower := strings.ToLower(m.Name)
				if listed[lower] {
					mcrt.Fail("C04: case-twins: two listed models differ only by letter case: %s (%s)", m.Name, where)
				}
				listed[lower] = true
			}
			w.checkResolvable(func(m string) { mcrt.Fail("C04: %s (%s)", m, where) })
			// I5: effect of the operation on the listing
			if ok {
				full := z4Full(o.Name)
				has := false
				for name := range after.Manifests {
					if strings.EqualFold(name, full) {
						has = true
					}
				}
				switch o.Kind {
				case "create", "from", "copy":
					if o.Kind == "copy" && strings.EqualFold(z4Full(o.Src), full) {
						break // copying a model onto itself (up to case) is a no-op that reports success even if it does not exist
					}
					// (the C04 text says nothing about what a reported success means: counted and shown in the
					// evidence, not judged - e.g. a non-streamed create FROM a model that has to be pulled answers
					// with the pull's "success" and never creates the model)
					if !has {
						out.NoEffect = append(out.NoEffect, fmt.Sprintf("%s reported success but the model is not in the store (%s)", o, where))
					}
				case "delete":
					if has {
						out.NoEffect = append(out.NoEffect, fmt.Sprintf("%s reported success but the model is still in the store (%s)", o, where))
					}
				}
			}
			// I3: after a restart, exactly the referenced blobs remain and no empty manifest directories
			if o.Kind == "restart" && ok {
				ref := map[string]bool{}
				unreadable := false
				for _, raw := range after.Manifests {
					var m ztManifest
					if json.Unmarshal([]byte(raw), &m) != nil {
						unreadable = true
						continue
					}
					for _, l := range m.all() {
						ref[strings.Replace(l.Digest, ":", "-", 1)] = true
					}
				}
				if !unreadable {
					for b := range after.Blobs {
						if !ref[b] {
							mcrt.Fail("C04: prune-leaves-unreferenced: blob %s is referenced by no manifest after the startup prune (%s)", b[:16], where)
						}
					}
					for b := range ref {
						if _, ok := after.Blobs[b]; !ok {
							mcrt.Fail("C04: prune-removed-referenced: blob %s is referenced but gone after the startup prune (%s)", b[:16], where)
						}
					}
				}
				filepath.Walk(filepath.Join(w.models, "manifests"), func(p string, info gos.FileInfo, err error) error {
					if err == nil && info.IsDir() && p != filepath.Join(w.models, "manifests") {
						if ents, _ := gos.ReadDir(p); len(ents) == 0 {
							mcrt.Fail("C04: prune-leaves-empty-dir: %s is empty after the startup prune (%s)", strings.TrimPrefix(p, w.models), where)
						}
					}
					return nil
				})
			}
			out.Listed = len(tags.Models)
		}
		out.Fingerprint = w.snapshot().semantic4()
		if gos.Getenv("VERIF_DEBUG_DUMP") != "" {
			for n, raw := range w.snapshot().Manifests {
				fmt.Fprintf(gos.Stderr, "MANIFEST %s %s\n", n, raw)
			}
		}
	})
	out.Failures = res.Failures
	for _, p := range res.Panics {
		out.Failures = append(out.Failures, "C04: panic: "+strings.SplitN(p.Value, "\n", 2)[0])
	}
	return out
}

// semantic4: full content fingerprint (manifest bytes matter here: system layers etc.)
func (s ztSnap) semantic4() string {
	var names []string
	for n := range s.Manifests {
		names = append(names, n)
	}
	sort.Strings(names)
	var b strings.Builder
	for _, n := range names {
		// (a layer created from a file records the file's absolute path: the per-process scratch root is not part of the state)
		fmt.Fprintf(&b, "%s=%x\n", n, sha256.Sum256([]byte(strings.ReplaceAll(s.Manifests[n], ztRoot, "$ROOT"))))
	}
	var blobs []string
	for n := range s.Blobs {
		blobs = append(blobs, n)
	}
	sort.Strings(blobs)
	b.WriteString(strings.Join(blobs, ","))
	return b.String()
}

type z4Replay struct {
	History []z4Op `json:"history"`
}

func z4Sig(f string) string {
	s := strings.TrimPrefix(f, "C04: ")
	if i := strings.Index(s, ":"); i > 0 {
		s = s[:i]
	}
	return "C04/" + s
}

func ZZVerifC04() {
	r := evid.Start("C04", "model_checking")
	thorough := evid.Thorough()
	ztSetupProcess("c04[x]") // (the models directory has glob metacharacters in its path: they must not matter)
	defer ztCleanupProcess()
	if p := evid.ReplayPath(); p != "" {
		var rp z4Replay
		if err := evid.LoadReplay(p, &rp); err != nil {
			fmt.Println("replay:", err)
			gos.Exit(2)
		}
		fmt.Printf("history %v\n", rp.History)
		res := z4Run(rp.History)
		ztCleanupProcess()
		for _, f := range res.Failures {
			fmt.Println("FAILS:", f)
		}
		if len(res.Failures) > 0 {
			gos.Exit(1)
		}
		fmt.Println("holds")
		gos.Exit(0)
	}
	alphabet := z4Alphabet(thorough)
	depth := 3
	budget := 240 * gotime.Second
	if thorough {
		depth = 5
		budget = 18 * gotime.Minute
	}
	deadline := gotime.Now().Add(budget)
	r.SetDeadline(budget)
	type node struct {
		hist []int
	}
	seen := map[string]bool{}
	frontier := []node{{}}
	root := z4Run(nil)
	seen[root.Fingerprint] = true
	r.DistinctH("state", evid.Hash(root.Fingerprint))
	enc := func(h []int) string {
		s := make([]string, len(h))
		for i, x := range h {
			s[i] = fmt.Sprint(x)
		}
		return strings.Join(s, ",")
	}
	dec := func(s string) []int {
		if s == "" {
			return nil
		}
		var h []int
		for _, x := range strings.Split(s, ",") {
			var v int
			fmt.Sscan(x, &v)
			h = append(h, v)
		}
		return h
	}
	toOps := func(h []int) []z4Op {
		l := make([]z4Op, len(h))
		for i, x := range h {
			l[i] = alphabet[x]
		}
		return l
	}
	completed := 0
	for d := 0; d < depth; d++ {
		// one work item per (state, operation)
		var items []string
		for _, n := range frontier {
			for oi := range alphabet {
				items = append(items, enc(append(append([]int{}, n.hist...), oi)))
			}
		}
		results := map[string]string{} // item -> fingerprint
		cut := false
		r.Fanout(items, evid.FanoutOpts{Env: []string{"GOMAXPROCS=2"}, MemLimitMB: 4096}, func(item string, sub *evid.Run) {
			if gotime.Now().After(deadline) {
				sub.NotExhaustive("time budget reached at depth " + fmt.Sprint(d+1))
				return
			}
			h := dec(item)
			ops := toOps(h)
			res := z4Run(ops)
			sub.Eval()
			sub.Add("transitions", 1)
			sub.Add("creates_with_autodetected_template", int64(res.AutoTmpl))
			if len(res.NoEffect) > 0 {
				sub.Add("successes_without_effect_observed", int64(len(res.NoEffect)))
				sub.Extra("observation: success without effect", res.NoEffect[0])
			}
			sub.Extra("fp:"+item, res.Fingerprint)
			if res.Listed >= 2 {
				sub.Distinct("nontrivial", res.Fingerprint)
			}
			if sub.WantSample() {
				sub.Sample(map[string]any{"history": fmt.Sprint(ops), "listed": res.Listed})
			} else {
				sub.Sample(nil)
			}
			if len(res.Failures) > 0 {
				r2 := z4Run(ops)
				if len(r2.Failures) != len(res.Failures) {
					sub.Extra("machinery_errors", []string{"C04 history not reproducible " + fmt.Sprint(ops)})
					return
				}
				sub.Violation(z4Sig(res.Failures[0]), strings.Join(res.Failures, "\n"), z4Replay{History: ops})
			}
		})
		// collect fingerprints (workers return them through Extra)
		var next []node
		for _, it := range items {
			fp, ok := r.ExtraString("fp:" + it)
			if !ok {
				cut = true
				continue
			}
			results[it] = fp
			if !seen[fp] {
				seen[fp] = true
				r.DistinctH("state", evid.Hash(fp))
				next = append(next, node{hist: dec(it)})
			}
		}
		r.DropExtraPrefix("fp:")
		if cut {
			break
		}
		completed = d + 1
		frontier = next
	}
	r.Add("traces_validated_against_impl", r.Count("evaluations"))
	r.Rule(fmt.Sprintf("breadth-first search over all sequences of up to %d operations from an alphabet of %d (create from two different model files with/without a system prompt, with a license that has the bytes of another model's system prompt, from a file whose chat template create recognises with/without a template override, create from another model, copy, delete over names a, A, b, ns/a, NS/a, a:t2 - case variants of the same part under different parents included -, pull from the fake registry, restart with startup prune) executed through the real gin router and handlers; a state is the full content of the models directory (manifest bytes and blob set), successors of equal states are not re-explored; non-trivial = states with at least two listed models", depth, len(alphabet)))
	r.Extra("bounds", map[string]any{"depth_completed": completed, "depth_target": depth, "alphabet": len(alphabet)})
	r.Assume("operations are sequential (concurrency between handlers is C15's subject)", "map iteration order inside the handlers is fixed to sorted order by the instrumenter", "the restart operation mirrors Serve's startup sequence")
	r.Finish()
}
