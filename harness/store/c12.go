package server

// C12: every crash point (before each mutating FS call and after each proper
// prefix of each write) of pull / create / copy / delete, from several prior
// store states; after the crash the "process" restarts (startup repair as in
// Serve), the store is inspected, the operation is repeated and the result is
// compared with an uninterrupted run.

import (
	"bytes"
	gocontext "context"
	"crypto/sha256"
	"encoding/json"
	"fmt"
	"io"
	"net/http"
	"net/http/httptest"
	gos "os"
	"path/filepath"
	"sort"
	"strings"
	gotime "time"

	"github.com/gin-gonic/gin"

	"github.com/ollama/ollama/api"
	"github.com/ollama/ollama/fs/ggml"
	"github.com/ollama/ollama/zzverif/evid"
	"github.com/ollama/ollama/zzverif/mcos"
	"github.com/ollama/ollama/zzverif/mcrt"
)

type z12Scenario struct {
	Name  string `json:"name"`
	Prior string `json:"prior"` // empty, pulled (model v1 + bystander sharing its first layer), created (local GGUF model "base" + copy "keep")
	Op    string `json:"op"`    // pull, create-files, create-from, copy-fresh, copy-over, delete, delete-shared, upload-create
	// NoPrune: the server runs with OLLAMA_NOPRUNE=1 (the start-up repair does not remove unreferenced blobs)
	NoPrune bool `json:"noprune,omitempty"`
}

// ---- HTTP through the real router -------------------------------------------------------

func ztRouter() http.Handler {
	gin.SetMode(gin.ReleaseMode)
	gin.DefaultWriter = io.Discard
	gin.DefaultErrorWriter = io.Discard
	s := &Server{}
	h, err := s.GenerateRoutes(nil)
	if err != nil {
		panic(err)
	}
	return h
}

func ztCall(h http.Handler, method, path string, body any) (int, string) {
	var rd io.Reader
	if body != nil {
		b, _ := json.Marshal(body)
		rd = bytes.NewReader(b)
	}
	req := httptest.NewRequest(method, path, rd)
	rec := &ztRecorder{ResponseRecorder: httptest.NewRecorder()}
	h.ServeHTTP(rec, req)
	return rec.Code, rec.Body.String()
}

// ztRecorder: gin's c.Stream asks the writer for CloseNotify, which httptest's recorder lacks.
type ztRecorder struct {
	*httptest.ResponseRecorder
	gone chan bool
}

func (r *ztRecorder) CloseNotify() <-chan bool {
	if r.gone == nil {
		r.gone = make(chan bool)
	}
	return r.gone
}

var ztGGUF []byte

func ztGGUFBlob() []byte {
	if ztGGUF == nil {
		ztGGUF = ztGGUFWith(nil)
	}
	return ztGGUF
}

var ztGGUFVariants = map[string][]byte{}

// ztGGUFWith writes the harness's small model file with additional key/values.
func ztGGUFWith(more ggml.KV) []byte {
	key := fmt.Sprint(more)
	if b, ok := ztGGUFVariants[key]; ok {
		return b
	}
	kv := ggml.KV{
		"general.architecture":          "llama",
		"llama.block_count":             uint32(1),
		"llama.context_length":          uint32(32),
		"llama.embedding_length":        uint32(8),
		"llama.attention.head_count":    uint32(1),
		"llama.attention.head_count_kv": uint32(1),
		"tokenizer.ggml.tokens":         []string{"a"},
		"tokenizer.ggml.scores":         []float32{0},
		"tokenizer.ggml.token_type":     []int32{0},
	}
	for k, v := range more {
		kv[k] = v
	}
	f, _ := gos.CreateTemp("", "zt-gguf")
	defer gos.Remove(f.Name())
	err := ggml.WriteGGUF(f, kv, []ggml.Tensor{{Name: "blk.0.attn.weight", Kind: 0, Shape: []uint64{1, 1}, WriterTo: bytes.NewReader(make([]byte, 4))}})
	f.Close()
	if err != nil {
		panic(err)
	}
	b, _ := gos.ReadFile(f.Name())
	ztGGUFVariants[key] = b
	return b
}

// ---- restart: what Serve does before it listens ---------------------------------------------

// ztRestart runs what Serve does before it listens: the statements of Serve's own body from
// `blobsDir, err := GetBlobsPath("")` up to the construction of the Server (fixBlobs, the corrupt-manifest
// check, PruneLayers, PruneDirectory), which the instrumenter copies into zzServeStartup (inst_opts.extract in
// harness.json). A change of that sequence inside Serve is therefore a change of what the harness executes.
func ztRestart() error {
	return zzServeStartup()
}

// ---- store snapshots -----------------------------------------------------------------------

type ztSnap struct {
	Manifests map[string]string // name -> raw manifest bytes
	Blobs     map[string]string // file name -> sha256 of content
}

func (w *ztWorld) snapshot() ztSnap {
	s := ztSnap{Manifests: map[string]string{}, Blobs: map[string]string{}}
	base := filepath.Join(w.models, "manifests")
	filepath.Walk(base, func(p string, info gos.FileInfo, err error) error {
		if err != nil || info.IsDir() {
			return nil
		}
		rel, _ := filepath.Rel(base, p)
		b, _ := gos.ReadFile(p)
		s.Manifests[filepath.ToSlash(rel)] = string(b)
		return nil
	})
	ents, _ := gos.ReadDir(filepath.Join(w.models, "blobs"))
	for _, e := range ents {
		b, _ := gos.ReadFile(filepath.Join(w.models, "blobs", e.Name()))
		s.Blobs[e.Name()] = fmt.Sprintf("%x", sha256.Sum256(b))
	}
	return s
}

// semantic form of a manifest (create re-marshals; compare what matters)
func ztManifestKey(raw string) string {
	var m ztManifest
	if err := json.Unmarshal([]byte(raw), &m); err != nil {
		return "UNREADABLE"
	}
	b, _ := json.Marshal(m.all())
	return string(b)
}

// referenced: the snapshot without the blob files no manifest names (what a server that runs with OLLAMA_NOPRUNE
// keeps after an interrupted operation and an uninterrupted run does not have)
func (s ztSnap) referenced() ztSnap {
	out := ztSnap{Manifests: s.Manifests, Blobs: map[string]string{}}
	for _, raw := range s.Manifests {
		var m ztManifest
		if json.Unmarshal([]byte(raw), &m) != nil {
			continue
		}
		for _, l := range m.all() {
			file := strings.Replace(l.Digest, ":", "-", 1)
			if h, ok := s.Blobs[file]; ok {
				out.Blobs[file] = h
			}
		}
	}
	return out
}

func (s ztSnap) semantic() string {
	var names []string
	for n := range s.Manifests {
		names = append(names, n)
	}
	sort.Strings(names)
	var b strings.Builder
	for _, n := range names {
		fmt.Fprintf(&b, "%s=%s\n", n, ztManifestKey(s.Manifests[n]))
	}
	var blobs []string
	for n, h := range s.Blobs {
		blobs = append(blobs, n+":"+h[:8])
	}
	sort.Strings(blobs)
	b.WriteString(strings.Join(blobs, ","))
	return b.String()
}

// checkResolvable: every name that still resolves to a readable manifest has all layers present and intact.
func (w *ztWorld) checkResolvable(fail func(string)) {
	snap := w.snapshot()
	for name, raw := range snap.Manifests {
		var m ztManifest
		if err := json.Unmarshal([]byte(raw), &m); err != nil {
			continue // does not resolve
		}
		for _, l := range m.all() {
			file := strings.Replace(l.Digest, ":", "-", 1)
			h, ok := snap.Blobs[file]
			if !ok {
				fail(fmt.Sprintf("resolvable-incomplete: %s resolves but its layer %s is missing", name, l.Digest[:14]))
				continue
			}
			if "sha256:"+h != strings.Replace(l.Digest, "-", ":", 1) { // (either spelling of the digest names the same content)
				fail(fmt.Sprintf("resolvable-corrupt: %s resolves but its layer %s has other content", name, l.Digest[:14]))
			}
		}
	}
}

// ---- the operations ---------------------------------------------------------------------------

type z12World struct {
	*ztWorld
	h      http.Handler
	gguf   string // digest of the GGUF blob
	served ztManifest
}

func (w *z12World) putBlobDirect(data []byte) string {
	d := fmt.Sprintf("sha256:%x", sha256.Sum256(data))
	gos.MkdirAll(filepath.Join(w.models, "blobs"), 0o755)
	gos.WriteFile(w.blobFile(d), data, 0o644)
	return d
}

// run performs the scenario's operation; ok means it reported success or "already took effect".
func (w *z12World) run(op string) (ok bool, detail string) {
	switch op {
	case "pull":
		err := PullModel(gocontext.Background(), ztName, &registryOptions{}, func(api.ProgressResponse) {})
		mcrt.WaitIdle(false)
		if err != nil {
			return false, err.Error()
		}
		return true, ""
	case "create-files":
		stream := false
		w.ensureGGUF()
		code, body := ztCall(w.h, "POST", "/api/create", api.CreateRequest{Model: "new", Files: map[string]string{"m.gguf": w.gguf}, System: "sys one", Stream: &stream})
		mcrt.WaitIdle(false)
		return code == 200, fmt.Sprintf("%d %s", code, strings.TrimSpace(body))
	case "upload-create":
		// what the CLI does: ask whether the server has the file, upload it through the blob handler if not, create
		stream := false
		data := append([]byte{}, ztGGUFBlob()...)
		data[len(data)-1] ^= 0x0f // (a model file the prior state does not hold)
		d := fmt.Sprintf("sha256:%x", sha256.Sum256(data))
		if code, _ := ztCall(w.h, "HEAD", "/api/blobs/"+d, nil); code != 200 {
			req := httptest.NewRequest("POST", "/api/blobs/"+d, bytes.NewReader(data))
			rec := &ztRecorder{ResponseRecorder: httptest.NewRecorder()}
			w.h.ServeHTTP(rec, req)
			if rec.Code/100 != 2 {
				return false, fmt.Sprintf("upload: %d %s", rec.Code, strings.TrimSpace(rec.Body.String()))
			}
		}
		code, body := ztCall(w.h, "POST", "/api/create", api.CreateRequest{Model: "new", Files: map[string]string{"m.gguf": d}, System: "sys one", Stream: &stream})
		mcrt.WaitIdle(false)
		return code == 200, fmt.Sprintf("%d %s", code, strings.TrimSpace(body))
	case "create-from":
		stream := false
		code, body := ztCall(w.h, "POST", "/api/create", api.CreateRequest{Model: "derived", From: "base", System: "sys two", Stream: &stream})
		mcrt.WaitIdle(false)
		return code == 200, fmt.Sprintf("%d %s", code, strings.TrimSpace(body))
	case "recreate":
		stream := false
		w.ensureGGUF()
		code, body := ztCall(w.h, "POST", "/api/create", api.CreateRequest{Model: "base", Files: map[string]string{"m.gguf": w.gguf}, System: "sys changed", Stream: &stream})
		mcrt.WaitIdle(false)
		return code == 200, fmt.Sprintf("%d %s", code, strings.TrimSpace(body))
	case "copy-fresh":
		code, body := ztCall(w.h, "POST", "/api/copy", api.CopyRequest{Source: "base", Destination: "copy2"})
		return code == 200, fmt.Sprintf("%d %s", code, body)
	case "copy-over":
		code, body := ztCall(w.h, "POST", "/api/copy", api.CopyRequest{Source: "base", Destination: "other"})
		return code == 200, fmt.Sprintf("%d %s", code, body)
	case "delete":
		code, body := ztCall(w.h, "DELETE", "/api/delete", api.DeleteRequest{Model: "other"})
		return code == 200 || code == 404, fmt.Sprintf("%d %s", code, body)
	case "delete-shared":
		code, body := ztCall(w.h, "DELETE", "/api/delete", api.DeleteRequest{Model: "keep"})
		return code == 200 || code == 404, fmt.Sprintf("%d %s", code, body)
	}
	panic("unknown op " + op)
}

// ensureGGUF: like the CLI, (re-)upload the model file when the server does not have it (any more)
func (w *z12World) ensureGGUF() {
	if _, err := gos.Stat(w.blobFile(w.gguf)); err != nil {
		w.putBlobDirect(ztGGUFBlob())
	}
}

// involved: manifest names (relative paths) the operation is allowed to change
func z12Involved(op string) []string {
	lib := "registry.ollama.ai/library/"
	switch op {
	case "pull":
		return []string{"reg.test/lib/model/tag"}
	case "create-files", "upload-create":
		return []string{lib + "new/latest"}
	case "create-from":
		return []string{lib + "derived/latest"}
	case "recreate":
		return []string{lib + "base/latest"}
	case "copy-fresh":
		return []string{lib + "copy2/latest"}
	case "copy-over", "delete":
		return []string{lib + "other/latest"}
	case "delete-shared":
		return []string{lib + "keep/latest"}
	}
	return nil
}

func (w *z12World) setupPrior(prior string) bool {
	mcos.E.Frozen = true
	mcrt.Deterministic(true)
	defer func() {
		mcrt.Deterministic(false)
		mcos.E.Frozen = false
	}()
	w.srv.NoFaultsLeft = true
	w.gguf = w.putBlobDirect(ztGGUFBlob())
	switch prior {
	case "empty":
	case "pulled":
		// v1 of the model and a bystander sharing its first layer, both pulled
		v1 := w.publish("lib/model:tag", []int{10, 3}, 2, 1)
		by := ztManifest{SchemaVersion: 2, MediaType: v1.MediaType, Layers: v1.Layers[:1]}
		b, _ := json.Marshal(by)
		w.srv.Manifests["lib/by:tag"] = b
		for _, n := range []string{ztName, "reg.test/lib/by:tag"} {
			if err := PullModel(gocontext.Background(), n, &registryOptions{}, func(api.ProgressResponse) {}); err != nil {
				mcrt.Fail("C12: setup pull failed: %v", err)
				return false
			}
			mcrt.WaitIdle(false)
		}
	case "created":
		stream := false
		for _, r := range []api.CreateRequest{
			{Model: "base", Files: map[string]string{"m.gguf": w.gguf}, System: "sys base", Stream: &stream},
			{Model: "other", Files: map[string]string{"m.gguf": w.gguf}, System: "sys other", Stream: &stream},
		} {
			if code, body := ztCall(w.h, "POST", "/api/create", r); code != 200 {
				mcrt.Fail("C12: setup create failed: %d %s", code, body)
				return false
			}
			mcrt.WaitIdle(false)
		}
		if code, body := ztCall(w.h, "POST", "/api/copy", api.CopyRequest{Source: "base", Destination: "keep"}); code != 200 {
			mcrt.Fail("C12: setup copy failed: %d %s", code, body)
			return false
		}
	}
	// the new version the pull operation will fetch
	w.served = w.publish("lib/model:tag", []int{10, 3}, 2, 3)
	return true
}

// reference results of uninterrupted runs, per scenario (per process)
var z12Ref = map[string]string{}

func z12Body(sc z12Scenario) func() {
	return func() {
		zw := ztNewWorld(nil)
		if sc.NoPrune {
			gos.Setenv("OLLAMA_NOPRUNE", "1") // (ztNewWorld clears it)
		}
		w := &z12World{ztWorld: zw, h: ztRouter()}
		if !w.setupPrior(sc.Prior) {
			return
		}
		before := w.snapshot()
		involved := map[string]bool{}
		for _, n := range z12Involved(sc.Op) {
			involved[n] = true
		}
		fail := func(msg string) { mcrt.Fail("C12: %s", msg) }
		env := mcos.E
		env.CrashEnabled = true
		env.WritePrefixes = true
		level := 0
		env.OnCrash = func(label string) {
			// the process is dead: nothing of it runs any more; a new one starts
			level++
			my := level
			if my > 1 {
				label = fmt.Sprintf("%s (crash %d, during the recovery from the previous one)", label, my)
			}
			mcrt.KillOthers()
			ztResetGlobals()
			// the recovery itself (start-up repair, repeated operation) may be cut short by a further crash
			again := my < z12MaxCrashes
			env.CrashEnabled = again
			env.Frozen = !again
			w.h = ztRouter()
			if err := ztRestart(); err != nil {
				fail(fmt.Sprintf("restart-fails: the server does not start on the store left by a crash %s: %v", label, err))
				return
			}
			if level != my {
				return
			}
			env.Frozen = true
			w.checkResolvable(func(m string) { fail(m + " [crash " + label + "]") })
			after := w.snapshot()
			for name, raw := range before.Manifests {
				if involved[name] {
					continue
				}
				if after.Manifests[name] != raw {
					fail(fmt.Sprintf("bystander-changed: manifest %s, not involved in the %s, changed or vanished [crash %s]", name, sc.Op, label))
				}
			}
			env.Frozen = !again
			// repeat the operation
			ok, detail := w.run(sc.Op)
			if level != my {
				return // a further crash ended this process too; the next one has taken over (and judged)
			}
			if !ok {
				fail(fmt.Sprintf("redo-fails: repeating the %s after a crash %s fails: %s", sc.Op, label, detail))
				return
			}
			if err := ztRestart(); err != nil {
				fail(fmt.Sprintf("restart-fails: after the repeated operation: %v", err))
				return
			}
			if level != my {
				return
			}
			env.Frozen = true
			snap := w.snapshot()
			if sc.NoPrune {
				snap = snap.referenced()
			}
			got := snap.semantic()
			if ref, have := z12Ref[sc.Name]; have && got != ref {
				fail(fmt.Sprintf("redo-differs: after crash %s + restart + repeating the %s the store differs from an uninterrupted run:\n--- interrupted+redo\n%s\n--- uninterrupted\n%s", label, sc.Op, got, ref))
			}
		}
		ok, detail := w.run(sc.Op)
		if env.Crashed {
			// (gin's Recovery middleware swallows the abort of the crashed handler thread; the crash was fully evaluated in OnCrash)
			return
		}
		// only reached when no crash was injected
		env.CrashEnabled = false
		env.Frozen = true
		if !ok {
			fail(fmt.Sprintf("uninterrupted-fails: the %s fails without any crash: %s", sc.Op, detail))
			return
		}
		w.checkResolvable(func(m string) { fail(m + " [no crash]") })
		if err := ztRestart(); err != nil {
			fail(fmt.Sprintf("restart-fails: %v", err))
			return
		}
		w.checkResolvable(func(m string) { fail(m + " [no crash, after restart]") })
		if sc.NoPrune {
			z12Ref[sc.Name] = w.snapshot().referenced().semantic()
		} else {
			z12Ref[sc.Name] = w.snapshot().semantic()
		}
	}
}

func z12Scenarios(thorough bool) []z12Scenario {
	l := []z12Scenario{
		{Name: "pull-fresh", Prior: "empty", Op: "pull"},
		{Name: "pull-replace", Prior: "pulled", Op: "pull"},
		{Name: "create-files", Prior: "empty", Op: "create-files"},
		{Name: "create-from", Prior: "created", Op: "create-from"},
		{Name: "recreate", Prior: "created", Op: "recreate"},
		{Name: "copy-fresh", Prior: "created", Op: "copy-fresh"},
		{Name: "copy-over", Prior: "created", Op: "copy-over"},
		{Name: "delete", Prior: "created", Op: "delete"},
		{Name: "delete-shared", Prior: "created", Op: "delete-shared"},
		{Name: "upload-create", Prior: "empty", Op: "upload-create"},
		{Name: "upload-create-noprune", Prior: "empty", Op: "upload-create", NoPrune: true},
	}
	return l
}

// z12MaxCrashes: how many times the process may die in one execution (the second time during the recovery)
var z12MaxCrashes = 1

type z12Chooser struct{}

func (z12Chooser) Pick(kind string, opts []mcrt.Option) int { return 0 }
func (z12Chooser) Visit(k mcrt.Key) bool                    { return true }

func ZZVerifC12() {
	r := evid.Start("C12", "fault_enumeration")
	thorough := evid.Thorough()
	ztSetupProcess("c12")
	defer ztCleanupProcess()
	if p := evid.ReplayPath(); p != "" {
		var rp ztReplay
		if err := evid.LoadReplay(p, &rp); err == nil && rp.C12 != nil {
			z12MaxCrashes = max(1, rp.Bounds[mcrt.Crash])
			mcrt.Run(z12Chooser{}, mcrt.Config{MaxSteps: 30000}, z12Body(*rp.C12)) // reference first
		}
		ztReplayFile(p, "C12")
		return
	}
	scs := z12Scenarios(thorough)
	by := map[string]z12Scenario{}
	var names []string
	for _, s := range scs {
		by[s.Name] = s
		names = append(names, s.Name)
	}
	var bounds mcrt.Bounds
	bounds[mcrt.Crash] = 1
	bounds[mcrt.Order] = 1   // the crash may follow one map iteration (manifests, layers to prune) in a non-default order
	bounds[mcrt.Preempt] = 1 // or one non-default schedule of the download goroutines
	total := 2
	budget := 200 * gotime.Second
	if thorough {
		bounds[mcrt.Crash] = 2 // a second crash during the start-up repair or the repeated operation
		total = 3
		budget = 18 * gotime.Minute
	}
	z12MaxCrashes = bounds[mcrt.Crash]
	mk := func(n string) (func(), any, string) {
		sc := by[n]
		body := z12Body(sc)
		return func() {
			body()
		}, sc, sc.Op
	}
	// make sure every process has the uninterrupted reference of every scenario before it explores crashes
	for _, n := range names {
		res := mcrt.Run(z12Chooser{}, mcrt.Config{MaxSteps: 30000}, z12Body(by[n]))
		if len(res.Failures) > 0 && !evid.IsWorker() {
			for _, f := range res.Failures {
				r.Violation(ztSig("C12", f, by[n].Op), f+"\nscenario "+n+" (uninterrupted run)", ztReplay{Kind: "c12", C12: func() *z12Scenario { s := by[n]; return &s }(), Bounds: bounds, Total: total})
			}
		}
	}
	ztExplore(r, "C12", names, mk, bounds, func(string) int { return total }, budget, func(n, ch string) ztReplay {
		sc := by[n]
		return ztReplay{Kind: "c12", C12: &sc, Choices: ch, Bounds: bounds, Total: total}
	})
	r.Rule("for each operation (pull with 3-part and 1-part layers and config, create from files, create from a model, re-create, copy fresh / over an existing model, delete with unshared / shared layers) from its prior store state: one execution per crash point - before every mutating FS call and after every proper prefix of every write (all prefixes of writes <= 8 bytes, else 1, n/2, n-1). At the crash everything of the process stops, a new process restarts (startup sequence of Serve), the store is inspected, the operation is repeated and the store compared with an uninterrupted run. Non-trivial = distinct crash images.")
	r.Extra("bounds", fmt.Sprintf("%s; total deviations <= %d", bounds.String(), total))
	r.Assume("a crash is process death (kill -9): data already written stays; no page-cache loss is modelled",
		"the restart sequence mirrors Serve (fixBlobs; unless a manifest is corrupt: PruneLayers, PruneDirectory)",
		"manifests are compared by their layer/config digests and sizes")
	r.Finish()
}
