package main

import "github.com/ollama/ollama/server"

func main() { server.ZZVerifStore() }
