package server

// Store harness (C03, C12, C04): the real legacy pull path (PullModel,
// download.go), the create / copy / delete handlers and the startup repair,
// over the controlled file system and the in-process fake registry, under
// mcrt. This file: common world + C03 (fault sequences of pulls).

import (
	"bytes"
	gocontext "context"
	"crypto/ed25519"
	"crypto/rand"
	"crypto/sha256"
	"encoding/json"
	"encoding/pem"
	"fmt"
	"net/http"
	gos "os"
	"path/filepath"
	"sort"
	"strings"
	gotime "time"

	"golang.org/x/crypto/ssh"

	"github.com/ollama/ollama/api"
	"github.com/ollama/ollama/zzverif/evid"
	"github.com/ollama/ollama/zzverif/fakereg"
	"github.com/ollama/ollama/zzverif/mcos"
	"github.com/ollama/ollama/zzverif/mcrt"
	mcsync "github.com/ollama/ollama/zzverif/shim/sync"
)

const (
	ztHost = "reg.test"
	ztName = "reg.test/lib/model:tag"
)

var (
	ztRoot string // per-process scratch root
	ztHome string
)

func ztSetupProcess(tag string) {
	ztRoot = fmt.Sprintf("/dev/shm/verif-%s-%d", tag, gos.Getpid())
	ztHome = ztRoot + "-home"
	gos.MkdirAll(filepath.Join(ztHome, ".ollama"), 0o755)
	_, priv, _ := ed25519.GenerateKey(rand.Reader)
	blk, err := ssh.MarshalPrivateKey(priv, "")
	if err != nil {
		panic(err)
	}
	gos.WriteFile(filepath.Join(ztHome, ".ollama", "id_ed25519"), pem.EncodeToMemory(blk), 0o600)
	gos.Setenv("HOME", ztHome)
}

func ztCleanupProcess() {
	gos.RemoveAll(ztRoot)
	gos.RemoveAll(ztHome)
}

// ztResetGlobals: what a fresh server process starts with.
func ztResetGlobals() {
	blobDownloadManager = mcsync.Map{}
	blobUploadManager = mcsync.Map{}
	intermediateBlobs = map[string]string{}
}

type ztWorld struct {
	models string
	srv    *fakereg.Server
	blobs  map[string][]byte // digest -> published content
}

func ztData(size int, variant byte) []byte {
	b := make([]byte, size)
	for i := range b {
		b[i] = variant*32 + byte(i) + 1
	}
	return b
}

type ztLayer struct {
	MediaType string `json:"mediaType"`
	Digest    string `json:"digest"`
	Size      int    `json:"size"`
}

type ztManifest struct {
	SchemaVersion int       `json:"schemaVersion"`
	MediaType     string    `json:"mediaType"`
	Config        ztLayer   `json:"config"`
	Layers        []ztLayer `json:"layers"`
}

func (w *ztWorld) publish(repoTag string, layerSizes []int, configSize int, variant byte) ztManifest {
	m := ztManifest{SchemaVersion: 2, MediaType: "application/vnd.docker.distribution.manifest.v2+json"}
	for i, n := range layerSizes {
		data := ztData(n, variant+byte(i))
		d := w.srv.AddBlob(data)
		w.blobs[d] = data
		m.Layers = append(m.Layers, ztLayer{"application/vnd.ollama.image.model", d, n})
	}
	if configSize > 0 {
		data := ztData(configSize, variant+7)
		d := w.srv.AddBlob(data)
		w.blobs[d] = data
		m.Config = ztLayer{"application/vnd.docker.container.image.v1+json", d, configSize}
	}
	b, _ := json.Marshal(m)
	w.srv.Manifests[repoTag] = b
	return m
}

func (w *ztWorld) blobFile(d string) string {
	return filepath.Join(w.models, "blobs", strings.Replace(d, ":", "-", 1))
}

func (w *ztWorld) manifestFile(name string) string {
	// host/ns/model:tag
	i := strings.LastIndex(name, ":")
	return filepath.Join(w.models, "manifests", filepath.FromSlash(name[:i]), name[i+1:])
}

func (m ztManifest) all() []ztLayer {
	l := append([]ztLayer{}, m.Layers...)
	if m.Config.Digest != "" {
		l = append(l, m.Config)
	}
	return l
}

// readManifest: independent reader of a stored manifest; nil if absent or unreadable.
func (w *ztWorld) readManifest(name string) *ztManifest {
	b, err := gos.ReadFile(w.manifestFile(name))
	if err != nil {
		return nil
	}
	var m ztManifest
	if err := json.Unmarshal(b, &m); err != nil {
		return nil
	}
	return &m
}

// checkLayers: every layer of m is present with m's size and digest.
func (w *ztWorld) checkLayers(m *ztManifest) string {
	for _, l := range m.all() {
		got, err := gos.ReadFile(w.blobFile(l.Digest))
		if err != nil {
			return fmt.Sprintf("layer %s (size %d) is missing", l.Digest[:14], l.Size)
		}
		if len(got) != l.Size {
			return fmt.Sprintf("layer %s has size %d, manifest says %d", l.Digest[:14], len(got), l.Size)
		}
		if fmt.Sprintf("sha256:%x", sha256.Sum256(got)) != l.Digest {
			return fmt.Sprintf("layer %s has the right size %d but content %x instead of %x", l.Digest[:14], l.Size, got, w.blobs[l.Digest])
		}
	}
	return ""
}

func ztSame(a, b ztManifest) bool {
	ja, _ := json.Marshal(a.all())
	jb, _ := json.Marshal(b.all())
	return bytes.Equal(ja, jb)
}

func ztNewWorld(faultKinds []string) *ztWorld {
	gos.RemoveAll(ztRoot)
	models := filepath.Join(ztRoot, "models")
	gos.MkdirAll(models, 0o755)
	gos.Setenv("OLLAMA_MODELS", models)
	gos.Unsetenv("OLLAMA_NOPRUNE")
	ztResetGlobals()
	srv := fakereg.New(ztHost)
	srv.CDNHost = "cdn.test"
	srv.ReadSize = 2
	srv.FaultKinds = faultKinds
	http.DefaultTransport = srv
	w := &ztWorld{models: models, srv: srv, blobs: map[string][]byte{}}
	mcos.E = &mcos.Env{Root: ztRoot}
	mcrt.OnExecEnd(func() { mcos.E = nil })
	return w
}

// ---- C03 -------------------------------------------------------------------------------

type z3Scenario struct {
	Name       string   `json:"name"`
	Layers     []int    `json:"layers"`
	Config     int      `json:"config"`
	Faults     []string `json:"faults,omitempty"`
	Challenge  []string `json:"challenge,omitempty"`
	Cancel     bool     `json:"cancel,omitempty"`
	CancelLate bool     `json:"cancel_late,omitempty"` // the client goes away exactly before some request or body piece (class cancel)
	Prior      bool     `json:"prior,omitempty"`
	WrongSize  bool     `json:"wrong_size,omitempty"` // the served manifest misstates the size of the first layer, in every attempt
	WrongSizeFirst bool `json:"wrong_size_first,omitempty"` // ... in the first attempt only (a manifest the registry corrects afterwards)
	Lost       bool     `json:"lost,omitempty"` // the same tag is in the store already but the file of its first layer is gone
	Dup        bool     `json:"dup,omitempty"`         // the manifest names the first layer's digest twice (same bytes under two media types)
	Second     bool     `json:"second,omitempty"`      // a second concurrent pull of a model sharing the layer
	SecondLate bool     `json:"second_late,omitempty"` // ... that starts at some network operation of the first pull (class switch) instead of together with it
	Faulty     int      `json:"faulty_attempts"`
	Cap        int      `json:"quick_total_cap,omitempty"` // quick tier: total deviations for this scenario (0: the default)
}

func z3Err(err error) string {
	if err == nil {
		return "ok"
	}
	s := err.Error()
	if len(s) > 70 {
		s = s[:70]
	}
	return s
}

func z3Body(sc z3Scenario) func() {
	return func() {
		w := ztNewWorld(sc.Faults)
		srv := w.srv
		var old *ztManifest
		if sc.Prior || sc.Lost {
			variant := byte(1)
			if sc.Lost {
				variant = 3 // the very manifest that is served below
			}
			m := w.publish("lib/model:tag", sc.Layers, sc.Config, variant)
			if !sc.Lost {
				old = &m
			}
			mcos.E.Frozen = true
			srv.NoFaultsLeft = true
			mcrt.Deterministic(true)
			err := PullModel(gocontext.Background(), ztName, &registryOptions{}, func(api.ProgressResponse) {})
			mcrt.WaitIdle(false)
			mcrt.Deterministic(false)
			if err != nil {
				mcrt.Fail("C03: setup pull failed: %v", err)
				return
			}
			if sc.Lost {
				// the first layer's file has disappeared from the store since (disk clean-up, a restore without blobs)
				if err := gos.Remove(w.blobFile(m.Layers[0].Digest)); err != nil {
					mcrt.Fail("C03: setup: %v", err)
					return
				}
			}
			mcos.E.Frozen = false
		}
		served := w.publish("lib/model:tag", sc.Layers, sc.Config, 3)
		if sc.Dup {
			served.Layers = append(served.Layers, ztLayer{"application/vnd.ollama.image.license", served.Layers[0].Digest, served.Layers[0].Size})
			b, _ := json.Marshal(served)
			srv.Manifests["lib/model:tag"] = b
		}
		if sc.WrongSize {
			// the registry's manifest states one byte too many for the first layer, and goes on doing so
			served.Layers[0].Size++
			b, _ := json.Marshal(served)
			srv.Manifests["lib/model:tag"] = b
		}
		if sc.Second {
			// another tag sharing the first layer
			m2 := ztManifest{SchemaVersion: 2, MediaType: served.MediaType, Layers: served.Layers[:1]}
			b, _ := json.Marshal(m2)
			srv.Manifests["lib/other:tag"] = b
		}
		rightManifest := srv.Manifests["lib/model:tag"]
		for attempt := 1; attempt <= sc.Faulty+1; attempt++ {
			clean := attempt == sc.Faulty+1
			if sc.WrongSizeFirst {
				// the registry's manifest misstates the size of the first layer during the first attempt only
				srv.Manifests["lib/model:tag"] = rightManifest
				if attempt == 1 {
					wrong := served
					wrong.Layers = append([]ztLayer{}, served.Layers...)
					wrong.Layers[0].Size++
					b, _ := json.Marshal(wrong)
					srv.Manifests["lib/model:tag"] = b
				}
			}
			srv.Faults = !clean && len(sc.Faults) > 0
			srv.AuthChallenge = nil
			if !clean {
				srv.AuthChallenge = sc.Challenge
			}
			srv.NoFaultsLeft = clean
			ctx, cancel := gocontext.WithCancel(gocontext.Background())
			if sc.Second && !clean {
				// (this client gives up after 5 virtual minutes: whichever of the two pulls joins the other's
				// download waits for ever if that download's preparation failed - a liveness defect noted in
				// DESIGN section 10, outside the C03 text)
				ctx, cancel = mcrt.WithTimeout(gocontext.Background(), 5*gotime.Minute)
			}
			srv.OnNetPoint = nil
			if sc.Cancel && !clean {
				// the client goes away at whatever scheduling point this thread gets to run (early by default,
				// elsewhere at the price of schedule deviations)
				mcrt.GoNamed(fmt.Sprintf("cancel%d", attempt), func() {
					mcrt.Yield("client goes away")
					mcrt.Observe("cancel")
					cancel()
				})
			}
			if sc.CancelLate && !clean {
				// ... or exactly before a request or a piece of a body, however late in the transfer (one deviation of class cancel)
				gone := false
				srv.AfterResponse = sc.Name == "corrupt-then-cancel" // (there also while an answer is on its way back)
				srv.OnNetPoint = func(label string) {
					if !gone && mcrt.Choose(mcrt.Cancel, "client goes away before "+label, "no", "yes") == 1 {
						gone = true
						mcrt.Observe("cancel before %s", label)
						cancel()
					}
				}
			}
			var err2 error
			var done2 mcrt.WaitGroup
			launched2 := false
			if sc.Second && !clean {
				launch2 := func() {
					launched2 = true
					done2.Add(1)
					mcrt.GoNamed("pull2", func() {
						defer done2.Done()
						// (its client gives up after 1 virtual minute: a pull that joined a download whose preparation failed waits forever otherwise)
						ctx2, cancel2 := mcrt.WithTimeout(gocontext.Background(), gotime.Minute)
						defer cancel2()
						err2 = PullModel(ctx2, "reg.test/lib/other:tag", &registryOptions{}, func(api.ProgressResponse) {})
					})
				}
				if !sc.SecondLate {
					launch2()
				} else {
					// the second client arrives exactly before some request or body piece of the first pull,
					// however late (one deviation of class switch), or not at all
					started := false
					prev := srv.OnNetPoint
					srv.OnNetPoint = func(label string) {
						if prev != nil {
							prev(label)
						}
						if !started && mcrt.ThreadName() != "pull2" && mcrt.Choose(mcrt.Switch, "the second pull starts before "+label, "no", "yes") == 1 {
							started = true
							mcrt.Observe("second pull starts before %s", label)
							launch2()
						}
					}
				}
			}
			if clean && sc.Name == "corrupt-then-cancel" {
				// this retry comes after whatever the interrupted attempt left running has come to rest
				// (in the other scenarios it comes at once and may join a transfer that is winding down)
				mcrt.WaitIdle(false)
			}
			err := PullModel(ctx, ztName, &registryOptions{}, func(api.ProgressResponse) {})
			for retry := 0; clean && err != nil && retry < 2 && !sc.WrongSize; retry++ {
				// "a later retry can still succeed": once everything left over from the earlier attempts has
				// settled, a fault-free pull must succeed - possibly the one after next: a pull issued while a
				// cancelled download is still winding down joins it and shares its error, and a pull that completes
				// a download from bad part files fails verification, removes the blob and only then starts afresh
				mcrt.Observe("clean attempt: %v; retrying after quiescence", z3Err(err))
				mcrt.WaitIdle(false) // (no clock advance: the code leaks running tickers, so "all timers elapsed" never comes)
				err = PullModel(ctx, ztName, &registryOptions{}, func(api.ProgressResponse) {})
			}
			if sc.Second && !clean && launched2 {
				done2.Wait()
				mcrt.Observe("second pull: %v", z3Err(err2))
				if err2 == nil {
					if m := w.readManifest("reg.test/lib/other:tag"); m == nil {
						mcrt.Fail("C03: success-not-stored: the concurrent pull reported success but its manifest is not stored")
					} else if msg := w.checkLayers(m); msg != "" {
						mcrt.Fail("C03: success-incomplete: the concurrent pull reported success but %s", msg)
					}
				}
			}
			mcrt.Observe("attempt %d: %v", attempt, z3Err(err))
			m := w.readManifest(ztName)
			malformed := false
			for _, f := range sc.Faults {
				if strings.HasPrefix(f, "manifest-") {
					malformed = true // what the registry served in this scenario may itself be an altered manifest
				}
			}
			if err == nil && malformed && !clean {
				if m == nil {
					mcrt.Fail("C03: success-not-stored: PullModel reported success but no manifest is stored")
				} else if msg := w.checkLayers(m); msg != "" {
					mcrt.Fail("C03: success-incomplete: PullModel reported success (attempt %d) but %s", attempt, msg)
				}
			} else if err == nil {
				if m == nil || !ztSame(*m, served) {
					mcrt.Fail("C03: success-not-stored: PullModel reported success but the stored manifest is not the one the registry served")
				}
				if msg := w.checkLayers(&served); msg != "" {
					mcrt.Fail("C03: success-incomplete: PullModel reported success (attempt %d) but %s", attempt, msg)
				}
			} else {
				if m != nil && !sc.Lost { // (with a layer lost beforehand the name resolved to an incomplete model before the pull)
					if msg := w.checkLayers(m); msg != "" {
						mcrt.Fail("C03: failed-pull-resolves-incomplete: PullModel failed (%s) and the name resolves to a manifest of which %s", z3Err(err), msg)
					}
					if !ztSame(*m, served) && (old == nil || !ztSame(*m, *old)) {
						mcrt.Fail("C03: failed-pull-garbage-manifest: the name resolves to a manifest that is neither the old nor the new one")
					}
				}
				if clean && !sc.WrongSize { // (a manifest that misstates a size can never be pulled: every attempt has to fail)
					mcrt.Fail("C03: clean-retry-fails: a fault-free pull after %d failed/interrupted attempt(s) fails: %v", sc.Faulty, err)
				}
			}
			cancel()
			if clean {
				mcrt.WaitIdle(false)
			}
		}
	}
}

func z3Scenarios(thorough bool) []z3Scenario {
	netf := []string{"500", "404", "neterr", "truncate", "flip", "ignore-range"}
	adversarial := []string{
		`Bearer realm="https://reg.test/token",service="reg.test",scope="repository:lib/model:pull"`,
		``, `Bearer`, `Bearer realm=`, `Bearer realm="`, `Bearer realm="https://reg.test/token`, `Bearer realm="https://reg.test/token",service=`,
		`Bearer service="x" realm="https://reg.test/token"`, `Basic realm="x"`, `Bearer realm="%zz"`,
	}
	l := []z3Scenario{
		{Name: "one-part", Layers: []int{3}, Config: 2, Faults: netf, Faulty: 1},
		{Name: "three-parts", Layers: []int{10}, Faults: netf, Faulty: 1, Cap: 1},
		{Name: "twelve-parts", Layers: []int{46}, Faults: []string{"500", "truncate"}, CancelLate: true, Faulty: 1, Cap: 1},
		{Name: "three-parts-pairs", Layers: []int{10}, Faults: []string{"500", "truncate"}, Faulty: 1},
		{Name: "three-parts-cancel", Layers: []int{10}, Cancel: true, Faulty: 1},
		{Name: "challenges", Layers: []int{3}, Challenge: adversarial, Faulty: 1},
		{Name: "wrong-size-then-corrected", Layers: []int{10, 3}, WrongSizeFirst: true, Faults: []string{"flip", "500"}, Faulty: 1, Cap: 1},
		{Name: "wrong-size-persists", Layers: []int{10, 3}, WrongSize: true, Faulty: 2, Cap: 1},
		{Name: "repull-lost-layer", Layers: []int{10, 3}, Lost: true, Faults: []string{"500"}, Faulty: 1, Cap: 1},
		{Name: "replace-tag", Layers: []int{10, 3}, Prior: true, Faults: []string{"500", "truncate", "flip"}, Faulty: 1, Cap: 1},
		{Name: "shared-layer", Layers: []int{10}, Second: true, Faults: []string{"500", "truncate"}, Faulty: 1, Cap: 1},
		{Name: "shared-first-of-two", Layers: []int{3, 5}, Second: true, SecondLate: true, Faults: []string{"500", "flip"}, Faulty: 1},
		{Name: "empty-layer", Layers: []int{0, 3}, Faults: []string{"500"}, Faulty: 1},
		{Name: "corrupt-then-cancel", Layers: []int{3}, Config: 2, Faults: []string{"500", "flip"}, CancelLate: true, Faulty: 1},
		{Name: "three-parts-cancel-late", Layers: []int{10}, Config: 2, CancelLate: true, Faulty: 1},
		{Name: "same-digest-twice", Layers: []int{3, 5}, Dup: true, Faults: []string{"500", "truncate", "flip"}, Faulty: 1},
		{Name: "malformed-manifest", Cap: 1, Layers: []int{3, 5}, Config: 2, Faults: []string{"badjson", "manifest-empty-digest", "manifest-short-digest", "manifest-nohex-digest", "manifest-null-layer", "manifest-dup-layer", "manifest-wrong-size"}, Faulty: 1},
	}
	if thorough {
		l = append(l,
			z3Scenario{Name: "two-retries", Layers: []int{10}, Faults: netf, Cancel: true, Faulty: 2},
			z3Scenario{Name: "five-parts", Layers: []int{17}, Config: 2, Faults: []string{"500", "truncate", "flip", "ignore-range"}, Faulty: 1},
			z3Scenario{Name: "stall", Layers: []int{10}, Faults: []string{"stall"}, Faulty: 1},
			z3Scenario{Name: "shared-layer-cancel", Layers: []int{10}, Second: true, Cancel: true, Faulty: 1},
		)
	}
	return l
}

type ztReplay struct {
	Kind    string       `json:"kind"`
	C03     *z3Scenario  `json:"c03,omitempty"`
	C12     *z12Scenario `json:"c12,omitempty"`
	C09P    *z9pScenario `json:"c09p,omitempty"`
	Choices string       `json:"choices"`
	Bounds  mcrt.Bounds  `json:"bounds"`
	Total   int          `json:"total_cap"`
}

func ztSig(prop, f, mech string) string {
	s := strings.TrimPrefix(f, prop+": ")
	if i := strings.Index(s, ":"); i > 0 {
		s = s[:i]
	}
	return prop + "/" + s + "/" + mech
}

func ztReplayFile(p, prop string) {
	var rp ztReplay
	if err := evid.LoadReplay(p, &rp); err != nil {
		fmt.Println("replay:", err)
		gos.Exit(2)
	}
	if rp.Kind == "c03" {
		ztReplayBody(rp, z3Body(*rp.C03), rp.C03, prop)
	} else {
		ztReplayBody(rp, z12Body(*rp.C12), rp.C12, prop)
	}
}

func ztReplayBody(rp ztReplay, body func(), scv any, prop string) {
	js, _ := json.Marshal(scv)
	fmt.Printf("scenario %s\n", js)
	x := &mcrt.Explorer{Bounds: rp.Bounds, TotalCap: rp.Total, Body: body, Cfg: mcrt.Config{MaxSteps: 30000}, NoCache: true}
	res, labels := x.Replay(mcrt.DecodeChoices(rp.Choices))
	ztCleanupProcess()
	for _, l := range labels {
		fmt.Println("  choice", l)
	}
	for _, t := range res.Trace {
		fmt.Println(t)
	}
	bad := false
	for _, f := range res.Failures {
		if strings.HasPrefix(f, prop+":") {
			fmt.Println("FAILS:", f)
			bad = true
		}
	}
	for _, pn := range res.Panics {
		fmt.Println("PANIC:", pn.Value, "\n", pn.Stack)
		bad = true
	}
	if bad {
		gos.Exit(1)
	}
	fmt.Println("holds on this execution")
	gos.Exit(0)
}

// ztExplore runs the common coordinator/worker protocol for mcrt scenarios.
func ztExplore(r *evid.Run, prop string, names []string, mk func(name string) (func(), any, string), bounds mcrt.Bounds, capOf func(name string) int, budget gotime.Duration, replayOf func(name, choices string) ztReplay) {
	deadline := gotime.Now().Add(budget)
	if only := gos.Getenv("VERIF_SCENARIO"); only != "" {
		// debugging aid: explore one scenario only (the run is then reported as not exhaustive)
		var l []string
		for _, n := range names {
			if n == only {
				l = append(l, n)
			}
		}
		names = l
		r.NotExhaustive("restricted to scenario " + only + " by VERIF_SCENARIO")
	}
	onExec := func(sub *evid.Run, name string, x *mcrt.Explorer) func([]int, *mcrt.Result) {
		return func(choices []int, res *mcrt.Result) {
			if res.Pruned {
				return
			}
			key := name + "\n" + strings.Join(res.Log, "\n")
			if sub.Distinct("outcome", key) {
				if strings.Contains(key, "fault") || strings.Contains(key, "cancel") || strings.Contains(key, "CRASH") {
					sub.Distinct("nontrivial", key)
				}
				if sub.WantSample() {
					sub.Sample(map[string]any{"scenario": name, "log": res.Log})
				} else {
					sub.Sample(nil)
				}
			}
			var fails []string
			for _, f := range res.Failures {
				if strings.HasPrefix(f, prop+":") {
					fails = append(fails, f)
				}
			}
			for _, p := range res.Panics {
				if prop == "C09" {
					// the push clause of C09 is about ordering; a panic on the push path is C15's subject
					// (scenarios push-gone, push|push there). Here the execution is cut, counted and not judged.
					sub.Add("panics_observed_not_judged", 1)
					sub.NotExhaustive("an execution of " + name + " ended in a panic of the code under test (judged by C15)")
					return
				}
				fails = append(fails, prop+": panic in "+p.Thread+": "+strings.SplitN(p.Value, "\n", 2)[0])
			}
			if res.Horizon {
				if prop == "C09" {
					// the property's push clause is about ordering, not termination: counted, not judged
					sub.Add("horizon_hits", 1)
					sub.NotExhaustive("step horizon reached in " + name + " (execution cut, not judged)")
				} else {
					fails = append(fails, prop+": no-termination: the operation did not finish within the step horizon")
				}
			}
			if len(fails) == 0 {
				return
			}
			if !x.Confirm(choices, res, 5) {
				sub.Extra("machinery_errors", []string{"nondeterministic replay in " + name + " " + mcrt.EncodeChoices(choices)})
				return
			}
			_, scv, mech := mk(name)
			js, _ := json.Marshal(scv)
			sig := ztSig(prop, fails[0], mech)
			if strings.Contains(fails[0], "panic in") {
				// panic site: first frame inside the server package
				site := "?"
				for _, p := range res.Panics {
					for _, ln := range strings.Split(p.Stack, "\n") {
						if strings.Contains(ln, "ollama/server.") && !strings.Contains(ln, "zz_verif") {
							site = strings.TrimSpace(ln)
							if i := strings.Index(site, "("); i > 0 {
								site = site[:i]
							}
							site = site[strings.LastIndex(site, ".")+1:]
							break
						}
					}
					break
				}
				sig = prop + "/panic/" + site
			}
			sub.Violation(sig, strings.Join(fails, "\n")+"\nscenario "+string(js)+"\nchoices "+mcrt.EncodeChoices(choices)+"\nlog:\n  "+strings.Join(res.Log, "\n  "),
				replayOf(name, mcrt.EncodeChoices(choices)))
		}
	}
	var items []string
	if !evid.IsWorker() {
		for _, n := range names {
			body, _, _ := mk(n)
			x := &mcrt.Explorer{Bounds: bounds, TotalCap: capOf(n), Body: body, Cfg: mcrt.Config{MaxSteps: 30000}}
			x.OnExec = onExec(r, n, x)
			for _, p := range x.Roots() {
				items = append(items, n+"|"+mcrt.EncodeChoices(p))
			}
			r.Add("evaluations", x.Execs)
			r.Add("transitions", x.Transitions)
		}
		sort.SliceStable(items, func(i, j int) bool { return len(items[i]) < len(items[j]) })
	}
	r.Fanout(items, evid.FanoutOpts{Env: []string{"GOMAXPROCS=2"}, MemLimitMB: 4096}, func(item string, sub *evid.Run) {
		parts := strings.SplitN(item, "|", 2)
		body, _, _ := mk(parts[0])
		x := &mcrt.Explorer{Bounds: bounds, TotalCap: capOf(parts[0]), Body: body, Cfg: mcrt.Config{MaxSteps: 30000}, Deadline: deadline}
		x.OnExec = onExec(sub, parts[0], x)
		x.Explore(mcrt.DecodeChoices(parts[1]))
		sub.Add("evaluations", x.Execs)
		sub.Add("transitions", x.Transitions)
		sub.Add("pruned_by_hb_cache", x.PrunedExecs)
		if x.Stopped {
			sub.NotExhaustive("time budget reached in " + item)
		}
	})
}

func ZZVerifC03() {
	r := evid.Start("C03", "fault_enumeration")
	thorough := evid.Thorough()
	ztSetupProcess("c03")
	defer ztCleanupProcess()
	if p := evid.ReplayPath(); p != "" {
		ztReplayFile(p, "C03")
		return
	}
	scs := z3Scenarios(thorough)
	by := map[string]z3Scenario{}
	var names []string
	for _, s := range scs {
		by[s.Name] = s
		names = append(names, s.Name)
	}
	var bounds mcrt.Bounds
	bounds[mcrt.Fault] = 1
	bounds[mcrt.Preempt] = 1
	bounds[mcrt.Switch] = 1
	bounds[mcrt.Time] = 1
	bounds[mcrt.Order] = 1
	bounds[mcrt.Cancel] = 1
	total := 2
	budget := 200 * gotime.Second
	if thorough {
		bounds[mcrt.Fault] = 2
		bounds[mcrt.Preempt] = 2
		total = 3
		budget = 18 * gotime.Minute
	}
	mk := func(n string) (func(), any, string) {
		sc := by[n]
		mech := "pull"
		if sc.Challenge != nil {
			mech = "auth"
		}
		if sc.Second {
			mech = "concurrent-pulls"
		}
		return z3Body(sc), sc, mech
	}
	capOf := func(n string) int {
		if c := by[n].Cap; c > 0 && !thorough {
			return c
		}
		return total
	}
	ztExplore(r, "C03", names, mk, bounds, capOf, budget, func(n, ch string) ztReplay {
		sc := by[n]
		return ztReplay{Kind: "c03", C03: &sc, Choices: ch, Bounds: bounds, Total: capOf(n)}
	})
	r.Rule("for each scenario (part layouts 1/3/5 parts with the part size scaled to 4 bytes, config layer, empty layer, replaced tag, a concurrent pull sharing a layer, adversarial auth challenges) every execution of [faulty attempt(s) -> fault-free attempt] of the real PullModel within the deviation bounds: per-request registry/CDN faults (5xx, 404, reset, truncated or flipped body, Range ignored, stall), client cancellation at any point, interleavings of the download goroutines and timers. Non-trivial = distinct executions in which a fault or a cancellation occurred.")
	r.Extra("bounds", fmt.Sprintf("%s; total deviations <= %d (scenarios with quick_total_cap: that value in the quick tier)", bounds.String(), total))
	r.Assume("minDownloadPartSize is scaled from 100 MB to 4 bytes by the instrumenter (literal only), so that multi-part logic runs on 10-byte layers",
		"the stored manifest is compared semantically (layer and config digests and sizes): PullModel re-marshals it",
		"manifest bodies are never corrupted (a flipped manifest would itself be what the registry served)")
	r.Finish()
}

func ZZVerifStore() {
	switch gos.Getenv("VERIF_ID") {
	case "C12":
		ZZVerifC12()
	case "C04":
		ZZVerifC04()
	case "C15":
		ZZVerifC15()
	case "C01":
		ZZVerifC01Handlers()
	case "C02":
		ZZVerifC02Handlers()
	case "C09":
		ZZVerifC09Push()
	default:
		ZZVerifC03()
	}
}
