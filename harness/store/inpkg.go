package server

func ZZVerifStore() {}
