package server

// C09, part "legacy-push": the default push implementation (PushModel in
// images.go, uploadBlob / blobUpload in upload.go) against the in-process fake
// registry, under mcrt. Property clause: "a push (through either push
// implementation) sends the manifest only after every layer has been accepted
// by the registry". The other implementation (Registry.Push) is the "client"
// part in harness/C09.

import (
	gocontext "context"
	"encoding/json"
	"fmt"
	"net/http"
	gos "os"
	"path/filepath"
	"strings"
	gotime "time"

	"github.com/ollama/ollama/api"
	"github.com/ollama/ollama/zzverif/evid"
	"github.com/ollama/ollama/zzverif/fakereg"
	"github.com/ollama/ollama/zzverif/mcrt"
)

type z9pScenario struct {
	Name       string   `json:"name"`
	Layers     []int    `json:"layers"`
	Config     int      `json:"config"`
	Faults     []string `json:"faults,omitempty"`
	Redirect   bool     `json:"redirect,omitempty"`    // parts are redirected to the CDN (uploaded in parallel)
	Challenge  bool     `json:"challenge,omitempty"`   // the registry asks for a token first
	Cancel     bool     `json:"cancel,omitempty"`      // the client may go away at any point of the faulty attempt
	CancelLate bool     `json:"cancel_late,omitempty"` // ... exactly before some request (class cancel), however late
	Present    int      `json:"present,omitempty"`     // the registry already holds the first n layers
	From       bool     `json:"from,omitempty"`        // first layer came FROM another model (cross-repository mount)
	Other      bool     `json:"other,omitempty"`       // afterwards the same model is pushed to a second registry that holds nothing
	Second     bool     `json:"second,omitempty"`      // a second push of a model sharing the first layer runs concurrently
	TwoRegs    bool     `json:"two_regs,omitempty"`    // the same model is pushed to a second registry concurrently
	Faulty     int      `json:"faulty_attempts"`       // attempts with faults/cancellation before the fault-free one
	Cap        int      `json:"quick_total_cap,omitempty"`
}

type z9pLayer struct {
	MediaType string `json:"mediaType"`
	Digest    string `json:"digest"`
	Size      int    `json:"size"`
	From      string `json:"from,omitempty"`
}

type z9pManifest struct {
	SchemaVersion int        `json:"schemaVersion"`
	MediaType     string     `json:"mediaType"`
	Config        z9pLayer   `json:"config"`
	Layers        []z9pLayer `json:"layers"`
}

// storeLocal writes a model into the local store the way create leaves it.
func (w *ztWorld) storeLocal(name string, layers [][]byte, config []byte, fromFirst string) z9pManifest {
	m := z9pManifest{SchemaVersion: 2, MediaType: "application/vnd.docker.distribution.manifest.v2+json"}
	gos.MkdirAll(filepath.Join(w.models, "blobs"), 0o755)
	put := func(data []byte, mt string) z9pLayer {
		d := fakereg.Digest(data)
		gos.WriteFile(w.blobFile(d), data, 0o644)
		w.blobs[d] = data
		return z9pLayer{MediaType: mt, Digest: d, Size: len(data)}
	}
	for i, data := range layers {
		l := put(data, "application/vnd.ollama.image.model")
		if i == 0 {
			l.From = fromFirst
		}
		m.Layers = append(m.Layers, l)
	}
	if config != nil {
		m.Config = put(config, "application/vnd.docker.container.image.v1+json")
	}
	b, _ := json.Marshal(m)
	p := w.manifestFile(name)
	gos.MkdirAll(filepath.Dir(p), 0o755)
	gos.WriteFile(p, b, 0o644)
	return m
}

func (m z9pManifest) digests() []string {
	var l []string
	for _, x := range m.Layers {
		l = append(l, x.Digest)
	}
	if m.Config.Digest != "" {
		l = append(l, m.Config.Digest)
	}
	return l
}

// z9pCheck: the oracle for one finished PushModel call against one registry.
func z9pCheck(srv *fakereg.Server, repoTag string, m z9pManifest, err error, what string) {
	for _, miss := range srv.ManifestPutMissing {
		mcrt.Fail("C09: manifest-before-layers: %s: the manifest reached the registry while it did not hold layer %s (%s)", what, miss[strings.Index(miss, " ")+1:][:19], miss[:strings.Index(miss, " ")])
	}
	srv.ManifestPutMissing = nil
	committed := false
	for _, p := range srv.ManifestPuts {
		if p == repoTag {
			committed = true
		}
	}
	if err == nil {
		if !committed {
			mcrt.Fail("C09: success-without-manifest: %s reported success but the registry never received the manifest", what)
		}
		for _, d := range m.digests() {
			if _, ok := srv.Blobs[d]; !ok || srv.OtherRepo[d] {
				mcrt.Fail("C09: success-incomplete: %s reported success but the registry does not hold layer %s", what, d[:19])
			}
		}
	}
}

func z9pBody(sc z9pScenario) func() {
	return func() {
		w := ztNewWorld(sc.Faults)
		srv := w.srv
		srv.UploadRedirect = sc.Redirect
		srv2 := fakereg.New("reg2.test")
		srv2.CDNHost = "cdn2.test"
		http.DefaultTransport = fakereg.Multi{srv, srv2}
		var layers [][]byte
		for i, n := range sc.Layers {
			layers = append(layers, ztData(n, 3+byte(i)))
		}
		var config []byte
		if sc.Config > 0 {
			config = ztData(sc.Config, 11)
		}
		from := ""
		if sc.From {
			from = "reg.test/lib/base:tag"
			// the registry holds it, but in the other repository only
			srv.OtherRepo = map[string]bool{srv.AddBlob(layers[0]): true}
		}
		for i := 0; i < sc.Present && i < len(layers); i++ {
			srv.AddBlob(layers[i])
		}
		m := w.storeLocal(ztName, layers, config, from)
		var m2 z9pManifest
		if sc.Second {
			m2 = w.storeLocal("reg.test/lib/other:tag", layers[:1], nil, "")
		}
		if sc.Other || sc.TwoRegs {
			w.storeLocal("reg2.test/lib/model:tag", layers, config, from)
		}
		for attempt := 1; attempt <= sc.Faulty+1; attempt++ {
			clean := attempt == sc.Faulty+1
			srv.Faults = !clean && len(sc.Faults) > 0
			srv.NoFaultsLeft = clean
			srv.AuthChallenge = nil
			if sc.Challenge {
				srv.AuthChallenge = []string{`Bearer realm="https://reg.test/token",service="reg.test",scope="repository:lib/model:push"`}
			}
			ctx, cancel := gocontext.WithCancel(gocontext.Background())
			srv.OnNetPoint = nil
			if sc.Cancel && !clean {
				mcrt.GoNamed(fmt.Sprintf("cancel%d", attempt), func() {
					mcrt.Yield("client goes away")
					mcrt.Observe("cancel")
					cancel()
				})
			}
			if sc.CancelLate && !clean {
				gone := false
				srv.OnNetPoint = func(label string) {
					if !gone && mcrt.Choose(mcrt.Cancel, "client goes away before "+label, "no", "yes") == 1 {
						gone = true
						mcrt.Observe("cancel before %s", label)
						cancel()
					}
				}
			}
			var err2 error
			var done2 mcrt.WaitGroup
			if sc.Second && attempt == 1 {
				done2.Add(1)
				mcrt.GoNamed("push2", func() {
					defer done2.Done()
					ctx2, cancel2 := mcrt.WithTimeout(gocontext.Background(), 10*gotime.Minute)
					defer cancel2()
					err2 = PushModel(ctx2, "reg.test/lib/other:tag", &registryOptions{}, func(api.ProgressResponse) {})
				})
			}
			var err3 error
			var done3 mcrt.WaitGroup
			if sc.TwoRegs && attempt == 1 {
				done3.Add(1)
				mcrt.GoNamed("push-reg2", func() {
					defer done3.Done()
					ctx3, cancel3 := mcrt.WithTimeout(gocontext.Background(), 10*gotime.Minute)
					defer cancel3()
					err3 = PushModel(ctx3, "reg2.test/lib/model:tag", &registryOptions{}, func(api.ProgressResponse) {})
				})
			}
			err := PushModel(ctx, ztName, &registryOptions{}, func(api.ProgressResponse) {})
			mcrt.Observe("attempt %d: %v", attempt, z3Err(err))
			if sc.TwoRegs && attempt == 1 {
				done3.Wait()
				mcrt.Observe("push to the second registry: %v", z3Err(err3))
				z9pCheck(srv2, "lib/model:tag", m, err3, "the concurrent push to a second registry")
			}
			if sc.Second && attempt == 1 {
				done2.Wait()
				mcrt.Observe("second push: %v", z3Err(err2))
				z9pCheck(srv, "lib/other:tag", m2, err2, "the concurrent push")
			}
			z9pCheck(srv, "lib/model:tag", m, err, fmt.Sprintf("push attempt %d", attempt))
			if clean && err != nil {
				// not part of the property's text (it promises nothing about retries of a push); observed only
				mcrt.Observe("fault-free push after %d faulty attempt(s) fails", sc.Faulty)
			}
			cancel()
			mcrt.WaitIdle(false)
		}
		if sc.Other {
			srv2.NoFaultsLeft = true
			err := PushModel(gocontext.Background(), "reg2.test/lib/model:tag", &registryOptions{}, func(api.ProgressResponse) {})
			mcrt.Observe("push to the second registry: %v", z3Err(err))
			z9pCheck(srv2, "lib/model:tag", m, err, "the push to a second registry")
			mcrt.WaitIdle(false)
		}
	}
}

func z9pScenarios(thorough bool) []z9pScenario {
	netf := []string{"500", "404", "neterr", "lost-response"}
	l := []z9pScenario{
		{Name: "one-part", Layers: []int{3}, Config: 2, Faults: netf, Faulty: 1},
		{Name: "three-parts", Layers: []int{10}, Config: 2, Faults: netf, Faulty: 1, Cap: 1},
		{Name: "three-parts-redirect", Layers: []int{10}, Faults: netf, Redirect: true, Faulty: 1, Cap: 1},
		{Name: "redirect-interleavings", Layers: []int{10}, Config: 2, Redirect: true, Faulty: 0},
		{Name: "two-layers-present", Layers: []int{3, 5}, Config: 2, Present: 1, Faults: []string{"500", "404"}, Faulty: 1},
		{Name: "auth", Layers: []int{5}, Config: 2, Challenge: true, Faults: []string{"500"}, Faulty: 1, Cap: 1},
		{Name: "cancel", Layers: []int{10}, Config: 2, Cancel: true, Faulty: 1},
		{Name: "cancel-late", Layers: []int{10, 3}, Config: 2, CancelLate: true, Faults: []string{"500"}, Faulty: 1},
		{Name: "cancel-redirect", Layers: []int{10}, Redirect: true, Cancel: true, Faulty: 1, Cap: 1},
		{Name: "mounted-then-other-registry", Layers: []int{3, 5}, Config: 2, From: true, Other: true, Faulty: 0},
		{Name: "shared-layer", Layers: []int{5, 3}, Second: true, Faults: []string{"500"}, Faulty: 1, Cap: 1},
		{Name: "empty-layer", Layers: []int{0, 3}, Faults: []string{"500"}, Faulty: 1},
		{Name: "two-registries-at-once", Layers: []int{5}, Config: 2, TwoRegs: true, Faulty: 0},
	}
	if thorough {
		l = append(l,
			z9pScenario{Name: "two-retries", Layers: []int{10}, Config: 2, Faults: netf, Cancel: true, Faulty: 2},
			z9pScenario{Name: "five-parts-redirect", Layers: []int{17}, Config: 2, Faults: netf, Redirect: true, Faulty: 1},
			z9pScenario{Name: "shared-layer-cancel", Layers: []int{10, 3}, Second: true, Cancel: true, Redirect: true, Faulty: 1},
			z9pScenario{Name: "mounted-cancel-other", Layers: []int{5}, Config: 2, From: true, Other: true, Cancel: true, Faulty: 1},
		)
	}
	return l
}

func ZZVerifC09Push() {
	r := evid.Start("C09", "fault_enumeration")
	thorough := evid.Thorough()
	ztSetupProcess("c09p")
	defer ztCleanupProcess()
	scs := z9pScenarios(thorough)
	by := map[string]z9pScenario{}
	var names []string
	for _, s := range scs {
		by[s.Name] = s
		names = append(names, s.Name)
	}
	if p := evid.ReplayPath(); p != "" {
		var rp ztReplay
		if err := evid.LoadReplay(p, &rp); err != nil {
			fmt.Println("replay:", err)
			gos.Exit(2)
		}
		rp.Kind = "c09p"
		ztReplayBody(rp, z9pBody(*rp.C09P), rp.C09P, "C09")
		return
	}
	var bounds mcrt.Bounds
	bounds[mcrt.Fault] = 1
	bounds[mcrt.Preempt] = 1
	bounds[mcrt.Switch] = 1
	bounds[mcrt.Time] = 1
	bounds[mcrt.Cancel] = 1
	total := 2
	budget := 200 * gotime.Second
	if thorough {
		bounds[mcrt.Fault] = 2
		bounds[mcrt.Preempt] = 2
		total = 3
		budget = 15 * gotime.Minute
	}
	mk := func(n string) (func(), any, string) {
		// the mechanism part of a signature names what the scenario adds to a plain push
		mech := "legacy-push"
		switch {
		case by[n].TwoRegs:
			mech += "/two-destinations"
		case by[n].From:
			mech += "/after-mount"
		case by[n].Second:
			mech += "/shared-layer"
		}
		return z9pBody(by[n]), by[n], mech
	}
	capOf := func(n string) int {
		if c := by[n].Cap; c > 0 && !thorough {
			return c
		}
		return total
	}
	ztExplore(r, "C09", names, mk, bounds, capOf, budget, func(n, ch string) ztReplay {
		sc := by[n]
		return ztReplay{Kind: "c09p", C09P: &sc, Choices: ch, Bounds: bounds, Total: capOf(n)}
	})
	r.Rule("legacy push (PushModel, upload.go): for each scenario (1/3/5 upload parts with the part size scaled to 4 bytes, parts redirected to a CDN and uploaded in parallel, layers already present, cross-repository mount, token challenge, a concurrent push sharing a layer, a second registry, an empty layer) every execution of [faulty attempt(s) -> fault-free attempt] of the real PushModel within the deviation bounds: per-request registry/CDN faults (5xx, 404, connection reset before and after the registry processed the request), client cancellation at any point, interleavings of the upload goroutines and timers. The fake registry records, for every manifest PUT it receives, the layers it does not hold at that moment. Non-trivial = distinct executions in which a fault or a cancellation occurred.")
	r.Extra("bounds", fmt.Sprintf("%s; total deviations <= %d (scenarios with quick_total_cap: that value in the quick tier)", bounds.String(), total))
	r.Extra("scenarios", names)
	r.Assume("minUploadPartSize is scaled from 100 MB to 4 bytes by the instrumenter (literal only)",
		"a layer counts as accepted when the registry holds its bytes under its digest (found by HEAD, mounted, or committed after all parts arrived); blobs are global to a registry host, not per repository (the weaker reading)",
		"the fake registry accepts a manifest whose layers it lacks and leaves the verdict to the oracle")
	r.Finish()
}
