package main

// C13 oracle: what must hold for ONE input string, checked against the real
// parsers and path builders. Nothing here re-implements name or digest
// validation; the only things the oracle knows are (a) what a path inside the
// store at the fixed depth looks like and (b) which printed/parsed values
// must be equal.

import (
	"fmt"
	"path/filepath"
	"strconv"
	"strings"

	"github.com/ollama/ollama/server"
	"github.com/ollama/ollama/server/internal/cache/blob"
	"github.com/ollama/ollama/server/internal/client/ollama"
	"github.com/ollama/ollama/server/internal/internal/names"
	"github.com/ollama/ollama/types/model"
)

// acceptance bits: which entry point accepted the string (derived a path from it)
const (
	aModel      = 1 << iota // model.ParseName(s).IsValid()
	aModelFP                // model.ParseNameFromFilepath(s).IsValid()
	aNames                  // names.Merge(names.Parse(s), DefaultMask).IsFullyQualified()
	aNameToPath             // blob.nameToPath(s) succeeded
	aExtended               // Registry.parseNameExtended(s) succeeded
	aLegacy                 // server.ParseModelPath(s).GetManifestPath() succeeded
	aBlobsPath              // server.GetBlobsPath(s) succeeded, s != ""
	aDigest                 // blob.ParseDigest(s) succeeded
	aBlobsDir               // server.GetBlobsPath("") (the documented "blobs directory" request)
)

var accNames = []string{"model.ParseName", "model.ParseNameFromFilepath", "names.Parse+mask", "blob.nameToPath",
	"Registry.parseNameExtended", "ParseModelPath.GetManifestPath", "GetBlobsPath", "blob.ParseDigest", "GetBlobsPath(\"\")"}

func accString(acc uint32) string {
	var l []string
	for i, n := range accNames {
		if acc&(1<<i) != 0 {
			l = append(l, n)
		}
	}
	if len(l) == 0 {
		return "rejected-by-all"
	}
	return strings.Join(l, "+")
}

type fail struct{ sig, msg string }

type env struct {
	root  string // legacy models directory (OLLAMA_MODELS)
	croot string // DiskCache directory used for the pure GetFile / nameToPath checks
	cache *blob.DiskCache
	reg   *ollama.Registry
	mask  names.Name
}

func q(s string) string { return strconv.Quote(s) }

// confine reports why path is not "root/<top>/c1/.../c(depth-1)"; "" means it is.
// This is the whole confinement oracle: relative to root, not absolute, never
// upward, exactly the fixed depth, and no component that is empty, ".", ".."
// or contains a separator or NUL.
func confine(root, path, top string, depth int) string {
	if strings.IndexByte(path, 0) >= 0 {
		return "nul-in-path"
	}
	rel, err := filepath.Rel(root, path)
	if err != nil {
		return "not-under-root"
	}
	if filepath.IsAbs(rel) {
		return "absolute"
	}
	comps := strings.Split(rel, string(filepath.Separator))
	for _, c := range comps {
		switch {
		case c == "..":
			return "outside-root"
		case c == "." || c == "":
			return "dot-or-empty-component"
		case strings.Contains(c, "\\"):
			return "backslash-in-component"
		}
	}
	if comps[0] != top {
		return "wrong-subdirectory"
	}
	if len(comps) != depth {
		return fmt.Sprintf("depth-%d-instead-of-%d", len(comps), depth)
	}
	// filepath.Rel cleans its arguments, so look at the path as returned too:
	// no component of it may be able to step upward (a hidden "x/../y")
	for _, c := range strings.Split(path, string(filepath.Separator)) {
		if c == ".." || c == "." {
			return "dot-component-in-returned-path"
		}
	}
	return ""
}

var partNames = [4]string{"host", "namespace", "model", "tag"}

// partLabel names the raw part that makes a path go wrong (used only to give
// the violation a defect-class signature; the verdict comes from confine).
func partLabel(parts [4]string) string {
	for i, p := range parts {
		switch {
		case p == "":
			return "empty-" + partNames[i]
		case p == "..":
			return "dotdot-in-" + partNames[i]
		case p == ".":
			return "dot-in-" + partNames[i]
		case strings.Contains(p, "/"):
			return "slash-in-" + partNames[i]
		case strings.Contains(p, "\\"):
			return "backslash-in-" + partNames[i]
		case strings.IndexByte(p, 0) >= 0:
			return "nul-in-" + partNames[i]
		}
	}
	return ""
}

type checker struct {
	e     *env
	s     string
	acc   uint32
	fails []fail
	// observations that are not violations (see NOTES.md)
	bareShift bool
}

func (k *checker) failf(sig, format string, a ...any) {
	for _, f := range k.fails {
		if f.sig == sig {
			return
		}
	}
	k.fails = append(k.fails, fail{sig, fmt.Sprintf(format, a...)})
}

// try runs f and turns a panic into a violation: a panic is neither a
// rejection nor a path inside the store.
func (k *checker) try(fn string, f func()) {
	defer func() {
		if p := recover(); p != nil {
			k.failf("C13/panic/"+fn, "%s panicked for input %s: %v", fn, q(k.s), p)
		}
	}()
	f()
}

func (k *checker) manifestPath(fn, root, path string, parts [4]string) {
	if why := confine(root, path, "manifests", 5); why != "" {
		lbl := partLabel(parts)
		if lbl == "" {
			lbl = why
		}
		rel, _ := filepath.Rel(root, path)
		k.failf("C13/escape/"+fn+"/"+lbl, "%s accepts %s as {host:%s namespace:%s model:%s tag:%s} and the manifest path derived from it is %s relative to the models directory (%s); expected manifests/<host>/<namespace>/<model>/<tag>",
			fn, q(k.s), q(parts[0]), q(parts[1]), q(parts[2]), q(parts[3]), q(rel), why)
	}
}

func (k *checker) blobPath(fn, root, path string) {
	if why := confine(root, path, "blobs", 2); why != "" {
		rel, _ := filepath.Rel(root, path)
		k.failf("C13/escape/"+fn+"/"+why, "%s accepts %s as a digest and the blob path derived from it is %s relative to the models directory (%s); expected blobs/<one file name>",
			fn, q(k.s), q(rel), why)
	}
}

func modelParts(n model.Name) [4]string { return [4]string{n.Host, n.Namespace, n.Model, n.Tag} }
func namesParts(n names.Name) [4]string {
	return [4]string{n.Host(), n.Namespace(), n.Model(), n.Tag()}
}

// modelAccepted: n was produced by fn from k.s and n.IsValid() is true.
func (k *checker) modelAccepted(fn string, n model.Name) {
	parts := modelParts(n)
	var fp string
	ok := false
	k.try("Name.Filepath-after-IsValid/"+fn, func() { fp = n.Filepath(); ok = true })
	if ok {
		k.manifestPath(fn, k.e.root, filepath.Join(k.e.root, "manifests", fp), parts)
		k.try("model.ParseNameFromFilepath", func() {
			if back := model.ParseNameFromFilepath(fp); back != n {
				k.failf("C13/roundtrip/"+fn+"/Filepath", "%s(%s) = %v; Filepath() = %s; ParseNameFromFilepath reads it back as %v", fn, q(k.s), parts, q(fp), modelParts(back))
			}
		})
	}
	p := n.String()
	k.try("model.ParseName", func() {
		if back := model.ParseName(p); back != n {
			k.failf("C13/roundtrip/"+fn+"/String", "%s(%s) = %v prints as %s which model.ParseName reads back as %v", fn, q(k.s), parts, q(p), modelParts(back))
		}
		if back := model.ParseNameBare(p); back != n {
			k.failf("C13/roundtrip/"+fn+"/String-bare", "%s(%s) = %v prints as %s which model.ParseNameBare reads back as %v", fn, q(k.s), parts, q(p), modelParts(back))
		}
	})
	k.try("Name.DisplayShortest", func() {
		ds := n.DisplayShortest()
		back := model.ParseName(ds)
		if !back.IsValid() || !back.EqualFold(n) {
			k.failf("C13/roundtrip/"+fn+"/DisplayShortest", "%s(%s) = %v; DisplayShortest() = %s which model.ParseName reads back as %v (valid=%v)", fn, q(k.s), parts, q(ds), modelParts(back), back.IsValid())
		}
	})
	// the other parser must read the printed fully qualified name into the same parts
	k.try("names.Parse", func() {
		x := names.Parse(p)
		if !x.IsValid() || !x.IsFullyQualified() {
			k.failf("C13/cross/model->names/not-valid", "model parser accepts %s as %v and prints %s, which names.Parse calls invalid or not fully qualified (reads %v)", q(k.s), parts, q(p), namesParts(x))
		} else if namesParts(x) != parts {
			k.failf("C13/cross/model->names/parts-differ", "model parser accepts %s as %v and prints %s, which names.Parse reads as %v", q(k.s), parts, q(p), namesParts(x))
		}
	})
}

// namesAccepted: x is fully qualified (after the mask was merged in by the real code path fn).
func (k *checker) namesAccepted(fn string, x names.Name) {
	parts := namesParts(x)
	p := x.String()
	k.try("names.Parse", func() {
		y := names.Parse(p)
		if !y.IsFullyQualified() || namesParts(y) != parts {
			k.failf("C13/roundtrip/"+fn+"/String", "%s accepts %s as %v and prints %s, which names.Parse reads back as %v (fully qualified=%v)", fn, q(k.s), parts, q(p), namesParts(y), y.IsFullyQualified())
		}
	})
	k.try("blob.nameToPath", func() {
		np, err := blob.ZZC13NameToPath(p)
		if err != nil {
			k.failf("C13/roundtrip/"+fn+"/nameToPath-rejects-printed-name", "%s accepts %s as %v and prints %s, which blob.nameToPath rejects: %v", fn, q(k.s), parts, q(p), err)
			return
		}
		k.manifestPath(fn, k.e.croot, filepath.Join(k.e.croot, "manifests", np), parts)
	})
	k.try("model.ParseName", func() {
		m := model.ParseName(p)
		mb := model.ParseNameBare(p)
		if !m.IsValid() {
			k.failf("C13/cross/names->model/not-valid", "%s accepts %s as %v and prints %s, which model.ParseName calls invalid (reads %v)", fn, q(k.s), parts, q(p), modelParts(m))
		} else if modelParts(m) != parts || modelParts(mb) != parts {
			k.failf("C13/cross/names->model/parts-differ", "%s accepts %s as %v and prints %s, which model.ParseName reads as %v (bare: %v)", fn, q(k.s), parts, q(p), modelParts(m), modelParts(mb))
		}
	})
}

func isZeroName(x names.Name) bool { return namesParts(x) == [4]string{} }

// checkStr feeds s, unchanged, to every entry point: as a name, as a name
// relative path and as a digest.
//
// blobsPath selects whether server.GetBlobsPath is among them: it recompiles
// its regular expression on every call (~100us), so it is fed the digest
// shaped families and the shorter sigma strings only (see bounds in main.go).
func (e *env) checkStr(s string, blobsPath bool) *checker {
	k := &checker{e: e, s: s}

	// ---- types/model ------------------------------------------------------
	var n model.Name
	valid := false
	k.try("model.ParseName", func() { n = model.ParseName(s); valid = n.IsValid() })
	if valid {
		k.acc |= aModel
		k.modelAccepted("model.ParseName", n)
	}
	k.try("model.ParseNameBare", func() {
		b := model.ParseNameBare(s)
		if !valid {
			return
		}
		if back := model.ParseNameBare(b.String()); back != b {
			k.failf("C13/roundtrip/model.ParseNameBare/String", "ParseNameBare(%s) = %v prints as %s which ParseNameBare reads back as %v", q(s), modelParts(b), q(b.String()), modelParts(back))
		}
	})
	var fpn model.Name
	fpValid := false
	k.try("model.ParseNameFromFilepath", func() { fpn = model.ParseNameFromFilepath(s); fpValid = fpn.IsValid() })
	if fpValid {
		k.acc |= aModelFP
		k.modelAccepted("model.ParseNameFromFilepath", fpn)
	}

	// ---- names (new client) -------------------------------------------------
	var x, full names.Name
	fq := false
	k.try("names.Parse", func() {
		x = names.Parse(s)
		full = names.Merge(x, e.mask)
		fq = full.IsFullyQualified()
		if x.IsValid() && namesParts(names.Parse(x.String())) != namesParts(x) {
			k.bareShift = true // observation only, see NOTES.md
		}
	})
	if fq {
		k.acc |= aNames
		k.namesAccepted("names.Parse", full)
	}
	k.try("blob.nameToPath", func() {
		np, err := blob.ZZC13NameToPath(s)
		if err != nil {
			return
		}
		k.acc |= aNameToPath
		k.manifestPath("blob.nameToPath", e.croot, filepath.Join(e.croot, "manifests", np), namesParts(names.Parse(s)))
	})
	k.try("Registry.parseNameExtended", func() {
		ollama.ZZC13SplitExtended(s)
		_, xn, d, err := e.reg.ZZC13ParseNameExtended(s)
		if err != nil {
			return
		}
		k.acc |= aExtended
		zero := isZeroName(xn)
		if !zero && xn.IsFullyQualified() {
			k.namesAccepted("Registry.parseNameExtended", xn)
		}
		// (a name that is accepted here but not fully qualified is rejected
		// later by nameToPath; that is still "rejected")
		if zero || d.IsValid() {
			k.blobPath("Registry.parseNameExtended", e.croot, e.cache.GetFile(d))
		}
	})

	// ---- legacy path parser ---------------------------------------------------
	k.try("ParseModelPath.GetManifestPath", func() {
		mp := server.ParseModelPath(s)
		p, err := mp.GetManifestPath()
		if err != nil {
			return
		}
		k.acc |= aLegacy
		k.manifestPath("ParseModelPath.GetManifestPath", e.root, p, [4]string{mp.Registry, mp.Namespace, mp.Repository, mp.Tag})
	})

	// ---- digests ----------------------------------------------------------------
	k.try("GetBlobsPath", func() {
		if !blobsPath {
			return
		}
		p, err := server.GetBlobsPath(s)
		if err != nil {
			return
		}
		if s == "" {
			k.acc |= aBlobsDir
			if p != filepath.Join(e.root, "blobs") {
				k.failf("C13/escape/GetBlobsPath/empty-digest", "GetBlobsPath(\"\") = %s, expected the blobs directory %s", q(p), q(filepath.Join(e.root, "blobs")))
			}
			return
		}
		k.acc |= aBlobsPath
		k.blobPath("GetBlobsPath", e.root, p)
	})
	k.try("blob.ParseDigest", func() {
		d, err := blob.ParseDigest(s)
		if err != nil {
			return
		}
		k.acc |= aDigest
		k.blobPath("blob.ParseDigest+GetFile", e.croot, e.cache.GetFile(d))
		if back, err := blob.ParseDigest(d.String()); err != nil || back != d {
			k.failf("C13/roundtrip/blob.ParseDigest/String", "ParseDigest(%s) prints as %s which ParseDigest reads back as %v (err=%v)", q(s), q(d.String()), back, err)
		}
	})
	return k
}

// describe prints what every entry point does with s (replay mode).
func (e *env) describe(s string) {
	fmt.Printf("input %s (%d bytes)\n", q(s), len(s))
	show := func(fn string, f func() string) {
		defer func() {
			if p := recover(); p != nil {
				fmt.Printf("  %-34s PANIC: %v\n", fn, p)
			}
		}()
		fmt.Printf("  %-34s %s\n", fn, f())
	}
	show("model.ParseName", func() string {
		n := model.ParseName(s)
		r := fmt.Sprintf("%q valid=%v", modelParts(n), n.IsValid())
		if n.IsValid() {
			r += fmt.Sprintf(" String=%s Filepath=%s DisplayShortest=%s", q(n.String()), q(n.Filepath()), q(n.DisplayShortest()))
		}
		return r
	})
	show("model.ParseNameFromFilepath", func() string {
		n := model.ParseNameFromFilepath(s)
		return fmt.Sprintf("%q valid=%v", modelParts(n), n.IsValid())
	})
	show("names.Parse", func() string {
		x := names.Parse(s)
		f := names.Merge(x, e.mask)
		return fmt.Sprintf("%q valid=%v; merged with mask %q fullyQualified=%v String=%s", namesParts(x), x.IsValid(), namesParts(f), f.IsFullyQualified(), q(f.String()))
	})
	show("blob.nameToPath", func() string {
		np, err := blob.ZZC13NameToPath(s)
		return fmt.Sprintf("%s err=%v", q(np), err)
	})
	show("Registry.parseNameExtended", func() string {
		sc, xn, d, err := e.reg.ZZC13ParseNameExtended(s)
		return fmt.Sprintf("scheme=%s name=%q digest=%v err=%v", q(sc), namesParts(xn), d, err)
	})
	show("ParseModelPath.GetManifestPath", func() string {
		mp := server.ParseModelPath(s)
		p, err := mp.GetManifestPath()
		return fmt.Sprintf("%+v -> %s err=%v", mp, q(p), err)
	})
	show("GetBlobsPath", func() string {
		p, err := server.GetBlobsPath(s)
		return fmt.Sprintf("%s err=%v", q(p), err)
	})
	show("blob.ParseDigest", func() string {
		d, err := blob.ParseDigest(s)
		if err != nil {
			return "err=" + err.Error()
		}
		return fmt.Sprintf("%v -> %s", d, q(e.cache.GetFile(d)))
	})
}
