// C13 harness: model names and digests cannot address anything outside the
// model store. Exhaustive bounded enumeration of input strings through the
// real parsers and path builders of ollama (see gen.go for the spaces,
// oracle.go / fscases.go for the oracle).
package main

import (
	"encoding/hex"
	"encoding/json"
	"fmt"
	"os"
	"os/exec"
	"path/filepath"
	"runtime"
	"runtime/pprof"
	"sort"
	"strings"
	"sync"
	"time"

	"github.com/ollama/ollama/server/internal/cache/blob"
	"github.com/ollama/ollama/server/internal/client/ollama"
	"github.com/ollama/ollama/server/internal/internal/names"
	"github.com/ollama/ollama/zzverif/evid"
)

type replayCase struct {
	Kind   string   `json:"kind"`             // "str" | "legacy" | "cache"
	Hex    string   `json:"hex,omitempty"`    // kind str: the input bytes, hex encoded (inputs are arbitrary bytes)
	Quoted string   `json:"quoted,omitempty"` // the same, Go-quoted, for the reader
	Store  []string `json:"store,omitempty"`  // kinds legacy/cache: hex encoded names whose manifests are in the store
	StoreQ []string `json:"store_quoted,omitempty"`
	Rounds int      `json:"rounds,omitempty"`
}

func strCase(s string) replayCase {
	return replayCase{Kind: "str", Hex: hex.EncodeToString([]byte(s)), Quoted: q(s)}
}

func storeCase(kind string, store []string, rounds int) replayCase {
	c := replayCase{Kind: kind, Rounds: rounds}
	for _, s := range store {
		c.Store = append(c.Store, hex.EncodeToString([]byte(s)))
		c.StoreQ = append(c.StoreQ, q(s))
	}
	return c
}

// ---- violation bookkeeping: per signature keep the smallest failing case ----------

type vrec struct {
	msg   string
	rep   replayCase
	size  int
	key   string
	count int64
}

type vstore struct {
	mu sync.Mutex
	m  map[string]*vrec
}

func (v *vstore) add(sig, msg string, rep replayCase, size int, key string) {
	v.mu.Lock()
	defer v.mu.Unlock()
	r := v.m[sig]
	if r == nil {
		v.m[sig] = &vrec{msg: msg, rep: rep, size: size, key: key, count: 1}
		return
	}
	r.count++
	if size < r.size || size == r.size && key < r.key {
		r.msg, r.rep, r.size, r.key = msg, rep, size, key
	}
}

func (v *vstore) saturated(fails []fail, size int) bool {
	v.mu.Lock()
	defer v.mu.Unlock()
	for _, f := range fails {
		r := v.m[f.sig]
		if r == nil || r.count < 50 || size < r.size {
			return false
		}
	}
	return true
}

func (v *vstore) addN(sig, msg string, rep replayCase, size int, key string, n int64) {
	v.add(sig, msg, rep, size, key)
	v.mu.Lock()
	v.m[sig].count += n - 1
	v.mu.Unlock()
}

// ---- real-directory cases, one share per subprocess -------------------------------

type fsViol struct {
	Sig, Msg string
	Rep      replayCase
	Size     int
	Key      string
	Count    int64
}

type fsOut struct {
	Counters   map[string]int64
	Nontrivial []uint64
	Samples    []any
	Viol       []fsViol
	Machinery  []string
}

// fsShare runs the stores whose index is i modulo k ("F i k"), first through the
// legacy store, then through the DiskCache.
func fsShare(spec string, b bounds, fse *fsEnv) fsOut {
	var i, k int
	fmt.Sscanf(spec, "F %d %d", &i, &k)
	out := fsOut{Counters: map[string]int64{}}
	local := &vstore{m: map[string]*vrec{}}
	var stores [][]string
	for _, s := range fsSingleNames(b.FSSigmaLen) {
		stores = append(stores, []string{s})
	}
	nSingle := len(stores)
	stores = append(stores, twoManifestStores(b.Thorough)...)
	nPairs := len(stores)
	stores = append(stores, twinStores()...)
	sampled := map[string]bool{}
	for _, kind := range []string{"legacy", "cache"} {
		legacy := kind == "legacy"
		for si, st := range stores {
			if si%k != i {
				continue
			}
			if si >= nPairs {
				if legacy {
					// (a store that already holds two manifests differing only by letter case: the legacy lookup
					// ranges over a Go map, which of the twins it meets first is not owned by the harness)
					continue
				}
				res := fse.cacheTwinCase(st)
				out.Counters["evaluations"]++
				out.Counters["fs_queries"] += int64(res.queries)
				if res.skipped != "" && len(res.fails) == 0 {
					out.Counters["fs_stores_not_buildable"]++
					continue
				}
				out.Nontrivial = append(out.Nontrivial, evid.Hash("fs:twin:"+strings.Join(st, "\x01")))
				out.Counters["cases_family_FC3"]++
				for _, f := range res.fails {
					local.add(f.sig, f.msg, storeCase("cache-twins", st, 1), 1000*len(st)+len(st[0])+len(st[1]), "cache-twins:"+strings.Join(st, "\x01"))
				}
				continue
			}
			rounds := 1
			fam := "FL"
			if !legacy {
				fam = "FC"
			}
			if si < nSingle {
				fam += "1"
			} else {
				fam += "2"
				if legacy {
					rounds = rounds2
				}
			}
			run := func() fsResult {
				if legacy {
					return fse.legacyCase(st, rounds, false)
				}
				return fse.cacheCase(st, false)
			}
			res := run()
			out.Counters["evaluations"]++
			out.Counters["fs_queries"] += int64(res.queries)
			if res.skipped != "" && len(res.fails) == 0 {
				out.Counters["fs_stores_not_buildable"]++
				continue
			}
			key := kind + ":" + strings.Join(st, "\x01")
			out.Nontrivial = append(out.Nontrivial, evid.Hash("fs:"+key))
			out.Counters["cases_family_"+fam]++
			if !sampled[fam] && i == 0 {
				sampled[fam] = true
				out.Samples = append(out.Samples, map[string]any{"family": fam, "store": st, "spellings_queried_for_first": storeVariants(st)(st[0]), "rounds_per_query": rounds, "queries": res.queries})
			}
			if len(res.fails) == 0 {
				continue
			}
			want := sigSet(res.fails)
			stable := true
			for n := 0; n < 5 && stable; n++ {
				if got := sigSet(run().fails); got != want {
					out.Machinery = append(out.Machinery, fmt.Sprintf("C13 %s store %q not reproducible: first %q then %q", kind, st, want, got))
					stable = false
				}
			}
			if !stable {
				continue
			}
			size := 1000 * len(st)
			for _, s := range st {
				size += len(s)
			}
			for _, f := range res.fails {
				local.add(f.sig, f.msg, storeCase(kind, st, rounds), size, key)
			}
		}
	}
	for sig, v := range local.m {
		out.Viol = append(out.Viol, fsViol{sig, v.msg, v.rep, v.size, v.key, v.count})
	}
	return out
}

func spawnFSWorker(item string) (*fsOut, error) {
	self, err := os.Executable()
	if err != nil {
		return nil, err
	}
	cmd := exec.Command(self)
	cmd.Env = append(os.Environ(), "VERIF_C13_FSWORKER="+item)
	var stderr strings.Builder
	cmd.Stderr = &stderr
	raw, err := cmd.Output()
	if err != nil {
		return nil, fmt.Errorf("worker failed: %v\n%s", err, stderr.String())
	}
	// the result is the last line that is a JSON object (code under test may print)
	lines := strings.Split(strings.TrimSpace(string(raw)), "\n")
	var out fsOut
	if err := json.Unmarshal([]byte(lines[len(lines)-1]), &out); err != nil {
		return nil, fmt.Errorf("worker output not understood: %v", err)
	}
	return &out, nil
}

func sigSet(fs []fail) string {
	var l []string
	for _, f := range fs {
		l = append(l, f.sig)
	}
	sort.Strings(l)
	return strings.Join(l, "\n")
}

const rounds2 = 16 // repetitions of each query against a two-manifest legacy store

func scratchBase() string {
	if fi, err := os.Stat("/dev/shm"); err == nil && fi.IsDir() {
		return "/dev/shm"
	}
	return os.TempDir()
}

func main() {
	r := evid.Start("C13", "exploration")
	thorough := evid.Thorough()
	b := tierBounds(thorough)

	outer, err := os.MkdirTemp(scratchBase(), "verif-c13-")
	if err != nil {
		fmt.Fprintln(os.Stderr, "C13: cannot create scratch directory:", err)
		os.Exit(2)
	}
	cleanup := func() { os.RemoveAll(outer) }
	deep := filepath.Join(outer, "l1", "l2", "l3", "l4")
	root := filepath.Join(deep, "models")
	croot := filepath.Join(deep, "purecache")
	if err := os.MkdirAll(root, 0o755); err != nil {
		fmt.Fprintln(os.Stderr, "C13:", err)
		os.Exit(2)
	}
	os.Setenv("OLLAMA_MODELS", root)
	pc, err := blob.Open(croot)
	if err != nil {
		cleanup()
		fmt.Fprintln(os.Stderr, "C13:", err)
		os.Exit(2)
	}
	e := &env{root: root, croot: croot, cache: pc, reg: &ollama.Registry{Cache: pc}, mask: names.Parse(ollama.DefaultMask)}
	fse, err := newFSEnv(e, outer)
	if err != nil {
		cleanup()
		fmt.Fprintln(os.Stderr, "C13:", err)
		os.Exit(2)
	}

	if p := evid.ReplayPath(); p != "" {
		code := replay(p, e, fse)
		cleanup()
		os.Exit(code)
	}
	if spec := os.Getenv("VERIF_C13_FSWORKER"); spec != "" {
		out := fsShare(spec, b, fse)
		cleanup()
		json.NewEncoder(os.Stdout).Encode(out)
		os.Exit(0)
	}

	r.Rule("Every generated string is fed unchanged to every entry point (model.ParseName/ParseNameBare/ParseNameFromFilepath, names.Parse+default mask, blob.nameToPath, Registry.parseNameExtended/splitExtended, server.ParseModelPath(..).GetManifestPath, server.GetBlobsPath, blob.ParseDigest+DiskCache.GetFile). " +
		"Spaces, all enumerated completely: S = all strings of <= n symbols over the 17-symbol alphabet in bounds.sigma (thorough: the layer of exactly n symbols runs last, first over the 12-symbol bounds.sigma_core, then the strings containing one of the other 5 symbols); N = every name form (m, m:t, n/m, m@d, n/m:t, h/n/m, m:t:x, h/n/m:t, h/n/m/t, n:t/m:t, h\\n\\m\\t) with every part drawn from bounds.part_alphabet (lengths 79/80/81/349/350/351, '.', '..', empty, placeholder, separator/control/non-ASCII bytes, the defaults in both cases); W = 5-part forms over a 12-value alphabet; X = scheme x name x @digest decorations; D = digest prefix x separator x body(63/64/65, lower/upper/mixed/zero, non-hex or traversal bytes at each end and inside) x suffix x lead; E = a well-formed digest with every sigma string of <= k symbols inserted at / overwriting 8 offsets. " +
		"F3 = DiskCache stores that already hold two manifests differing only by letter case (placed by hand): every spelling must address one and the same of them; F = real-directory cases: for every sigma string of <= 4 symbols plus 15 spelled-out names that the real parser accepts, the manifest is created with the real WriteManifest / DiskCache.Link, the directory tree is listed, and every case variant of the name is resolved through getExistingName+ParseNamedManifest+ParseModelPath and through parseNameExtended+DiskCache.manifestPath/Resolve/Unlink; F2 = the same with every pair of distinct h/n/m:t names over {lower, upper, other} per part in the store. " +
		"A case is non-trivial when at least one entry point accepts the string, i.e. a path or a parsed name was actually derived and checked (F cases: the store could be built); distinct_nontrivial counts distinct such inputs.")
	r.Assume(
		"accepted means: model.Name.IsValid() for the model parser; fully qualified after the default mask is merged (what Registry.parseName does) for the names parser; err == nil for nameToPath, parseNameExtended, GetManifestPath, GetBlobsPath, ParseDigest. A names.Name that is IsValid() but not yet masked is never printed by ollama, so round-tripping bare partial names is observed (coverage.observations) but not demanded",
		"GetBlobsPath(\"\") is the documented request for the blobs directory itself, not a digest; it must return exactly <models>/blobs",
		"DisplayShortest may drop default parts; reading it back must give the same name up to letter case of the dropped defaults (EqualFold)",
		"a path component containing '\\' is counted as containing a separator because the same code runs on Windows",
		"case-variant clause: the store holds the manifest of the name (F), or that manifest and one manifest of a different model (F2); two manifests that are equal under case folding are outside the clause",
		"Go map iteration order inside getExistingName is a free choice of the runtime that cannot be controlled without editing ollama: every query against a two-manifest legacy store is therefore executed 16 times and fails if any execution misses the manifest (a single-manifest store has one order); all other code under test is deterministic",
		"a panic inside an entry point is a violation: it is neither a rejection nor a path inside the store",
	)

	vs := &vstore{m: map[string]*vrec{}}
	var obsMu sync.Mutex
	var obsCount int64
	obsSmallest := ""
	var skippedItems []string

	record := func(kind string, fails []fail, rerun func() []fail, rep replayCase, size int, key string) {
		want := sigSet(fails)
		// every failing case is re-executed 5 times before it is recorded, except
		// when all its signatures already have 50 confirmed cases and a smaller
		// reported example (keeps a badly broken tree from exhausting the budget)
		n := 5
		if vs.saturated(fails, size) {
			n = 0
		}
		for i := 0; i < n; i++ {
			if got := sigSet(rerun()); got != want {
				r.Extra("machinery_errors", []string{fmt.Sprintf("C13 %s case %s not reproducible: first %q then %q", kind, key, want, got)})
				return
			}
		}
		for _, f := range fails {
			vs.add(f.sig, f.msg, rep, size, key)
		}
	}

	// Internal wall-clock budget (never part of an oracle): items that have not
	// started when it runs out are skipped and the run is reported as not exhaustive.
	budget := 75 * time.Second
	if thorough {
		budget = 12*time.Minute + 30*time.Second
	}
	r.SetDeadline(budget)

	nShares := runtime.NumCPU()
	var items []string
	for i := 0; i < nShares; i++ {
		items = append(items, fmt.Sprintf("F %d %d", i, nShares))
	}
	items = append(items, pureItems(b)...)
	if only := os.Getenv("VERIF_C13_ONLY"); only != "" { // debugging aid: run the items with this prefix only
		var sel []string
		for _, it := range items {
			if strings.HasPrefix(it, only) {
				sel = append(sel, it)
			}
		}
		items = sel
		r.NotExhaustive("VERIF_C13_ONLY=" + only + ": only the work items with this prefix were run")
	}
	itemIndex := map[string]int{}
	for i, it := range items {
		itemIndex[it] = i
	}
	timing := os.Getenv("VERIF_C13_TIMING") != ""
	if pf := os.Getenv("VERIF_C13_PROF"); pf != "" {
		f, _ := os.Create(pf)
		pprof.StartCPUProfile(f)
		defer pprof.StopCPUProfile()
	}
	r.Parallel(0, items, func(item string, sub *evid.Run) {
		if r.Expired() {
			obsMu.Lock()
			skippedItems = append(skippedItems, item)
			obsMu.Unlock()
			return
		}
		if timing {
			t0 := time.Now()
			defer func() { fmt.Fprintf(os.Stderr, "item %-20s %.2fs\n", item, time.Since(t0).Seconds()) }()
		}
		fam := item[:1]
		if fam == "F" {
			// the legacy store is addressed through the process-wide OLLAMA_MODELS,
			// so every share of the real-directory cases runs in its own process
			out, err := spawnFSWorker(item)
			if err != nil {
				r.Extra("machinery_errors", []string{"C13 " + item + ": " + err.Error()})
				return
			}
			for k, n := range out.Counters {
				sub.Add(k, n)
			}
			for _, h := range out.Nontrivial {
				sub.DistinctH("nontrivial", h)
			}
			for _, smp := range out.Samples {
				sub.Sample(smp)
			}
			for _, v := range out.Viol {
				vs.addN(v.Sig, v.Msg, v.Rep, v.Size, v.Key, v.Count)
			}
			if len(out.Machinery) > 0 {
				r.Extra("machinery_errors", out.Machinery)
			}
			return
		}
		var evals int64
		accCount := map[uint32]int64{}
		// samples: one rejected and one accepted input from one item per family
		wantSamples := map[string]bool{"N m:t -1": true, "N h/n/m:t 7": true, "W h/n/m/t/x 0": true, "X h/n/m:t 1": true, "D 0": true, "E 0": true, "S short": true, "S 0 7": true, "T 0 7": true, "U 0 11": true}[item]
		firstSample, accSample := !wantSamples, !wantSamples
		var bpCalls int64
		runItem(item, b, func(s string) {
			evals++
			bp := fam == "D" || fam == "E" || (fam == "S" || fam == "T" || fam == "U") && symCount(s) <= b.BlobsPathSigmaLen
			if bp {
				bpCalls++
			}
			k := e.checkStr(s, bp)
			accCount[k.acc]++
			if k.acc != 0 {
				sub.Distinct("nontrivial", "s:"+s)
			}
			if !firstSample || (k.acc != 0 && !accSample) {
				firstSample = true
				if k.acc != 0 {
					accSample = true
				}
				sub.Sample(map[string]any{"family": fam, "input": q(s), "accepted_by": accString(k.acc)})
			}
			if k.bareShift {
				obsMu.Lock()
				obsCount++
				if obsSmallest == "" || len(s) < len(obsSmallest) || len(s) == len(obsSmallest) && s < obsSmallest {
					obsSmallest = s
				}
				obsMu.Unlock()
			}
			if len(k.fails) > 0 {
				record("str", k.fails, func() []fail { return e.checkStr(s, bp).fails }, strCase(s), len(s), s)
			}
		})
		if fam == "T" || fam == "U" {
			fam = "S"
		}
		sub.Add("evaluations", evals)
		sub.Add("strings_family_"+fam, evals)
		sub.Add("strings_fed_to_GetBlobsPath", bpCalls)
		for acc, n := range accCount {
			sub.Distinct("outcome", accString(acc))
			for i, name := range accNames {
				if acc&(1<<i) != 0 {
					sub.Add("accepted_by_"+name, n)
				}
			}
			if acc == 0 {
				sub.Add("rejected_by_all", n)
			}
		}
	})
	if len(skippedItems) > 0 {
		sort.Slice(skippedItems, func(i, j int) bool { return itemIndex[skippedItems[i]] < itemIndex[skippedItems[j]] })
		show := skippedItems
		if len(show) > 6 {
			show = show[:6]
		}
		r.NotExhaustive(fmt.Sprintf("internal time budget of %v used up: the last %d of %d work items were not run (from %q on: %s ...). Items run in the order F (real directory), N, W, X, D, E, S (sigma strings below the longest length), T (strings of exactly %d symbols over the 12-symbol sub-alphabet bounds.sigma_core), U (strings of exactly %d symbols with at least one of the other 5 symbols); T and U have one item per pair of first two symbols (indices into bounds.sigma); every item before %q was covered completely", budget, len(skippedItems), len(items), show[0], strings.Join(show, "; "), b.SigmaLen, b.SigmaLen, show[0]))
	}

	// hand the violations to evid, smallest case per signature, in a stable order
	var sigs []string
	for s := range vs.m {
		sigs = append(sigs, s)
	}
	sort.Strings(sigs)
	for _, s := range sigs {
		v := vs.m[s]
		msg := v.msg
		if v.count > 1 {
			msg += fmt.Sprintf("\n(smallest of %d failing cases with this signature)", v.count)
		}
		n := v.count
		if n > 1<<21 {
			n = 1 << 21
		}
		for i := int64(0); i < n; i++ {
			r.Violation(s, msg, v.rep)
		}
	}

	alpha := partAlphabet(thorough)
	qa := make([]string, len(alpha))
	for i, p := range alpha {
		if len(p) > 24 {
			qa[i] = fmt.Sprintf("%s...(%d bytes)", q(p[:8]), len(p))
		} else {
			qa[i] = q(p)
		}
	}
	qs := make([]string, len(sigma))
	for i, p := range sigma {
		qs[i] = q(p)
	}
	var qcore []string
	for i, p := range sigma {
		if sigmaCore[i] {
			qcore = append(qcore, q(p))
		}
	}
	r.Extra("bounds", map[string]any{
		"sigma": qs, "sigma_core": qcore, "sigma_max_symbols": b.SigmaLen, "sigma_max_symbols_fed_to_GetBlobsPath": b.BlobsPathSigmaLen, "part_alphabet": qa, "wide_part_alphabet": len(partsSmall),
		"schemes": schemes, "digest_suffixes": len(digestSuffixes), "digest_family": map[string]int{"prefixes": len(digPrefixes), "separators": len(digSeps), "bodies": len(digBodies()), "suffixes": len(digSuffixes), "leads": len(digLeads)},
		"digest_sigma_inserted_symbols": b.DigestSigmaLen, "fs_sigma_max_symbols": b.FSSigmaLen, "two_manifest_stores": len(twoManifestStores(thorough)), "two_manifest_rounds": rounds2,
	})
	obs := map[string]any{"names_bare_roundtrip_changes_parts": obsCount}
	if obsSmallest != "" {
		x := names.Parse(obsSmallest)
		obs["names_bare_roundtrip_smallest"] = fmt.Sprintf("names.Parse(%s) = %q is IsValid and prints %s, which parses as %q (never printed unmasked by ollama; see NOTES.md)", q(obsSmallest), namesParts(x), q(x.String()), namesParts(names.Parse(x.String())))
	}
	r.Extra("observations", obs)
	if x := fse.outerIntact(); x != "" {
		r.Violation("C13/escape/scratch-directory-polluted", "an entry "+q(x)+" appeared next to the store's parent directories during the run", nil)
	}
	cleanup()
	pprof.StopCPUProfile()
	r.Finish()
}

func replay(path string, e *env, fse *fsEnv) int {
	var c replayCase
	if err := evid.LoadReplay(path, &c); err != nil {
		fmt.Println("replay:", err)
		return 2
	}
	unhex := func(h string) string {
		b, err := hex.DecodeString(h)
		if err != nil {
			fmt.Println("replay: bad hex:", err)
			os.Exit(2)
		}
		return string(b)
	}
	var fails []fail
	switch c.Kind {
	case "str":
		s := unhex(c.Hex)
		e.describe(s)
		fails = e.checkStr(s, true).fails
	case "legacy", "cache", "cache-twins":
		var st []string
		for _, h := range c.Store {
			st = append(st, unhex(h))
		}
		var res fsResult
		if c.Kind == "legacy" {
			if c.Rounds < 1 {
				c.Rounds = 1
			}
			res = fse.legacyCase(st, c.Rounds, true)
		} else if c.Kind == "cache-twins" {
			res = fse.cacheTwinCase(st)
		} else {
			res = fse.cacheCase(st, true)
		}
		if res.skipped != "" {
			fmt.Println("store not buildable:", res.skipped)
		}
		fails = res.fails
	default:
		fmt.Printf("replay: unknown case kind %q\n", c.Kind)
		return 2
	}
	if len(fails) == 0 {
		fmt.Println("holds")
		return 0
	}
	for _, f := range fails {
		fmt.Printf("FAILS: %s\n  %s\n", f.sig, f.msg)
	}
	return 1
}
