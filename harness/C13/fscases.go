package main

// C13, clauses that need a real directory: the file an accepted name creates
// is where the property says it is, and every spelling of the name that
// differs only in letter case resolves to that same file - through the legacy
// server path (ParseName -> getExistingName -> ParseNamedManifest /
// ParseModelPath.GetManifestPath) and through the new client
// (parseNameExtended -> DiskCache.Link / manifestPath / Resolve / Unlink).

import (
	"fmt"
	"io/fs"
	"os"
	"path/filepath"
	"sort"
	"strings"

	"github.com/ollama/ollama/server"
	"github.com/ollama/ollama/server/internal/cache/blob"
	"github.com/ollama/ollama/server/internal/client/ollama"
	"github.com/ollama/ollama/types/model"
)

type fsEnv struct {
	e     *env
	outer string // scratch directory that contains everything; removed at exit
	// new-client store on its own directory
	cdir  string
	cache *blob.DiskCache
	reg   *ollama.Registry
	dig   blob.Digest
}

const manifestBody = `{"schemaVersion":2,"layers":[]}`

func newFSEnv(e *env, outer string) (*fsEnv, error) {
	f := &fsEnv{e: e, outer: outer, cdir: filepath.Join(outer, "l1", "l2", "l3", "l4", "cache")}
	c, err := blob.Open(f.cdir)
	if err != nil {
		return nil, err
	}
	f.cache = c
	f.reg = &ollama.Registry{Cache: c}
	f.dig = blob.DigestFromBytes(manifestBody)
	if err := blob.PutBytes(c, f.dig, manifestBody); err != nil {
		return nil, err
	}
	return f, nil
}

// caseVariants returns spellings of s that differ from it only in the case of
// ASCII letters: all 2^k of them for k <= 4 letters, otherwise the original,
// all-upper, all-lower, swapped, first letter toggled, last letter toggled.
func caseVariants(s string) []string {
	var idx []int
	// a scheme prefix is not part of the name (and is matched case-sensitively by design)
	for i := strings.Index(s, "://") + 1; i < len(s); i++ {
		c := s[i]
		if c >= 'a' && c <= 'z' || c >= 'A' && c <= 'Z' {
			idx = append(idx, i)
		}
	}
	toggle := func(b []byte, i int) { b[i] ^= 0x20 }
	seen := map[string]bool{}
	var out []string
	add := func(v string) {
		if !seen[v] {
			seen[v] = true
			out = append(out, v)
		}
	}
	add(s)
	if len(idx) <= 4 {
		for m := 1; m < 1<<len(idx); m++ {
			b := []byte(s)
			for j, i := range idx {
				if m&(1<<j) != 0 {
					toggle(b, i)
				}
			}
			add(string(b))
		}
		return out
	}
	for _, up := range []bool{true, false} {
		b := []byte(s)
		for _, i := range idx {
			if up {
				b[i] &^= 0x20
			} else {
				b[i] |= 0x20
			}
		}
		add(string(b))
	}
	b := []byte(s)
	for _, i := range idx {
		toggle(b, i)
	}
	add(string(b))
	b = []byte(s)
	toggle(b, idx[0])
	add(string(b))
	b = []byte(s)
	toggle(b, idx[len(idx)-1])
	add(string(b))
	return out
}

func spelling(v, s string) string {
	if v == s {
		return "the exact spelling of a stored name"
	}
	return "a case variant of " + q(s)
}

func errText(err error) string {
	if err == nil {
		return "no error"
	}
	// keep messages stable across runs: drop the scratch directory
	t := err.Error()
	if i := strings.Index(t, "/l1/l2/l3/l4/"); i >= 0 {
		j := strings.LastIndex(t[:i], " ")
		t = t[:j+1] + "<scratch>" + t[i+len("/l1/l2/l3/l4"):]
	}
	return "error: " + t
}

// storeVariants: all case variants for a single-manifest store; for a larger
// store the exact spelling and the spelling with every letter toggled.
func storeVariants(store []string) func(string) []string {
	if len(store) == 1 {
		return caseVariants
	}
	return func(s string) []string {
		b := []byte(s)
		for i, c := range b {
			if c >= 'a' && c <= 'z' || c >= 'A' && c <= 'Z' {
				b[i] ^= 0x20
			}
		}
		if string(b) == s {
			return []string{s}
		}
		return []string{s, string(b)}
	}
}

// regularFiles lists the regular files below dir, relative to dir.
func regularFiles(dir string) []string {
	var l []string
	filepath.WalkDir(dir, func(p string, d fs.DirEntry, err error) error {
		if err == nil && !d.IsDir() {
			rel, _ := filepath.Rel(dir, p)
			l = append(l, rel)
		}
		return nil
	})
	sort.Strings(l)
	return l
}

func relTo(root, p string) string {
	if p == "" {
		return ""
	}
	rel, err := filepath.Rel(root, p)
	if err != nil {
		return p
	}
	return rel
}

// matchFiles: got (relative to root) must be one confined manifest file per
// wanted path, equal to it up to letter case; created[i] is then set to the
// file that really exists.
func matchFiles(root string, got, want, created []string) bool {
	if len(got) != len(want) {
		return false
	}
	used := make([]bool, len(got))
	for i, w := range want {
		found := false
		for j, g := range got {
			if !used[j] && strings.EqualFold(g, w) && confine(root, filepath.Join(root, g), "manifests", 5) == "" {
				used[j], found = true, true
				created[i] = filepath.Join(root, g)
				break
			}
		}
		if !found {
			return false
		}
	}
	return true
}

func sameSet(a, b []string) bool {
	if len(a) != len(b) {
		return false
	}
	a = append([]string{}, a...)
	b = append([]string{}, b...)
	sort.Strings(a)
	sort.Strings(b)
	for i := range a {
		if a[i] != b[i] {
			return false
		}
	}
	return true
}

func (f *fsEnv) outerIntact() string {
	ents, _ := os.ReadDir(f.outer)
	for _, en := range ents {
		if en.Name() != "l1" {
			return en.Name()
		}
	}
	return ""
}

type fsResult struct {
	skipped string // the store could not be built (not a violation), with reason
	queries int
	fails   []fail
}

func (r *fsResult) failf(sig, format string, a ...any) {
	for _, x := range r.fails {
		if x.sig == sig {
			return
		}
	}
	r.fails = append(r.fails, fail{sig, fmt.Sprintf(format, a...)})
}

// legacyCase puts one manifest per store name into the legacy store with the
// real WriteManifest and resolves every case variant of every store name the
// way the handlers do. rounds > 1 repeats each query (see main.go: Go map
// iteration order inside getExistingName cannot be controlled from outside).
func (f *fsEnv) legacyCase(store []string, rounds int, verbose bool) (res fsResult) {
	variants := storeVariants(store)
	defer func() {
		if p := recover(); p != nil {
			res.failf("C13/panic/legacy-store-flow", "legacy store flow panicked for store %q: %v", store, p)
		}
	}()
	root := f.e.root
	mdir := filepath.Join(root, "manifests")
	for _, s := range store {
		if !model.ParseName(s).IsValid() {
			res.skipped = "store name rejected by model.ParseName: " + q(s)
			return
		}
	}
	os.RemoveAll(mdir)
	created := make([]string, len(store))
	parsed := make([]model.Name, len(store))
	for i, s := range store {
		n := model.ParseName(s)
		want := filepath.Join(mdir, n.Host, n.Namespace, n.Model, n.Tag)
		if confine(root, filepath.Join(mdir, n.Filepath()), "manifests", 5) != "" || confine(root, want, "manifests", 5) != "" {
			// reported by the pure family; never write outside the store from the harness
			res.skipped = "derived path is not inside the store: " + q(s)
			return
		}
		if err := server.WriteManifest(n, server.Layer{}, nil); err != nil {
			res.skipped = "WriteManifest failed (" + err.Error() + ")"
			return
		}
		created[i], parsed[i] = want, n
	}
	var wantRel []string
	for _, c := range created {
		wantRel = append(wantRel, relTo(root, c))
	}
	got := regularFiles(root)
	if verbose {
		fmt.Printf("legacy store %q -> files on disk %q\n", store, got)
	}
	// the files that now exist must be exactly one per name, inside the store at
	// manifests/<host>/<namespace>/<model>/<tag> (spelling compared up to letter case)
	if x := f.outerIntact(); x != "" || !matchFiles(root, got, wantRel, created) {
		res.failf("C13/escape/WriteManifest/file-not-at-fixed-depth", "after WriteManifest for %q the models directory holds %q (stray entry next to it: %q); expected exactly %q", store, got, x, wantRel)
		return
	}
	class := "variant-misses-manifest"
	if len(store) > 1 {
		class = "parts-mixed-across-manifests"
	}
	for i, s := range store {
		for _, v := range variants(s) {
			qn := model.ParseName(v)
			if !qn.IsValid() || !qn.EqualFold(parsed[i]) {
				res.failf("C13/case/model.ParseName/variant-parses-differently", "%s is accepted as %v but its case variant %s parses as %v (valid=%v)", q(s), modelParts(parsed[i]), q(v), modelParts(qn), qn.IsValid())
				continue
			}
			for r := 0; r < rounds; r++ {
				res.queries++
				e, err := server.ZZC13GetExistingName(qn)
				if err != nil {
					res.failf("C13/case/getExistingName/error", "getExistingName(%v) with store %q: %v", modelParts(qn), store, err)
					break
				}
				file, err := server.ZZC13ManifestFile(e)
				if verbose && r == 0 {
					fmt.Printf("  %-24s getExistingName -> %q  ParseNamedManifest -> %q err=%v\n", q(v), modelParts(e), file, err)
				}
				if err != nil || file != created[i] {
					res.failf("C13/case/getExistingName/"+class, "store holds manifests %q; the name %s (%s) is canonicalised by getExistingName to %q and ParseNamedManifest then opens %q (%s); expected it to address %q", store, q(v), spelling(v, s), e.String(), relTo(root, file), errText(err), relTo(root, created[i]))
					continue
				}
				lp, err := server.ParseModelPath(e.String()).GetManifestPath()
				if err != nil || lp != created[i] {
					res.failf("C13/case/ParseModelPath/"+class, "store holds manifests %q; %s (%s) -> getExistingName -> %q -> ParseModelPath.GetManifestPath = %q (%s); expected %q", store, q(v), spelling(v, s), e.String(), relTo(root, lp), errText(err), relTo(root, created[i]))
					continue
				}
			}
		}
	}
	return
}

// cacheCase is the same through the new client's DiskCache.
func (f *fsEnv) cacheCase(store []string, verbose bool) (res fsResult) {
	variants := storeVariants(store)
	defer func() {
		if p := recover(); p != nil {
			res.failf("C13/panic/cache-store-flow", "DiskCache store flow panicked for store %q: %v", store, p)
		}
	}()
	mdir := filepath.Join(f.cdir, "manifests")
	for _, s := range store {
		if _, xn, _, err := f.reg.ZZC13ParseNameExtended(s); err != nil || !xn.IsFullyQualified() {
			res.skipped = "store name rejected by parseNameExtended: " + q(s)
			return
		}
	}
	os.RemoveAll(mdir)
	os.MkdirAll(mdir, 0o777)
	created := make([]string, len(store))
	full := make([]string, len(store))
	for i, s := range store {
		_, xn, _, _ := f.reg.ZZC13ParseNameExtended(s)
		want := filepath.Join(mdir, xn.Host(), xn.Namespace(), xn.Model(), xn.Tag())
		np, err := blob.ZZC13NameToPath(xn.String())
		if err != nil || confine(f.cdir, filepath.Join(mdir, np), "manifests", 5) != "" || confine(f.cdir, want, "manifests", 5) != "" {
			res.skipped = "derived path is not inside the store: " + q(s)
			return
		}
		if err := f.cache.Link(xn.String(), f.dig); err != nil {
			res.skipped = "Link failed (" + err.Error() + ")"
			return
		}
		created[i], full[i] = want, xn.String()
	}
	var wantRel []string
	for _, c := range created {
		wantRel = append(wantRel, relTo(f.cdir, c))
	}
	got := regularFiles(mdir)
	for i := range got {
		got[i] = filepath.Join("manifests", got[i])
	}
	if verbose {
		fmt.Printf("cache store %q -> files on disk %q\n", store, got)
	}
	if x := f.outerIntact(); x != "" || !matchFiles(f.cdir, got, wantRel, created) {
		res.failf("C13/escape/DiskCache.Link/file-not-at-fixed-depth", "after Link for %q the cache holds manifests %q (stray entry next to the store: %q); expected exactly %q", store, got, x, wantRel)
		return
	}
	class := "variant-misses-manifest"
	if len(store) > 1 {
		class = "wrong-manifest-among-several"
	}
	for i, s := range store {
		vs := variants(s)
		for _, v := range vs {
			res.queries++
			_, xv, _, err := f.reg.ZZC13ParseNameExtended(v)
			if err != nil || !xv.IsFullyQualified() {
				res.failf("C13/case/parseNameExtended/variant-parses-differently", "%s is accepted but its case variant %s is not: %v", q(s), q(v), err)
				continue
			}
			p, err := f.cache.ZZC13ManifestPath(xv.String())
			if verbose {
				fmt.Printf("  %-24s -> %q manifestPath -> %q err=%v\n", q(v), xv.String(), p, err)
			}
			if err != nil || p != created[i] {
				res.failf("C13/case/DiskCache.manifestPath/"+class, "cache holds manifests %q; the name %s (%s, completed to %q) resolves to %q (%s); expected %q", store, q(v), spelling(v, s), xv.String(), relTo(f.cdir, p), errText(err), relTo(f.cdir, created[i]))
				continue
			}
			d, err := f.cache.Resolve(xv.String())
			if err != nil || d != f.dig {
				res.failf("C13/case/DiskCache.Resolve/"+class, "cache holds manifests %q; Resolve(%q) (from %s) = %v err=%v; expected the linked digest %v", store, xv.String(), q(v), d, err, f.dig)
			}
		}
		// removing through the last spelling must remove exactly that manifest
		last := vs[len(vs)-1]
		_, xl, _, _ := f.reg.ZZC13ParseNameExtended(last)
		ok, err := f.reg.Unlink(xl.String())
		_, statErr := os.Stat(created[i])
		if err != nil || !ok || statErr == nil {
			res.failf("C13/case/Registry.Unlink/"+class, "cache holds manifests %q; Unlink(%q) (from %s, %s) = %v, %s and the manifest %q still exists=%v", store, xl.String(), q(last), spelling(last, s), ok, errText(err), relTo(f.cdir, created[i]), statErr == nil)
		}
	}
	return
}

// twinStores: stores that already hold two manifests whose names differ only by letter case (a models
// directory copied from elsewhere or written by an older version; Link itself never creates such a pair).
func twinStores() [][]string {
	return [][]string{
		{"h/n/m:t", "H/N/M:T"}, {"H/N/M:T", "h/n/m:t"}, {"h/n/m:t", "h/N/m:t"}, {"h/n/m:t", "h/n/M:t"}, {"h/n/m:t", "h/n/m:T"}, {"h/n/m:t", "H/n/m:t"},
		{"registry.ollama.ai/library/a:latest", "registry.ollama.ai/Library/a:latest"}, {"registry.ollama.ai/library/a:latest", "registry.ollama.ai/library/A:latest"},
	}
}

// cacheTwinCase: both spellings of a twin pair - and every other case variant - differ only by letter
// case, so they must all address one and the same of the two manifests (the property does not say which).
func (f *fsEnv) cacheTwinCase(store []string) (res fsResult) {
	defer func() {
		if p := recover(); p != nil {
			res.failf("C13/panic/cache-store-flow", "DiskCache twin store flow panicked for store %q: %v", store, p)
		}
	}()
	mdir := filepath.Join(f.cdir, "manifests")
	os.RemoveAll(mdir)
	os.MkdirAll(mdir, 0o777)
	var paths []string
	for i, s := range store {
		_, xn, _, err := f.reg.ZZC13ParseNameExtended(s)
		if err != nil || !xn.IsFullyQualified() {
			res.skipped = "store name rejected by parseNameExtended: " + q(s)
			return
		}
		want := filepath.Join(mdir, xn.Host(), xn.Namespace(), xn.Model(), xn.Tag())
		if i == 0 {
			if err := f.cache.Link(xn.String(), f.dig); err != nil {
				res.skipped = "Link failed (" + err.Error() + ")"
				return
			}
		} else {
			// the twin is put there by hand, byte for byte the first manifest
			b, err := os.ReadFile(paths[0])
			if err != nil {
				res.skipped = "first manifest unreadable: " + err.Error()
				return
			}
			os.MkdirAll(filepath.Dir(want), 0o777)
			if err := os.WriteFile(want, b, 0o666); err != nil {
				res.skipped = "twin not writable (case-insensitive file system?): " + err.Error()
				return
			}
		}
		paths = append(paths, want)
	}
	if len(regularFiles(mdir)) != 2 {
		res.skipped = "the file system folded the twins into one file"
		return
	}
	first, firstFrom := "", ""
	seen := map[string]bool{}
	for _, s := range store {
		for _, v := range append(caseVariants(s), s) {
			if seen[v] {
				continue
			}
			seen[v] = true
			_, xv, _, err := f.reg.ZZC13ParseNameExtended(v)
			if err != nil || !xv.IsFullyQualified() {
				continue
			}
			res.queries++
			p, err := f.cache.ZZC13ManifestPath(xv.String())
			if err != nil {
				res.failf("C13/case/DiskCache.manifestPath/twins-variant-misses-manifest", "cache holds the twin manifests %q; the name %s resolves to nothing (%s)", store, q(v), errText(err))
				continue
			}
			if first == "" {
				first, firstFrom = p, v
			} else if p != first {
				res.failf("C13/case/DiskCache.manifestPath/twins-addressed-by-spelling", "cache holds the twin manifests %q; %s resolves to %q but %s, which differs from it only by letter case, resolves to %q", store, q(firstFrom), relTo(f.cdir, first), q(v), relTo(f.cdir, p))
			}
			if d, err := f.cache.Resolve(xv.String()); err != nil || d != f.dig {
				res.failf("C13/case/DiskCache.Resolve/twins", "cache holds the twin manifests %q; Resolve(%q) = %v err=%v; expected the linked digest %v", store, xv.String(), d, err, f.dig)
			}
		}
	}
	return
}

// ---- the stores that are enumerated --------------------------------------------

// fsSingleNames: every sigma string of <= n symbols (the harness does not
// pre-filter with its own grammar; names the real parser rejects are counted
// as skipped) plus spelled-out names that exercise the default parts, ports,
// every legal punctuation byte and the longest parts a file system accepts.
func fsSingleNames(n int) []string {
	var l []string
	genSigma(nil, n, func(s string) { l = append(l, s) })
	l = append(l,
		"registry.ollama.ai/library/a:latest",
		"REGISTRY.OLLAMA.AI/LIBRARY/A:LATEST",
		"Registry.Ollama.Ai/Library/Aa:Latest",
		"library/a", "LIBRARY/a:LATEST", "a:latest", "A:LATEST",
		"h:80/n/m:t", "H.x:80/N-n/M.m_m/T.t-t",
		"http://h/n/m:t", "https://H/N/M:T",
		"a.b/c-d/e_f:g.h", "_a/_b/_c:_d",
		rep("a", 80)+"/"+rep("B", 80)+"/"+rep("c", 80)+":"+rep("D", 80),
		rep("aB", 100)+"/n/m:t",
	)
	return l
}

// twoManifestStores: all unordered pairs of distinct names h/n/m:t over a tiny
// alphabet in which every part has a lower-case spelling, its upper-case
// spelling and an unrelated value. Pairs that are equal under case folding
// are two spellings of ONE model and are left out (which of two such files
// wins is not something the property speaks about).
func twoManifestStores(thorough bool) [][]string {
	hs, ns, ms, ts := []string{"h", "H"}, []string{"n", "N", "o"}, []string{"m", "M", "k"}, []string{"t", "T"}
	if thorough {
		hs, ts = []string{"h", "H", "g"}, []string{"t", "T", "u"}
	}
	var all []string
	for _, h := range hs {
		for _, n := range ns {
			for _, m := range ms {
				for _, t := range ts {
					all = append(all, h+"/"+n+"/"+m+":"+t)
				}
			}
		}
	}
	var out [][]string
	for i := range all {
		for j := i + 1; j < len(all); j++ {
			if strings.EqualFold(all[i], all[j]) {
				continue
			}
			out = append(out, []string{all[i], all[j]})
		}
	}
	return out
}
