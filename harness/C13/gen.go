package main

// C13 input spaces. Every generator is a plain nested loop over a finite,
// explicitly listed alphabet: nothing is sampled, nothing is random. The work
// is cut into named items so that items can run on different goroutines; an
// item always generates the same strings in the same order.

import (
	"fmt"
	"strings"
)

// ---- family S: every string over sigma up to a length -----------------------

// One symbol per class of byte the parsers treat differently: lower / upper /
// digit / underscore (legal first bytes), '-' and '.' (legal only later),
// ':' '/' '@' (the three separators of the grammar), '\\' (the separator on
// Windows), '%' ' ' '~' (URL / shell flavoured), NUL and newline (path and
// regexp end-of-text hazards), a 2-byte UTF-8 letter and a lone continuation
// byte (>= 0x80).
var sigma = []string{"a", "Z", "0", "_", "-", ".", ":", "/", "\\", "@", "%", " ", "~", "\x00", "\n", "é", "\x80"}

// genSigma emits every string made of at most maxSyms symbols of sigma that
// starts with the given symbols (pre-order: shorter strings first).
func genSigma(prefix []int, maxSyms int, emit func(string)) { genSigmaFrom(prefix, 0, maxSyms, emit) }

// genSigmaFrom is genSigma restricted to strings of at least minSyms symbols.
func genSigmaFrom(prefix []int, minSyms, maxSyms int, emit func(string)) {
	genSigmaSel(prefix, minSyms, maxSyms, selAll, emit)
}

// sigmaCore marks the 12 symbols of the sub-alphabet whose longest layer is
// scheduled first in the thorough tier (T items); the strings of the longest
// layer that contain at least one of the other five symbols (% space ~ \n
// 0x80: bytes that no grammar rule mentions) form the U items, scheduled last.
var sigmaCore = func() []bool {
	m := make([]bool, len(sigma))
	for i, s := range sigma {
		m[i] = !strings.Contains("% ~\n\x80", s)
	}
	return m
}()

const (
	selAll      = iota // every string
	selCoreOnly        // strings made of sigmaCore symbols only
	selNonCore         // strings with at least one symbol outside sigmaCore
)

func genSigmaSel(prefix []int, minSyms, maxSyms, sel int, emit func(string)) {
	buf := make([]byte, 0, 4*maxSyms)
	other := false
	for _, p := range prefix {
		buf = append(buf, sigma[p]...)
		other = other || !sigmaCore[p]
	}
	if sel == selCoreOnly && other {
		return
	}
	var rec func(buf []byte, n int, other bool)
	rec = func(buf []byte, n int, other bool) {
		if n >= minSyms && (sel != selNonCore || other) {
			emit(string(buf))
		}
		if n == maxSyms {
			return
		}
		for i, sym := range sigma {
			if sel == selCoreOnly && !sigmaCore[i] {
				continue
			}
			rec(append(buf, sym...), n+1, other || !sigmaCore[i])
		}
	}
	rec(buf, len(prefix), other)
}

// symCount is the number of sigma symbols of a family S string (only "é" is longer than one byte).
func symCount(s string) int { return len(s) - strings.Count(s, "é") }

// ---- family N: structured names around the limits ---------------------------

func rep(c string, n int) string { return strings.Repeat(c, n) }

// partsCore is used in both tiers; partsMore only in the thorough tier.
var partsCore = []string{
	"a", "Z0", "_", "a-b", "a.b", "a:80", // legal shapes (":" only legal in a host)
	".a", "..", ".", "-a", // illegal first bytes; the two traversal components
	"", "!MISSING!", // empty part and the parser's own placeholder
	"a\\b", "a b", "a\x00", "aé", "a@b", // separator / control / non-ASCII bytes inside a part
	rep("a", 79), rep("a", 80), rep("a", 81), // around the 80 byte limit
	rep("a", 349), rep("a", 350), rep("a", 351), // around the 350 byte host limit
	"registry.ollama.ai", "REGISTRY.OLLAMA.AI", "library", "LIBRARY", "latest", "LATEST", // the defaults and their case variants
}

var partsMore = []string{
	"0", "Z", "a_b", "a..b", "a.", "..a", "...", "a\n", "a\x80", "%2e%2e", "~", "a%2f", "a:b:c", ":", "a:", ":a", "-", "_-",
	"a" + rep(".", 79), "a" + rep(":", 349), "Library", "Registry.Ollama.AI",
}

// partsSmall is the alphabet for the wide (5-part, decorated) forms.
var partsSmall = []string{"a", "Z0", "..", "", "a.b", "a:80", rep("a", 80), rep("a", 81), "library", "-a", ".", "a\\b"}

func partAlphabet(thorough bool) []string {
	if thorough {
		return append(append([]string{}, partsCore...), partsMore...)
	}
	return partsCore
}

// a form is the list of separators between consecutive parts
var forms = map[string][]string{
	"m":          {},
	"m:t":        {":"},
	"n/m":        {"/"},
	"m@d":        {"@"},
	"n/m:t":      {"/", ":"},
	"h/n/m":      {"/", "/"},
	"m:t:x":      {":", ":"},
	"h/n/m:t":    {"/", "/", ":"},
	"h/n/m/t":    {"/", "/", "/"}, // the on-disk relative path form
	"n:t/m:t":    {":", "/", ":"},
	"h\\n\\m\\t": {"\\", "\\", "\\"},
	"x/h/n/m:t":  {"/", "/", "/", ":"},
	"h/n/m/t/x":  {"/", "/", "/", "/"},
	"h/n/m:t:x":  {"/", "/", ":", ":"},
}

var formsFull = []string{"m", "m:t", "n/m", "m@d", "n/m:t", "h/n/m", "m:t:x", "h/n/m:t", "h/n/m/t", "n:t/m:t", "h\\n\\m\\t"}
var formsWide = []string{"x/h/n/m:t", "h/n/m/t/x", "h/n/m:t:x"}

// genForm emits every string of the form with parts drawn from alpha; if
// first >= 0 the first part is fixed to alpha[first].
func genForm(seps []string, alpha []string, first int, emit func(string)) {
	k := len(seps) + 1
	var rec func(i int, cur string)
	rec = func(i int, cur string) {
		if i == k {
			emit(cur)
			return
		}
		for pi, p := range alpha {
			if i == 0 {
				if first >= 0 && pi != first {
					continue
				}
				rec(1, p)
				continue
			}
			rec(i+1, cur+seps[i-1]+p)
		}
	}
	rec(0, "")
}

const hexLower = "0123456789abcdef0123456789abcdef0123456789abcdef0123456789abcdef"
const hexUpper = "0123456789ABCDEF0123456789ABCDEF0123456789ABCDEF0123456789ABCDEF"
const hexMixed = "0123456789abcdef0123456789ABCDEF0123456789abcdef0123456789ABCDEf"

var zero64 = rep("0", 64)

var schemes = []string{"", "http://", "https://", "https+insecure://", "ftp://", "://", "HTTPS://", "x://y://", "file:///"}
var digestSuffixes = []string{"", "@", "@sha256:" + hexLower, "@sha256-" + hexUpper, "@sha256:" + hexLower[:63], "@sha256:" + zero64,
	"@../..", "@sha256:" + hexLower + "@sha256:" + hexLower, "@sha256:" + hexLower + "/..", "@SHA256:" + hexLower}

var formsDecorated = []string{"m", "m:t", "n/m", "h/n/m:t"}

// genDecorated: scheme x name x @digest, name from form over partsSmall (plus the empty name once).
func genDecorated(form string, schemeIdx int, emit func(string)) {
	sc := schemes[schemeIdx]
	if form == "" {
		for _, d := range digestSuffixes {
			emit(sc + d)
		}
		return
	}
	genForm(forms[form], partsSmall, -1, func(name string) {
		for _, d := range digestSuffixes {
			emit(sc + name + d)
		}
	})
}

// ---- family D: digests --------------------------------------------------------

var digPrefixes = []string{"sha256", "SHA256", "sha25", "", "sha2566", "sha512", "Sha256"}
var digSeps = []string{":", "-", "/", "", "_", "::", ":-", "\\"}
var digSuffixes = []string{"", "\n", "/..", "\x00", " ", "/x", "/../..", "\\..", "@"}
var digLeads = []string{"", "../", "/", " ", "x", "blobs/", "\n", "../../", "./", "..\\", "sha256:"}

func digBodies() []string {
	var l []string
	for _, n := range []int{63, 64, 65} {
		long := hexLower + "0"
		l = append(l, long[:n], (hexUpper + "0")[:n], (hexMixed + "0")[:n], rep("0", n))
		// one non-hex byte at each end
		l = append(l, "g"+long[1:n], long[:n-1]+"g", "."+long[1:n], long[:n-1]+".", "/"+long[1:n], long[:n-1]+"/")
		// traversal components inside a body of the right length
		l = append(l, "../"+long[3:n], long[:n-3]+"/..", long[:30]+"/../"+long[34:n], long[:31]+"\x00"+long[32:n], long[:31]+"\n"+long[32:n], long[:31]+"é"+long[33:n])
	}
	l = append(l, "", hexLower+hexLower, "..", "../..", rep(".", 64), rep("/", 64))
	return l
}

func genDigests(prefixIdx int, emit func(string)) {
	p := digPrefixes[prefixIdx]
	bodies := digBodies()
	for _, lead := range digLeads {
		for _, sep := range digSeps {
			for _, b := range bodies {
				for _, suf := range digSuffixes {
					emit(lead + p + sep + b + suf)
				}
			}
		}
	}
}

// genDigestSigma: a well-formed digest with every sigma string of 1..k symbols
// inserted at, or overwriting the bytes at, each structurally interesting offset.
func genDigestSigma(sepIdx int, k int, emit func(string)) {
	base := "sha256" + []string{":", "-"}[sepIdx] + hexLower
	offsets := []int{0, 3, 6, 7, 8, 39, 70, 71}
	genSigma(nil, k, func(ins string) {
		if ins == "" {
			emit(base)
			return
		}
		for _, off := range offsets {
			emit(base[:off] + ins + base[off:]) // insertion
			if off+len(ins) <= len(base) {
				emit(base[:off] + ins + base[off+len(ins):]) // overwrite, length preserved
			}
		}
	})
}

// ---- item list ------------------------------------------------------------------

type bounds struct {
	SigmaLen          int  // family S: symbols
	SigmaLayer        bool // the strings of exactly SigmaLen symbols are separate, last-scheduled work items (T)
	BlobsPathSigmaLen int  // family S strings up to this many symbols are also fed to server.GetBlobsPath
	DigestSigmaLen    int  // family D2: inserted symbols
	FSSigmaLen        int  // family F: symbols of the names put on a real directory
	Thorough          bool
}

func tierBounds(thorough bool) bounds {
	if thorough {
		return bounds{SigmaLen: 7, SigmaLayer: true, BlobsPathSigmaLen: 5, DigestSigmaLen: 3, FSSigmaLen: 4, Thorough: true}
	}
	return bounds{SigmaLen: 5, BlobsPathSigmaLen: 3, DigestSigmaLen: 2, FSSigmaLen: 4}
}

// items lists the work items of the pure (no file system state) families.
func pureItems(b bounds) []string {
	var items []string
	alpha := partAlphabet(b.Thorough)
	for _, f := range formsFull {
		if len(forms[f]) >= 3 {
			for i := range alpha {
				items = append(items, fmt.Sprintf("N %s %d", f, i))
			}
		} else {
			items = append(items, fmt.Sprintf("N %s -1", f))
		}
	}
	for _, f := range formsWide {
		for i := range partsSmall {
			items = append(items, fmt.Sprintf("W %s %d", f, i))
		}
	}
	for si := range schemes {
		items = append(items, fmt.Sprintf("X - %d", si))
		for _, f := range formsDecorated {
			items = append(items, fmt.Sprintf("X %s %d", f, si))
		}
	}
	for i := range digPrefixes {
		items = append(items, fmt.Sprintf("D %d", i))
	}
	items = append(items, "E 0", "E 1")
	// S: split on the first two symbols; "S short" covers "" and the 1-symbol
	// strings. With SigmaLayer the strings of exactly SigmaLen symbols form
	// their own items, scheduled last: T (only sigmaCore symbols), then U (the rest).
	items = append(items, "S short")
	for i := range sigma {
		for j := range sigma {
			items = append(items, fmt.Sprintf("S %d %d", i, j))
		}
	}
	if b.SigmaLayer {
		for i := range sigma {
			for j := range sigma {
				if sigmaCore[i] && sigmaCore[j] {
					items = append(items, fmt.Sprintf("T %d %d", i, j))
				}
			}
		}
		for i := range sigma {
			for j := range sigma {
				items = append(items, fmt.Sprintf("U %d %d", i, j))
			}
		}
	}
	return items
}

// runItem generates the strings of one item.
func runItem(item string, b bounds, emit func(string)) {
	f := strings.Fields(item)
	atoi := func(s string) int {
		var n int
		fmt.Sscan(s, &n)
		return n
	}
	switch f[0] {
	case "S":
		if f[1] == "short" {
			emit("")
			for _, s := range sigma {
				emit(s)
			}
			return
		}
		top := b.SigmaLen
		if b.SigmaLayer {
			top--
		}
		genSigma([]int{atoi(f[1]), atoi(f[2])}, top, emit)
	case "T":
		genSigmaSel([]int{atoi(f[1]), atoi(f[2])}, b.SigmaLen, b.SigmaLen, selCoreOnly, emit)
	case "U":
		genSigmaSel([]int{atoi(f[1]), atoi(f[2])}, b.SigmaLen, b.SigmaLen, selNonCore, emit)
	case "N":
		genForm(forms[f[1]], partAlphabet(b.Thorough), atoi(f[2]), emit)
	case "W":
		genForm(forms[f[1]], partsSmall, atoi(f[2]), emit)
	case "X":
		form := f[1]
		if form == "-" {
			form = ""
		}
		genDecorated(form, atoi(f[2]), emit)
	case "D":
		genDigests(atoi(f[1]), emit)
	case "E":
		genDigestSigma(atoi(f[1]), b.DigestSigmaLen, emit)
	default:
		panic("unknown item " + item)
	}
}
