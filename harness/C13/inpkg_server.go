package server

// C13 harness accessors (mounted by overlay as server/zz_verif_c13.go).
// They only forward to unexported identifiers; no logic lives here.

import "github.com/ollama/ollama/types/model"

// ZZC13GetExistingName is the case-insensitive canonicalisation every legacy
// handler applies to a parsed name before it touches the store.
func ZZC13GetExistingName(n model.Name) (model.Name, error) { return getExistingName(n) }

// ZZC13ManifestFile opens the manifest of n the way the handlers do
// (ParseNamedManifest) and returns the file that was actually opened.
func ZZC13ManifestFile(n model.Name) (string, error) {
	m, err := ParseNamedManifest(n)
	if err != nil {
		return "", err
	}
	return m.filepath, nil
}
