package ollama

// C13 harness accessors (mounted by overlay as server/internal/client/ollama/zz_verif_c13.go).

import (
	"github.com/ollama/ollama/server/internal/cache/blob"
	"github.com/ollama/ollama/server/internal/internal/names"
)

func (r *Registry) ZZC13ParseNameExtended(s string) (scheme string, n names.Name, d blob.Digest, err error) {
	return r.parseNameExtended(s)
}

func ZZC13SplitExtended(s string) (scheme, name, digest string) { return splitExtended(s) }
