package blob

// C13 harness accessors (mounted by overlay as server/internal/cache/blob/zz_verif_c13.go).

func ZZC13NameToPath(name string) (string, error) { return nameToPath(name) }

func (c *DiskCache) ZZC13ManifestPath(name string) (string, error) { return c.manifestPath(name) }
