package main

import "github.com/ollama/ollama/kvcache"

func main() { kvcache.ZZVerifC06() }
