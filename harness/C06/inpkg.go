package kvcache

// C06 harness: explicit-state search over cache-operation histories of the
// real kvcache.Causal on the fakeml backend, against a dictionary reference.

import (
	"crypto/sha256"
	"encoding/json"
	"errors"
	"fmt"
	"maps"
	"math"
	"os"
	"slices"
	"sort"
	"strings"
	"time"

	"github.com/ollama/ollama/ml"
	"github.com/ollama/ollama/model/input"
	"github.com/ollama/ollama/zzverif/evid"
	"github.com/ollama/ollama/zzverif/fakeml"
)

type c6Config struct {
	MaxSeq    int   `json:"max_seq"`
	Capacity  int   `json:"capacity"`
	MaxBatch  int   `json:"max_batch"`
	CachePad  int   `json:"cache_pad"`
	MaskPad   int   `json:"mask_pad"`
	Window    int32 `json:"window"` // 0: none
	PermutedV bool  `json:"permuted_v"`
	Shift     bool  `json:"shift"`
	MaxNodes  int   `json:"max_nodes"`
	// Wrapper: a WrapperCache over a sliding-window cache (layer type 0: even layers) and a plain causal cache
	// (layer type 1: odd layers), as models with local and global attention layers use it; Window applies to type 0
	Wrapper bool `json:"wrapper,omitempty"`
}

// windowOf: the sliding window that applies to a layer (0: none)
func (cfg c6Config) windowOf(layer int) int32 {
	if cfg.Wrapper && layer%2 == 1 {
		return 0
	}
	return cfg.Window
}

type c6Op struct {
	Kind  string `json:"op"` // fwd, copy, resume (CanResume then truncate, as LoadCacheSlot does), shift (remove a middle range, as ShiftCacheSlot does)
	Seqs  []int  `json:"seqs,omitempty"`
	Src   int    `json:"src,omitempty"`
	Dst   int    `json:"dst,omitempty"`
	Len   int32  `json:"len,omitempty"`
	Seq   int    `json:"seq,omitempty"`
	Begin int32  `json:"begin,omitempty"`
	End   int32  `json:"end,omitempty"` // -1: to the end (math.MaxInt32)
}

func (o c6Op) String() string {
	switch o.Kind {
	case "fwd":
		return fmt.Sprintf("Forward%v", o.Seqs)
	case "copy":
		return fmt.Sprintf("CopyPrefix(%d->%d,%d)", o.Src, o.Dst, o.Len)
	case "resume":
		return fmt.Sprintf("Resume(%d,%d)", o.Seq, o.Begin)
	default:
		return fmt.Sprintf("Remove(%d,%d,%d)", o.Seq, o.Begin, o.End)
	}
}

const (
	c6Layers  = 2
	c6HeadDim = 2
	c6Heads   = 2
)

type c6State struct {
	cfg c6Config
	c   *Causal
	// wrapper configurations: c is the windowed cache, c2 the causal one, top the WrapperCache over both;
	// otherwise c2 is nil and top is c
	c2      *Causal
	top     Cache
	b       *fakeml.Backend
	ref     map[int][]int // seq -> tags, index = position
	edited  map[int]bool  // history of seq was edited since it was last continued
	nextTag int
	defrag  bool // some StartForward in this history moved cells
	// dead: a StartForward failed with ErrKvCacheFull. Both runners treat that as fatal (processBatch's error
	// panics the runner), and a windowed cache has by then evicted entries for a batch that never arrived, so
	// the cache is not used any further
	dead bool
	hist []c6Op
	// expired[seq][tag]: at some earlier Forward the entry lay before the sliding window of its sequence's
	// newest token, so a windowed cache was free to evict it
	expired map[int]map[int]bool
}

func c6New(cfg c6Config) *c6State {
	b := &fakeml.Backend{Cache: ml.CacheConfig{CachePadding: cfg.CachePad, MaskBatchPadding: cfg.MaskPad, PermutedV: cfg.PermutedV}, MaxNodes: cfg.MaxNodes}
	var sf shiftFn
	if cfg.Shift {
		sf = func(ctx ml.Context, layer int, key, shift ml.Tensor) (ml.Tensor, error) {
			return fakeml.AddAlongLast(ctx, key, shift), nil
		}
	}
	var c *Causal
	if cfg.Window > 0 {
		c = NewSWACache(cfg.Window, sf)
	} else {
		c = NewCausalCache(sf)
	}
	st := &c6State{cfg: cfg, c: c, b: b, ref: map[int][]int{}, edited: map[int]bool{}, nextTag: 1, expired: map[int]map[int]bool{}}
	st.top = c
	if cfg.Wrapper {
		st.c2 = NewCausalCache(sf)
		st.top = NewWrapperCache(c, st.c2)
	}
	st.top.Init(b, ml.DTypeF16, cfg.MaxSeq, cfg.Capacity, cfg.MaxBatch)
	return st
}

// setLayer selects the layer (and, under the wrapper, the cache that serves it) for Put and Get
func (s *c6State) setLayer(layer int) {
	s.top.SetLayer(layer)
	if w, ok := s.top.(*WrapperCache); ok {
		w.SetLayerType(layer % 2)
	}
}

// caches: the Causal caches of the state (one, or the two under the wrapper)
func (s *c6State) caches() []*Causal {
	if s.c2 != nil {
		return []*Causal{s.c, s.c2}
	}
	return []*Causal{s.c}
}

// cacheOf: the Causal cache that serves a layer
func (s *c6State) cacheOf(layer int) *Causal {
	if s.c2 != nil && layer%2 == 1 {
		return s.c2
	}
	return s.c
}

func cloneCausal(src *Causal) *Causal {
	c := *src
	c.cells = make([]cacheCell, len(src.cells))
	for i, cell := range src.cells {
		c.cells[i] = cacheCell{pos: cell.pos, sequences: slices.Clone(cell.sequences)}
	}
	c.cellRanges = maps.Clone(src.cellRanges)
	c.keys = map[int]ml.Tensor{}
	c.values = map[int]ml.Tensor{}
	for k, v := range src.keys {
		c.keys[k] = v.(*fakeml.Tensor).Clone()
	}
	for k, v := range src.values {
		c.values[k] = v.(*fakeml.Tensor).Clone()
	}
	c.ctxs = maps.Clone(src.ctxs)
	c.curMask = nil
	c.curSequences = nil
	c.curPositions = nil
	return &c
}

func (s *c6State) clone() *c6State {
	n := *s
	n.c = cloneCausal(s.c)
	n.top = n.c
	if s.c2 != nil {
		n.c2 = cloneCausal(s.c2)
		n.top = NewWrapperCache(n.c, n.c2)
	}
	n.ref = map[int][]int{}
	for k, v := range s.ref {
		n.ref[k] = slices.Clone(v)
	}
	n.edited = maps.Clone(s.edited)
	n.hist = slices.Clone(s.hist)
	n.expired = map[int]map[int]bool{}
	for k, v := range s.expired {
		n.expired[k] = maps.Clone(v)
	}
	return &n
}

type c6Fail struct {
	clause string
	msg    string
	// expiredOnly: every missing entry had lain before the window earlier (only set for missing-entry on windowed caches)
	expiredOnly bool
}

func kval(tag, layer, h, d int, pos int32) float32 {
	return float32(tag*8192 + (layer*4+h*2+d)*1024 + int(pos))
}
func vval(tag, layer, h, d int) float32 { return float32(tag*8 + layer*4 + h*2 + d) }

// locations of live tags, to notice that a StartForward moved cells (defrag ran)
func (s *c6State) layout() string {
	var b strings.Builder
	for i, c := range s.c.cells {
		if len(c.sequences) > 0 {
			fmt.Fprintf(&b, "%d:%d,", i, c.pos)
		}
	}
	return b.String()
}

// where maps every live cell's identity (position and owning sequences) to its index.
func (s *c6State) where() map[string]int {
	m := map[string]int{}
	for ci, cc := range s.caches() {
		for i, c := range cc.cells {
			if len(c.sequences) > 0 {
				m[fmt.Sprint(ci, c.pos, c.sequences)] = i
			}
		}
	}
	return m
}

// moved: some cell that is live before and after sits at a different index (defragmentation ran;
// cells that merely disappeared were evicted by the sliding window)
func moved(before, after map[string]int) bool {
	for k, i := range before {
		if j, ok := after[k]; ok && i != j {
			return true
		}
	}
	return false
}

func (s *c6State) liveCells() int {
	n := 0
	for _, c := range s.c.cells {
		if len(c.sequences) > 0 {
			n++
		}
	}
	return n
}

// refLive: number of distinct stored entries the reference still needs (no window)
func (s *c6State) refLive() int {
	set := map[int]bool{}
	for _, l := range s.ref {
		for _, t := range l {
			set[t] = true
		}
	}
	return len(set)
}

// apply performs op on the real cache and the reference and checks the oracle.
func (s *c6State) apply(op c6Op) (fail *c6Fail) {
	defer func() {
		if r := recover(); r != nil {
			fail = &c6Fail{clause: "panic", msg: fmt.Sprint(r)}
		}
	}()
	s.hist = append(s.hist, op)
	c := s.top
	clear := func(seq int) *c6Fail {
		if err := c.Remove(seq, 0, math.MaxInt32); err != nil {
			return &c6Fail{clause: "clear-error", msg: fmt.Sprintf("Remove(%d,0,MaxInt32) failed: %v", seq, err)}
		}
		delete(s.ref, seq)
		delete(s.edited, seq)
		delete(s.expired, seq)
		return nil
	}
	switch op.Kind {
	case "copy":
		c.CopyPrefix(op.Src, op.Dst, op.Len)
		s.ref[op.Dst] = slices.Clone(s.ref[op.Src][:op.Len])
		s.expired[op.Dst] = maps.Clone(s.expired[op.Src]) // the copy shares the source's cells: what was evicted there is gone here too
		if len(s.ref[op.Dst]) == 0 {
			delete(s.ref, op.Dst)
		}
		s.edited[op.Dst] = true
		return nil
	case "resume":
		// what the runner does when it reuses a slot for a prompt sharing a prefix of length Begin:
		// ask first, then cut the rest off; if the cache cannot resume there, start over
		p := op.Begin
		if !c.CanResume(op.Seq, p) {
			return clear(op.Seq)
		}
		if int(p) < len(s.ref[op.Seq]) {
			if err := c.Remove(op.Seq, p, math.MaxInt32); err != nil {
				return clear(op.Seq)
			}
			s.ref[op.Seq] = slices.Clone(s.ref[op.Seq][:p])
			if p == 0 {
				delete(s.ref, op.Seq)
			}
		}
		delete(s.edited, op.Seq)
		return nil
	case "shift":
		err := c.Remove(op.Seq, op.Begin, op.End)
		if err != nil {
			// contract: on error the whole sequence has to be dropped by the caller
			return clear(op.Seq)
		}
		l := s.ref[op.Seq]
		s.ref[op.Seq] = append(slices.Clone(l[:op.Begin]), l[op.End:]...)
		return nil
	}
	var batch input.Batch
	var tags []int
	next := map[int]int{}
	for _, seq := range op.Seqs {
		p := len(s.ref[seq]) + next[seq]
		next[seq]++
		batch.Positions = append(batch.Positions, int32(p))
		batch.Sequences = append(batch.Sequences, seq)
		tags = append(tags, s.nextTag)
		s.nextTag++
	}
	before := s.where()
	refLive := s.refLive()
	ctx := s.b.NewContext()
	err := c.StartForward(ctx, batch, false)
	if err != nil {
		if !errors.Is(err, ErrKvCacheFull) {
			return &c6Fail{clause: "forward-error", msg: err.Error()}
		}
		if s.cfg.Window == 0 && refLive+len(tags) <= len(s.c.cells) {
			return &c6Fail{clause: "spurious-full", msg: fmt.Sprintf("cache reported full with %d live entries + %d new <= %d cells", refLive, len(tags), len(s.c.cells))}
		}
		if moved(before, s.where()) {
			s.defrag = true
		}
		// nothing was stored; the sequences stay as they were
		s.dead = true
		return s.checkAll("after-full")
	}
	// did existing live cells move? (defrag ran)
	if moved(before, s.where()) {
		s.defrag = true
	}
	n := len(tags)
	for layer := 0; layer < c6Layers; layer++ {
		s.setLayer(layer)
		kd := make([]float32, c6HeadDim*c6Heads*n)
		vd := make([]float32, c6HeadDim*c6Heads*n)
		for i := 0; i < n; i++ {
			for h := 0; h < c6Heads; h++ {
				for d := 0; d < c6HeadDim; d++ {
					kd[d+c6HeadDim*(h+c6Heads*i)] = kval(tags[i], layer, h, d, batch.Positions[i])
					vd[d+c6HeadDim*(h+c6Heads*i)] = vval(tags[i], layer, h, d)
				}
			}
		}
		k, _ := ctx.FromFloatSlice(kd, c6HeadDim, c6Heads, n)
		v, _ := ctx.FromFloatSlice(vd, c6HeadDim, c6Heads, n)
		c.Put(ctx, k, v)
	}
	// reference
	for i, seq := range op.Seqs {
		s.ref[seq] = append(s.ref[seq], tags[i])
	}
	if s.cfg.Window > 0 {
		for seq, l := range s.ref {
			for p, tag := range l {
				if int32(p) < int32(len(l)-1)-s.cfg.Window {
					if s.expired[seq] == nil {
						s.expired[seq] = map[int]bool{}
					}
					s.expired[seq][tag] = true
				}
			}
		}
	}
	// what does the cache expose for every token of this batch, on every layer?
	for layer := 0; layer < c6Layers; layer++ {
		s.setLayer(layer)
		k, v, mask := c.Get(ctx)
		ctx.Forward(k, v, mask).Compute(k, v, mask)
		if f := s.checkVisible(layer, batch, k.(*fakeml.Tensor), v.(*fakeml.Tensor), mask.(*fakeml.Tensor), nil); f != nil {
			return f
		}
	}
	// SetCausal (what gemma3 does for the tokens of an image): the listed batch indices may look ahead, every other
	// token of the batch must still be shown exactly its causal history
	ctx.Close()
	for _, ex := range c6Excepts(n) {
		// (a context of its own: the node budget of the forward pass's context belongs to the pass)
		ctx2 := s.b.NewContext()
		for layer := 0; layer < c6Layers; layer++ {
			s.setLayer(layer)
			s.cacheOf(layer).SetCausal(ctx2, CausalOptions{Except: ex})
			k, v, mask := c.Get(ctx2)
			ctx2.Forward(k, v, mask).Compute(k, v, mask)
			if f := s.checkVisible(layer, batch, k.(*fakeml.Tensor), v.(*fakeml.Tensor), mask.(*fakeml.Tensor), ex); f != nil {
				f.clause += "/set-causal"
				f.msg += fmt.Sprintf(" (SetCausal Except=%v)", ex)
				return f
			}
		}
		ctx2.Close()
	}
	if n >= 2 {
		for layer := 0; layer < c6Layers; layer++ {
			s.cacheOf(layer).SetCausal(nil, CausalOptions{})
		}
	}
	// everything stored (not only what this batch looks at) must still sit under the right metadata
	return s.checkAll("after-forward")
}

// checkAll probes every live sequence with a read-only look at the cache metadata and data:
// every reference entry must be found in a cell of its sequence with the right position and data.
func (s *c6State) checkAll(when string) *c6Fail {
	for ci, c := range s.caches() {
		if c.windowSize != math.MaxInt32 {
			continue // windowed caches may legitimately have dropped old entries
		}
		for seq, l := range s.ref {
			for p, tag := range l {
				found := 0
				for i, cell := range c.cells {
					if slices.Contains(cell.sequences, seq) && cell.pos == int32(p) {
						found++
						for layer := 0; layer < c6Layers; layer++ {
							if s.cacheOf(layer) != c {
								continue
							}
							if kt, ok := c.keys[layer]; ok {
								got := kt.(*fakeml.Tensor).At(0, 0, i)
								if got != kval(tag, layer, 0, 0, int32(p)) {
									return &c6Fail{clause: "wrong-data-" + when, msg: fmt.Sprintf("cache %d cell %d (seq %d pos %d) holds key %v, expected tag %d", ci, i, seq, p, got, tag)}
								}
							}
						}
					}
				}
				if found != 1 {
					return &c6Fail{clause: "missing-" + when, msg: fmt.Sprintf("cache %d: seq %d pos %d is stored in %d cells", ci, seq, p, found)}
				}
			}
		}
	}
	return nil
}

// c6Excepts: the SetCausal exemption lists tried on a batch of n tokens: the first token, the last one, and every
// pair of indices that are not neighbours (a list that is no contiguous range)
func c6Excepts(n int) [][]int {
	if n < 2 {
		return nil
	}
	out := [][]int{{0}, {n - 1}}
	for i := 0; i < n; i++ {
		for j := i + 2; j < n; j++ {
			out = append(out, []int{i, j})
		}
	}
	return out
}

// checkVisible; except: batch indices exempted from the causal rule by SetCausal (they may also be shown later
// positions of their own sequence, which is not judged; everything else is)
func (s *c6State) checkVisible(layer int, batch input.Batch, k, v, mask *fakeml.Tensor, except []int) *c6Fail {
	hist := mask.Dim(0)
	rows := mask.Dim(1)
	n := len(batch.Positions)
	if k.Dim(2) != hist {
		return &c6Fail{clause: "shape", msg: fmt.Sprintf("key history %d != mask history %d", k.Dim(2), hist)}
	}
	for i := 0; i < rows; i++ {
		type ent struct {
			tag int
			pos int32
		}
		var vis []ent
		for j := 0; j < hist; j++ {
			m := mask.At(j, i)
			if m != 0 && !math.IsInf(float64(m), -1) {
				return &c6Fail{clause: "mask-value", msg: fmt.Sprintf("mask[%d,%d]=%v", j, i, m)}
			}
			if i >= n {
				if m == 0 {
					return &c6Fail{clause: "padding-unmasked", msg: fmt.Sprintf("padding row %d of the batch attends to history column %d", i, j)}
				}
				continue
			}
			if m != 0 {
				continue
			}
			// visible: decode and cross-check every element
			var tag0 int
			var pos0 int32
			for h := 0; h < c6Heads; h++ {
				for d := 0; d < c6HeadDim; d++ {
					kv := int(k.At(d, h, j))
					var vv int
					if s.cfg.PermutedV {
						vv = int(v.At(j, d, h))
					} else {
						vv = int(v.At(d, h, j))
					}
					ktag, ksub, kpos := kv/8192, (kv%8192)/1024, int32(kv%1024)
					vtag, vsub := vv/8, vv%8
					sub := layer*4 + h*2 + d
					if ksub != sub || vsub != sub || ktag != vtag {
						return &c6Fail{clause: "wrong-data", msg: fmt.Sprintf("layer %d batch token %d history column %d element (%d,%d): key=(tag %d,sub %d,pos %d) value=(tag %d,sub %d), expected sub %d and equal tags", layer, i, j, d, h, ktag, ksub, kpos, vtag, vsub, sub)}
					}
					if h == 0 && d == 0 {
						tag0, pos0 = ktag, kpos
					} else if ktag != tag0 || kpos != pos0 {
						return &c6Fail{clause: "wrong-data", msg: fmt.Sprintf("layer %d history column %d mixes entries (tags %d/%d pos %d/%d)", layer, j, tag0, ktag, pos0, kpos)}
					}
				}
			}
			vis = append(vis, ent{tag0, pos0})
		}
		if i >= n {
			continue
		}
		seq, pos := batch.Sequences[i], batch.Positions[i]
		var want []ent
		for p, tag := range s.ref[seq] {
			if int32(p) <= pos && (s.cfg.windowOf(layer) == 0 || int32(p) >= pos-s.cfg.windowOf(layer)) {
				want = append(want, ent{tag, int32(p)})
			}
		}
		less := func(a, b ent) int {
			if a.pos != b.pos {
				return int(a.pos - b.pos)
			}
			return a.tag - b.tag
		}
		if slices.Contains(except, i) {
			later := map[ent]bool{}
			for p, tag := range s.ref[seq] {
				if int32(p) > pos {
					later[ent{tag, int32(p)}] = true
				}
			}
			vis = slices.DeleteFunc(vis, func(e ent) bool { return later[e] })
		}
		slices.SortFunc(vis, less)
		slices.SortFunc(want, less)
		if !slices.Equal(vis, want) {
			clause := "wrong-history"
			// classify: missing / extra / wrong position
			wantSet := map[ent]bool{}
			for _, e := range want {
				wantSet[e] = true
			}
			visSet := map[ent]bool{}
			wantTags := map[int]bool{}
			for _, e := range want {
				wantTags[e.tag] = true
			}
			missing, extra, wrongpos := 0, 0, 0
			for _, e := range vis {
				if visSet[e] {
					extra++
				}
				visSet[e] = true
				if !wantSet[e] {
					if wantTags[e.tag] {
						wrongpos++
					} else {
						extra++
					}
				}
			}
			expiredOnly := s.cfg.windowOf(layer) > 0
			for _, e := range want {
				if !visSet[e] {
					missing++
					if !s.expired[seq][e.tag] {
						expiredOnly = false
					}
				}
			}
			switch {
			case wrongpos > 0:
				clause = "wrong-position"
			case missing > 0 && extra > 0:
				clause = "missing+extra"
			case missing > 0:
				clause = "missing-entry"
			case extra > 0:
				clause = "extra-entry"
			}
			return &c6Fail{clause: clause, msg: fmt.Sprintf("layer %d, batch token %d (seq %d pos %d): cache exposes (tag,pos) %v, the history is %v", layer, i, seq, pos, vis, want),
				expiredOnly: clause == "missing-entry" && expiredOnly}
		}
	}
	return nil
}

// ops enabled in state s (simplest first)
func (s *c6State) ops() []c6Op {
	var out []c6Op
	cfg := s.cfg
	if s.dead {
		return nil
	}
	// forward batches: every sequence composition up to MaxBatch tokens
	var rec func(cur []int)
	rec = func(cur []int) {
		if len(cur) > 0 {
			out = append(out, c6Op{Kind: "fwd", Seqs: slices.Clone(cur)})
		}
		if len(cur) == cfg.MaxBatch {
			return
		}
		for q := 0; q < cfg.MaxSeq; q++ {
			// per-sequence capacity: the runner never lets a sequence outgrow the context
			cnt := 0
			for _, x := range cur {
				if x == q {
					cnt++
				}
			}
			if len(s.ref[q])+cnt+1 > cfg.Capacity || s.edited[q] {
				continue // (a copied-into sequence is first resumed at some prefix length, as the runner does)
			}
			rec(append(cur, q))
		}
	}
	rec(nil)
	for src := 0; src < cfg.MaxSeq; src++ {
		for dst := 0; dst < cfg.MaxSeq; dst++ {
			if src == dst || len(s.ref[src]) == 0 {
				continue
			}
			for n := int32(1); int(n) <= len(s.ref[src]); n++ {
				out = append(out, c6Op{Kind: "copy", Src: src, Dst: dst, Len: n})
			}
		}
	}
	for q := 0; q < cfg.MaxSeq; q++ {
		L := int32(len(s.ref[q]))
		if L == 0 {
			continue
		}
		for p := int32(0); p <= L; p++ {
			if p == L && !s.edited[q] {
				continue // nothing to do
			}
			out = append(out, c6Op{Kind: "resume", Seq: q, Begin: p})
		}
		if s.edited[q] {
			continue
		}
		for b := int32(0); b < L; b++ {
			for e := b + 1; e < L; e++ {
				out = append(out, c6Op{Kind: "shift", Seq: q, Begin: b, End: e})
			}
		}
	}
	return out
}

// fingerprint: the entire state of the real object in canonical form (tags renamed in reference order)
func (s *c6State) fingerprint() string {
	ren := map[int]int{}
	name := func(t int) int {
		if t == 0 {
			return 0
		}
		if _, ok := ren[t]; !ok {
			ren[t] = len(ren) + 1
		}
		return ren[t]
	}
	var b strings.Builder
	seqs := make([]int, 0, len(s.ref))
	for q := range s.ref {
		seqs = append(seqs, q)
	}
	sort.Ints(seqs)
	for _, q := range seqs {
		fmt.Fprintf(&b, "r%d:", q)
		for _, t := range s.ref[q] {
			fmt.Fprintf(&b, "%d,", name(t))
		}
		if s.edited[q] {
			b.WriteByte('e')
		}
	}
	for q := 0; q < s.cfg.MaxSeq; q++ {
		if s.edited[q] && len(s.ref[q]) == 0 {
			fmt.Fprintf(&b, "E%d", q)
		}
	}
	for _, cc := range s.caches() {
		b.WriteByte('|')
		for _, cell := range cc.cells {
			if len(cell.sequences) == 0 {
				b.WriteString("-;")
				continue
			}
			sq := slices.Clone(cell.sequences)
			sort.Ints(sq)
			fmt.Fprintf(&b, "%d%v;", cell.pos, sq)
		}
		b.WriteByte('|')
		rq := make([]int, 0, len(cc.cellRanges))
		for q := range cc.cellRanges {
			rq = append(rq, q)
		}
		sort.Ints(rq)
		for _, q := range rq {
			r := cc.cellRanges[q]
			fmt.Fprintf(&b, "%d:%d-%d;", q, r.min, r.max)
		}
		b.WriteByte('|')
		// data of every location (live or not) of layer 0; the other elements are functions of it unless a
		// violation has already been reported
		for layer := 0; layer < c6Layers; layer++ {
			if kt, ok := cc.keys[layer]; ok {
				raw := kt.(*fakeml.Tensor).Raw()
				for i := 0; i < len(raw); i += c6HeadDim * c6Heads {
					kv := int(raw[i])
					fmt.Fprintf(&b, "%d.%d,", name(kv/8192), kv%1024)
				}
			}
			b.WriteByte('/')
			if vt, ok := cc.values[layer]; ok {
				raw := vt.(*fakeml.Tensor).Raw()
				if s.cfg.PermutedV {
					for i := 0; i < len(cc.cells); i++ {
						fmt.Fprintf(&b, "%d,", name(int(raw[i])/8))
					}
				} else {
					for i := 0; i < len(raw); i += c6HeadDim * c6Heads {
						fmt.Fprintf(&b, "%d,", name(int(raw[i])/8))
					}
				}
			}
		}
	}
	if s.dead {
		b.WriteString("|dead")
	}
	return b.String()
}

type c6Replay struct {
	Cfg c6Config `json:"config"`
	Ops []c6Op   `json:"ops"`
}

func c6RunHistory(cfg c6Config, ops []c6Op, verbose bool) *c6Fail {
	s := c6New(cfg)
	for _, op := range ops {
		f := s.apply(op)
		if verbose {
			fmt.Printf("%-26s cells:", op)
			for _, cell := range s.c.cells {
				if len(cell.sequences) == 0 {
					fmt.Print(" .")
				} else {
					fmt.Printf(" p%d%v", cell.pos, cell.sequences)
				}
			}
			fmt.Printf("   ref: %v\n", s.ref)
		}
		if f != nil {
			return f
		}
	}
	return nil
}

func c6Configs(thorough bool) []c6Config {
	var l []c6Config
	maxSeqs := []int{1, 2}
	caps := []int{3, 4}
	batches := []int{1, 2, 3}
	// (cache padding, mask batch padding, graph node limit)
	variants := [][3]int{{1, 1, 64}, {2, 2, 16}, {4, 1, 16}, {1, 2, 64}}
	windows := []int32{0, 1, 2}
	if thorough {
		maxSeqs = []int{1, 2, 3}
		caps = []int{3, 4, 6}
		windows = []int32{0, 1, 2, 3}
	}
	for _, ms := range maxSeqs {
		for _, cp := range caps {
			for _, mb := range batches {
				if mb > cp {
					continue
				}
				for _, w := range windows {
					for _, pv := range []bool{false, true} {
						for _, sh := range []bool{true, false} {
							for vi, v := range variants {
								if ms != 2 && vi > 1 {
									continue
								}
								l = append(l, c6Config{MaxSeq: ms, Capacity: cp, MaxBatch: mb, CachePad: v[0], MaskPad: v[1], Window: w, PermutedV: pv, Shift: sh, MaxNodes: v[2]})
								if w > 0 && vi == 0 {
									// the same windowed cache next to a causal one under a WrapperCache
									l = append(l, c6Config{MaxSeq: ms, Capacity: cp, MaxBatch: mb, CachePad: v[0], MaskPad: v[1], Window: w, PermutedV: pv, Shift: sh, MaxNodes: v[2], Wrapper: true})
								}
							}
						}
					}
				}
			}
		}
	}
	return l
}

func ZZVerifC06() {
	r := evid.Start("C06", "model_checking")
	if p := evid.ReplayPath(); p != "" {
		var rp c6Replay
		if err := evid.LoadReplay(p, &rp); err != nil {
			fmt.Println("replay:", err)
			os.Exit(2)
		}
		js, _ := json.Marshal(rp.Cfg)
		fmt.Printf("config %s\n", js)
		if f := c6RunHistory(rp.Cfg, rp.Ops, true); f != nil {
			fmt.Printf("FAILS: %s: %s\n", f.clause, f.msg)
			os.Exit(1)
		}
		fmt.Println("holds")
		os.Exit(0)
	}
	thorough := evid.Thorough()
	depth := 4
	if thorough {
		depth = 5
	}
	maxStates := 60000
	if thorough {
		maxStates = 400000
		r.SetDeadline(30 * time.Minute)
	}
	cfgs := c6Configs(thorough)
	items := make([]string, len(cfgs))
	for i := range cfgs {
		items[i] = fmt.Sprint(i)
	}
	r.Rule(fmt.Sprintf("breadth-first search over all histories of Forward (every composition of <= maxBatch tokens over the sequences, each continuing its sequence), CopyPrefix (every src,dst,len), Resume (CanResume+truncate at every prefix length) and Remove of every middle range up to depth %d on the real kvcache.Causal - plain, sliding-window, and a WrapperCache over a sliding-window cache (even layers) and a causal cache (odd layers) - (fakeml lazy backend, 2 layers, 2x2 head layout), for every configuration of the grid; states deduplicated on a canonical fingerprint of the whole cache (cells, ranges, all stored data); plus, for caches of N cells filled by N single-token sequences, every subset of removed sequences followed by every batch size (all hole patterns a defragmentation can meet); non-trivial = distinct states in which some cell is shared by two sequences, a position was shifted, or cells were moved by defragmentation", depth))
	r.Assume("the driver uses the cache the way the Cache interface documents and the runners do: positions continue the sequence; a sequence is cut back to a prefix only after CanResume(seq, prefixLen) said yes (else it is cleared), and that is also the first thing done with the target of a CopyPrefix; a middle range is removed without asking (context shift); after a Remove error the sequence is cleared",
		"window semantics are those of the mask definition: entries with pos >= p - window are in the window",
		"a sequence never outgrows the per-sequence capacity (the runner shifts before that)",
		"a history ends at a StartForward that reports ErrKvCacheFull: the runners treat it as fatal, the cache is not used afterwards")
	r.Parallel(0, items, func(item string, sub *evid.Run) {
		var ci int
		fmt.Sscan(item, &ci)
		cfg := cfgs[ci]
		// the frontier holds histories, not live caches (a level of 10^6 cloned caches does not fit in memory):
		// a state is rebuilt by replaying its history once and cloned for each successor
		key := func(fp string) [16]byte {
			h := sha256.Sum256([]byte(fp))
			return [16]byte(h[:16])
		}
		seen := map[[16]byte]bool{}
		root := c6New(cfg)
		seen[key(root.fingerprint())] = true
		frontier := [][]c6Op{nil}
		states, nontriv := 1, 0
		for d := 0; d < depth && len(frontier) > 0; d++ {
			var next [][]c6Op
			for _, hist := range frontier {
				st := c6New(cfg)
				for _, op := range hist {
					if f := st.apply(op); f != nil {
						sub.Extra("machinery_errors", []string{fmt.Sprintf("C06: replay of an accepted history fails: %v %v: %s", cfg, hist, f.clause)})
					}
				}
				for _, op := range st.ops() {
					n := st.clone()
					f := n.apply(op)
					sub.Add("transitions", 1)
					sub.Eval()
					if f != nil {
						// deterministic code: confirm by replaying the history from scratch 5 times
						okc := true
						for i := 0; i < 5; i++ {
							f2 := c6RunHistory(cfg, n.hist, false)
							if f2 == nil || f2.clause != f.clause {
								okc = false
							}
						}
						if !okc {
							sub.Extra("machinery_errors", []string{fmt.Sprintf("C06: clone-based successor disagrees with replay from scratch: %v %v", cfg, n.hist)})
							continue
						}
						sig := "C06/" + f.clause
						if cfg.Window > 0 {
							sig += "/swa"
						} else {
							sig += "/causal"
						}
						if cfg.Window > 0 && f.clause == "missing-entry" && !f.expiredOnly {
							// an entry that never left the window of its sequence is gone: not the recorded
							// window-reaches-back-after-a-shift finding
							sig += "/live-entry"
						}
						if n.defrag && !f.expiredOnly {
							sig += "/after-defrag"
						}
						if cfg.Wrapper && !f.expiredOnly {
							sig += "/wrapper"
						}
						// which kinds of history edits were involved
						kinds := map[string]bool{}
						for _, o := range n.hist {
							if o.Kind != "fwd" {
								kinds[o.Kind] = true
							}
						}
						for _, k := range []string{"copy", "resume", "shift"} {
							if kinds[k] {
								sig += "+" + k
							}
						}
						js, _ := json.Marshal(cfg)
						sub.Violation(sig, fmt.Sprintf("%s\nconfig %s\nhistory %v", f.msg, js, n.hist), c6Replay{Cfg: cfg, Ops: n.hist})
						continue // do not explore beyond a violating state
					}
					fp := n.fingerprint()
					if seen[key(fp)] {
						continue
					}
					seen[key(fp)] = true
					states++
					nontrivial := n.defrag
					for _, cell := range n.c.cells {
						if len(cell.sequences) > 1 {
							nontrivial = true
						}
					}
					for _, o := range n.hist {
						if o.Kind == "shift" {
							nontrivial = true
						}
					}
					if nontrivial {
						nontriv++
					}
					if sub.WantSample() {
						sub.Sample(map[string]any{"config": cfg, "history": fmt.Sprint(n.hist)})
					} else {
						sub.Sample(nil)
					}
					next = append(next, n.hist)
				}
				if states > maxStates || r.Expired() {
					break
				}
			}
			if states > maxStates {
				sub.NotExhaustive(fmt.Sprintf("config %d: state cap %d reached at depth %d (all shallower depths complete)", ci, maxStates, d+1))
				break
			}
			if r.Expired() {
				sub.NotExhaustive(fmt.Sprintf("config %d: time budget reached at depth %d (all shallower depths complete)", ci, d+1))
				break
			}
			frontier = next
		}
		// states of different configurations are different states: counted per configuration
		sub.AddDistinct("state", states)
		sub.AddDistinct("nontrivial", nontriv)
		sub.Add("traces_validated_against_impl", int64(states))
		if os.Getenv("VERIF_VERBOSE") != "" {
			fmt.Fprintf(os.Stderr, "config %d %+v: %d states\n", ci, cfg, states)
		}
	})
	// defragmentation patterns: N single-token sequences fill N cells, every subset of them is removed,
	// then a batch of b new tokens needs b contiguous cells (defrag whenever the holes are scattered)
	ns := []int{6, 8}
	if thorough {
		ns = []int{6, 8, 10, 12}
	}
	var ditems []string
	for _, n := range ns {
		for _, v := range [][3]int{{1, 1, 16}, {1, 1, 64}, {2, 2, 16}} {
			for _, pv := range []int{0, 1} {
				ditems = append(ditems, fmt.Sprintf("%d %d %d %d %d", n, v[0], v[1], v[2], pv))
			}
		}
	}
	r.Parallel(0, ditems, func(item string, sub *evid.Run) {
		var n, pad, mpad, nodes, pv int
		fmt.Sscan(item, &n, &pad, &mpad, &nodes, &pv)
		cfg := c6Config{MaxSeq: n, Capacity: 1, MaxBatch: n, CachePad: pad, MaskPad: mpad, PermutedV: pv == 1, Shift: true, MaxNodes: nodes}
		all := make([]int, n)
		for i := range all {
			all[i] = i
		}
		for mask := 1; mask < 1<<n; mask++ {
			var dead []int
			for q := 0; q < n; q++ {
				if mask&(1<<q) != 0 {
					dead = append(dead, q)
				}
			}
			for b := 1; b <= len(dead); b++ {
				hist := []c6Op{{Kind: "fwd", Seqs: all}}
				for _, q := range dead {
					hist = append(hist, c6Op{Kind: "resume", Seq: q, Begin: 0})
				}
				hist = append(hist, c6Op{Kind: "fwd", Seqs: dead[:b]})
				sub.Eval()
				sub.Add("transitions", int64(len(hist)))
				st := c6New(cfg)
				var f *c6Fail
				for _, op := range hist {
					if f = st.apply(op); f != nil {
						break
					}
				}
				if st.defrag {
					sub.DistinctH("nontrivial", evid.Hash(item+fmt.Sprint(mask, b)))
					sub.DistinctH("state", evid.Hash("defrag"+item+st.fingerprint()))
				}
				if f != nil {
					if f2 := c6RunHistory(cfg, hist, false); f2 == nil || f2.clause != f.clause {
						sub.Extra("machinery_errors", []string{"C06 defrag pattern not reproducible"})
						continue
					}
					js, _ := json.Marshal(cfg)
					sub.Violation("C06/"+f.clause+"/causal/defrag-pattern", fmt.Sprintf("%s\nconfig %s\nhistory %v", f.msg, js, hist), c6Replay{Cfg: cfg, Ops: hist})
				}
			}
		}
	})
	r.Extra("bounds", map[string]any{"depth": depth, "configs": len(cfgs), "state_cap_per_config": maxStates, "defrag_pattern_cells": ns})
	r.Finish()
}
