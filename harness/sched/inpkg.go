package server

// Scheduler harness for C01, C02 and C11: the real Scheduler (InitScheduler,
// Run, GetRunner, expireRunner) runs under mcrt; the harness plays the API
// handlers (clients), the runner processes (mock LlamaServer) and the GPU
// inventory, and monitors every execution online.
//
// NOTE: this file is compiled into package server by overlay together with
// the *instrumented* copies of the package's files; it uses the real
// standard library for its own bookkeeping and mcrt explicitly for points.

import (
	"bytes"
	gocontext "context"
	"encoding/json"
	"errors"
	"fmt"
	"math"
	"os"
	"path/filepath"
	"sort"
	"strings"
	gotime "time"

	"github.com/ollama/ollama/api"
	"github.com/ollama/ollama/discover"
	"github.com/ollama/ollama/envconfig"
	"github.com/ollama/ollama/fs/ggml"
	"github.com/ollama/ollama/llm"
	"github.com/ollama/ollama/zzverif/evid"
	"github.com/ollama/ollama/zzverif/mcrt"
)

type zsGPU struct {
	Library string `json:"lib"`
	ID      string `json:"id"`
	Total   uint64 `json:"total"` // 0: huge
}

type zsReq struct {
	Model     string `json:"model"`
	NumCtx    int    `json:"num_ctx,omitempty"`
	NumGPU    *int   `json:"num_gpu,omitempty"`
	KeepAlive string `json:"keep_alive,omitempty"` // "": nil (server default), "0", "10ms", "5m", "-1"
	Hold      int    `json:"hold"`                 // scheduling points while the request uses the runner
	Impatient bool   `json:"impatient,omitempty"`  // a second thread may cancel the request at any time
	MMap      string `json:"use_mmap,omitempty"`   // "true"/"false": explicit use_mmap, a freshly allocated *bool per request as Options.FromMap makes it
}

type zsScenario struct {
	Name     string            `json:"name"`
	Env      map[string]string `json:"env,omitempty"`
	GPUs     []zsGPU           `json:"gpus"`
	VRAM     map[string]uint64 `json:"vram,omitempty"` // per model: what the runner reports as used VRAM (0: small)
	Reqs     []zsReq           `json:"reqs"`
	Unload   []string          `json:"unload,omitempty"`    // explicit unload calls (keep_alive=0 requests for a loaded model)
	Faults   []string          `json:"faults,omitempty"`    // subset of load, ping, newserver
	Seq      bool              `json:"seq,omitempty"`       // submit request i+1 only when everything triggered by request i has settled
	SeqAdv   string            `json:"seq_adv,omitempty"`   // with Seq: let this much virtual time pass between requests
	FitTight bool              `json:"fit_tight,omitempty"` // GPU total = what one model needs + vram of one runner - 1 (second model only fits after eviction)
	Props    []string          `json:"props,omitempty"`     // which properties this scenario is aimed at (all monitors run anyway)
}

type zsSrv struct {
	id          int
	model       string // model path
	name        string
	closed      int
	holders     map[int]bool
	opts        api.Options
	numParallel int
	gpus        discover.GpuInfoList
	vram        uint64
	loading     bool
	x           *zsExec
	keepAlive   gotime.Duration
}

type zsClient struct {
	i            int
	req          zsReq
	ctx          gocontext.Context
	cancel       gocontext.CancelFunc
	cancelled    bool
	replies      int
	srv          *zsSrv
	err          error
	succCh       chan *runnerRef
	errCh        chan error
	finished     bool
	queueFull    bool
	submitAt     int
	submitTime   gotime.Duration
	liveAtSubmit []*zsSrv
}

type zsExec struct {
	sc           *zsScenario
	sched        *Scheduler
	servers      []*zsSrv
	clients      []*zsClient
	created      int
	closedN      int
	fitNeed      uint64
	expectVictim *zsSrv
	expectArmed  bool
	expectAt     gotime.Duration
}

var (
	zsDir    string
	zsModels = map[string]*Model{}
	zsGGML   = map[string]*ggml.GGML{}
	zsCur    *zsExec
)

func zsSetup() {
	zsDir = fmt.Sprintf("/dev/shm/verif-sched-%d", os.Getpid())
	os.MkdirAll(zsDir, 0o755)
	for _, name := range []string{"A", "B", "C"} {
		p := filepath.Join(zsDir, "model-"+name)
		f, err := os.Create(p)
		if err != nil {
			panic(err)
		}
		err = ggml.WriteGGUF(f, ggml.KV{
			"general.architecture":          "llama",
			"llama.context_length":          uint32(32),
			"llama.embedding_length":        uint32(4096),
			"llama.block_count":             uint32(1),
			"llama.attention.head_count":    uint32(32),
			"llama.attention.head_count_kv": uint32(32),
			"tokenizer.ggml.tokens":         []string{" "},
			"tokenizer.ggml.scores":         []float32{0},
			"tokenizer.ggml.token_type":     []int32{0},
		}, []ggml.Tensor{
			{Name: "blk.0.attn.weight", Kind: uint32(0), Offset: uint64(0), Shape: []uint64{1, 1, 1, 1}, WriterTo: bytes.NewReader(make([]byte, 32))},
			{Name: "output.weight", Kind: uint32(0), Offset: uint64(0), Shape: []uint64{1, 1, 1, 1}, WriterTo: bytes.NewReader(make([]byte, 32))},
		})
		f.Close()
		if err != nil {
			panic(err)
		}
		zsModels[name] = &Model{Name: name, ShortName: name, ModelPath: p}
		g, err := llm.LoadModel(p, 0)
		if err != nil {
			panic(err)
		}
		zsGGML[name] = g
	}
}

// zsFitNeed finds, by bisection on the real estimator, the smallest free
// memory with which model A (num_ctx, parallel as the scenario uses them) is
// predicted to fit completely on one GPU of the given library.
func zsFitNeed(lib string, opts api.Options, numParallel int) uint64 {
	fits := func(free uint64) bool {
		g := discover.GpuInfo{Library: lib, ID: "0"}
		g.TotalMemory = free
		g.FreeMemory = free
		ok, _ := llm.PredictServerFit(discover.GpuInfoList{g}, zsGGML["A"], nil, nil, opts, numParallel)
		return ok
	}
	lo, hi := uint64(0), uint64(1)<<40
	if !fits(hi) {
		panic("model does not fit even in 1 TiB")
	}
	for lo+1 < hi {
		mid := lo + (hi-lo)/2
		if fits(mid) {
			hi = mid
		} else {
			lo = mid
		}
	}
	return hi
}

// ---- mock runner ----------------------------------------------------------------

func (s *zsSrv) Ping(ctx gocontext.Context) error {
	mcrt.Yield("mock.Ping " + s.name)
	if s.x.fault("ping") && mcrt.Choose(mcrt.Fault, "ping "+s.name, "ok", "fail") == 1 {
		mcrt.Observe("ping %s fails", s.name)
		return errors.New("ping failed")
	}
	return nil
}

func (s *zsSrv) WaitUntilRunning(ctx gocontext.Context) error {
	mcrt.Yield("mock.WaitUntilRunning " + s.name)
	if ctx.Err() != nil {
		s.loading = false
		return ctx.Err()
	}
	if s.x.fault("load") && mcrt.Choose(mcrt.Fault, "load "+s.name, "ok", "fail") == 1 {
		mcrt.Observe("load %s fails", s.name)
		s.loading = false
		return errors.New("load failed")
	}
	s.loading = false
	return nil
}

func (s *zsSrv) Completion(ctx gocontext.Context, req llm.CompletionRequest, fn func(llm.CompletionResponse)) error {
	return nil
}
func (s *zsSrv) Embedding(ctx gocontext.Context, input string) ([]float32, error) { return nil, nil }
func (s *zsSrv) Tokenize(ctx gocontext.Context, content string) ([]int, error)    { return nil, nil }
func (s *zsSrv) Detokenize(ctx gocontext.Context, tokens []int) (string, error)   { return "", nil }
func (s *zsSrv) EstimatedVRAM() uint64                                            { return s.vram }
func (s *zsSrv) EstimatedTotal() uint64                                           { return s.vram }
func (s *zsSrv) EstimatedVRAMByGPU(gpuID string) uint64 {
	for _, g := range s.gpus {
		if g.ID == gpuID {
			return s.vram / uint64(len(s.gpus))
		}
	}
	return 0
}

func (s *zsSrv) Close() error {
	mcrt.Yield("mock.Close " + s.name)
	x := s.x
	if s.closed > 0 {
		mcrt.Fail("C01: runner %s shut down twice", s.name)
	}
	if len(s.holders) > 0 {
		var h []int
		for i := range s.holders {
			h = append(h, i)
		}
		sort.Ints(h)
		mcrt.Fail("C01: runner %s shut down while request(s) %v still use it", s.name, h)
	}
	if x.expectArmed {
		x.expectArmed = false
		// only judged when no virtual time has passed since the deciding request was submitted:
		// otherwise a keep-alive expiry is a legitimate reason for this shutdown
		if x.expectVictim != nil && x.expectVictim != s && x.noExpiryYet() {
			mcrt.Fail("C11: making room shut down %s although the idle runner with the shortest keep-alive was %s", s.name, x.expectVictim.name)
		}
	}
	s.closed++
	x.closedN++
	mcrt.Observe("close %s", s.name)
	return nil
}

func (x *zsExec) fault(k string) bool {
	for _, f := range x.sc.Faults {
		if f == k {
			return true
		}
	}
	return false
}

func (x *zsExec) live() []*zsSrv {
	var l []*zsSrv
	for _, s := range x.servers {
		if s.closed == 0 {
			l = append(l, s)
		}
	}
	return l
}

func (x *zsExec) inventory() discover.GpuInfoList {
	var l discover.GpuInfoList
	for _, g := range x.sc.GPUs {
		gi := discover.GpuInfo{Library: g.Library, ID: g.ID}
		tot := g.Total
		if x.sc.FitTight {
			tot = x.fitNeed + x.sc.VRAM["A"] - 1
		}
		if tot == 0 {
			tot = 1 << 40
		}
		gi.TotalMemory = tot
		gi.FreeMemory = tot
		l = append(l, gi)
	}
	return l
}

func (x *zsExec) newServer(gpus discover.GpuInfoList, model string, f *ggml.GGML, adapters []string, projectors []string, opts api.Options, numParallel int) (llm.LlamaServer, error) {
	name := filepath.Base(model)
	mcrt.Yield("mock.NewServer " + name)
	live := x.live()
	for _, s := range live {
		if s.model == model {
			mcrt.Fail("C11: a second runner is started for model %s while runner %s for it is still running", name, s.name)
		}
	}
	if max := int(envconfig.MaxRunners()); max > 0 && len(live)+1 > max {
		mcrt.Fail("C11: starting a runner for %s would make %d running runners, limit is %d", name, len(live)+1, max)
	}
	// fit: with other runners loaded, only GPUs on which the model is predicted to fit in what they leave free
	if len(live) > 0 && len(gpus) > 0 && gpus[0].Library != "cpu" {
		inv := x.inventory()
		for _, g := range gpus {
			var used uint64
			for _, s := range live {
				used += s.EstimatedVRAMByGPU(g.ID)
				if s.loading {
					for _, sg := range s.gpus {
						if sg.ID == g.ID {
							mcrt.Fail("C11: runner for %s placed on GPU %s while runner %s is still loading there", name, g.ID, s.name)
						}
					}
				}
			}
			for _, ig := range inv {
				if ig.ID == g.ID {
					avail := uint64(0)
					if ig.TotalMemory > used {
						avail = ig.TotalMemory - used
					}
					if g.FreeMemory > avail {
						mcrt.Fail("C11: runner for %s planned with %d bytes free on GPU %s but loaded runners leave only %d", name, g.FreeMemory, g.ID, avail)
					}
				}
			}
		}
		if ok, _ := llm.PredictServerFit(gpus, f, adapters, projectors, opts, numParallel); !ok {
			mcrt.Fail("C11: runner for %s started next to %d loaded runner(s) on GPUs where it is not predicted to fit", name, len(live))
		}
	}
	if x.fault("newserver") && mcrt.Choose(mcrt.Fault, "newserver "+name, "ok", "fail") == 1 {
		mcrt.Observe("newserver %s fails", name)
		return nil, errors.New("cannot start runner")
	}
	s := &zsSrv{id: len(x.servers), model: model, holders: map[int]bool{}, opts: opts, numParallel: numParallel,
		gpus: append(discover.GpuInfoList{}, gpus...), vram: x.sc.VRAM[strings.TrimPrefix(name, "model-")], loading: true, x: x}
	if s.vram == 0 {
		s.vram = 1 << 20
	}
	s.name = fmt.Sprintf("%s/%d", strings.TrimPrefix(name, "model-"), s.id)
	x.servers = append(x.servers, s)
	x.created++
	mcrt.Observe("start %s ctx=%d par=%d gpus=%d", s.name, opts.NumCtx, numParallel, len(gpus))
	return s, nil
}

// ---- clients ----------------------------------------------------------------------

func zsKeepAlive(s string) *api.Duration {
	switch s {
	case "":
		return nil
	case "-1":
		return &api.Duration{Duration: gotime.Duration(math.MaxInt64)}
	}
	d, err := gotime.ParseDuration(s)
	if err != nil {
		panic(err)
	}
	return &api.Duration{Duration: d}
}

// noExpiryYet: less virtual time has passed in this execution than the shortest keep-alive any
// request of the scenario asks for, so no keep-alive timer can have fired yet.
func (x *zsExec) noExpiryYet() bool {
	min := gotime.Duration(math.MaxInt64)
	for _, r := range x.sc.Reqs {
		if d := x.effKeepAlive(r); d > 0 && d < min {
			min = d
		}
	}
	return mcrt.VirtualNow() < min
}

func (x *zsExec) effKeepAlive(r zsReq) gotime.Duration {
	if ka := zsKeepAlive(r.KeepAlive); ka != nil {
		return ka.Duration
	}
	return envconfig.KeepAlive()
}

// client mirrors Server.scheduleRunner + a handler: submit, wait for exactly
// what the handler waits for, use the runner, release by cancelling the context.
func (x *zsExec) client(c *zsClient) {
	mcrt.Yield(fmt.Sprintf("client%d.submit", c.i))
	opts := api.DefaultOptions()
	if c.req.NumCtx != 0 {
		opts.NumCtx = c.req.NumCtx
	}
	if c.req.NumGPU != nil {
		opts.NumGPU = *c.req.NumGPU
	}
	if c.req.MMap != "" {
		v := c.req.MMap == "true"
		opts.UseMMap = &v
	}
	c.submitAt = mcrt.Steps()
	c.submitTime = mcrt.VirtualNow()
	c.liveAtSubmit = x.live()
	if x.sc.Seq {
		x.armEvictionOracle(c)
	}
	c.succCh, c.errCh = x.sched.GetRunner(c.ctx, zsModels[c.req.Model], opts, zsKeepAlive(c.req.KeepAlive))
	if len(c.errCh) == 1 {
		// GetRunner itself answered (queue full): the caller was not blocked
		c.queueFull = true
	}
	var r *runnerRef
	var err error
	switch mcrt.Select(mcrt.RecvCase(c.succCh, &r, nil), mcrt.RecvCase(c.errCh, &err, nil)) {
	case 0:
		c.replies++
		srv, _ := r.llama.(*zsSrv)
		if srv == nil && c.ctx.Err() != nil {
			// the request had been abandoned (context cancelled = runner released) before it looked at what it was handed;
			// the runner was alive at the hand-over and may legitimately have been unloaded since
			mcrt.Observe("client%d (abandoned) handed a runner that was unloaded meanwhile", c.i)
			c.cancelled = true
			c.finished = true
			return
		}
		if srv == nil {
			// the runner was already torn down when it was handed over
			mcrt.Fail("C01: request %d was handed a runner that has already been unloaded", c.i)
			mcrt.Observe("client%d granted <unloaded>", c.i)
			c.cancelled = true
			c.cancel()
			c.finished = true
			return
		}
		c.srv = srv
		mcrt.Observe("client%d granted %s", c.i, srv.name)
		if srv.closed > 0 {
			mcrt.Fail("C01: request %d was handed runner %s after it was shut down", c.i, srv.name)
		}
		live := c.ctx.Err() == nil
		if live {
			srv.holders[c.i] = true
			srv.keepAlive = x.effKeepAlive(c.req)
			x.checkGrant(c, srv, opts)
		}
		for k := 0; k < c.req.Hold; k++ {
			mcrt.Yield(fmt.Sprintf("client%d.use", c.i))
			if live && !c.cancelled && srv.closed > 0 {
				mcrt.Fail("C01: runner %s was shut down while request %d was using it", srv.name, c.i)
			}
		}
		delete(srv.holders, c.i)
		c.cancelled = true
		c.cancel()
	case 1:
		c.replies++
		c.err = err
		mcrt.Observe("client%d error %v", c.i, zsErrClass(err))
		if errors.Is(err, ErrMaxQueue) && !c.queueFull {
			// fine: only means the error was produced by GetRunner; nothing to check
		}
		c.cancelled = true
		c.cancel()
	}
	c.finished = true
}

func zsErrClass(err error) string {
	switch {
	case err == nil:
		return "nil"
	case errors.Is(err, ErrMaxQueue):
		return "busy"
	case errors.Is(err, gocontext.Canceled):
		return "canceled"
	}
	s := err.Error()
	if len(s) > 24 {
		s = s[:24]
	}
	return s
}

// checkGrant: the runner a request is served by was started with options
// compatible with the request (C11: reuse only when compatible).
func (x *zsExec) checkGrant(c *zsClient, srv *zsSrv, opts api.Options) {
	want := opts.NumCtx
	if want < 4 {
		want = 4
	}
	if srv.numParallel > 0 && srv.opts.NumCtx/srv.numParallel != want {
		mcrt.Fail("C11: request %d (num_ctx %d) is served by runner %s started with num_ctx %d / parallel %d", c.i, want, srv.name, srv.opts.NumCtx, srv.numParallel)
	}
	if opts.NumGPU >= 0 && srv.opts.NumGPU != opts.NumGPU {
		mcrt.Fail("C11: request %d (num_gpu %d) is served by runner %s started with num_gpu %d", c.i, opts.NumGPU, srv.name, srv.opts.NumGPU)
	}
	// sequential scenarios: a compatible loaded runner must be reused, not restarted
	// (judged only when no virtual time passed since the request was submitted, i.e. no keep-alive can have expired,
	// and nothing else in the scenario may legitimately unload it)
	if x.sc.Seq && x.noExpiryYet() && len(x.sc.Unload) == 0 && len(x.sc.Faults) == 0 {
		for _, s := range c.liveAtSubmit {
			if s.model != srv.model || s == srv || s.closed > 0 && s.id > srv.id {
				continue
			}
			compatible := s.numParallel > 0 && s.opts.NumCtx/s.numParallel == want && (opts.NumGPU < 0 || s.opts.NumGPU == opts.NumGPU)
			sameMMap := (s.opts.UseMMap == nil) == (opts.UseMMap == nil) && (opts.UseMMap == nil || *s.opts.UseMMap == *opts.UseMMap)
			if compatible && sameMMap {
				mcrt.Fail("C11: request %d was compatible with loaded runner %s but a new runner %s was started", c.i, s.name, srv.name)
			}
		}
	}
}

// armEvictionOracle (sequential scenarios only; everything has settled when a
// request is submitted): if the request needs room, the runner shut down next
// must be the idle one with the shortest keep-alive (ties: model path).
func (x *zsExec) armEvictionOracle(c *zsClient) {
	x.expectArmed = false
	live := x.live()
	max := int(envconfig.MaxRunners())
	for _, s := range live {
		if s.model == zsModels[c.req.Model].ModelPath {
			return
		}
	}
	if max <= 0 || len(live) < max || len(x.sc.Faults) > 0 {
		return
	}
	var idle []*zsSrv
	for _, s := range live {
		if len(s.holders) == 0 {
			idle = append(idle, s)
		}
	}
	if len(idle) == 0 {
		return
	}
	sort.Slice(idle, func(i, j int) bool {
		if idle[i].keepAlive != idle[j].keepAlive {
			return uint64(idle[i].keepAlive) < uint64(idle[j].keepAlive)
		}
		return idle[i].model < idle[j].model
	})
	x.expectVictim = idle[0]
	x.expectArmed = true
	x.expectAt = mcrt.VirtualNow()
}

// ---- one execution ----------------------------------------------------------------

var zsEnvKeys = []string{"OLLAMA_MAX_LOADED_MODELS", "OLLAMA_NUM_PARALLEL", "OLLAMA_MAX_QUEUE", "OLLAMA_KEEP_ALIVE", "OLLAMA_SCHED_SPREAD", "OLLAMA_GPU_OVERHEAD"}

func zsBody(sc *zsScenario, fitNeed uint64) func() {
	return func() {
		for _, k := range zsEnvKeys {
			os.Unsetenv(k)
		}
		for k, v := range sc.Env {
			os.Setenv(k, v)
		}
		x := &zsExec{sc: sc, fitNeed: fitNeed}
		zsCur = x
		ctx, stop := gocontext.WithCancel(gocontext.Background())
		s := InitScheduler(ctx)
		x.sched = s
		s.getGpuFn = x.inventory
		s.getCpuFn = func() discover.GpuInfoList {
			g := discover.GpuInfo{Library: "cpu", ID: "0"}
			g.TotalMemory = 1 << 40
			g.FreeMemory = 1 << 40
			return discover.GpuInfoList{g}
		}
		s.newServerFn = x.newServer
		s.Run(ctx)

		var wg mcrt.WaitGroup
		for i, r := range sc.Reqs {
			c := &zsClient{i: i, req: r}
			c.ctx, c.cancel = gocontext.WithCancel(gocontext.Background())
			x.clients = append(x.clients, c)
		}
		for _, c := range x.clients {
			c := c
			wg.Add(1)
			mcrt.GoNamed(fmt.Sprintf("client%d", c.i), func() { defer wg.Done(); x.client(c) })
			if c.req.Impatient {
				mcrt.GoNamed(fmt.Sprintf("cancel%d", c.i), func() {
					mcrt.Yield(fmt.Sprintf("cancel%d", c.i))
					if !c.cancelled {
						mcrt.Observe("client%d abandons", c.i)
						if c.srv != nil {
							delete(c.srv.holders, c.i)
						}
						c.cancelled = true
						c.cancel()
					}
				})
			}
			if sc.Seq {
				mcrt.WaitIdle(false)
				if sc.SeqAdv != "" {
					d, _ := gotime.ParseDuration(sc.SeqAdv)
					mcrt.Sleep(d)
					mcrt.WaitIdle(false)
				}
			}
		}
		for _, m := range sc.Unload {
			m := m
			mcrt.GoNamed("unload"+m, func() {
				mcrt.Yield("unload " + m)
				mcrt.Observe("unload %s", m)
				s.expireRunner(zsModels[m])
			})
		}
		// quiescence: every client that can finish has finished, all keep-alive periods have elapsed
		mcrt.WaitIdle(true)
		x.checkEnd()
		stop()
		mcrt.WaitIdle(false)
		x.checkStopped()
	}
}

func (x *zsExec) checkEnd() {
	forever := false
	for _, c := range x.clients {
		if x.effKeepAlive(c.req) > 1000*gotime.Hour {
			forever = true
		}
	}
	if v := os.Getenv("OLLAMA_KEEP_ALIVE"); strings.HasPrefix(v, "-") {
		forever = true
	}
	for _, c := range x.clients {
		abandoned := c.req.Impatient && c.cancelled && c.replies == 0
		if !c.finished && !abandoned {
			mcrt.Fail("C02: request %d (model %s) never received a reply although it was not cancelled", c.i, c.req.Model)
		}
		if c.replies > 1 {
			mcrt.Fail("C02: request %d received %d replies", c.i, c.replies)
		}
		if c.succCh != nil && c.replies == 1 {
			if c.srv != nil && len(c.errCh) > 0 {
				mcrt.Fail("C02: request %d received a runner and an error", c.i)
			}
			if c.srv == nil && c.err != nil && len(c.errCh) > 0 {
				mcrt.Fail("C02: request %d received two errors", c.i)
			}
		}
	}
	for _, b := range mcrt.BlockedOthers() {
		if strings.Contains(b, "@ send") {
			// a scheduler goroutine is stuck handing a second answer to a request nobody listens to any more,
			// or the loops block each other
			mcrt.Fail("C02: at quiescence a scheduler thread is blocked in a channel send: %s", b)
		}
	}
	x.sched.loadedMu.Lock()
	nLoaded := len(x.sched.loaded)
	var refs []string
	for k, r := range x.sched.loaded {
		if r.refCount != 0 {
			refs = append(refs, fmt.Sprintf("%s:%d", filepath.Base(k), r.refCount))
		}
	}
	x.sched.loadedMu.Unlock()
	sort.Strings(refs)
	allDone := true
	for _, c := range x.clients {
		// (a request abandoned before it was answered is over as far as draining is concerned)
		abandoned := c.req.Impatient && c.cancelled && c.replies == 0
		if !c.finished && !abandoned {
			allDone = false
		}
	}
	if len(refs) > 0 && allDone {
		mcrt.Fail("C02: all requests finished but runners still have references: %v", refs)
	}
	if !forever && allDone {
		if nLoaded != 0 {
			mcrt.Fail("C02: all requests finished and keep-alive periods elapsed but %d model(s) are still reported as loaded", nLoaded)
		}
		if x.created != x.closedN {
			mcrt.Fail("C02: %d runner(s) were started but %d were shut down after all requests finished and keep-alive periods elapsed", x.created, x.closedN)
		}
		if n := mcrt.PendingTimers(); n != 0 {
			mcrt.Fail("C02: %d timer(s) still pending at quiescence", n)
		}
	}
	mcrt.Observe("end created=%d closed=%d loaded=%d", x.created, x.closedN, nLoaded)
}

func (x *zsExec) checkStopped() {
	for _, b := range mcrt.BlockedOthers() {
		if strings.HasPrefix(b, "client") || strings.HasPrefix(b, "cancel") {
			continue // a request that was abandoned before it was answered keeps waiting, like its handler would
		}
		mcrt.Fail("C02: after scheduler shutdown a scheduler goroutine is still blocked: %s", b)
	}
}

// ---- scenarios --------------------------------------------------------------------

func zsInt(i int) *int { return &i }

func zsScenarios(thorough bool) []*zsScenario {
	metal1 := []zsGPU{{Library: "metal", ID: "0"}}
	var l []*zsScenario
	add := func(s *zsScenario) { l = append(l, s) }
	add(&zsScenario{Name: "same-model-2", GPUs: metal1, Reqs: []zsReq{{Model: "A", Hold: 1}, {Model: "A", Hold: 1}}})
	add(&zsScenario{Name: "reload-numctx", GPUs: metal1, Reqs: []zsReq{{Model: "A", Hold: 2}, {Model: "A", NumCtx: 4096, Hold: 1}}})
	add(&zsScenario{Name: "evict-busy-max1", GPUs: metal1, Env: map[string]string{"OLLAMA_MAX_LOADED_MODELS": "1"}, Reqs: []zsReq{{Model: "A", Hold: 2}, {Model: "B", Hold: 1}}})
	add(&zsScenario{Name: "keepalive0-vs-new", GPUs: metal1, Reqs: []zsReq{{Model: "A", KeepAlive: "0", Hold: 1}, {Model: "A", Hold: 1}}})
	add(&zsScenario{Name: "short-keepalive-vs-new", GPUs: metal1, Reqs: []zsReq{{Model: "A", KeepAlive: "10ms", Hold: 1}, {Model: "A", KeepAlive: "10ms", Hold: 1}}})
	add(&zsScenario{Name: "explicit-unload", GPUs: metal1, Reqs: []zsReq{{Model: "A", Hold: 2}}, Unload: []string{"A"}})
	add(&zsScenario{Name: "unload-vs-second", GPUs: metal1, Reqs: []zsReq{{Model: "A", Hold: 1}, {Model: "A", Hold: 1}}, Unload: []string{"A"}})
	add(&zsScenario{Name: "load-fail", GPUs: metal1, Faults: []string{"load"}, Reqs: []zsReq{{Model: "A", Hold: 1}, {Model: "A", Hold: 1}}})
	add(&zsScenario{Name: "newserver-fail", GPUs: metal1, Faults: []string{"newserver"}, Reqs: []zsReq{{Model: "A", Hold: 1}, {Model: "B", Hold: 1}}})
	add(&zsScenario{Name: "ping-fail", GPUs: metal1, Faults: []string{"ping"}, Reqs: []zsReq{{Model: "A", Hold: 2}, {Model: "A", Hold: 1}}})
	add(&zsScenario{Name: "impatient-load", GPUs: metal1, Reqs: []zsReq{{Model: "A", Hold: 1, Impatient: true}, {Model: "A", Hold: 1}}})
	add(&zsScenario{Name: "impatient-alone", GPUs: metal1, Reqs: []zsReq{{Model: "A", Hold: 1, Impatient: true}}})
	add(&zsScenario{Name: "impatient-then-other", GPUs: metal1, Reqs: []zsReq{{Model: "A", Hold: 1, Impatient: true}, {Model: "B", Hold: 1}}})
	add(&zsScenario{Name: "two-gpus-requeue", GPUs: []zsGPU{{Library: "metal", ID: "0"}, {Library: "metal", ID: "1", Total: 1 << 20}}, Env: map[string]string{"OLLAMA_NUM_PARALLEL": "2"}, Reqs: []zsReq{{Model: "A", Hold: 1}, {Model: "B", Hold: 1}}})
	add(&zsScenario{Name: "small-queue-keepalive0", GPUs: metal1, Env: map[string]string{"OLLAMA_MAX_QUEUE": "1"}, Reqs: []zsReq{{Model: "A", KeepAlive: "0", Hold: 1}, {Model: "B", KeepAlive: "0", Hold: 1}}})
	add(&zsScenario{Name: "queue-full", GPUs: metal1, Env: map[string]string{"OLLAMA_MAX_QUEUE": "1"}, Reqs: []zsReq{{Model: "A", Hold: 1}, {Model: "A", Hold: 1}, {Model: "A", Hold: 0}}})
	add(&zsScenario{Name: "three-models-max2", GPUs: metal1, Env: map[string]string{"OLLAMA_MAX_LOADED_MODELS": "2"}, Reqs: []zsReq{{Model: "A", Hold: 1}, {Model: "B", Hold: 1}, {Model: "C", Hold: 1}}})
	add(&zsScenario{Name: "fit-tight", GPUs: metal1, FitTight: true, VRAM: map[string]uint64{"A": 1 << 30, "B": 1 << 30}, Env: map[string]string{"OLLAMA_NUM_PARALLEL": "1"}, Reqs: []zsReq{{Model: "A", Hold: 1}, {Model: "B", Hold: 1}}})
	add(&zsScenario{Name: "seq-reuse", Seq: true, GPUs: metal1, Reqs: []zsReq{{Model: "A", Hold: 1}, {Model: "A", Hold: 1}, {Model: "A", NumCtx: 4096, Hold: 1}}})
	add(&zsScenario{Name: "seq-reuse-mmap", Seq: true, GPUs: metal1, Reqs: []zsReq{{Model: "A", MMap: "false", Hold: 1}, {Model: "A", MMap: "false", Hold: 1}, {Model: "A", MMap: "true", Hold: 1}}})
	add(&zsScenario{Name: "seq-evict-order", Seq: true, GPUs: metal1, Env: map[string]string{"OLLAMA_MAX_LOADED_MODELS": "2"}, Reqs: []zsReq{{Model: "B", KeepAlive: "10m", Hold: 1}, {Model: "A", KeepAlive: "20m", Hold: 1}, {Model: "C", Hold: 1}}})
	add(&zsScenario{Name: "forever-keepalive", GPUs: metal1, Env: map[string]string{"OLLAMA_MAX_LOADED_MODELS": "1"}, Reqs: []zsReq{{Model: "A", KeepAlive: "-1", Hold: 1}, {Model: "B", Hold: 1}}})
	add(&zsScenario{Name: "cpu-two-models", GPUs: metal1, Reqs: []zsReq{{Model: "A", NumGPU: zsInt(0), Hold: 1}, {Model: "B", NumGPU: zsInt(0), Hold: 1}}})
	add(&zsScenario{Name: "two-gpus", GPUs: []zsGPU{{Library: "metal", ID: "0"}, {Library: "metal", ID: "1"}}, Env: map[string]string{"OLLAMA_NUM_PARALLEL": "1"}, Reqs: []zsReq{{Model: "A", Hold: 1}, {Model: "B", Hold: 1}}})
	if thorough {
		add(&zsScenario{Name: "same-model-3", GPUs: metal1, Reqs: []zsReq{{Model: "A", Hold: 1}, {Model: "A", Hold: 1}, {Model: "A", Hold: 1}}})
		add(&zsScenario{Name: "reload-and-third", GPUs: metal1, Reqs: []zsReq{{Model: "A", Hold: 1}, {Model: "A", NumCtx: 4096, Hold: 1}, {Model: "A", Hold: 1}}})
		add(&zsScenario{Name: "evict-busy-max1-3", GPUs: metal1, Env: map[string]string{"OLLAMA_MAX_LOADED_MODELS": "1"}, Reqs: []zsReq{{Model: "A", Hold: 1}, {Model: "B", Hold: 1}, {Model: "A", Hold: 1}}})
		add(&zsScenario{Name: "short-keepalive-3", GPUs: metal1, Reqs: []zsReq{{Model: "A", KeepAlive: "10ms", Hold: 1}, {Model: "A", KeepAlive: "10ms", Hold: 1}, {Model: "B", KeepAlive: "10ms", Hold: 1}}, Env: map[string]string{"OLLAMA_MAX_LOADED_MODELS": "1"}})
		add(&zsScenario{Name: "faults-all", GPUs: metal1, Faults: []string{"load", "ping", "newserver"}, Reqs: []zsReq{{Model: "A", Hold: 1}, {Model: "A", NumCtx: 4096, Hold: 1}}})
		add(&zsScenario{Name: "impatient-both", GPUs: metal1, Env: map[string]string{"OLLAMA_MAX_LOADED_MODELS": "1"}, Reqs: []zsReq{{Model: "A", Hold: 1, Impatient: true}, {Model: "B", Hold: 1, Impatient: true}}})
		add(&zsScenario{Name: "unload-two", GPUs: metal1, Reqs: []zsReq{{Model: "A", Hold: 1}, {Model: "B", Hold: 1}}, Unload: []string{"A", "B"}})
		add(&zsScenario{Name: "fit-tight-3", GPUs: metal1, FitTight: true, VRAM: map[string]uint64{"A": 1 << 30, "B": 1 << 30, "C": 1 << 30}, Env: map[string]string{"OLLAMA_NUM_PARALLEL": "1"}, Reqs: []zsReq{{Model: "A", Hold: 1}, {Model: "B", Hold: 1}, {Model: "C", Hold: 1}}})
		add(&zsScenario{Name: "queue-full-evict", GPUs: metal1, Env: map[string]string{"OLLAMA_MAX_QUEUE": "1", "OLLAMA_MAX_LOADED_MODELS": "1"}, Reqs: []zsReq{{Model: "A", Hold: 2}, {Model: "B", Hold: 1}, {Model: "C", Hold: 0}}})
	}
	return l
}

// ---- driver -----------------------------------------------------------------------

type zsReplay struct {
	Scenario *zsScenario `json:"scenario"`
	Choices  string      `json:"choices"`
	Bounds   mcrt.Bounds `json:"bounds"`
}

func zsBounds(thorough bool) mcrt.Bounds {
	var b mcrt.Bounds
	b[mcrt.Preempt] = 1
	b[mcrt.Switch] = 1
	b[mcrt.Time] = 1
	b[mcrt.Fault] = 1
	b[mcrt.Order] = 1 // one map iteration (runner table) in a non-default order
	if thorough {
		b[mcrt.Preempt] = 2
		b[mcrt.Switch] = 2
		b[mcrt.Fault] = 2
	}
	return b
}

func zsExplorer(sc *zsScenario, b mcrt.Bounds) *mcrt.Explorer {
	opts := api.DefaultOptions()
	need := uint64(0)
	if sc.FitTight {
		need = zsFitNeed("metal", opts, 1)
	}
	return &mcrt.Explorer{Bounds: b, Body: zsBody(sc, need), Cfg: mcrt.Config{MaxSteps: 5000}}
}

// ZZVerifSched is the entry point: VERIF_ID selects which property's monitors decide.
func ZZVerifSched() {
	prop := os.Getenv("VERIF_ID")
	if prop == "" || prop == "sched" {
		prop = "C01"
	}
	r := evid.Start(prop, "model_checking")
	zsSetup()
	defer os.RemoveAll(zsDir)
	thorough := evid.Thorough()

	if p := evid.ReplayPath(); p != "" {
		var rp zsReplay
		if err := evid.LoadReplay(p, &rp); err != nil {
			fmt.Println("replay:", err)
			os.Exit(2)
		}
		x := zsExplorer(rp.Scenario, rp.Bounds)
		res, labels := x.Replay(mcrt.DecodeChoices(rp.Choices))
		fmt.Printf("scenario %s, choices %s\n", rp.Scenario.Name, rp.Choices)
		for _, l := range labels {
			fmt.Println("  choice", l)
		}
		for _, t := range res.Trace {
			fmt.Println(t)
		}
		os.RemoveAll(zsDir)
		bad := false
		for _, f := range res.Failures {
			if strings.HasPrefix(f, prop+":") {
				fmt.Println("FAILS:", f)
				bad = true
			}
		}
		for _, p := range res.Panics {
			fmt.Println("PANIC:", p.Value, "\n", p.Stack)
			bad = true
		}
		if bad {
			os.Exit(1)
		}
		fmt.Println("holds on this execution")
		os.Exit(0)
	}

	bounds := zsBounds(thorough)
	scs := zsScenarios(thorough)
	byName := map[string]*zsScenario{}
	for _, s := range scs {
		byName[s.Name] = s
	}
	budget := 200 * gotime.Second
	if thorough {
		budget = 18 * gotime.Minute
	}
	r.SetDeadline(budget)
	deadline := gotime.Now().Add(budget)

	// work items: scenario + one-deviation prefix; the coordinator computes them by running the default execution
	var items []string
	if !evid.IsWorker() {
		for _, sc := range scs {
			x := zsExplorer(sc, bounds)
			x.OnExec = zsOnExec(r, prop, sc, x, bounds)
			roots := x.Roots()
			zsAccount(r, x)
			for _, p := range roots {
				items = append(items, sc.Name+"|"+mcrt.EncodeChoices(p)+"|")
			}
		}
	}
	r.Fanout(items, evid.FanoutOpts{Env: []string{"GOMAXPROCS=2"}, MemLimitMB: 4096}, func(item string, sub *evid.Run) {
		parts := strings.Split(item, "|")
		sc := byName[parts[0]]
		x := zsExplorer(sc, bounds)
		x.Deadline = deadline
		x.OnExec = zsOnExec(sub, prop, sc, x, bounds)
		prefix := mcrt.DecodeChoices(parts[1])
		// EncodeChoices drops trailing zeros, but a prefix always ends in a non-zero choice
		x.Explore(prefix)
		zsAccount(sub, x)
		if x.Stopped {
			sub.NotExhaustive("time budget reached inside subtree " + item)
		}
	})
	r.Rule("every schedule of the real Scheduler's loops, timers and helper goroutines with the client/runner/unload threads of each scenario, within the deviation bounds (depth-first over the choice tree, happens-before caching); non-trivial = distinct observation logs (grant/close/start/error sequences) in which a runner was shut down or a request was answered with an error")
	r.Extra("bounds", bounds.String())
	r.Extra("scenarios", len(scs))
	var names []string
	for _, s := range scs {
		names = append(names, s.Name)
	}
	r.Extra("scenario_names", names)
	r.Assume("a request is 'in progress' from the moment it receives the runner until its context is cancelled (the scheduler's documented release protocol); a request whose context was already cancelled when the runner arrived never holds it",
		"scheduling points are at synchronisation operations, timers and the mock runner's entry points; plain memory accesses between two points are atomic",
		"GPU inventory is library metal/cpu so that the VRAM-recovery wait (real GPU probing) takes its immediate path",
		"virtual time: durations only order deadlines; any thread can be arbitrarily slow")
	r.Finish()
}

func zsAccount(r *evid.Run, x *mcrt.Explorer) {
	r.Add("evaluations", x.Execs)
	r.Add("traces_validated_against_impl", x.Execs-x.PrunedExecs)
	r.Add("pruned_by_hb_cache", x.PrunedExecs)
	r.Add("transitions", x.Transitions)
	r.Add("horizon_hits", x.HorizonHits)
	for k := range x.States {
		r.DistinctH("state", k.A^k.B^k.Cur)
	}
	if x.HorizonHits > 0 {
		r.NotExhaustive(fmt.Sprintf("%d executions hit the step horizon", x.HorizonHits))
	}
}

func zsOnExec(r *evid.Run, prop string, sc *zsScenario, x *mcrt.Explorer, b mcrt.Bounds) func([]int, *mcrt.Result) {
	return func(choices []int, res *mcrt.Result) {
		if res.Pruned {
			return
		}
		logKey := sc.Name + "\n" + strings.Join(res.Log, "\n")
		if r.Distinct("outcome", logKey) {
			if strings.Contains(logKey, "close ") || strings.Contains(logKey, " error ") {
				r.Distinct("nontrivial", logKey)
			}
			if r.WantSample() {
				r.Sample(map[string]any{"scenario": sc.Name, "choices": mcrt.EncodeChoices(choices), "log": res.Log})
			} else {
				r.Sample(nil)
			}
		}
		var fails []string
		for _, f := range res.Failures {
			if strings.HasPrefix(f, prop+":") {
				fails = append(fails, f)
			}
		}
		if res.Horizon && prop == "C02" {
			// the body waits for quiescence (no runnable thread, no pending finite timer) before it looks at the end
			// state; an execution that is still busy after the step horizon (25x the longest execution of the
			// unchanged tree) never drains: some loop or timer keeps re-arming itself
			fails = append(fails, "C02: the scheduler never comes to rest: still busy at the step horizon, long after every request was over or abandoned")
		}
		for _, p := range res.Panics {
			// a panic in a scheduler goroutine kills the server: no request is answered any more
			if prop == "C02" || prop == "C01" {
				fails = append(fails, fmt.Sprintf("%s: panic in %s: %s", prop, p.Thread, p.Value))
			}
		}
		if len(fails) == 0 {
			return
		}
		if !x.Confirm(choices, res, 5) {
			r.Extra("machinery_errors", []string{"nondeterministic replay in scenario " + sc.Name + " choices " + mcrt.EncodeChoices(choices)})
			return
		}
		// signature: scenario-independent failure class (message with numbers/names normalised)
		sig := prop + "/" + zsNormalise(fails[0])
		js, _ := json.Marshal(sc)
		r.Violation(sig, fmt.Sprintf("%s\nscenario %s: %s\nchoices %s\nlog:\n  %s", strings.Join(fails, "\n"), sc.Name, js, mcrt.EncodeChoices(choices), strings.Join(res.Log, "\n  ")),
			zsReplay{Scenario: sc, Choices: mcrt.EncodeChoices(choices), Bounds: b})
	}
}

func zsNormalise(s string) string {
	var b strings.Builder
	for _, f := range strings.Fields(s) {
		digits := 0
		for _, c := range f {
			if c >= '0' && c <= '9' {
				digits++
			}
		}
		if digits > 0 || strings.Contains(f, "/") {
			f = "#"
		}
		b.WriteString(f)
		b.WriteByte(' ')
	}
	return strings.TrimSpace(b.String())
}
