package main

import (
	"os"

	"github.com/ollama/ollama/runner/llamarunner"
)

func main() {
	if os.Getenv("VERIF_ID") == "C14" {
		llamarunner.ZZVerifC14()
		return
	}
	llamarunner.ZZVerifC07()
}
