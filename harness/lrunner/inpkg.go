package llamarunner

// llamarunner harness (C07 and C14, part "llamarunner"): the real
// llamarunner.Server (completion handler, processBatch, InputCache) over
// fakellama - a Go model of llama.cpp's unified KV cache with a scripted
// transformer (engine/fakellama; the instrumenter rewrites the import of the
// cgo package) - driven event by event under mcrt. Twin of harness/runner.

import (
	"bytes"
	gocontext "context"
	"encoding/json"
	"fmt"
	"net/http"
	"net/http/httptest"
	"os"
	"strings"
	gotime "time"

	"github.com/ollama/ollama/api"
	"github.com/ollama/ollama/llm"
	"github.com/ollama/ollama/zzverif/evid"
	llama "github.com/ollama/ollama/zzverif/fakellama"
	"github.com/ollama/ollama/zzverif/mcrt"
	mcsem "github.com/ollama/ollama/zzverif/shim/semaphore"
	mcsync "github.com/ollama/ollama/zzverif/shim/sync"
)

// ---- scripted model ---------------------------------------------------------------------

// zlNext: the token generated after a token that sees vis (C07: a hash of exactly that history)
func zlNext(vis []llama.Ent, vocab int) int {
	h := uint32(17)
	for _, e := range vis {
		h = h*31 + uint32(e.Token)*7 + uint32(e.Pos)*3 + 1
	}
	h ^= h >> 7
	return int(h % uint32(vocab))
}

// ---- world ----------------------------------------------------------------------------

type zlConfig struct {
	Slots     int    `json:"slots"`
	NumCtx    int    `json:"num_ctx"`
	Batch     int    `json:"batch"`
	MultiUser bool   `json:"multiuser"`
	Cache     string `json:"cache"` // shift, noshift (cannot shift), nopartial (cannot shift, no partial erase)
}

type zlReq struct {
	Prompt     string   `json:"prompt"`
	NumPredict int      `json:"num_predict"`
	NumKeep    int      `json:"num_keep"`
	Stop       []string `json:"stop,omitempty"`
}

type zlRun struct {
	spec      zlReq
	rec       *httptest.ResponseRecorder
	cancel    gocontext.CancelFunc
	returned  bool
	cancelled bool
	id        int
}

type zlWorld struct {
	cfg    zlConfig
	s      *Server
	lc     *llama.Context
	model  *llama.Model
	runs   []*zlRun
	dead   bool
	tokens *llama.Batch
	embeds *llama.Batch
	// C14: emit script[k] as the k-th generated token (then EOS)
	script    []int
	promptLen int
}

type zlEnt = llama.Ent

func (w *zlWorld) m1Fail(slot int, pos int, want, got []zlEnt) {
	kind := "wrong"
	if len(got) < len(want) {
		kind = "missing"
	} else if len(got) > len(want) {
		kind = "extra"
	}
	mcrt.Fail("C07: M1 %s: slot %d position %d: the model is shown (token,pos) %v but the slot's recorded inputs are %v", kind, slot, pos, got, want)
}

func zlNewWorld(cfg zlConfig, pieces []string) *zlWorld {
	w := &zlWorld{cfg: cfg}
	w.model = &llama.Model{Pieces: pieces}
	lc, err := llama.NewContextWithModel(w.model, llama.NewContextParams(cfg.NumCtx*cfg.Slots, cfg.Batch*cfg.Slots, cfg.Slots, 1, false, ""))
	if err != nil {
		panic(err)
	}
	switch cfg.Cache {
	case "shift":
	case "noshift":
		lc.CanShift = false
	case "nopartial":
		lc.CanShift = false
		lc.NoPartialRm = true
	default:
		panic("bad cache kind")
	}
	w.lc = lc
	s := &Server{batchSize: cfg.Batch, status: llm.ServerStatusReady, model: w.model, lc: lc, parallel: cfg.Slots}
	s.cond = mcsync.NewCond(&s.mu)
	s.cache, err = NewInputCache(lc, cfg.NumCtx*cfg.Slots, cfg.Slots, cfg.MultiUser)
	if err != nil {
		panic(err)
	}
	s.seqs = make([]*Sequence, cfg.Slots)
	s.seqsSem = mcsem.NewWeighted(int64(cfg.Slots))
	w.s = s
	w.tokens, _ = llama.NewBatch(s.batchSize, len(s.seqs), 0)
	w.embeds = &llama.Batch{}
	// M1: what the model is shown for a token == what the runner has recorded for that slot
	// (cache record + the inputs of this batch), each input at the position of its index
	lc.OnEntry = func(seq, pos int, vis []zlEnt) {
		var rec []int
		owned := false
		for _, sq := range s.seqs {
			if sq == nil || sq.cache == nil || sq.cache.Id != seq {
				continue
			}
			owned = true
			for _, in := range sq.cache.Inputs {
				rec = append(rec, in.token)
			}
			for _, in := range sq.pendingInputs {
				rec = append(rec, in.token)
			}
		}
		if !owned {
			mcrt.Fail("C07: batch contains sequence %d that no active request owns", seq)
			return
		}
		if pos >= len(rec) {
			mcrt.Fail("C07: token at position %d of slot %d is beyond the %d inputs recorded for it", pos, seq, len(rec))
		}
		var want []zlEnt
		for p := 0; p <= pos && p < len(rec); p++ {
			want = append(want, zlEnt{Token: rec[p], Pos: p})
		}
		if fmt.Sprint(want) != fmt.Sprint(vis) {
			w.m1Fail(seq, pos, want, vis)
		}
	}
	lc.Next = func(seq, pos int, vis []zlEnt) int {
		if w.script != nil {
			// k-th generated token: k = number of tokens seen beyond the prompt
			k := pos + 1 - w.promptLen
			if k >= 0 && k < len(w.script) {
				return w.script[k]
			}
			return 0
		}
		return zlNext(vis, len(pieces))
	}
	return w
}

func (w *zlWorld) submit(spec zlReq) *zlRun {
	opts := api.DefaultOptions()
	opts.NumPredict = spec.NumPredict
	opts.NumKeep = spec.NumKeep
	opts.Stop = spec.Stop
	opts.Temperature = 0
	body, _ := json.Marshal(llm.CompletionRequest{Prompt: spec.Prompt, Options: &opts})
	ctx, cancel := gocontext.WithCancel(gocontext.Background())
	req := httptest.NewRequest("POST", "/completion", bytes.NewReader(body)).WithContext(ctx)
	run := &zlRun{spec: spec, rec: httptest.NewRecorder(), cancel: cancel, id: len(w.runs)}
	w.runs = append(w.runs, run)
	mcrt.GoNamed(fmt.Sprintf("req%d", run.id), func() {
		w.s.completion(run.rec, req)
		run.returned = true
	})
	return run
}

type zlResult struct {
	Text   string
	Pieces []string
	Done   bool
	Reason llm.DoneReason
	Eval   int
	Status int
	Raw    string
}

func (r *zlRun) result() zlResult {
	res := zlResult{Status: r.rec.Code, Raw: r.rec.Body.String()}
	dec := json.NewDecoder(strings.NewReader(res.Raw))
	for {
		var cr llm.CompletionResponse
		if err := dec.Decode(&cr); err != nil {
			break
		}
		if cr.Done {
			res.Done = true
			res.Reason = cr.DoneReason
			res.Eval = cr.EvalCount
		} else {
			res.Text += cr.Content
			res.Pieces = append(res.Pieces, cr.Content)
		}
	}
	return res
}

func (w *zlWorld) active() bool {
	for _, sq := range w.s.seqs {
		if sq != nil {
			return true
		}
	}
	return false
}

// checkSlots: M2 — a slot in use belongs to exactly one active request
func (w *zlWorld) checkSlots() {
	owners := map[int]int{}
	for _, sq := range w.s.seqs {
		if sq == nil {
			continue
		}
		owners[sq.cache.Id]++
		if !sq.cache.InUse {
			mcrt.Fail("C07: slot %d is used by an active request but not marked in use", sq.cache.Id)
		}
	}
	inUse := 0
	for i := range w.s.cache.slots {
		sl := &w.s.cache.slots[i]
		if sl.InUse {
			inUse++
		}
		if owners[sl.Id] > 1 {
			mcrt.Fail("C07: slot %d is given to %d requests at the same time", sl.Id, owners[sl.Id])
		}
		if len(sl.Inputs) > w.s.cache.numCtx {
			mcrt.Fail("C07: slot %d records %d inputs, more than the context size %d", sl.Id, len(sl.Inputs), w.s.cache.numCtx)
		}
	}
	if inUse != len(owners) {
		mcrt.Fail("C07: %d slots are marked in use but %d are owned by active requests", inUse, len(owners))
	}
}

// step runs one batch; an error from processBatch makes the real run loop panic (the runner process dies)
func (w *zlWorld) step() bool {
	if w.dead {
		return false
	}
	err := w.s.processBatch(w.tokens, w.embeds)
	w.tokens.Clear()
	w.embeds.Clear()
	if err != nil {
		mcrt.Fail("C07: processBatch failed (the runner's run loop panics on this): %v", err)
		w.dead = true
		return false
	}
	return true
}

func (w *zlWorld) drain() {
	if w.dead {
		return
	}
	for i := 0; i < 200 && w.active() && !w.dead; i++ {
		mcrt.Sleep(gotime.Millisecond)
		if !w.step() {
			return
		}
		mcrt.WaitIdle(false)
		w.checkSlots()
	}
	if w.active() {
		mcrt.Fail("C07: requests still active after 200 batches")
	}
}

// ---- C07 -----------------------------------------------------------------------------

var zlPiecesC07 = []string{"", "x", "y", "z"}

var zlMenu = []zlReq{
	{Prompt: "xy", NumPredict: 2, NumKeep: 0},
	{Prompt: "xyx", NumPredict: 4, NumKeep: 1},
	{Prompt: "xyxy", NumPredict: 1, NumKeep: -1},
	{Prompt: "y", NumPredict: 4, NumKeep: 0},
	{Prompt: "xyxyxyx", NumPredict: 2, NumKeep: 1},
	{Prompt: "xy", NumPredict: 3, NumKeep: 0, Stop: []string{"y"}},
	// every pair of generated tokens is a stop sequence: the first token is held back and decoded, the second
	// completes the stop, both are cut from the record - a decoded token stays in the cache beyond the recorded inputs
	{Prompt: "xy", NumPredict: 4, NumKeep: 0, Stop: []string{"xx", "xy", "xz", "yx", "yy", "yz", "zx", "zy", "zz"}},
}

// zlAlone: what a fresh runner of the same configuration generates for spec (memoised per process)
var zlAloneMemo = map[string]zlResult{}

func zlAlone(cfg zlConfig, spec zlReq) zlResult {
	one := cfg
	one.Slots = 1
	one.MultiUser = false
	key := fmt.Sprint(one, spec)
	if r, ok := zlAloneMemo[key]; ok {
		return r
	}
	if mcrt.Active() {
		panic("zlAlone: reference not precomputed for " + key)
	}
	var res zlResult
	ch := &zlDefaultChooser{}
	mr := mcrt.Run(ch, mcrt.Config{MaxSteps: 100000}, func() {
		w := zlNewWorld(one, zlPiecesC07)
		run := w.submit(spec)
		mcrt.WaitIdle(false)
		w.drain()
		mcrt.WaitIdle(false)
		res = run.result()
	})
	if len(mr.Panics) > 0 {
		res.Raw = "PANIC " + mr.Panics[0].Value
	}
	// failures of the reference run itself (e.g. a known M1 defect on this path) make the comparison meaningless
	if len(mr.Failures) > 0 {
		res.Raw = "REFERENCE-FAILED " + mr.Failures[0]
	}
	zlAloneMemo[key] = res
	return res
}

type zlDefaultChooser struct{}

func (*zlDefaultChooser) Pick(kind string, opts []mcrt.Option) int { return 0 }
func (*zlDefaultChooser) Visit(k mcrt.Key) bool                    { return true }

type zlC07Scenario struct {
	Cfg       zlConfig `json:"config"`
	MaxEvents int      `json:"max_events"`
	MaxReqs   int      `json:"max_reqs"`
	Menu      []int    `json:"menu"`
}

func zlC07Body(sc zlC07Scenario) func() {
	return func() {
		w := zlNewWorld(sc.Cfg, zlPiecesC07)
		for ev := 0; ev < sc.MaxEvents; ev++ {
			mcrt.Sleep(gotime.Millisecond)
			labels := []string{"end"}
			var acts []func()
			acts = append(acts, nil)
			if w.active() {
				labels = append(labels, "batch")
				acts = append(acts, func() { w.step() })
			}
			if len(w.runs) < sc.MaxReqs {
				for _, mi := range sc.Menu {
					spec := zlMenu[mi]
					labels = append(labels, fmt.Sprintf("submit %q np=%d keep=%d stop=%v", spec.Prompt, spec.NumPredict, spec.NumKeep, spec.Stop))
					acts = append(acts, func() { w.submit(spec) })
				}
			}
			for _, run := range w.runs {
				run := run
				if !run.returned && !run.cancelled {
					labels = append(labels, fmt.Sprintf("cancel req%d", run.id))
					acts = append(acts, func() { run.cancelled = true; run.cancel() })
				}
			}
			c := mcrt.Choose(mcrt.Free, "event", labels...)
			if c == 0 {
				break
			}
			mcrt.Observe("%s", labels[c])
			acts[c]()
			if w.dead {
				return
			}
			mcrt.WaitIdle(false)
			w.checkSlots()
		}
		w.drain()
		if w.dead {
			return
		}
		mcrt.WaitIdle(false)
		// end state: every request returned, every slot free, all slots of the semaphore available
		for _, run := range w.runs {
			if !run.returned {
				mcrt.Fail("C07: request %d never returned", run.id)
				continue
			}
			res := run.result()
			mcrt.Observe("req%d -> %q done=%v reason=%v", run.id, res.Text, res.Done, res.Reason)
			if run.cancelled {
				continue
			}
			if res.Status != 200 || !res.Done {
				mcrt.Fail("C07: request %d (%q) ended with status %d done=%v: %s", run.id, run.spec.Prompt, res.Status, res.Done, strings.TrimSpace(res.Raw))
				continue
			}
			// M3: same tokens as a fresh runner with an empty cache
			alone := zlAlone(sc.Cfg, run.spec)
			if strings.HasPrefix(alone.Raw, "REFERENCE-FAILED") || strings.HasPrefix(alone.Raw, "PANIC") {
				continue
			}
			if alone.Text != res.Text || alone.Reason != res.Reason {
				mcrt.Fail("C07: M3 request %d (%q np=%d keep=%d) generated %q (%v) but a fresh runner generates %q (%v)", run.id, run.spec.Prompt, run.spec.NumPredict, run.spec.NumKeep, res.Text, res.Reason, alone.Text, alone.Reason)
			}
		}
		for i := range w.s.cache.slots {
			if w.s.cache.slots[i].InUse {
				mcrt.Fail("C07: slot %d still marked in use after all requests ended", i)
			}
		}
		if !w.s.seqsSem.TryAcquire(int64(sc.Cfg.Slots)) {
			mcrt.Fail("C07: not all %d sequence permits were returned", sc.Cfg.Slots)
		}
	}
}

type zlReplay struct {
	Kind    string         `json:"kind"`
	C07     *zlC07Scenario `json:"c07,omitempty"`
	C14     *zlC14Case     `json:"c14,omitempty"`
	Choices string         `json:"choices"`
}

func zlConfigs(thorough bool) []zlConfig {
	var l []zlConfig
	ctxs := []int{3, 4}
	batches := []int{1, 2}
	if thorough {
		ctxs = []int{3, 4, 6}
		batches = []int{1, 2, 3}
	}
	for _, slots := range []int{1, 2} {
		for _, nc := range ctxs {
			for _, b := range batches {
				for _, mu := range []bool{false, true} {
					if slots == 1 && mu && !thorough {
						continue
					}
					for _, ck := range []string{"shift", "noshift", "nopartial"} {
						l = append(l, zlConfig{Slots: slots, NumCtx: nc, Batch: b, MultiUser: mu, Cache: ck})
					}
				}
			}
		}
	}
	return l
}

func zlSignature(prop, msg string) string {
	// failure class: the message without numbers, quoted strings and bracketed lists, cut to a fixed length
	s := strings.TrimPrefix(msg, prop+": ")
	var b strings.Builder
	depth := 0
	inq := false
	for _, c := range s {
		switch {
		case c == '"':
			inq = !inq
		case inq:
		case c == '[' || c == '(' || c == '{':
			depth++
		case c == ']' || c == ')' || c == '}':
			if depth > 0 {
				depth--
			}
		case depth > 0:
		case c >= '0' && c <= '9':
		default:
			b.WriteRune(c)
		}
	}
	out := strings.Join(strings.Fields(b.String()), " ")
	if len(out) > 100 {
		out = out[:100]
	}
	return out
}

func ZZVerifC07() {
	r := evid.Start("C07", "model_checking")
	thorough := evid.Thorough()
	if p := evid.ReplayPath(); p != "" {
		zlReplayFile(p, "C07")
		return
	}
	cfgs := zlConfigs(thorough)
	maxEvents, maxReqs := 5, 2
	menu := []int{0, 1, 2, 3, 4, 5, 6}
	if thorough {
		maxEvents, maxReqs = 7, 3
	}
	budget := 200 * gotime.Second
	if thorough {
		budget = 18 * gotime.Minute
	}
	deadline := gotime.Now().Add(budget)
	items := make([]string, len(cfgs))
	for i := range cfgs {
		items[i] = fmt.Sprint(i)
	}
	r.Fanout(items, evid.FanoutOpts{Env: []string{"GOMAXPROCS=2"}, MemLimitMB: 4096}, func(item string, sub *evid.Run) {
		var ci int
		fmt.Sscan(item, &ci)
		sc := zlC07Scenario{Cfg: cfgs[ci], MaxEvents: maxEvents, MaxReqs: maxReqs, Menu: menu}
		for _, mi := range menu {
			zlAlone(sc.Cfg, zlMenu[mi]) // reference outputs, computed outside any execution
		}
		x := &mcrt.Explorer{Body: zlC07Body(sc), Cfg: mcrt.Config{MaxSteps: 200000}, Deadline: deadline, NoCache: true}
		x.OnExec = func(choices []int, res *mcrt.Result) {
			key := fmt.Sprint(ci) + "\n" + strings.Join(res.Log, "\n")
			if sub.Distinct("outcome", key) {
				n := 0
				for _, l := range res.Log {
					if strings.HasPrefix(l, "submit") {
						n++
					}
				}
				if n >= 2 {
					sub.Distinct("nontrivial", key)
				}
				if sub.WantSample() {
					sub.Sample(map[string]any{"config": sc.Cfg, "log": res.Log})
				} else {
					sub.Sample(nil)
				}
			}
			var fails []string
			for _, f := range res.Failures {
				if strings.HasPrefix(f, "C07:") {
					fails = append(fails, f)
				}
			}
			for _, p := range res.Panics {
				fails = append(fails, "C07: panic in "+p.Thread+": "+p.Value)
			}
			if len(fails) == 0 {
				return
			}
			if !x.Confirm(choices, res, 5) {
				sub.Extra("machinery_errors", []string{"nondeterministic replay: " + fmt.Sprint(sc.Cfg) + " " + mcrt.EncodeChoices(choices)})
				return
			}
			sig := "C07/" + zlSignature("C07", fails[0]) + "/" + sc.Cfg.Cache
			js, _ := json.Marshal(sc.Cfg)
			sub.Violation(sig, fmt.Sprintf("%s\nconfig %s\nevents:\n  %s", strings.Join(fails, "\n"), js, strings.Join(res.Log, "\n  ")),
				zlReplay{Kind: "c07", C07: &sc, Choices: mcrt.EncodeChoices(choices)})
		}
		x.Explore(nil)
		sub.Add("evaluations", x.Execs)
		sub.Add("traces_validated_against_impl", x.Execs)
		sub.Add("transitions", x.Transitions)
		for k := range x.States {
			sub.DistinctH("state", k.A^k.B^k.Cur)
		}
		if x.Stopped {
			sub.NotExhaustive(fmt.Sprintf("time budget reached in config %v", sc.Cfg))
		}
	})
	r.Rule(fmt.Sprintf("every history of up to %d events (submit one of %d request kinds, run one batch, cancel a request; at most %d requests) followed by a drain, for every runner configuration (slots, context size, batch size, single/multi-user slot policy, cache that can shift / cannot shift / cannot shift nor erase partially), executed on the real llamarunner.Server + InputCache over a Go model of llama.cpp's unified KV cache (cells with one position and a set of sequence ids; seq_rm/seq_cp/seq_add as in llama-kv-cache.cpp) with a scripted model whose next token is a function of the history the cache exposes; non-trivial = distinct event logs with at least two requests", maxEvents, len(menu), maxReqs))
	r.Extra("bounds", map[string]any{"max_events": maxEvents, "max_requests": maxReqs, "configs": len(cfgs), "menu": zlMenu})
	r.Assume("batches are serialised with request admission by the server mutex, so events are explored at the granularity submit / one processBatch / cancel (the run loop is a plain for-loop around processBatch)",
		"llama.cpp itself is represented by engine/fakellama (KV cache semantics read off llama-kv-cache.cpp; decode = place in free cells after defragmentation); its conformance to the real library is the subject of the conformance replay, not of this run",
		"a fresh runner = same configuration with one slot, the request alone")
	r.Finish()
}

func zlReplayFile(p, prop string) {
	var rp zlReplay
	if err := evid.LoadReplay(p, &rp); err != nil {
		fmt.Println("replay:", err)
		os.Exit(2)
	}
	var body func()
	if rp.Kind == "c07" {
		for _, mi := range rp.C07.Menu {
			zlAlone(rp.C07.Cfg, zlMenu[mi])
		}
		body = zlC07Body(*rp.C07)
		js, _ := json.Marshal(rp.C07)
		fmt.Printf("scenario %s\n", js)
	} else {
		body = zlC14Body(*rp.C14)
		js, _ := json.Marshal(rp.C14)
		fmt.Printf("case %s\n", js)
	}
	x := &mcrt.Explorer{Body: body, Cfg: mcrt.Config{MaxSteps: 200000}, NoCache: true}
	res, labels := x.Replay(mcrt.DecodeChoices(rp.Choices))
	for _, l := range labels {
		fmt.Println("  choice", l)
	}
	for _, l := range res.Log {
		fmt.Println("  #", l)
	}
	bad := false
	for _, f := range res.Failures {
		if strings.HasPrefix(f, prop+":") {
			fmt.Println("FAILS:", f)
			bad = true
		}
	}
	for _, pn := range res.Panics {
		fmt.Println("PANIC:", pn.Value, "\n", pn.Stack)
		bad = true
	}
	if bad {
		os.Exit(1)
	}
	fmt.Println("holds on this execution")
	os.Exit(0)
}

var _ = http.StatusOK
