package llamarunner

// C14: every sequence of generated token pieces x stop sets x prediction
// limits through the real completion handler and processBatch; string-level
// reference for what must be streamed.

import (
	"encoding/json"
	"fmt"
	"strings"
	gotime "time"
	"unicode/utf8"

	"github.com/ollama/ollama/llm"
	"github.com/ollama/ollama/zzverif/evid"
	"github.com/ollama/ollama/zzverif/mcrt"
)

// token 0 is EOS, token 1 ("p") is the prompt
var zlPiecesC14 = []string{"", "p",
	"a", "b", "ab", " ", "\n",
	"\xc3", "\xa9", // é in two tokens
	"\xe2", "\x82\xac", // € split 1+2
	"\xf0\x9f", "\x98\x80", // 😀 split 2+2
	"\x80", // lone continuation byte (invalid)
	"é", "ba",
	// pieces of the second alphabet (gen2 below): a piece that completes a stop sequence begun earlier and holds the same
	// sequence once more; a piece that completes a stop sequence and ends in the first byte of a character
	"bab", "b\xc3",
}

func zlHas16(script []int) bool {
	for _, t := range script {
		if t >= 16 {
			return true
		}
	}
	return false
}

type zlC14Case struct {
	Script     []int    `json:"script"`
	Stop       []string `json:"stop"`
	NumPredict int      `json:"num_predict"`
}

func (c zlC14Case) String() string {
	var p []string
	for _, t := range c.Script {
		p = append(p, fmt.Sprintf("%q", zlPiecesC14[t]))
	}
	return fmt.Sprintf("pieces [%s] stop %q num_predict %d", strings.Join(p, " "), c.Stop, c.NumPredict)
}

type zlC14Expect struct {
	G       string // text generated until termination
	Reason  llm.DoneReason
	StopHit bool
}

func zlC14Reference(c zlC14Case) zlC14Expect {
	var e zlC14Expect
	for k := 0; ; k++ {
		if c.NumPredict > 0 && k == c.NumPredict {
			e.Reason = llm.DoneReasonLength
			return e
		}
		tok := 0
		if k < len(c.Script) {
			tok = c.Script[k]
		}
		if tok == 0 {
			e.Reason = llm.DoneReasonStop
			return e
		}
		e.G += zlPiecesC14[tok]
		for _, s := range c.Stop {
			if s != "" && strings.Contains(e.G, s) {
				e.Reason = llm.DoneReasonStop
				e.StopHit = true
				return e
			}
		}
	}
}

func zlC14Body(c zlC14Case) func() {
	return func() {
		cfg := zlConfig{Slots: 1, NumCtx: 64, Batch: 4, Cache: "shift"}
		w := zlNewWorld(cfg, zlPiecesC14)
		w.script = c.Script
		if w.script == nil {
			w.script = []int{}
		}
		w.promptLen = 1
		run := w.submit(zlReq{Prompt: "p", NumPredict: c.NumPredict, Stop: c.Stop})
		mcrt.WaitIdle(false)
		w.drain()
		mcrt.WaitIdle(false)
		if !run.returned {
			mcrt.Fail("C14: request never returned")
			return
		}
		res := run.result()
		exp := zlC14Reference(c)
		mcrt.Observe("out=%q pieces=%q reason=%v expected G=%q reason=%v", res.Text, res.Pieces, res.Reason, exp.G, exp.Reason)
		if res.Status != 200 || !res.Done {
			mcrt.Fail("C14: completion ended with status %d done=%v: %s", res.Status, res.Done, strings.TrimSpace(res.Raw))
			return
		}
		O := res.Text
		// classify the generated text: valid, valid + a trailing incomplete character, or dirty (invalid bytes inside)
		V := exp.G
		for !utf8.ValidString(V) {
			V = V[:len(V)-1]
		}
		tail := exp.G[len(V):]
		validG := tail == ""
		dirty := tail != "" && (utf8.FullRuneInString(tail) || !utf8.RuneStart(tail[0]) || tail[0] < 0xc0)
		for _, p := range res.Pieces {
			if !utf8.ValidString(p) {
				mcrt.Fail("C14: split-character: streamed piece %q is not whole UTF-8 (generated %q)", p, exp.G)
			}
		}
		if !dirty {
			if !strings.HasPrefix(exp.G, O) {
				mcrt.Fail("C14: not-a-prefix: streamed %q is not a prefix of the generated text %q", O, exp.G)
				return
			}
			if exp.StopHit {
				for _, s := range c.Stop {
					if s != "" && strings.Contains(O, s) {
						mcrt.Fail("C14: stop-in-output: streamed %q contains stop sequence %q (generated %q)", O, s, exp.G)
					}
				}
				before := false
				for _, s := range c.Stop {
					if s != "" && strings.HasPrefix(exp.G[len(O):], s) {
						before = true
					}
				}
				if !before && validG {
					mcrt.Fail("C14: stop-cut: streamed %q does not end immediately before a stop sequence of %q in generated %q", O, c.Stop, exp.G)
				}
			} else if O != V {
				mcrt.Fail("C14: lost-text: generated %q (no stop sequence) but streamed %q", exp.G, O)
			}
			for _, p := range res.Pieces {
				for _, s := range c.Stop {
					if s != "" && strings.Contains(p, s) {
						mcrt.Fail("C14: stop-in-piece: streamed piece %q contains stop %q", p, s)
					}
				}
			}
		}
		if res.Reason != exp.Reason {
			mcrt.Fail("C14: finish-reason: reported %v, expected %v (generated %q, stops %q, limit %d)", res.Reason, exp.Reason, exp.G, c.Stop, c.NumPredict)
		}
	}
}

func zlC14StopSets(thorough bool) [][]string {
	singles := []string{"a", "b", "ab", "ba", "b\n", "é", "€"}
	sets := [][]string{nil}
	for _, s := range singles {
		sets = append(sets, []string{s})
	}
	pairs := [][2]string{{"a", "b"}, {"a", "ab"}, {"b", "ab"}, {"b", "ba"}, {"b\n", "b"}, {"é", "a"}, {"ab", "ba"}}
	if thorough {
		pairs = nil
		for i := range singles {
			for j := i + 1; j < len(singles); j++ {
				pairs = append(pairs, [2]string{singles[i], singles[j]})
			}
		}
	}
	for _, p := range pairs {
		sets = append(sets, []string{p[0], p[1]}, []string{p[1], p[0]})
	}
	return sets
}

func ZZVerifC14() {
	r := evid.Start("C14", "exploration")
	thorough := evid.Thorough()
	if p := evid.ReplayPath(); p != "" {
		zlReplayFile(p, "C14")
		return
	}
	maxLen := 4
	limits := []int{-1, 1, 3}
	if thorough {
		maxLen = 4
		limits = []int{-1, 1, 2, 3}
	}
	gen := []int{2, 3, 4, 5, 6, 7, 8, 9, 10, 11, 12, 13, 14, 15} // every piece except EOS and the prompt token
	if !thorough {
		gen = []int{2, 3, 4, 6, 7, 8, 9, 10, 13, 14, 15}
	}
	// second alphabet: the two composite pieces next to the pieces they combine with
	gen2 := []int{2, 3, 8, 16, 17}
	stops := zlC14StopSets(thorough)
	// work items: first generated piece x stop set (x alphabet)
	var items []string
	for _, g := range gen {
		for si := range stops {
			items = append(items, fmt.Sprintf("%d %d 1", g, si))
		}
	}
	for _, g := range gen2 {
		for si := range stops {
			items = append(items, fmt.Sprintf("%d %d 2", g, si))
		}
	}
	items = append(items, "0 0 1") // empty script
	budget := 200 * gotime.Second
	if thorough {
		budget = 18 * gotime.Minute
	}
	deadline := gotime.Now().Add(budget)
	ch := &zlDefaultChooser{}
	r.Fanout(items, evid.FanoutOpts{Env: []string{"GOMAXPROCS=2"}, MemLimitMB: 4096}, func(item string, sub *evid.Run) {
		var first int
		var si, alpha int
		fmt.Sscan(item, &first, &si, &alpha)
		stop := stops[si]
		gen := gen
		if alpha == 2 {
			gen = gen2
		}
		var rec func(script []int)
		runCase := func(script []int) {
			for _, np := range limits {
				if gotime.Now().After(deadline) {
					sub.NotExhaustive("time budget reached in item " + item)
					return
				}
				c := zlC14Case{Script: append([]int{}, script...), Stop: stop, NumPredict: np}
				res := mcrt.Run(ch, mcrt.Config{MaxSteps: 200000}, zlC14Body(c))
				sub.Eval()
				exp := zlC14Reference(c)
				if exp.StopHit || !utf8.ValidString(exp.G) || exp.Reason == llm.DoneReasonLength {
					sub.Distinct("nontrivial", c.String())
				}
				if sub.WantSample() {
					sub.Sample(map[string]any{"case": c.String(), "log": res.Log})
				} else {
					sub.Sample(nil)
				}
				var fails []string
				for _, f := range res.Failures {
					if strings.HasPrefix(f, "C14:") {
						fails = append(fails, f)
					}
				}
				for _, p := range res.Panics {
					fails = append(fails, "C14: panic: "+p.Value)
				}
				if len(fails) == 0 {
					continue
				}
				for i := 0; i < 5; i++ {
					r2 := mcrt.Run(ch, mcrt.Config{MaxSteps: 200000}, zlC14Body(c))
					if r2.LogHash != res.LogHash {
						sub.Extra("machinery_errors", []string{"C14 case not reproducible: " + c.String()})
						return
					}
				}
				sig := "C14/" + zlSignature("C14", fails[0])
				if len(stop) == 2 {
					sig += "/two-stops"
				}
				if !utf8.ValidString(exp.G) {
					sig += "/invalid-utf8-generated"
				}
				js, _ := json.Marshal(c)
				sub.Violation(sig, strings.Join(fails, "\n")+"\ncase "+c.String()+"\n"+string(js), zlReplay{Kind: "c14", C14: &c})
			}
		}
		rec = func(script []int) {
			runCase(script)
			if len(script) >= maxLen {
				return
			}
			for _, g := range gen {
				if alpha == 2 && g < 16 && !zlHas16(script) && len(script) == maxLen-1 {
					continue // (sequences without a composite piece belong to the first alphabet)
				}
				rec(append(script, g))
			}
		}
		if first == 0 {
			runCase(nil)
			return
		}
		rec([]int{first})
	})
	// the helper functions directly, over the same strings (cheap, in the coordinator)
	// (runner/common's helpers are enumerated directly by the ollamarunner part)
	r.Rule(fmt.Sprintf("all sequences of generated token pieces up to length %d over %d pieces (ASCII, a multi-char piece, whitespace, the bytes of multi-byte characters split across tokens, an invalid byte) and over a second alphabet {a, b, a continuation byte, \"bab\", \"b\\xc3\"} (a piece that completes a stop sequence and holds it once more; one that completes it and ends inside a character) x %d stop sets (every single stop, ordered pairs) x prediction limits %v, each run through the real completion handler + processBatch with a scripted model; non-trivial = a stop sequence is hit, the limit ends generation, or the generated text is not valid UTF-8", maxLen, len(gen), len(stops), limits))
	r.Assume("the generated text is the concatenation of the pieces of the sampled tokens up to EOS / limit / the token that completes the first stop sequence",
		"'ends immediately before one': the streamed text followed by some stop sequence is a prefix of the generated text (the property does not say which stop when several match)",
		"generated text that ends in an incomplete character (limit or EOS in the middle of it) must be streamed up to that character; for generated text with invalid bytes inside (which JSON cannot carry and the runner drops on purpose) only whole-UTF-8 pieces, the finish reason and termination are required",
		"llama.cpp is represented by engine/fakellama with a scripted model (the generation loop, stop handling and streaming are llamarunner's own Go code)")
	r.Extra("bounds", map[string]any{"max_len": maxLen, "pieces": len(gen), "stop_sets": len(stops), "limits": limits})
	r.Finish()
}
