package main

// Execution of one input: direct decoding (with panic capture and allocation
// accounting) and the HTTP path on the real gin router, in-process.

import (
	"bytes"
	"crypto/sha256"
	"encoding/json"
	"fmt"
	"io"
	"net/http"
	"net/http/httptest"
	"os"
	"path/filepath"
	"regexp"
	"runtime"
	"runtime/debug"
	"strings"
	"sync"

	"github.com/gin-gonic/gin"

	"github.com/ollama/ollama/fs/ggml"
	"github.com/ollama/ollama/llm"
	"github.com/ollama/ollama/server"
)

// Allocation bound for one Decode call: allocBase + allocPerByte*len(input).
// A legitimate N-element array costs a 16-byte interface slot, a boxed value and
// two temporaries of encoding/binary per element (<= ~48 bytes per input byte for
// 1-byte elements); a v1 string costs a 512-byte bytes.Buffer for >= 9 input
// bytes (~75x). 256x plus 1 MiB is far above both and far below what a forged
// length or count requests (>= 16 MiB in the alphabet).
const (
	allocBase    = 1 << 20
	allocPerByte = 256
)

func allocLimit(n int) uint64 { return allocBase + allocPerByte*uint64(n) }

type finding struct {
	Sig   string `json:"sig"`
	Msg   string `json:"msg"`
	Where string `json:"where,omitempty"`
	Phase string `json:"phase"`
}

type decodeResult struct {
	Outcome string // "decoded" | "error:<class>" | "panic"
	Err     string
	Panic   string
	Trace   string
	Alloc   uint64
	End     int64
}

var memBefore, memAfter runtime.MemStats

func totalAlloc(m *runtime.MemStats) uint64 {
	runtime.ReadMemStats(m)
	return m.TotalAlloc
}

// collectIfNeeded runs a synchronous collection when the heap has grown (the
// workers run with GOGC=off, see workerEnv).
func collectIfNeeded(m *runtime.MemStats) {
	if m.HeapAlloc > 40<<20 {
		runtime.GC()
	}
}

// decodeOnce runs the real ggml.Decode on data. measure=false skips the
// allocation accounting (used inside batches that are accounted as a group).
func decodeOnce(data []byte, maxArray int, measure bool) (res decodeResult) {
	rd := bytes.NewReader(data)
	var before uint64
	if measure {
		before = totalAlloc(&memBefore)
	}
	defer func() {
		if measure {
			res.Alloc = totalAlloc(&memAfter) - before
		}
		if p := recover(); p != nil {
			res.Outcome = "panic"
			res.Panic = fmt.Sprint(p)
			res.Trace = string(debug.Stack())
		}
	}()
	_, end, err := ggml.Decode(rd, maxArray)
	if err != nil {
		res.Outcome = "error:" + errClass(err)
		res.Err = err.Error()
		return
	}
	res.Outcome = "decoded"
	res.End = end
	return
}

var reNum = regexp.MustCompile(`\d+`)

func errClass(err error) string {
	s := reNum.ReplaceAllString(err.Error(), "N")
	if len(s) > 48 {
		s = s[:48]
	}
	return s
}

// allocSite re-runs f with every allocation profiled and returns the ollama
// function that allocated the most bytes (used to name an allocation bucket
// when the process survived the allocation).
func allocSite(f func()) (fn, where string) {
	type key [32]uintptr
	snap := func() map[key]int64 {
		runtime.GC()
		runtime.GC()
		n, _ := runtime.MemProfile(nil, true)
		recs := make([]runtime.MemProfileRecord, n+64)
		n, ok := runtime.MemProfile(recs, true)
		if !ok {
			return nil
		}
		m := map[key]int64{}
		for _, r := range recs[:n] {
			m[key(r.Stack0)] += r.AllocBytes
		}
		return m
	}
	old := runtime.MemProfileRate
	runtime.MemProfileRate = 1
	defer func() { runtime.MemProfileRate = old }()
	a := snap()
	func() {
		defer func() { recover() }()
		f()
	}()
	b := snap()
	var best key
	var bestN int64
	for k, v := range b {
		if d := v - a[k]; d > bestN {
			// only stacks that pass through ollama code
			if f, _ := firstOllamaFrame(k[:]); f != "" {
				best, bestN = k, d
			}
		}
	}
	if bestN == 0 {
		return "unknown-site", ""
	}
	return firstOllamaFrame(best[:])
}

func firstOllamaFrame(pcs []uintptr) (fn, where string) {
	n := 0
	for n < len(pcs) && pcs[n] != 0 {
		n++
	}
	if n == 0 {
		return "", ""
	}
	fr := runtime.CallersFrames(pcs[:n])
	for {
		f, more := fr.Next()
		if strings.HasPrefix(f.Function, ollamaPrefix) && !strings.Contains(f.Function, "/zzverif/") {
			full := strings.TrimPrefix(f.Function, ollamaPrefix)
			full = strings.ReplaceAll(full, "[...]", "")
			slash := strings.LastIndex(full, "/")
			if dot := strings.Index(full[slash+1:], "."); dot >= 0 {
				return full[slash+1+dot+1:], fmt.Sprintf("%s/%s:%d", full[:slash+1+dot], filepath.Base(f.File), f.Line)
			}
		}
		if !more {
			break
		}
	}
	return "", ""
}

// checkDecode applies the decode clauses of the oracle to data for one
// maxArraySize. It returns the (confirmed) finding or nil, and the outcome class.
func checkDecode(data []byte, maxArray int) (*finding, string, error) {
	phase := fmt.Sprintf("Decode(r,%d)", maxArray)
	res := decodeOnce(data, maxArray, true)
	verdict := func(r decodeResult) string {
		if r.Outcome == "panic" {
			s, _ := panicSignature(r.Panic, r.Trace)
			return s
		}
		if r.Alloc > allocLimit(len(data)) {
			return "alloc"
		}
		return ""
	}
	v := verdict(res)
	if os.Getenv("C10_VERBOSE") != "" && v == "alloc" {
		fmt.Fprintf(os.Stderr, "C10-DEBUG %s alloc=%d outcome=%s err=%s\n", phase, res.Alloc, res.Outcome, res.Err)
	}
	if res.Alloc > 16<<20 {
		runtime.GC() // free the big block now, the next run must be able to reuse its address space
	}
	if v == "" {
		return nil, res.Outcome, nil
	}
	// deterministic code: the same verdict 5 more times
	for i := 0; i < 5; i++ {
		r2 := decodeOnce(data, maxArray, true)
		if r2.Alloc > 16<<20 {
			runtime.GC()
		}
		if os.Getenv("C10_VERBOSE") != "" {
			fmt.Fprintf(os.Stderr, "C10-DEBUG rerun %s alloc=%d outcome=%s\n", phase, r2.Alloc, r2.Outcome)
		}
		if v2 := verdict(r2); v2 != v {
			if v == "alloc" && v2 == "" {
				// measurement noise only adds (lazy initialisation on a first call): a run
				// under the bound decides
				return nil, res.Outcome, nil
			}
			return nil, res.Outcome, fmt.Errorf("verdict not reproducible for %s: %q then %q", phase, v, v2)
		}
	}
	if res.Outcome == "panic" {
		sig, where := panicSignature(res.Panic, res.Trace)
		return &finding{Sig: sig, Where: where, Phase: phase,
			Msg: fmt.Sprintf("%s panics: %s", phase, res.Panic)}, "panic", nil
	}
	fn, where := allocSite(func() { ggml.Decode(bytes.NewReader(data), maxArray) })
	return &finding{Sig: "C10/alloc/" + fn + "/" + allocWhat(fn), Where: where, Phase: phase,
		Msg: fmt.Sprintf("%s allocates %d bytes for a %d-byte input (bound %d = 1 MiB + 256*len); result: %s",
			phase, res.Alloc, len(data), allocLimit(len(data)), res.Outcome)}, "alloc:" + res.Outcome, nil
}

// ---- HTTP path ---------------------------------------------------------------------

type recorder struct {
	*httptest.ResponseRecorder
}

func (r *recorder) CloseNotify() <-chan bool { return make(chan bool) }

type syncBuf struct {
	mu sync.Mutex
	b  bytes.Buffer
}

func (s *syncBuf) Write(p []byte) (int, error) {
	s.mu.Lock()
	defer s.mu.Unlock()
	if s.b.Len() < 1<<20 {
		s.b.Write(p)
	}
	return len(p), nil
}
func (s *syncBuf) take() string {
	s.mu.Lock()
	defer s.mu.Unlock()
	out := s.b.String()
	s.b.Reset()
	return out
}

type httpEnv struct {
	h         http.Handler
	models    string
	recovered *syncBuf
	n         int
}

var theEnv *httpEnv

func getEnv() *httpEnv {
	if theEnv != nil {
		return theEnv
	}
	dir := filepath.Join(scratchRoot(), "w"+os.Getenv("VERIF_WORKER_INDEX")+"-"+fmt.Sprint(os.Getpid()))
	if err := os.MkdirAll(dir, 0o755); err != nil {
		fmt.Fprintln(os.Stderr, "C10-MACHINERY cannot create scratch dir:", err)
		os.Exit(3)
	}
	os.Setenv("OLLAMA_MODELS", dir)
	os.Setenv("HOME", dir)
	os.Setenv("OLLAMA_NOPRUNE", "")
	gin.SetMode(gin.ReleaseMode)
	gin.DefaultWriter = io.Discard
	rec := &syncBuf{}
	gin.DefaultErrorWriter = rec
	s := &server.Server{}
	h, err := s.GenerateRoutes(nil)
	if err != nil {
		fmt.Fprintln(os.Stderr, "C10-MACHINERY GenerateRoutes:", err)
		os.Exit(3)
	}
	theEnv = &httpEnv{h: h, models: dir, recovered: rec}
	return theEnv
}

func (e *httpEnv) reset() {
	os.RemoveAll(filepath.Join(e.models, "blobs"))
	os.RemoveAll(filepath.Join(e.models, "manifests"))
}

func step(s string) { fmt.Fprintf(os.Stderr, "C10-STEP %s\n", s) }

func (e *httpEnv) do(method, path string, body []byte, ctype string) *httptest.ResponseRecorder {
	req := httptest.NewRequest(method, "http://127.0.0.1:11434"+path, bytes.NewReader(body))
	if ctype != "" {
		req.Header.Set("Content-Type", ctype)
	}
	w := &recorder{httptest.NewRecorder()}
	e.h.ServeHTTP(w, req)
	return w.ResponseRecorder
}

func validJSON(b []byte) bool {
	var v any
	return json.Unmarshal(bytes.TrimSpace(b), &v) == nil
}

func hasErrorMember(b []byte) bool {
	var v map[string]any
	if json.Unmarshal(bytes.TrimSpace(b), &v) != nil {
		return false
	}
	_, ok := v["error"]
	return ok
}

func clip(b []byte) string {
	s := string(b)
	if len(s) > 200 {
		s = s[:200] + "..."
	}
	return s
}

// checkResponse applies the response clause: the request must get a response
// that is either a success (2xx) or an error status (4xx/5xx). The property
// asks for "an error response", not for a particular body, so bodies are only
// observed: a 2xx whose body is not JSON, an error status without a JSON error
// member, or an empty 5xx written by gin's recovery middleware are counted as
// observations, not violations.
func checkResponse(name string, w *httptest.ResponseRecorder, stream bool, obs *[]string) *finding {
	code := w.Code
	body := w.Body.Bytes()
	switch {
	case code >= 200 && code <= 299:
		if name == "blob" {
			return nil
		}
		if stream {
			for _, ln := range bytes.Split(bytes.TrimSpace(body), []byte("\n")) {
				if len(bytes.TrimSpace(ln)) > 0 && !validJSON(ln) {
					*obs = append(*obs, fmt.Sprintf("%s: status %d but a streamed line is not JSON: %q", name, code, clip(ln)))
					break
				}
			}
			return nil
		}
		if !validJSON(body) {
			*obs = append(*obs, fmt.Sprintf("%s: status %d with a body that is not JSON: %q", name, code, clip(body)))
		}
		return nil
	case code >= 400 && code <= 599:
		if !hasErrorMember(body) {
			*obs = append(*obs, fmt.Sprintf("%s: status %d without a JSON error member: %q", name, code, clip(body)))
		}
		return nil
	}
	return &finding{Sig: fmt.Sprintf("C10/http/%s/neither-success-nor-error-status", name), Phase: "http " + name,
		Msg: fmt.Sprintf("%s: status %d body %q is neither a success nor an error response", name, code, clip(body))}
}

type httpOutcome struct {
	Findings     []finding
	Observations []string
	Class        string // summary of statuses, for the outcome set
	Created      int
}

// runHTTP drives the upload/create/show/tags path with data as the model file.
// Panics in goroutines spawned by the handlers kill this process; the
// coordinator attributes the death to the item (the C10-STEP lines on stderr
// tell which request was being served).
func runHTTP(data []byte, force bool) (out httpOutcome) {
	e := getEnv()
	e.n++
	defer e.reset()
	var classes []string
	add := func(f *finding) {
		if f != nil {
			out.Findings = append(out.Findings, *f)
		}
	}
	sum := sha256.Sum256(data)
	digest := fmt.Sprintf("sha256:%x", sum[:])

	step("blob")
	w := e.do("POST", "/api/blobs/"+digest, data, "application/octet-stream")
	add(checkResponse("blob", w, false, &out.Observations))
	classes = append(classes, fmt.Sprint(w.Code))
	if w.Code != http.StatusCreated && w.Code != http.StatusOK {
		add(&finding{Sig: "C10/http/blob/upload-refused", Phase: "http blob",
			Msg: fmt.Sprintf("blob upload with the correct digest answered %d %q", w.Code, clip(w.Body.Bytes()))})
		return
	}

	// llm.LoadModel on the stored blob (an *os.File instead of a bytes.Reader)
	blobPath := filepath.Join(e.models, "blobs", "sha256-"+fmt.Sprintf("%x", sum[:]))
	for _, max := range []int{0, -1} {
		step(fmt.Sprintf("loadmodel %d", max))
		if f := loadModel(blobPath, max); f != nil {
			add(f)
			if !force {
				// create would run the same decoder in a goroutine and take the process down
				out.Class = strings.Join(classes, ",") + ",loadmodel-panic"
				return
			}
			break // stage 2: go on and let the create handler meet the same input
		}
	}

	type creq struct {
		Model  string            `json:"model"`
		Files  map[string]string `json:"files"`
		Stream bool              `json:"stream"`
	}
	models := []string{fmt.Sprintf("c10s%d", e.n), fmt.Sprintf("c10n%d", e.n)}
	for i, stream := range []bool{true, false} {
		// the streamed request names the file *.gguf, the other one gives no
		// extension so that the content sniffing in detectModelTypeFromFiles runs too
		fname := "model.gguf"
		name := "create-stream"
		if !stream {
			fname = "model"
			name = "create"
		}
		body, _ := json.Marshal(creq{Model: models[i], Files: map[string]string{fname: digest}, Stream: stream})
		step(name)
		w := e.do("POST", "/api/create", body, "application/json")
		add(checkResponse(name, w, stream, &out.Observations))
		ok := w.Code == 200 && bytes.Contains(w.Body.Bytes(), []byte(`"status":"success"`))
		if ok {
			out.Created++
			classes = append(classes, "created")
			// the file does not decode: the request has to get an error response, not a model
			if r0 := decodeOnce(data, 0, false); strings.HasPrefix(r0.Outcome, "error:") {
				add(&finding{Sig: "C10/http/" + name + "/success-for-undecodable-file", Phase: "http " + name,
					Msg: fmt.Sprintf("ggml.Decode rejects the file (%s) but POST /api/create answers %d %q and the model is created", r0.Err, w.Code, clip(w.Body.Bytes()))})
			}
		} else {
			classes = append(classes, fmt.Sprint(w.Code))
		}
	}
	for _, verbose := range []bool{false, true} {
		name := "show"
		if verbose {
			name = "show-verbose"
		}
		body, _ := json.Marshal(map[string]any{"model": models[1], "verbose": verbose})
		step(name)
		w := e.do("POST", "/api/show", body, "application/json")
		add(checkResponse(name, w, false, &out.Observations))
		classes = append(classes, fmt.Sprint(w.Code))
	}
	step("tags")
	w = e.do("GET", "/api/tags", nil, "")
	add(checkResponse("tags", w, false, &out.Observations))
	classes = append(classes, fmt.Sprint(w.Code))

	step("liveness")
	w = e.do("GET", "/api/version", nil, "")
	if w.Code != 200 || !validJSON(w.Body.Bytes()) {
		add(&finding{Sig: "C10/http/liveness/no-answer", Phase: "http liveness",
			Msg: fmt.Sprintf("liveness probe GET /api/version answered %d %q", w.Code, clip(w.Body.Bytes()))})
	}
	if rec := e.recovered.take(); strings.Contains(rec, "panic recovered") {
		first := rec
		if i := strings.Index(first, "panic recovered:"); i >= 0 {
			first = first[i:]
		}
		if len(first) > 300 {
			first = first[:300]
		}
		out.Observations = append(out.Observations, "recovered panic in a handler: "+first)
	}
	out.Class = strings.Join(classes, ",")
	return
}

func loadModel(path string, max int) (f *finding) {
	defer func() {
		if p := recover(); p != nil {
			sig, where := panicSignature(fmt.Sprint(p), string(debug.Stack()))
			f = &finding{Sig: sig, Where: where, Phase: fmt.Sprintf("llm.LoadModel(file,%d)", max),
				Msg: fmt.Sprintf("llm.LoadModel(blob,%d) panics: %v", max, p)}
		}
	}()
	llm.LoadModel(path, max)
	return nil
}
