package main

// Root-cause bucketing: a violation signature is built from the innermost
// ollama function on the failing stack and a reason class derived from the
// panic / fatal-error text, so that all inputs that fail for the same reason
// share one signature and different defects get different ones.

import (
	"fmt"
	"regexp"
	"strconv"
	"strings"
)

const ollamaPrefix = "github.com/ollama/ollama/"

type frame struct {
	Func string // short: readGGUFString, (*gguf).Decode, KV.Uint, ggufLayers ...
	Pkg  string // fs/ggml, server ...
	Loc  string // file.go:123
}

var (
	reArgs   = regexp.MustCompile(`\([^()]*\)$`)
	reInGo   = regexp.MustCompile(` in goroutine \d+$`)
	reLoc    = regexp.MustCompile(`([^/\s]+\.go:\d+)`)
	reDigits = regexp.MustCompile(`\d+`)
	reHex    = regexp.MustCompile(`0x[0-9a-f]+`)
)

// ollamaFrames extracts the ollama frames (innermost first) of the first
// goroutine found in a Go traceback (debug.Stack output or a crash dump).
func ollamaFrames(trace string) []frame {
	lines := strings.Split(trace, "\n")
	var out []frame
	started := false
	for i := 0; i < len(lines); i++ {
		ln := strings.TrimRight(lines[i], "\r")
		if strings.HasPrefix(ln, "goroutine ") && strings.HasSuffix(ln, "]:") {
			if started && len(out) > 0 {
				break // only the first goroutine that has ollama frames
			}
			started = true
			continue
		}
		if !started {
			continue
		}
		fn := strings.TrimSpace(ln)
		fn = strings.TrimPrefix(fn, "created by ")
		if !strings.HasPrefix(fn, ollamaPrefix) {
			continue
		}
		fn = reInGo.ReplaceAllString(fn, "")
		fn = reArgs.ReplaceAllString(fn, "")
		fn = strings.ReplaceAll(fn, "[...]", "")
		full := strings.TrimPrefix(fn, ollamaPrefix)
		if strings.HasPrefix(full, "zzverif/") {
			continue
		}
		// split "fs/ggml.(*gguf).Decode" into pkg and func at the first dot after the last slash
		slash := strings.LastIndex(full, "/")
		dot := strings.Index(full[slash+1:], ".")
		if dot < 0 {
			continue
		}
		f := frame{Pkg: full[:slash+1+dot], Func: full[slash+1+dot+1:]}
		if i+1 < len(lines) {
			if lm := reLoc.FindString(lines[i+1]); lm != "" {
				f.Loc = lm
			}
		}
		out = append(out, f)
	}
	return out
}

func hasFunc(frames []frame, name string) bool {
	for _, f := range frames {
		if f.Func == name {
			return true
		}
	}
	return false
}

// keyOfAccessor tells which metadata key a failing keyValue call was reading,
// from the accessor chain on the stack.
func keyOfAccessor(frames []frame) string {
	for _, f := range frames {
		switch f.Func {
		case "KV.Architecture":
			return "general.architecture"
		case "KV.Kind":
			return "general.type"
		case "KV.ChatTemplate":
			return "tokenizer.chat_template"
		case "KV.FileType":
			return "general.file_type"
		case "KV.BlockCount":
			return "block_count"
		case "(*gguf).Decode":
			return "general.alignment"
		}
	}
	for _, f := range frames {
		if f.Func != "keyValue" && !strings.HasPrefix(f.Func, "KV.") {
			return "via-" + f.Func
		}
	}
	return "unknown"
}

func normMsg(s string) string {
	s = strings.TrimSpace(s)
	if i := strings.IndexByte(s, '\n'); i >= 0 {
		s = s[:i]
	}
	s = reHex.ReplaceAllString(s, "X")
	s = reDigits.ReplaceAllString(s, "N")
	s = strings.Map(func(r rune) rune {
		switch {
		case r >= 'a' && r <= 'z', r >= 'A' && r <= 'Z', r >= '0' && r <= '9', r == '-', r == '_', r == '.':
			return r
		}
		return '-'
	}, s)
	for strings.Contains(s, "--") {
		s = strings.ReplaceAll(s, "--", "-")
	}
	s = strings.Trim(s, "-")
	if len(s) > 60 {
		s = s[:60]
	}
	return s
}

func site(frames []frame) (fn, loc string) {
	if len(frames) == 0 {
		return "unknown-site", ""
	}
	return frames[0].Func, frames[0].Pkg + "/" + frames[0].Loc
}

func allocWhat(fn string) string {
	switch fn {
	case "readGGUFString", "readGGUFV1String":
		return "length"
	case "readGGUFArray", "readGGUFV1Array":
		return "count"
	case "(*gguf).Decode":
		return "dims"
	}
	return "size"
}

// panicSignature buckets a panic value + traceback.
func panicSignature(msg, trace string) (sig, where string) {
	frames := ollamaFrames(trace)
	fn, loc := site(frames)
	var reason string
	switch {
	case strings.Contains(msg, "slice bounds out of range [:-"):
		reason = "negative-length"
	case strings.Contains(msg, "slice bounds out of range"):
		reason = "slice-bounds"
	case strings.Contains(msg, "makeslice: len out of range"), strings.Contains(msg, "makeslice: cap out of range"):
		reason = "huge-" + allocWhat(fn)
	case strings.Contains(msg, "index out of range"):
		reason = "index-out-of-range"
	case strings.Contains(msg, "integer divide by zero"):
		if fn == "ggufPadding" {
			reason = "zero-alignment"
		} else {
			reason = "divide-by-zero"
		}
	case strings.Contains(msg, "interface conversion"):
		reason = "type-assertion"
		if fn == "keyValue" || strings.HasPrefix(fn, "keyValue") {
			fn = "keyValue"
			reason += "/" + keyOfAccessor(frames)
		}
	case strings.Contains(msg, "truncation out of range"):
		reason = "truncate-empty-string"
	case strings.Contains(msg, "nil pointer dereference"), strings.Contains(msg, "invalid memory address"):
		reason = "nil-dereference"
	default:
		reason = normMsg(msg)
	}
	return "C10/panic/" + fn + "/" + reason, loc
}

var rePanicLine = regexp.MustCompile(`(?m)^panic: (.*)$`)
var reFatalLine = regexp.MustCompile(`(?m)^fatal error: (.*)$`)
var reOOM = regexp.MustCompile(`cannot allocate (\d+)-byte block \((\d+) in use\)`)

// crashSignature buckets the death of a worker from its stderr tail.
func crashSignature(stderr string, timedOut bool, step string) (sig, where, summary string) {
	if timedOut {
		// no stack is available for a killed worker; the step tells where it was
		return "C10/nonterminating/" + stepClass(step), "", "no answer within the per-item timeout during step " + step
	}
	// use the last crash in the tail
	if m := rePanicLine.FindAllStringSubmatchIndex(stderr, -1); len(m) > 0 {
		last := m[len(m)-1]
		msg := stderr[last[2]:last[3]]
		rest := stderr[last[0]:]
		// "panic: X [recovered]" chains: keep first line
		sig, where = panicSignature(msg, rest)
		return sig, where, "panic: " + msg
	}
	if m := reFatalLine.FindAllStringSubmatchIndex(stderr, -1); len(m) > 0 {
		last := m[len(m)-1]
		msg := stderr[last[2]:last[3]]
		rest := stderr[last[0]:]
		frames := ollamaFrames(rest)
		fn, loc := site(frames)
		if strings.Contains(msg, "out of memory") || strings.Contains(msg, "cannot allocate") {
			if all := reOOM.FindAllStringSubmatch(stderr, -1); len(all) > 0 {
				m := all[len(all)-1]
				req, _ := strconv.ParseUint(m[1], 10, 64)
				inUse, _ := strconv.ParseUint(m[2], 10, 64)
				if req < 64<<20 && inUse > 128<<20 {
					// the heap was not exhausted by one request but by accumulation: the
					// allocating site is incidental (it differs from run to run); the
					// defect is a loop that does not terminate, named by the step it ran in
					var chain []string
					for _, f := range frames {
						chain = append(chain, f.Func)
					}
					return "C10/nonterminating/" + stepClass(step), loc,
						fmt.Sprintf("memory exhausted by accumulation (%d bytes in use when a %d-byte request failed under the 1 GiB limit) during step %s; stack: %s",
							inUse, req, step, strings.Join(chain, " <- "))
				}
			}
			return "C10/alloc/" + fn + "/" + allocWhat(fn), loc, "fatal error: " + msg + " (1 GiB address-space limit)"
		}
		return "C10/fatal/" + fn + "/" + normMsg(msg), loc, "fatal error: " + msg
	}
	return "", "", ""
}

func stepClass(step string) string {
	if step == "" {
		return "unknown-step"
	}
	if i := strings.IndexByte(step, ' '); i >= 0 {
		step = step[:i]
	}
	if step == "create-stream" {
		step = "create"
	}
	return step
}

var reStep = regexp.MustCompile(`(?m)^C10-STEP (.*)$`)

func lastStep(stderr string) string {
	m := reStep.FindAllStringSubmatch(stderr, -1)
	if len(m) == 0 {
		return ""
	}
	return strings.TrimSpace(m[len(m)-1][1])
}
