package main

// Harness-side GGUF encoder (v1/v2/v3, little/big endian, every scalar and
// array element type), a tiny parser that is used ONLY to locate fields in a
// seed file (the "field map"), the seed list and the mutation alphabet.
//
// The encoder mirrors what ollama's decoder accepts (that is the only notion
// of "valid" that matters here): v1 uses 32-bit tensor/KV/array counts and
// NUL-terminated strings behind a 64-bit length; v2 and v3 are identical.

import (
	"bytes"
	"encoding/binary"
	"fmt"
	"io"
	"math"
	"sort"
	"strings"

	"github.com/ollama/ollama/fs/ggml"
)

const (
	tU8 uint32 = iota
	tI8
	tU16
	tI16
	tU32
	tI32
	tF32
	tBool
	tStr
	tArr
	tU64
	tI64
	tF64
)

var typeNames = []string{"u8", "i8", "u16", "i16", "u32", "i32", "f32", "bool", "string", "array", "u64", "i64", "f64"}

func typeName(t uint32) string {
	if int(t) < len(typeNames) {
		return typeNames[t]
	}
	return fmt.Sprintf("type%d", t)
}

// scalarSize returns the encoded size of a scalar of type t, 0 for string/array/unknown.
func scalarSize(t uint32) int {
	switch t {
	case tU8, tI8, tBool:
		return 1
	case tU16, tI16:
		return 2
	case tU32, tI32, tF32:
		return 4
	case tU64, tI64, tF64:
		return 8
	}
	return 0
}

type arr struct {
	Elem uint32
	Vals []any // uint64 bit patterns for scalars, string for strings
}

type kvSpec struct {
	Key  string
	Type uint32
	Val  any // uint64 (bit pattern, low bytes used) | string | arr
}

type tensorSpec struct {
	Name  string
	Dims  []uint64 // in file order
	Kind  uint32
	Bytes int // data bytes written for this tensor
}

type encoder struct {
	bo  binary.ByteOrder
	ver uint32
	buf bytes.Buffer
}

func (e *encoder) u32(v uint32) { var b [4]byte; e.bo.PutUint32(b[:], v); e.buf.Write(b[:]) }
func (e *encoder) u64(v uint64) { var b [8]byte; e.bo.PutUint64(b[:], v); e.buf.Write(b[:]) }
func (e *encoder) scalar(t uint32, bits uint64) {
	switch scalarSize(t) {
	case 1:
		e.buf.WriteByte(byte(bits))
	case 2:
		var b [2]byte
		e.bo.PutUint16(b[:], uint16(bits))
		e.buf.Write(b[:])
	case 4:
		e.u32(uint32(bits))
	case 8:
		e.u64(bits)
	}
}
func (e *encoder) str(s string) {
	if e.ver == 1 {
		e.u64(uint64(len(s) + 1))
		e.buf.WriteString(s)
		e.buf.WriteByte(0)
		return
	}
	e.u64(uint64(len(s)))
	e.buf.WriteString(s)
}
func (e *encoder) count(n uint64) {
	if e.ver == 1 {
		e.u32(uint32(n))
	} else {
		e.u64(n)
	}
}
func (e *encoder) value(t uint32, v any) {
	e.u32(t)
	switch t {
	case tStr:
		e.str(v.(string))
	case tArr:
		a := v.(arr)
		e.u32(a.Elem)
		e.count(uint64(len(a.Vals)))
		for _, x := range a.Vals {
			if a.Elem == tStr {
				e.str(x.(string))
			} else {
				e.scalar(a.Elem, x.(uint64))
			}
		}
	default:
		e.scalar(t, v.(uint64))
	}
}

func tensorData(i, n int) []byte {
	b := make([]byte, n)
	for j := range b {
		b[j] = byte(0x10*(i+1) + j%13 + 1)
	}
	return b
}

func pad(n, align int) int {
	if align <= 0 {
		return 0
	}
	return (align - n%align) % align
}

// encodeGGUF writes a complete file. Tensor offsets are relative to the
// aligned start of the data section, as the writer in ollama does it.
func encodeGGUF(ver uint32, be bool, align int, kvs []kvSpec, ts []tensorSpec) []byte {
	e := &encoder{bo: binary.LittleEndian, ver: ver}
	magic := "GGUF"
	if be {
		e.bo = binary.BigEndian
		magic = "FUGG" // read as a little-endian uint32 this is FILE_MAGIC_GGUF_BE
	}
	e.buf.WriteString(magic)
	e.u32(ver)
	e.count(uint64(len(ts)))
	e.count(uint64(len(kvs)))
	for _, kv := range kvs {
		e.str(kv.Key)
		e.value(kv.Type, kv.Val)
	}
	off := 0
	for _, t := range ts {
		e.str(t.Name)
		e.u32(uint32(len(t.Dims)))
		for _, d := range t.Dims {
			e.u64(d)
		}
		e.u32(t.Kind)
		off += pad(off, align)
		e.u64(uint64(off))
		off += t.Bytes
	}
	for i, t := range ts {
		e.buf.Write(make([]byte, pad(e.buf.Len(), align)))
		e.buf.Write(tensorData(i, t.Bytes))
	}
	return e.buf.Bytes()
}

// ---- field map -------------------------------------------------------------

type field struct {
	Off   int    // byte offset in the seed
	W     int    // width in bytes: 4 or 8
	Kind  string // version ntensor nkv keylen vtype strlen arrtype arrcount arrstrlen tnamelen ndims dim tkind toffset value
	Label string
	Orig  uint64
}

type kvSpan struct {
	Key     string
	TypeOff int // offset of the value type tag
	End     int // end of the value
	Type    uint32
}

type layout struct {
	bo         binary.ByteOrder
	be         bool
	ver        uint32
	fields     []field
	kvs        []kvSpan
	headerEnd  int // end of the tensor infos
	tensorBase int // aligned start of tensor data
	align      int
}

type fparser struct {
	b   []byte
	pos int
	l   *layout
	err error
}

func (p *fparser) need(n int) bool {
	if p.err != nil {
		return false
	}
	if n < 0 || p.pos+n > len(p.b) {
		p.err = io.ErrUnexpectedEOF
		return false
	}
	return true
}
func (p *fparser) rd(w int) uint64 {
	if !p.need(w) {
		return 0
	}
	var v uint64
	switch w {
	case 1:
		v = uint64(p.b[p.pos])
	case 2:
		v = uint64(p.l.bo.Uint16(p.b[p.pos:]))
	case 4:
		v = uint64(p.l.bo.Uint32(p.b[p.pos:]))
	case 8:
		v = p.l.bo.Uint64(p.b[p.pos:])
	}
	p.pos += w
	return v
}
func (p *fparser) fld(w int, kind, label string) uint64 {
	off := p.pos
	v := p.rd(w)
	if p.err == nil {
		p.l.fields = append(p.l.fields, field{Off: off, W: w, Kind: kind, Label: label, Orig: v})
	}
	return v
}
func (p *fparser) cnt(kind, label string) uint64 {
	if p.l.ver == 1 {
		return p.fld(4, kind, label)
	}
	return p.fld(8, kind, label)
}
func (p *fparser) str(kind, label string) string {
	n := p.fld(8, kind, label)
	if n > uint64(len(p.b)) || !p.need(int(n)) {
		if p.err == nil {
			p.err = io.ErrUnexpectedEOF
		}
		return ""
	}
	s := string(p.b[p.pos : p.pos+int(n)])
	p.pos += int(n)
	if p.l.ver == 1 {
		s = strings.TrimSuffix(s, "\x00")
	}
	return s
}

// wellKnownValue: numeric values of these keys are fields too (alignment is a divisor).
func wellKnownValue(key string) bool {
	return key == "general.alignment" || key == "general.file_type" || strings.HasSuffix(key, ".block_count")
}

// parseLayout locates every length, count, type tag, dimension count,
// dimension, kind, offset and well-known numeric value in a valid seed.
func parseLayout(b []byte) (*layout, error) {
	l := &layout{bo: binary.LittleEndian, align: 32}
	p := &fparser{b: b, l: l}
	if len(b) < 4 {
		return nil, io.ErrUnexpectedEOF
	}
	switch string(b[:4]) {
	case "GGUF":
	case "FUGG":
		l.bo, l.be = binary.BigEndian, true
	default:
		return nil, fmt.Errorf("bad magic")
	}
	p.pos = 4
	l.ver = uint32(p.fld(4, "version", "version"))
	nt := p.cnt("ntensor", "tensor_count")
	nkv := p.cnt("nkv", "kv_count")
	for i := uint64(0); i < nkv && p.err == nil; i++ {
		key := p.str("keylen", fmt.Sprintf("kv[%d].keylen", i))
		name := fmt.Sprintf("kv[%d](%s)", i, key)
		typeOff := p.pos
		t := uint32(p.fld(4, "vtype", name+".type"))
		switch t {
		case tStr:
			p.str("strlen", name+".strlen")
		case tArr:
			et := uint32(p.fld(4, "arrtype", name+".elemtype"))
			n := p.cnt("arrcount", name+".count")
			for j := uint64(0); j < n && p.err == nil; j++ {
				if et == tStr {
					// arrays of more than 8 strings: only the lengths of the first 4 and the
					// last 2 elements are fields (the elements in between go through the
					// same loop body of the decoder)
					if n > 8 && j >= 4 && j < n-2 {
						k := p.rd(8)
						if k > uint64(len(p.b)) || !p.need(int(k)) {
							p.err = io.ErrUnexpectedEOF
						} else {
							p.pos += int(k)
						}
					} else {
						p.str("arrstrlen", fmt.Sprintf("%s[%d].strlen", name, j))
					}
				} else if sz := scalarSize(et); sz > 0 {
					p.rd(sz)
				} else {
					p.err = fmt.Errorf("bad array type")
				}
			}
		default:
			sz := scalarSize(t)
			if sz == 0 {
				p.err = fmt.Errorf("bad type")
			} else if wellKnownValue(key) && (sz == 4 || sz == 8) {
				v := p.fld(sz, "value", name+".value")
				if key == "general.alignment" {
					l.align = int(v)
				}
			} else {
				p.rd(sz)
			}
		}
		l.kvs = append(l.kvs, kvSpan{Key: key, TypeOff: typeOff, End: p.pos, Type: t})
	}
	for i := uint64(0); i < nt && p.err == nil; i++ {
		name := p.str("tnamelen", fmt.Sprintf("tensor[%d].namelen", i))
		tn := fmt.Sprintf("tensor[%d](%s)", i, name)
		nd := p.fld(4, "ndims", tn+".ndims")
		for j := uint64(0); j < nd && p.err == nil; j++ {
			p.fld(8, "dim", fmt.Sprintf("%s.dim[%d]", tn, j))
		}
		p.fld(4, "tkind", tn+".kind")
		p.fld(8, "toffset", tn+".offset")
	}
	if p.err != nil {
		return nil, p.err
	}
	l.headerEnd = p.pos
	l.tensorBase = p.pos + pad(p.pos, l.align)
	return l, nil
}

// ---- seeds -------------------------------------------------------------------

type seed struct {
	Name  string
	Bytes []byte
	L     *layout
	Pairs bool // enumerated with pairs of fields in the thorough tier
	// Valid tells that the unmodified file is expected to decode (all seeds are
	// valid files; a seed the decoder cannot digest is itself reported).
}

type memWS struct {
	buf []byte
	pos int64
}

func (w *memWS) Write(p []byte) (int, error) {
	end := w.pos + int64(len(p))
	if end > int64(len(w.buf)) {
		w.buf = append(w.buf, make([]byte, end-int64(len(w.buf)))...)
	}
	copy(w.buf[w.pos:], p)
	w.pos = end
	return len(p), nil
}

func (w *memWS) Seek(off int64, whence int) (int64, error) {
	switch whence {
	case io.SeekStart:
		w.pos = off
	case io.SeekCurrent:
		w.pos += off
	case io.SeekEnd:
		w.pos = int64(len(w.buf)) + off
	}
	return w.pos, nil
}

func writerSeed(kv ggml.KV, ts []ggml.Tensor) []byte {
	for i := range ts {
		ts[i].WriterTo = bytes.NewReader(tensorData(i, int(ts[i].Size())))
	}
	ws := &memWS{}
	if err := ggml.WriteGGUF(ws, kv, ts); err != nil {
		panic("C10 harness: WriteGGUF failed on a seed: " + err.Error())
	}
	return ws.buf
}

func f32(f float32) uint64 { return uint64(math.Float32bits(f)) }
func f64(f float64) uint64 { return math.Float64bits(f) }
func neg(n int64) uint64   { return uint64(n) }

// allTypesKV: every scalar type, a string, an array of every element type.
// withArrays=false leaves the arrays out (v1 seed whose arrays the decoder cannot read).
func allTypesKV(withScalars, withArrays bool) []kvSpec {
	var kvs []kvSpec
	kvs = append(kvs, kvSpec{"general.architecture", tStr, "llama"})
	if withScalars {
		kvs = append(kvs,
			kvSpec{"general.alignment", tU32, uint64(16)},
			kvSpec{"general.file_type", tU32, uint64(1)},
			kvSpec{"general.type", tStr, "model"},
			kvSpec{"llama.block_count", tU32, uint64(1)},
			// keys the server reads through typed accessors on the create / show paths (retyped below)
			kvSpec{"general.parameter_count", tU64, uint64(7)},
			kvSpec{"llama.context_length", tU32, uint64(8)},
			kvSpec{"llama.embedding_length", tU32, uint64(4)},
			kvSpec{"llama.attention.head_count", tU32, uint64(2)},
			kvSpec{"llama.attention.head_count_kv", tU32, uint64(1)},
			kvSpec{"t.u8", tU8, uint64(200)},
			kvSpec{"t.i8", tI8, neg(-5)},
			kvSpec{"t.u16", tU16, uint64(60000)},
			kvSpec{"t.i16", tI16, neg(-300)},
			kvSpec{"t.i32", tI32, neg(-70000)},
			kvSpec{"t.f32", tF32, f32(1.5)},
			kvSpec{"t.bool", tBool, uint64(1)},
			kvSpec{"t.u64", tU64, uint64(1) << 40},
			kvSpec{"t.i64", tI64, neg(-1 << 40)},
			kvSpec{"t.f64", tF64, f64(-2.25)},
			kvSpec{"tokenizer.chat_template", tStr, "{{ .Prompt }}"},
		)
	}
	if withArrays {
		kvs = append(kvs,
			kvSpec{"a.u8", tArr, arr{tU8, []any{uint64(1), uint64(255)}}},
			kvSpec{"a.i8", tArr, arr{tI8, []any{neg(-1)}}},
			kvSpec{"a.u16", tArr, arr{tU16, []any{uint64(1), uint64(65535)}}},
			kvSpec{"a.i16", tArr, arr{tI16, []any{neg(-2)}}},
			kvSpec{"a.u32", tArr, arr{tU32, []any{uint64(7), uint64(8), uint64(9)}}},
			kvSpec{"a.i32", tArr, arr{tI32, []any{neg(-3)}}},
			kvSpec{"a.f32", tArr, arr{tF32, []any{f32(0.5), f32(-1)}}},
			kvSpec{"a.bool", tArr, arr{tBool, []any{uint64(1), uint64(0)}}},
			kvSpec{"a.u64", tArr, arr{tU64, []any{uint64(1) << 33}}},
			kvSpec{"a.i64", tArr, arr{tI64, []any{neg(-1 << 33)}}},
			kvSpec{"a.f64", tArr, arr{tF64, []any{f64(3.5)}}},
			kvSpec{"a.empty", tArr, arr{tU32, nil}},
			kvSpec{"tokenizer.ggml.tokens", tArr, arr{tStr, []any{"a", "", "ccc"}}},
		)
	}
	return kvs
}

func stdTensors() []tensorSpec {
	return []tensorSpec{
		{Name: "blk.0.attn_q.weight", Dims: []uint64{4, 2}, Kind: 0, Bytes: 32}, // F32 4x2
		{Name: "output.weight", Dims: []uint64{5}, Kind: 24, Bytes: 5},          // I8
	}
}

func bigArrayKV() []kvSpec {
	u8s := make([]any, 1100)
	for i := range u8s {
		u8s[i] = uint64(i % 251)
	}
	i32s := make([]any, 1025)
	for i := range i32s {
		i32s[i] = neg(int64(-i))
	}
	strs := make([]any, 1026)
	for i := range strs {
		strs[i] = strings.Repeat("x", i%3)
	}
	return []kvSpec{
		{"general.architecture", tStr, "llama"},
		{"big.u8", tArr, arr{tU8, u8s}},
		{"tokenizer.ggml.token_type", tArr, arr{tI32, i32s}},
		{"tokenizer.ggml.tokens", tArr, arr{tStr, strs}},
		{"llama.block_count", tU32, uint64(1)},
	}
}

func buildSeeds() []*seed {
	var seeds []*seed
	add := func(name string, b []byte, pairs bool) {
		l, err := parseLayout(b)
		if err != nil {
			panic(fmt.Sprintf("C10 harness: cannot map seed %s: %v", name, err))
		}
		seeds = append(seeds, &seed{Name: name, Bytes: b, L: l, Pairs: pairs})
	}
	wmin := writerSeed(ggml.KV{"general.architecture": "llama"}, nil)
	add("writer-min", wmin, true)
	add("enc-v3-one-tensor", encodeGGUF(3, false, 32, []kvSpec{{"general.architecture", tStr, "llama"}}, stdTensors()[1:]), true)
	add("writer-std", writerSeed(ggml.KV{
		"general.architecture":      "llama",
		"general.alignment":         uint32(16),
		"general.file_type":         uint32(1),
		"general.name":              "seed",
		"general.type":              "model",
		"llama.block_count":         uint32(1),
		"llama.rope.freq_base":      float32(10000),
		"llama.use_parallel":        true,
		"tokenizer.chat_template":   "{{ .Prompt }}",
		"tokenizer.ggml.tokens":     []string{"a", "", "ccc"},
		"tokenizer.ggml.scores":     []float32{0.5, -1, 3e38},
		"tokenizer.ggml.token_type": []int32{1, -2, 3},
		"tokenizer.ggml.ids":        []uint32{1, 2, 0xfffffffe},
	}, []ggml.Tensor{
		{Name: "blk.0.attn_q.weight", Kind: 0, Shape: []uint64{2, 4}},
		{Name: "output.weight", Kind: 24, Shape: []uint64{5}},
		{Name: "token_embd.weight", Kind: 1, Shape: []uint64{3}},
	}), true)
	// two models in one file (create splits them): a model followed by a projector
	proj := writerSeed(ggml.KV{"general.architecture": "clip", "general.type": "projector"}, nil)
	add("writer-concat", append(append([]byte{}, wmin...), proj...), false)
	{
		// map the fields of the second model too
		cs := seeds[len(seeds)-1]
		l2, err := parseLayout(proj)
		if err != nil {
			panic(err)
		}
		for _, f := range l2.fields {
			f.Off += len(wmin)
			f.Label = "model2." + f.Label
			cs.L.fields = append(cs.L.fields, f)
		}
	}
	add("enc-v3-alltypes", encodeGGUF(3, false, 16, allTypesKV(true, true), stdTensors()), true)
	add("enc-v2-alltypes", encodeGGUF(2, false, 16, allTypesKV(true, true), stdTensors()), false)
	add("enc-v1-scalars", encodeGGUF(1, false, 16, allTypesKV(true, false), stdTensors()), true)
	add("enc-v1-arrays", encodeGGUF(1, false, 32, allTypesKV(false, true), stdTensors()[:1]), false)
	add("enc-be-alltypes", encodeGGUF(3, true, 16, allTypesKV(true, true), stdTensors()), false)
	add("enc-v3-bigarrays", encodeGGUF(3, false, 32, bigArrayKV(), stdTensors()[1:]), false)
	// four one-dimensional I8 tensors of one alignment unit each: the seed of the wrap-around sums (wrapItems)
	add(wrapSeedName, encodeGGUF(3, false, 32, []kvSpec{{"general.architecture", tStr, "llama"}}, []tensorSpec{
		{Name: "a.weight", Dims: []uint64{32}, Kind: 24, Bytes: 32},
		{Name: "b.weight", Dims: []uint64{32}, Kind: 24, Bytes: 32},
		{Name: "c.weight", Dims: []uint64{32}, Kind: 24, Bytes: 32},
		{Name: "d.weight", Dims: []uint64{32}, Kind: 24, Bytes: 32},
	}), false)
	return seeds
}

const wrapSeedName = "enc-v3-wrap4"

// wrapItems enumerates the tensor-size tuples whose running sum wraps around 2^64:
// the first k-1 of k tensors (k = 2..4, the others keep one alignment unit) take
// every value of a small alphabet of huge sizes and the k-th is the complement
// that makes data start + sum of sizes congruent to each target offset modulo
// 2^64 (0, the data start, the file length, one alignment unit, 2^63). Each size
// by itself may be a valid non-negative int64; only their sum leaves the range.
// A decoder that adds sizes up instead of checking every step ends at the target.
func wrapItems(si int, s *seed) []string {
	var dims []int
	for fi, f := range s.L.fields {
		if f.Kind == "dim" {
			dims = append(dims, fi)
		}
	}
	huge := []uint64{1 << 61, 1 << 62, 1<<63 - 32}
	targets := []uint64{0, 32, uint64(s.L.tensorBase), uint64(len(s.Bytes)), 1 << 63}
	var out []string
	for k := 2; k <= len(dims); k++ {
		n := 1
		for i := 0; i < k-1; i++ {
			n *= len(huge)
		}
		for c := 0; c < n; c++ {
			sum := uint64(s.L.tensorBase) + uint64(32*(len(dims)-k))
			var es []edit
			for i, cc := 0, c; i < k-1; i, cc = i+1, cc/len(huge) {
				v := huge[cc%len(huge)]
				es = append(es, edit{dims[i], v})
				sum += v
			}
			for _, t := range targets {
				last := t - sum // modulo 2^64
				out = append(out, fmt.Sprintf("m|%d|%s", si, editsString(append(es[:len(es):len(es)], edit{dims[k-1], last}))))
			}
		}
	}
	return out
}

// ---- mutation alphabet ---------------------------------------------------------

// alphabet returns the boundary values for a field, ascending, without the
// original value and without values that do not fit the field width.
func alphabet(f field, fileLen, tensorBase int) []uint64 {
	var vals []uint64
	n := f.Orig
	switch f.Kind {
	case "vtype", "arrtype":
		for v := uint64(0); v <= 13; v++ {
			vals = append(vals, v)
		}
		vals = append(vals, 1<<32-1)
	default:
		vals = []uint64{0, 1, n - 1, n + 1, 255, 1 << 15, 1 << 22, 1<<31 - 1, 1 << 31, 1<<32 - 1, 1<<63 - 1, 1 << 63, 1<<64 - 1,
			uint64(fileLen), uint64(fileLen) + 1,
			// two's-complement negatives that move a relative seek back to the start of the file / by its length
			-uint64(tensorBase), -uint64(fileLen)}
		if f.Kind == "tkind" {
			for v := uint64(0); v <= 31; v++ {
				vals = append(vals, v)
			}
		}
	}
	sort.Slice(vals, func(i, j int) bool { return vals[i] < vals[j] })
	out := vals[:0]
	var last uint64
	for i, v := range vals {
		if v == n || (f.W == 4 && v > 1<<32-1) || (i > 0 && v == last) {
			continue
		}
		out = append(out, v)
		last = v
	}
	return out
}

type edit struct {
	Field int
	Val   uint64
}

func applyEdits(s *seed, edits []edit) []byte {
	b := append([]byte{}, s.Bytes...)
	for _, e := range edits {
		f := s.L.fields[e.Field]
		if f.W == 4 {
			s.L.bo.PutUint32(b[f.Off:], uint32(e.Val))
		} else {
			s.L.bo.PutUint64(b[f.Off:], e.Val)
		}
	}
	return b
}

func describeEdits(s *seed, edits []edit) string {
	var parts []string
	for _, e := range edits {
		f := s.L.fields[e.Field]
		parts = append(parts, fmt.Sprintf("%s @%d (u%d) %d -> %s", f.Label, f.Off, f.W*8, f.Orig, fmtVal(e.Val)))
	}
	return strings.Join(parts, " ; ")
}

func fmtVal(v uint64) string {
	switch {
	case v == 1<<64-1:
		return "2^64-1"
	case v == 1<<63:
		return "2^63"
	case v == 1<<63-1:
		return "2^63-1"
	case v > 1<<63:
		return fmt.Sprintf("2^64-%d", -v)
	case v == 1<<32-1:
		return "2^32-1"
	case v == 1<<31:
		return "2^31"
	case v == 1<<31-1:
		return "2^31-1"
	}
	return fmt.Sprint(v)
}

// ---- well-known keys: replace the value by one of every other type ---------------

var wellKnownKeys = []string{"general.alignment", "general.architecture", "general.file_type", "general.type",
	"llama.block_count", "tokenizer.ggml.tokens", "tokenizer.chat_template",
	"general.parameter_count", "llama.context_length", "llama.embedding_length", "llama.attention.head_count", "llama.attention.head_count_kv"}

type replacement struct {
	Name string
	Type uint32
	Val  any
}

func replacements() []replacement {
	scal := map[uint32]uint64{tU8: 32, tI8: neg(-7), tU16: 300, tI16: neg(-300), tU32: 32, tI32: neg(-32), tF32: f32(1.5),
		tBool: 1, tU64: 32, tI64: neg(-32), tF64: f64(2.5)}
	var out []replacement
	for t := uint32(0); t <= 12; t++ {
		switch t {
		case tStr:
			out = append(out, replacement{"string", tStr, "llama"})
		case tArr:
			for et := uint32(0); et <= 12; et++ {
				if et == tArr {
					continue
				}
				if et == tStr {
					out = append(out, replacement{"array<string>", tArr, arr{tStr, []any{"x", "yy"}}})
				} else {
					out = append(out, replacement{"array<" + typeName(et) + ">", tArr, arr{et, []any{scal[et], scal[et]}}})
				}
			}
		default:
			out = append(out, replacement{typeName(t), t, scal[t]})
		}
	}
	return out
}

func sameType(k kvSpan, b []byte, bo binary.ByteOrder, r replacement) bool {
	if k.Type != r.Type {
		return false
	}
	if r.Type != tArr {
		return true
	}
	return bo.Uint32(b[k.TypeOff+4:]) == r.Val.(arr).Elem
}

// replaceValue re-encodes the file with the value of KV #ki replaced; the data
// section is re-aligned so that everything else stays a valid file.
func replaceValue(s *seed, ki int, r replacement) []byte {
	k := s.L.kvs[ki]
	e := &encoder{bo: s.L.bo, ver: s.L.ver}
	e.value(r.Type, r.Val)
	var out []byte
	out = append(out, s.Bytes[:k.TypeOff]...)
	out = append(out, e.buf.Bytes()...)
	out = append(out, s.Bytes[k.End:s.L.headerEnd]...)
	if s.L.tensorBase < len(s.Bytes) {
		out = append(out, make([]byte, pad(len(out), s.L.align))...)
		out = append(out, s.Bytes[s.L.tensorBase:]...)
	}
	return out
}
