package main

// C10: untrusted model files produce an error, never a crash or runaway
// allocation. Exhaustive fault enumeration over file mutations on the real
// decoder and the real HTTP handlers. See FINDINGS.md for what it reports on
// the pinned tree.

import (
	"bufio"
	"bytes"
	"encoding/hex"
	"encoding/json"
	"fmt"
	"os"
	"os/exec"
	"path/filepath"
	"runtime"
	"sort"
	"strconv"
	"strings"
	"sync"
	"time"

	"github.com/ollama/ollama/zzverif/evid"
)

const (
	memLimitMB  = 1024
	itemTimeout = 60 * time.Second
)

var magics = []string{"GGUF", "FUGG"}

func scratchRoot() string {
	if d := os.Getenv("C10_SCRATCH"); d != "" {
		return d
	}
	return fmt.Sprintf("/dev/shm/verif-c10-%d", os.Getpid())
}

// workerEnv: a single P and a single malloc arena from process start, so that the
// 1 GiB address-space limit is not eaten by thread stacks and per-thread arenas
// (pthread_create fails under RLIMIT_AS otherwise). Of the 1 GiB about 740 MiB
// are address-space reservations of the Go runtime itself, which leaves ~290 MiB
// of heap. The concurrent collector lets the heap balloon when the machine is
// oversubscribed (allocation continues while a cycle waits for the processor),
// so workers collect synchronously at their own safe points instead (collectIfNeeded)
// with the runtime's memory limit as a backstop.
func workerEnv() []string {
	return []string{"C10_SCRATCH=" + scratchRoot(), "GOMAXPROCS=1", "MALLOC_ARENA_MAX=1", "GOTRACEBACK=single", "GOGC=off", "GOMEMLIMIT=192MiB"}
}

var seeds []*seed
var repls = replacements()

// ---- items ------------------------------------------------------------------------

type icase struct {
	Data    []byte
	Desc    string
	SeedLen int
	Seed    string
	Differs bool
}

func parseEdits(s string) []edit {
	var out []edit
	for _, p := range strings.Split(s, ",") {
		fv := strings.SplitN(p, ":", 2)
		f, _ := strconv.Atoi(fv[0])
		v, _ := strconv.ParseUint(fv[1], 16, 64)
		out = append(out, edit{f, v})
	}
	return out
}

func editsString(es []edit) string {
	var p []string
	for _, e := range es {
		p = append(p, fmt.Sprintf("%d:%x", e.Field, e.Val))
	}
	return strings.Join(p, ",")
}

// buildCase turns the part of an item after the mode prefix into bytes.
func buildCase(rest string) (c icase, err error) {
	defer func() {
		if p := recover(); p != nil {
			err = fmt.Errorf("bad item %q: %v", rest, p)
		}
	}()
	parts := strings.Split(rest, "|")
	switch parts[0] {
	case "raw":
		c.Data, err = hex.DecodeString(parts[1])
		c.Desc = fmt.Sprintf("raw bytes (%d)", len(c.Data))
		c.Differs = true
		return
	case "x":
		mi, _ := strconv.Atoi(parts[1])
		suf, _ := hex.DecodeString(parts[2])
		c.Data = append([]byte(magics[mi]), suf...)
		c.Desc = fmt.Sprintf("magic %q followed by bytes [%s]", magics[mi], parts[2])
		c.Seed = "magic-" + magics[mi]
		c.Differs = true
		return
	}
	si, _ := strconv.Atoi(parts[1])
	s := seeds[si]
	c.Seed, c.SeedLen = s.Name, len(s.Bytes)
	switch parts[0] {
	case "s":
		c.Data = s.Bytes
		c.Desc = fmt.Sprintf("seed %s unmodified (%d bytes)", s.Name, len(s.Bytes))
	case "m":
		es := parseEdits(parts[2])
		c.Data = applyEdits(s, es)
		c.Desc = fmt.Sprintf("seed %s (%d bytes): %s", s.Name, len(s.Bytes), describeEdits(s, es))
		c.Differs = true
	case "t":
		n, _ := strconv.Atoi(parts[2])
		c.Data = s.Bytes[:n]
		c.Desc = fmt.Sprintf("seed %s truncated to %d of %d bytes", s.Name, n, len(s.Bytes))
		c.Differs = true
	case "k":
		ki, _ := strconv.Atoi(parts[2])
		ri, _ := strconv.Atoi(parts[3])
		c.Data = replaceValue(s, ki, repls[ri])
		k := s.L.kvs[ki]
		c.Desc = fmt.Sprintf("seed %s (%d bytes): value of key %s re-encoded as %s (was %s)", s.Name, len(s.Bytes), k.Key, repls[ri].Name, typeName(k.Type))
		c.Differs = true
	default:
		err = fmt.Errorf("bad item %q", rest)
	}
	return
}

func hexOf(b []byte) string {
	if len(b) <= 4096 {
		return hex.EncodeToString(b)
	}
	return ""
}

// ---- worker ---------------------------------------------------------------------------

var violFile *os.File

func noteViolation(rest, sig string, n int) {
	if violFile == nil {
		os.MkdirAll(scratchRoot(), 0o755)
		violFile, _ = os.OpenFile(filepath.Join(scratchRoot(), fmt.Sprintf("viol-%d.tsv", os.Getpid())), os.O_CREATE|os.O_APPEND|os.O_WRONLY, 0o644)
	}
	if violFile != nil {
		fmt.Fprintf(violFile, "%s\t%s\t%d\n", rest, sig, n)
	}
}

func work(item string, sub *evid.Run) {
	defer func() {
		totalAlloc(&memAfter)
		collectIfNeeded(&memAfter)
	}()
	if os.Getenv("C10_VERBOSE") != "" {
		t := time.Now()
		defer func() {
			if d := time.Since(t); d > 100*time.Millisecond {
				f, _ := os.OpenFile("/dev/shm/c10-slow.tsv", os.O_CREATE|os.O_APPEND|os.O_WRONLY, 0o644)
				fmt.Fprintf(f, "%.3f\t%s\n", d.Seconds(), item)
				f.Close()
			}
		}()
	}
	mode, rest, _ := strings.Cut(item, "|")
	step("start " + item)
	if mode == "G" {
		magicBatch(rest, sub)
		return
	}
	c, err := buildCase(rest)
	if err != nil {
		sub.Extra("machinery_errors", []string{err.Error()})
		return
	}
	sub.Eval()
	if c.Differs && len(c.Data) >= 24 {
		sub.Distinct("nontrivial", string(c.Data))
	}
	if evid.Hash(item)%1500 == 0 {
		// a spread of the enumerated cases rather than the first few
		smp := map[string]any{"item": item, "case": c.Desc}
		if len(c.Data) <= 160 {
			smp["hex"] = hex.EncodeToString(c.Data)
		}
		sub.Sample(smp)
	}
	replay := map[string]any{"item": item, "case": c.Desc, "hex": hexOf(c.Data)}
	report := func(f *finding) {
		msg := f.Msg + "\n  input: " + c.Desc
		if f.Where != "" {
			msg += "\n  site: " + f.Where
		}
		if len(c.Data) <= 96 {
			msg += "\n  bytes: " + hex.EncodeToString(c.Data)
		}
		sub.Violation(f.Sig, msg, replay)
		noteViolation(rest, f.Sig, len(c.Data))
	}
	clean := true
	if mode == "B" {
		for _, max := range []int{0, -1} {
			f, outcome, err := checkDecode(c.Data, max)
			if err != nil {
				sub.Extra("machinery_errors", []string{err.Error() + " on " + item})
				return
			}
			sub.Add("decode_calls", 1)
			sub.Distinct("outcome", fmt.Sprintf("decode%d:%s", max, outcome))
			if f != nil {
				clean = false
				report(f)
			}
		}
	}
	if !clean {
		// the create handler would run the same decoder in its goroutine; the HTTP
		// path of failing inputs is exercised on a deduplicated subset (stage 2)
		sub.Add("http_skipped_after_decode_violation", 1)
		return
	}
	out := runHTTP(c.Data, mode == "H")
	sub.Add("http_cases", 1)
	sub.Add("http_models_created", int64(out.Created))
	sub.Distinct("outcome", "http:"+out.Class)
	for i := range out.Findings {
		report(&out.Findings[i])
	}
	for _, o := range out.Observations {
		sub.Add("http_observations", 1)
		cls := o
		if i := strings.Index(cls, ": \""); i >= 0 {
			cls = cls[:i]
		}
		cls = reNum.ReplaceAllString(cls, "N")
		if len(cls) > 80 {
			cls = cls[:80]
		}
		sub.Distinct("http_observation_class", cls)
		sub.Extra("observation: "+cls, o+" | input: "+c.Desc)
	}
}

// magicBatch decodes every byte string of length 1..maxLen after a magic that starts with b0
// and whose second byte lies in the given quarter of the byte range.
func magicBatch(rest string, sub *evid.Run) {
	parts := strings.Split(rest, "|")
	mi, _ := strconv.Atoi(parts[0])
	b0, _ := strconv.Atoi(parts[1])
	maxLen, _ := strconv.Atoi(parts[2])
	quarter, _ := strconv.Atoi(parts[3]) // second byte in [64*quarter, 64*quarter+63]
	buf := make([]byte, 0, 8)
	var n int64
	var group [][]byte
	outcomes := map[string]bool{}
	flush := func() {
		if len(group) == 0 {
			return
		}
		// group accounting: if the whole group stays under the bound of a single case, every member does
		before := totalAlloc(&memBefore)
		bad := false
		for _, d := range group {
			for _, max := range []int{0, -1} {
				r := decodeOnce(d, max, false)
				outcomes[fmt.Sprintf("decode%d:%s", max, r.Outcome)] = true
				if r.Outcome == "panic" {
					bad = true
				}
			}
		}
		if totalAlloc(&memAfter)-before > allocLimit(4) {
			bad = true
		}
		collectIfNeeded(&memAfter)
		if bad {
			for _, d := range group {
				item := fmt.Sprintf("x|%d|%x", mi, d[4:])
				for _, max := range []int{0, -1} {
					f, _, err := checkDecode(d, max)
					if err != nil {
						sub.Extra("machinery_errors", []string{err.Error()})
					}
					if f != nil {
						desc := fmt.Sprintf("magic %q followed by bytes [%x]", magics[mi], d[4:])
						sub.Violation(f.Sig, f.Msg+"\n  input: "+desc+"\n  bytes: "+hex.EncodeToString(d), map[string]any{"item": "B|" + item, "hex": hex.EncodeToString(d)})
						noteViolation(item, f.Sig, len(d))
					}
				}
			}
		}
		n += int64(len(group))
		group = group[:0]
	}
	emit := func(suffix ...byte) {
		d := append(append(buf[:0:0], magics[mi]...), suffix...)
		group = append(group, d)
		if len(group) == 8 {
			flush()
		}
	}
	if quarter == 0 {
		emit(byte(b0))
	}
	if maxLen >= 2 {
		for b1 := 64 * quarter; b1 < 64*quarter+64; b1++ {
			emit(byte(b0), byte(b1))
			if maxLen >= 3 {
				for b2 := 0; b2 < 256; b2++ {
					emit(byte(b0), byte(b1), byte(b2))
				}
			}
		}
	}
	flush()
	if b0 == 0 && quarter == 0 {
		sub.Sample(map[string]any{"item": "G|" + rest, "case": fmt.Sprintf("magic %q followed by every byte string of length 1..%d that starts with 00 and whose second byte is < 0x40 (%d cases, decode only)", magics[mi], maxLen, n)})
	}
	sub.Add("evaluations", n)
	sub.Add("decode_calls", 2*n)
	sub.Add("magic_suffix_cases", n)
	for o := range outcomes {
		sub.Distinct("outcome", o)
	}
}

// ---- running one item in a child (confirmation of crashes, replay) --------------------------

type childResult struct {
	Died     bool
	TimedOut bool
	Stderr   string
	Sigs     []string
	Msgs     []string
}

func runChild(item string, timeout time.Duration, show bool) childResult {
	self, _ := os.Executable()
	sh := fmt.Sprintf("ulimit -v %d; exec \"$0\"", memLimitMB*1024)
	cmd := exec.Command("/bin/bash", "-c", sh, self)
	cmd.Env = append(os.Environ(), "VERIF_WORKER=1", "VERIF_WORKER_INDEX=c")
	cmd.Env = append(cmd.Env, workerEnv()...)
	cmd.Stdin = strings.NewReader(item + "\n")
	var so, se bytes.Buffer
	cmd.Stdout = &so
	cmd.Stderr = &se
	var res childResult
	if err := cmd.Start(); err != nil {
		res.Died = true
		res.Stderr = err.Error()
		return res
	}
	done := make(chan error, 1)
	go func() { done <- cmd.Wait() }()
	select {
	case err := <-done:
		res.Died = err != nil
	case <-time.After(timeout):
		cmd.Process.Kill()
		<-done
		res.Died, res.TimedOut = true, true
	}
	res.Stderr = se.String()
	if show {
		os.Stderr.WriteString(res.Stderr)
	}
	sc := bufio.NewScanner(&so)
	sc.Buffer(make([]byte, 1<<20), 1<<26)
	for sc.Scan() {
		var w struct {
			V []struct {
				Sig string `json:"signature"`
				Msg string `json:"message"`
			} `json:"v"`
			X    map[string]any `json:"x"`
			Done bool           `json:"done"`
		}
		if json.Unmarshal(sc.Bytes(), &w) != nil || !w.Done {
			continue
		}
		for _, v := range w.V {
			res.Sigs = append(res.Sigs, v.Sig)
			res.Msgs = append(res.Msgs, v.Msg)
		}
		if me, ok := w.X["machinery_errors"]; ok {
			res.Sigs = append(res.Sigs, "MACHINERY")
			res.Msgs = append(res.Msgs, fmt.Sprint(me))
		}
	}
	return res
}

func itemDesc(item string) string {
	_, rest, _ := strings.Cut(item, "|")
	if strings.HasPrefix(item, "G|") {
		return "batch of magic suffixes " + rest
	}
	c, err := buildCase(rest)
	if err != nil {
		return item
	}
	d := c.Desc
	if len(c.Data) <= 96 {
		d += "\n  bytes: " + hex.EncodeToString(c.Data)
	}
	return d
}

// ---- coordinator --------------------------------------------------------------------------------

type coord struct {
	r         *evid.Run
	mu        sync.Mutex
	confirmed map[string]bool   // crash signatures already confirmed by re-execution
	crashed   map[string]string // item rest -> sig
}

func childSig(cr childResult) (sig, where, summary, stepLine string) {
	if !cr.Died {
		return "", "", "", ""
	}
	stepLine = lastStep(cr.Stderr)
	if strings.HasPrefix(stepLine, "start ") {
		stepLine = "decode"
	}
	sig, where, summary = crashSignature(cr.Stderr, cr.TimedOut, stepLine)
	return
}

// onCrash names the bucket of a worker death. The stderr tail handed over by
// the fan-out can be incomplete (it is read when stdout closes) and the dead
// worker had processed other items before, so unless the tail already shows a
// complete report of an already confirmed signature, the item is executed
// again in a fresh child process and that death is the one that is bucketed;
// the first input of every signature must die the same way 5 more times.
// An item that does not die in a fresh process is reported as a machinery
// error (exit 2), never as a violation.
func (c *coord) onCrash(item, tail string, timedOut bool) (sigOut string, msgOut string) {
	if os.Getenv("C10_VERBOSE") != "" {
		t := time.Now()
		defer func() {
			fmt.Fprintf(os.Stderr, "c10 crash %-40s timedOut=%v -> %s (%.2fs)\n", item, timedOut, sigOut, time.Since(t).Seconds())
		}()
	}
	stepLine := lastStep(tail)
	if strings.HasPrefix(stepLine, "start ") {
		if stepLine != "start "+item {
			stepLine = "unknown"
		} else {
			stepLine = "decode"
		}
	}
	sig, where, summary := crashSignature(tail, timedOut, stepLine)
	c.mu.Lock()
	// deaths by accumulation / timeouts are always re-examined in a fresh process
	known := sig != "" && c.confirmed[sig] && !strings.Contains(sig, "unknown-site") && !timedOut && !strings.Contains(sig, "/nonterminating/")
	c.mu.Unlock()
	if !known {
		cr := runChild(item, itemTimeout, false)
		sig, where, summary, stepLine = childSig(cr)
		if sig == "" {
			return "", ""
		}
		timedOut = cr.TimedOut
		c.mu.Lock()
		first := !c.confirmed[sig]
		c.confirmed[sig] = true
		c.mu.Unlock()
		if first {
			runs := 4
			if timedOut {
				runs = 1 // each confirmation of a hang costs a full timeout
			}
			for i := 0; i < runs; i++ {
				if s2, _, _, _ := childSig(runChild(item, itemTimeout, false)); s2 != sig {
					c.mu.Lock()
					c.confirmed[sig] = false
					c.mu.Unlock()
					return "", ""
				}
			}
		}
	}
	c.mu.Lock()
	_, rest, _ := strings.Cut(item, "|")
	c.crashed[rest] = sig
	c.mu.Unlock()
	kind := "the worker process died"
	if timedOut {
		kind = fmt.Sprintf("the worker did not answer within %v and was killed", itemTimeout)
	}
	msg := fmt.Sprintf("%s while serving step %q: %s\n  input: %s", kind, stepLine, summary, itemDesc(item))
	if where != "" {
		msg += "\n  site: " + where
	}
	return sig, msg
}

// fanout runs the items on worker subprocesses, in chunks, so that every
// worker process lives for a bounded number of items (fresh address space).
func (c *coord) fanout(items []string) { c.fanoutBudget(items, false) }

// fanoutBudget stops between chunks when the time budget is used up (budgeted
// stages only) and returns the number of items that were executed.
func (c *coord) fanoutBudget(items []string, budgeted bool) int {
	const chunk = 12000
	done := 0
	for len(items) > 0 {
		if budgeted && c.r.Expired() {
			return done
		}
		n := min(chunk, len(items))
		if os.Getenv("C10_VERBOSE") != "" {
			fmt.Fprintf(os.Stderr, "c10 [%5.1fs] chunk of %d items starting with %s\n", time.Since(t0).Seconds(), n, items[0])
		}
		c.r.Fanout(items[:n], evid.FanoutOpts{ItemTimeout: itemTimeout, MemLimitMB: memLimitMB, OnCrash: c.onCrash,
			Env: workerEnv()}, work)
		items = items[n:]
		done += n
	}
	return done
}

type violRec struct {
	Rest string
	Sig  string
	Len  int
	Ord  int
}

// readViolations collects what the workers noted (in-process findings) plus the crashes.
func (c *coord) readViolations(order map[string]int) []violRec {
	var out []violRec
	files, _ := filepath.Glob(filepath.Join(scratchRoot(), "viol-*.tsv"))
	for _, f := range files {
		b, _ := os.ReadFile(f)
		for _, ln := range strings.Split(string(b), "\n") {
			p := strings.Split(ln, "\t")
			if len(p) != 3 {
				continue
			}
			n, _ := strconv.Atoi(p[2])
			out = append(out, violRec{Rest: p[0], Sig: p[1], Len: n, Ord: order[p[0]]})
		}
	}
	c.mu.Lock()
	for rest, sig := range c.crashed {
		n := 0
		if cs, err := buildCase(rest); err == nil {
			n = len(cs.Data)
		}
		out = append(out, violRec{Rest: rest, Sig: sig, Len: n, Ord: order[rest]})
	}
	c.mu.Unlock()
	sort.Slice(out, func(i, j int) bool {
		if out[i].Len != out[j].Len {
			return out[i].Len < out[j].Len
		}
		if out[i].Ord != out[j].Ord {
			return out[i].Ord < out[j].Ord
		}
		return out[i].Sig < out[j].Sig
	})
	return out
}

func replayMain(path string) {
	var rp struct {
		Item string `json:"item"`
		Hex  string `json:"hex"`
	}
	if err := evid.LoadReplay(path, &rp); err != nil {
		fmt.Println("replay:", err)
		os.Exit(2)
	}
	item := rp.Item
	if rp.Hex != "" && !strings.HasPrefix(item, "G|") {
		// the recorded bytes are authoritative (the item only names how they were derived)
		fmt.Printf("replaying %s\n  as recorded bytes (%d)\n", itemDesc(item), len(rp.Hex)/2)
		item = "B|raw|" + rp.Hex
	} else {
		fmt.Printf("replaying %s\n", itemDesc(item))
	}
	os.MkdirAll(scratchRoot(), 0o755)
	defer os.RemoveAll(scratchRoot())
	fails := false
	try := func(it string) {
		cr := runChild(it, itemTimeout, false)
		switch {
		case cr.TimedOut:
			fmt.Printf("FAILS: no answer within %v (last step: %s)\n", itemTimeout, lastStep(cr.Stderr))
			fails = true
		case cr.Died:
			sig, where, summary, st := childSig(cr)
			fmt.Printf("FAILS: worker process died (%s) at step %q: %s %s\n", sig, st, summary, where)
			tail := cr.Stderr
			if i := strings.LastIndex(tail, "\npanic: "); i >= 0 {
				tail = tail[i:]
			} else if i := strings.LastIndex(tail, "fatal error: "); i >= 0 {
				tail = tail[i:]
			}
			if len(tail) > 3000 {
				tail = tail[:3000]
			}
			fmt.Println(tail)
			fails = true
		}
		for i, s := range cr.Sigs {
			fmt.Printf("FAILS: %s\n  %s\n", s, strings.ReplaceAll(cr.Msgs[i], "\n", "\n  "))
			fails = true
		}
	}
	try(item)
	if !fails && strings.HasPrefix(item, "B|") {
		// an input whose decoding fails in-process is not sent through HTTP by "B"; also do that
		try("H|" + strings.TrimPrefix(item, "B|"))
	} else if strings.HasPrefix(item, "B|") {
		fmt.Println("(HTTP path on the same input:)")
		try("H|" + strings.TrimPrefix(item, "B|"))
	}
	os.RemoveAll(scratchRoot())
	if fails {
		os.Exit(1)
	}
	fmt.Println("holds")
	os.Exit(0)
}

func main() {
	evid.Start("C10", "fault_enumeration") // silences slog before the seeds are written
	seeds = buildSeeds()
	if evid.IsWorker() {
		// one OS thread worth of Go scheduling: TotalAlloc deltas are then attributable to the call
		runtime.GOMAXPROCS(1)
		r := evid.Start("C10", "fault_enumeration")
		r.Fanout(nil, evid.FanoutOpts{}, work)
		return
	}
	if p := evid.ReplayPath(); p != "" {
		replayMain(p)
		return
	}
	r := evid.Start("C10", "fault_enumeration")
	thorough := evid.Thorough()
	budget := 95 * time.Second
	if thorough {
		budget = 13 * time.Minute
	}
	r.SetDeadline(budget)
	os.MkdirAll(scratchRoot(), 0o755)
	cleanup := func() { os.RemoveAll(scratchRoot()) }
	defer cleanup()
	c := &coord{r: r, confirmed: map[string]bool{}, crashed: map[string]string{}}
	logf := func(f string, a ...any) {
		fmt.Fprintf(os.Stderr, "c10 [%5.1fs] "+f+"\n", append([]any{time.Since(t0).Seconds()}, a...)...)
	}

	r.Rule("Seeds: valid GGUF files written by the real WriteGGUF and by a harness encoder (v1, v2, v3, big-endian, every scalar and array element type, >1024-element arrays, a single-tensor file, two models in one file). " +
		"A harness-side parser maps every length, count, type tag, dimension count, dimension, tensor kind, offset and well-known numeric value (general.alignment, general.file_type, *.block_count) of each seed (string arrays of more than 8 elements: the lengths of the first 4 and last 2 elements). " +
		"Enumerated exhaustively: (1) every field x every value of its boundary alphabet; (2) thorough tier: every pair of fields x alphabet x alphabet on the seeds marked pairs, restricted to pairs in which neither single mutation violates by itself (a pair containing a failing single is not a minimal counterexample; the number skipped is reported); " +
		"(1b) wrap-around sums: on a seed with four I8 tensors, every assignment of {2^61, 2^62, 2^63-32} to the first k-1 of k tensors (k=2..4) with the k-th size the complement that makes data start + sum of sizes congruent to each of {0, 32, data start, file length, 2^63} modulo 2^64; (3) every truncation length 0..len-1 of every seed; (4) every byte string of length <=2 (quick) / <=3 (thorough) after each of the two magics; (5) well-known keys re-encoded with a value of every other type; (6) the seeds themselves. " +
		"Every input goes through ggml.Decode(r,0) and ggml.Decode(r,-1) with panic capture and TotalAlloc accounting; every input whose decoding raised no violation then goes through llm.LoadModel(blob,0/-1) and the real gin router in-process: POST /api/blobs/:digest, POST /api/create (stream, *.gguf name) and (non-stream, no extension), POST /api/show (plain, verbose), GET /api/tags, GET /api/version as liveness probe. " +
		"Inputs whose decoding violates would take the process down in the create goroutine; their HTTP path is run for the 2 smallest inputs per decode signature (stage 2). Magic suffixes of length 2 and 3 are decode-only. " +
		"Non-trivial = distinct (by content) input that differs from its seed and contains a complete header (>=24 bytes), so that the decoder enters the key/value loop.")
	r.Assume(
		"allocation bound per Decode call: TotalAlloc delta <= 1 MiB + 256*len(input), measured with one P in the worker; legitimate decoding needs <= ~80 bytes per input byte; a measurement over the bound must repeat in 5 re-executions",
		"workers run under RLIMIT_AS = 1 GiB (about 290 MiB of Go heap); a worker killed by 'fatal error: out of memory' on a single request while handling a file of a few KiB is an allocation out of proportion; every such death is bucketed from a re-execution in a fresh process when the report is incomplete",
		fmt.Sprintf("non-termination is observed as no answer within %v, or as heap exhaustion by accumulation, for an input whose normal processing takes milliseconds; always confirmed by re-execution in a fresh process", itemTimeout),
		"HTTP: any 2xx or 4xx/5xx answer counts as 'a response'/'an error response' (the property does not prescribe bodies); bodies that are not JSON, or error statuses without a JSON error member, or empty 5xx bodies from gin's recovery middleware are counted under http_observations, not as violations",
		"the v1 layout (32-bit counts, NUL-terminated strings behind a 64-bit length) is the one ollama's decoder implements",
		"not covered: accessors that are not reached by create/show (KV.Strings/Uints/Floats, GGML.GraphSize), /api/show of a file for which create fails (a manifest can only be produced by create or pull), safetensors conversion",
		"trusted: the harness encoder/field map, evid worker fan-out, Go runtime crash reports used for bucketing")

	// ---- stage 1: seeds, single mutations, key re-typing, truncations, magic suffixes ----
	order := map[string]int{}
	var items []string
	push := func(rest string) {
		order[rest] = len(order)
		items = append(items, "B|"+rest)
	}
	type seedInfo struct {
		Name    string `json:"name"`
		Bytes   int    `json:"bytes"`
		Fields  int    `json:"fields"`
		Singles int    `json:"single_mutations"`
		Retyped int    `json:"retyped_key_cases"`
		Pairs   int64  `json:"pairs_enumerated"`
		Skipped int64  `json:"pairs_dominated_skipped"`
	}
	infos := make([]*seedInfo, len(seeds))
	singleKeys := make([][]string, len(seeds)) // per seed: rest strings of singles in order
	for si, s := range seeds {
		infos[si] = &seedInfo{Name: s.Name, Bytes: len(s.Bytes), Fields: len(s.L.fields)}
		push(fmt.Sprintf("s|%d", si))
	}
	for si, s := range seeds {
		for fi, f := range s.L.fields {
			for _, v := range alphabet(f, len(s.Bytes), s.L.tensorBase) {
				rest := fmt.Sprintf("m|%d|%d:%x", si, fi, v)
				push(rest)
				singleKeys[si] = append(singleKeys[si], rest)
				infos[si].Singles++
			}
		}
		for ki, k := range s.L.kvs {
			wk := false
			for _, w := range wellKnownKeys {
				if k.Key == w {
					wk = true
				}
			}
			if !wk {
				continue
			}
			for ri, rp := range repls {
				if sameType(k, s.Bytes, s.L.bo, rp) {
					continue
				}
				push(fmt.Sprintf("k|%d|%d|%d", si, ki, ri))
				infos[si].Retyped++
			}
		}
	}
	nWrap := 0
	for si, s := range seeds {
		if s.Name == wrapSeedName {
			for _, rest := range wrapItems(si, s) {
				push(rest)
				nWrap++
			}
		}
	}
	r.Add("wrap_sum_cases", int64(nWrap))
	nSingles := len(items)
	for si, s := range seeds {
		for n := 0; n < len(s.Bytes); n++ {
			push(fmt.Sprintf("t|%d|%d", si, n))
		}
	}
	nTrunc := len(items) - nSingles
	for mi := range magics {
		push(fmt.Sprintf("x|%d|", mi))
		for b := 0; b < 256; b++ {
			push(fmt.Sprintf("x|%d|%02x", mi, b))
		}
	}
	maxSuffix := 2
	if thorough || os.Getenv("C10_SUFFIX3") != "" {
		maxSuffix = 3
	}
	var gitems []string
	for mi := range magics {
		for b := 0; b < 256; b++ {
			for q := 0; q < 4; q++ {
				gitems = append(gitems, fmt.Sprintf("G|%d|%d|%d|%d", mi, b, maxSuffix, q))
			}
		}
	}
	logf("stage 1: %d items (%d seeds+singles+retyped, %d truncations, %d magic items) + %d magic batches", len(items), nSingles, nTrunc, len(items)-nSingles-nTrunc, len(gitems))
	c.fanout(items)
	logf("stage 1: magic suffix batches (length <= %d)", maxSuffix)
	c.fanout(gitems)
	viol := c.readViolations(order)
	logf("stage 1 done: %d violating inputs, %d signatures so far", len(viol), r.NumViolations())

	// ---- stage 2: HTTP path for the 2 smallest inputs of every decode-violation signature ----
	perSig := map[string]int{}
	var items2 []string
	seen := map[string]bool{}
	for _, v := range viol {
		if perSig[v.Sig] >= 2 || seen[v.Rest] {
			continue
		}
		perSig[v.Sig]++
		seen[v.Rest] = true
		items2 = append(items2, "H|"+v.Rest)
	}
	logf("stage 2: HTTP path for %d failing inputs (2 smallest per signature)", len(items2))
	r.Add("http_cases_for_decode_violations", int64(len(items2)))
	c.fanout(items2)

	// ---- stage 3 (thorough): pairs of fields ----
	if thorough {
		bad := map[string]bool{}
		for _, v := range c.readViolations(order) {
			bad[v.Rest] = true
		}
		for si, s := range seeds {
			if !s.Pairs {
				continue
			}
			if r.Expired() {
				r.NotExhaustive(fmt.Sprintf("time budget reached before the pair enumeration of seed %s; singles, truncations, magic suffixes and the pairs of the earlier seeds are complete", s.Name))
				continue
			}
			alph := make([][]uint64, len(s.L.fields))
			for fi, f := range s.L.fields {
				alph[fi] = alphabet(f, len(s.Bytes), s.L.tensorBase)
			}
			var pitems []string
			for i := range s.L.fields {
				for j := i + 1; j < len(s.L.fields); j++ {
					for _, a := range alph[i] {
						ka := fmt.Sprintf("m|%d|%d:%x", si, i, a)
						for _, b := range alph[j] {
							kb := fmt.Sprintf("m|%d|%d:%x", si, j, b)
							if bad[ka] || bad[kb] {
								infos[si].Skipped++
								continue
							}
							pitems = append(pitems, fmt.Sprintf("B|m|%d|%d:%x,%d:%x", si, i, a, j, b))
						}
					}
				}
			}
			logf("stage 3: seed %s: %d pairs (%d dominated pairs skipped)", s.Name, len(pitems), infos[si].Skipped)
			done := c.fanoutBudget(pitems, true)
			infos[si].Pairs = int64(done)
			r.Add("pair_cases", int64(done))
			r.Add("pairs_dominated_skipped", infos[si].Skipped)
			if done < len(pitems) {
				r.NotExhaustive(fmt.Sprintf("time budget reached during the pair enumeration of seed %s: %d of %d pairs executed (in field order); singles, truncations, magic suffixes and the pairs of the earlier seeds are complete", s.Name, done, len(pitems)))
			}
		}
	}

	// complete listing of failing inputs per signature (smallest first) for FINDINGS.md
	if dump := os.Getenv("C10_DUMP"); dump != "" {
		all := c.readViolations(order)
		by := map[string][]string{}
		var sigs []string
		cnt := map[string]int{}
		dup := map[string]bool{}
		for _, v := range all {
			if dup[v.Sig+"\x00"+v.Rest] {
				continue // the same input fails in both Decode calls / again in stage 2
			}
			dup[v.Sig+"\x00"+v.Rest] = true
			cnt[v.Sig]++
			if _, ok := by[v.Sig]; !ok {
				sigs = append(sigs, v.Sig)
			}
			if len(by[v.Sig]) < 8 {
				by[v.Sig] = append(by[v.Sig], itemDesc("B|"+v.Rest))
			}
		}
		sort.Strings(sigs)
		var sb strings.Builder
		for _, s := range sigs {
			fmt.Fprintf(&sb, "## %s (%d distinct inputs)\n", s, cnt[s])
			for _, d := range by[s] {
				fmt.Fprintf(&sb, "- %s\n", strings.ReplaceAll(d, "\n", "\n  "))
			}
			sb.WriteString("\n")
		}
		os.WriteFile(dump, []byte(sb.String()), 0o644)
	}

	var alphaDoc = "{0,1,n-1,n+1,255,2^15,2^24,2^31-1,2^31,2^32-1,2^63-1,2^63,2^64-1,fileLen,fileLen+1,2^64-tensorDataStart,2^64-fileLen} minus the original value and values wider than the field; type tags: 0..13 and 2^32-1; tensor kind: additionally 0..31"
	r.Extra("bounds", map[string]any{
		"seeds":                    infos,
		"alphabet":                 alphaDoc,
		"well_known_keys":          wellKnownKeys,
		"retype_values":            len(repls),
		"truncations":              nTrunc,
		"magic_suffix_max_len":     maxSuffix,
		"magics":                   magics,
		"alloc_bound":              "1 MiB + 256*len(input) per Decode call",
		"worker_mem_limit_mb":      memLimitMB,
		"item_timeout_s":           itemTimeout.Seconds(),
		"pairs_in_this_tier":       thorough,
		"single_and_retyped_cases": nSingles,
	})
	cleanup()
	r.Finish()
}

var t0 = time.Now()
