package main

import "github.com/ollama/ollama/sample"

func main() { sample.ZZVerifC18() }
