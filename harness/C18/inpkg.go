package sample

// C18 harness: exhaustive enumeration of (logit vector, temperature, top-k,
// top-p, min-p, RNG draw | seed) through the real NewSampler(...).Sample(...),
// judged by the independent reference in zz_verif_c18_ref.go.
//
// In-package so that Sampler.rng can be replaced by rand.New(src) with a source
// that yields a chosen 64-bit word, i.e. an exactly chosen r = k/2^24.

import (
	"encoding/json"
	"fmt"
	"math"
	"math/rand/v2"
	"os"
	"runtime/debug"
	"sort"
	"strconv"
	"strings"
	"sync/atomic"
	"time"

	"github.com/ollama/ollama/zzverif/evid"
)

// ---- case (also the replay format) ----------------------------------------------

type c18Case struct {
	Mode   string   `json:"mode"` // "draw": one call with r = draw_k/2^24; "seed": 2 x 8 calls with NewSampler(seed)
	Logits []string `json:"logits"`
	Temp   string   `json:"temperature"`
	TopK   int      `json:"top_k"`
	TopP   string   `json:"top_p"`
	MinP   string   `json:"min_p"`
	DrawK  uint32   `json:"draw_k"`
	Seed   int      `json:"seed"`
}

func c18F(f float32) string { return strconv.FormatFloat(float64(f), 'g', -1, 32) }

func c18P(s string) (float32, error) {
	v, err := strconv.ParseFloat(s, 32)
	if err != nil {
		if ne, ok := err.(*strconv.NumError); !ok || ne.Err != strconv.ErrRange {
			return 0, err
		}
	}
	return float32(v), nil
}

func c18Fs(fs []float32) []string {
	out := make([]string, len(fs))
	for i, f := range fs {
		out[i] = c18F(f)
	}
	return out
}

func (c c18Case) String() string {
	s := fmt.Sprintf("logits=[%s] temperature=%s top_k=%d top_p=%s min_p=%s", strings.Join(c.Logits, " "), c.Temp, c.TopK, c.TopP, c.MinP)
	if c.Mode == "seed" {
		return s + fmt.Sprintf(" seed=%d (two fresh samplers, %d calls each)", c.Seed, c18SeqLen)
	}
	return s + fmt.Sprintf(" r=%d/2^24", c.DrawK)
}

// ---- controlled randomness --------------------------------------------------------

// c18Src is a rand.Source that returns a fixed word. math/rand/v2 computes
// Float32 as float32(uint32(word>>32)<<8>>8) / 2^24, so word = k<<32 gives r = k/2^24.
type c18Src struct {
	word  uint64
	calls int
}

func (s *c18Src) Uint64() uint64 { s.calls++; return s.word }

const c18SeqLen = 8

// ---- executing the real sampler ---------------------------------------------------

func c18Call(s *Sampler, logits []float32) (id int32, err error, panicked string) {
	defer func() {
		if r := recover(); r != nil {
			panicked = fmt.Sprint(r)
		}
	}()
	id, err = s.Sample(logits)
	return
}

type c18Worker struct {
	src      *c18Src
	rng      *rand.Rand
	seen     map[uint64]struct{} // outcome classes already handed to evid (saves the lock + hashing per call)
	reported map[string]bool     // clauses for which this work item already recorded a confirmed witness
	buf      []float32           // private copy handed to Sample, so a sampler that wrote to its input could not disturb the enumeration
}

func newC18Worker() *c18Worker {
	src := &c18Src{}
	return &c18Worker{src: src, rng: rand.New(src), buf: make([]float32, 0, 16), seen: map[uint64]struct{}{}, reported: map[string]bool{}}
}

// draw runs one Sample call with r = k/2^24 and returns the failing clause ("" = ok).
func (w *c18Worker) draw(ref *c18Ref, logits []float32, temp float32, topK int, topP, minP float32, k uint32) (clause string, id int32, err error) {
	s := NewSampler(temp, topK, topP, minP, -1, nil) // -1: no PCG is built; the rng is replaced right below
	w.src.word = uint64(k) << 32
	s.rng = w.rng
	w.buf = append(w.buf[:0], logits...)
	id, err, p := c18Call(&s, w.buf)
	if p != "" {
		return "panic", id, fmt.Errorf("panic: %s", p)
	}
	return ref.judge(id, err), id, err
}

type c18Seq struct {
	ids  [c18SeqLen]int32
	errs [c18SeqLen]bool
}

// seeded runs two fresh NewSampler(seed) instances for c18SeqLen calls each.
func (w *c18Worker) seeded(ref *c18Ref, logits []float32, temp float32, topK int, topP, minP float32, seed int) (clause string, a, b c18Seq, detail string) {
	for run := 0; run < 2; run++ {
		s := NewSampler(temp, topK, topP, minP, seed, nil)
		sq := &a
		if run == 1 {
			sq = &b
		}
		for i := 0; i < c18SeqLen; i++ {
			w.buf = append(w.buf[:0], logits...)
			id, err, p := c18Call(&s, w.buf)
			if p != "" {
				return "panic", a, b, fmt.Sprintf("call %d: panic: %s", i, p)
			}
			if cl := ref.judge(id, err); cl != "" && clause == "" {
				clause = cl
				detail = fmt.Sprintf("call %d of run %d returned id=%d err=%v", i, run, id, err)
			}
			sq.ids[i], sq.errs[i] = id, err != nil
		}
	}
	if clause != "" {
		return clause, a, b, detail
	}
	if a != b {
		return "seed-not-reproducible", a, b, fmt.Sprintf("run 0 ids %v, run 1 ids %v", a.ids, b.ids)
	}
	return "", a, b, ""
}

// c18Exec runs one recorded case from scratch (replay, and the 5x confirmation).
func c18Exec(c c18Case, verbose bool) (clause, msg string) {
	logits := make([]float32, len(c.Logits))
	for i, s := range c.Logits {
		v, err := c18P(s)
		if err != nil {
			return "bad-case", err.Error()
		}
		logits[i] = v
	}
	temp, e1 := c18P(c.Temp)
	topP, e2 := c18P(c.TopP)
	minP, e3 := c18P(c.MinP)
	if e1 != nil || e2 != nil || e3 != nil || len(logits) == 0 || len(logits) > c18MaxN {
		return "bad-case", fmt.Sprintf("unparsable parameters or vector length outside 1..%d", c18MaxN)
	}
	refv := c18Reference(logits, temp, c.TopK, topP, minP)
	ref := &refv
	w := newC18Worker()
	if verbose {
		fmt.Println("  " + strings.ReplaceAll(ref.explain(), "\n", "\n  "))
	}
	if c.Mode == "seed" {
		cl, a, b, detail := w.seeded(ref, logits, temp, c.TopK, topP, minP, c.Seed)
		if verbose {
			fmt.Printf("  run 0: ids %v errors %v\n  run 1: ids %v errors %v\n", a.ids, a.errs, b.ids, b.errs)
		}
		if cl == "" {
			return "", ""
		}
		return cl, c18Describe(cl, ref, logits) + "; " + detail
	}
	cl, id, err := w.draw(ref, logits, temp, c.TopK, topP, minP, c.DrawK)
	if verbose {
		fmt.Printf("  Sample returned id=%d err=%v (rng source consulted %d time(s))\n", id, err, w.src.calls)
	}
	if cl == "" {
		return "", ""
	}
	return cl, c18Describe(cl, ref, logits) + fmt.Sprintf("; Sample returned id=%d err=%v", id, err)
}

func c18Describe(clause string, ref *c18Ref, logits []float32) string {
	switch clause {
	case "panic":
		return "Sample panicked"
	case "id-out-of-range":
		return fmt.Sprintf("returned id is outside [0,%d)", len(logits))
	case "neginf-token":
		return "returned token has logit -Inf although some logit is finite"
	case "greedy-not-max":
		return fmt.Sprintf("temperature 0 but the returned token's logit is not the maximum %v", ref.maxLogit)
	case "outside-top-k":
		return "returned token is not among the k highest logits"
	case "outside-top-p":
		return "returned token lies outside the top-p prefix (mass certainly ahead of it exceeds p by more than the tolerance)"
	case "outside-min-p":
		return "returned token's probability is below min_p * max probability (by more than the tolerance)"
	case "seed-not-reproducible":
		return "two samplers built with the same seed produced different id sequences on the same inputs"
	case "error-on-finite-logits/scaled-logit-overflow":
		return "Sample returned an error although some logit is finite: logit/temperature leaves the float32 range inside the sampler"
	case "error-on-finite-logits/other":
		return "Sample returned an error although some logit is finite"
	}
	return clause
}

// ---- enumeration --------------------------------------------------------------------

var (
	c18Inf = float32(math.Inf(1))
	c18NaN = float32(math.NaN())
	// boundary alphabet, simplest symbols first (so the first counterexample is the most readable one)
	c18Base = []float32{0, 1, -1, -c18Inf, 88, 1 + 1.0/(1<<23), -3e38, 3e38}
	// thorough-only additions: exp underflow partner of 88, smallest subnormal, negative zero, 2^127 (x/0.5 == 2^128 overflows exactly)
	c18Extra = []float32{-88, 1e-45, float32(math.Copysign(0, -1)), 1.7014118e38}
	c18Weird = []float32{c18Inf, c18NaN}

	c18Temps = []float32{0, 1e-9, 0.5, 1, 2}
	c18TopPs = []float32{0, 0.5, 0.9, 1}
	c18MinPs = []float32{0, 0.05, 0.5, 1}
	c18Draws = []uint32{0, 1, 1 << 22, 1 << 23, 3 << 22, 1<<24 - 1}
	c18Seeds = []int{0, 1, 42}
)

func c18TopKs(n int) []int {
	var out []int
	for _, k := range []int{-1, 0, 1, 2, n, n + 1} {
		dup := false
		for _, o := range out {
			dup = dup || o == k
		}
		if !dup {
			out = append(out, k)
		}
	}
	return out
}

// c18Item is one unit of parallel work: all vectors of length n over alpha that start with prefix.
// kind "base": every such vector; kinds "ext" and "weird": only vectors that contain at least one symbol
// beyond the base alphabet (alpha = base ++ additions), so that no vector is enumerated twice.
type c18Item struct {
	kind   string // "base" | "ext" | "weird"
	n      int
	alpha  []float32
	prefix []int
}

func (it c18Item) group() string {
	if it.kind == "runs" {
		return fmt.Sprintf("runs of three symbols, length %d..%d", c18RunsLo, it.n)
	}
	return fmt.Sprintf("length %d %s", it.n, it.kind)
}

// vectors longer than the full enumeration reaches, in run-length form (rounding that needs many addends):
// three runs over this sub-alphabet
var c18RunsAlpha = []float32{0, 1, -1, float32(math.Inf(-1)), 1 + 1.0/(1<<23)}

const c18RunsLo = 6

type c18Stats struct {
	evals, calls, groups, nontrivGroups, errOK int64
}

var c18Stop atomic.Bool

// c18Vector runs the whole parameter grid on one logit vector.
func c18Vector(sub *evid.Run, w *c18Worker, logits []float32, weird bool, st *c18Stats) {
	n := len(logits)
	vecKey := strings.Join(c18Fs(logits), " ")
	nontrivVec := false
	mk := func(mode string, temp float32, k int, p, m float32, dk uint32, seed int) c18Case {
		return c18Case{Mode: mode, Logits: c18Fs(logits), Temp: c18F(temp), TopK: k, TopP: c18F(p), MinP: c18F(m), DrawK: dk, Seed: seed}
	}
	// report records a failing case. rerun repeats it through the enumeration's own call path.
	report := func(mkCase func() c18Case, clause string, rerun func() string) {
		if w.reported[clause] {
			// this work item already holds a witness with this signature that was confirmed 5x through
			// the replay path: one more execution must agree, then the case is only counted
			if c2 := rerun(); c2 != clause {
				sub.Extra("machinery_errors", []string{fmt.Sprintf("C18 verdict not reproducible (%q then %q): %s", clause, c2, mkCase())})
				return
			}
			sub.Violation("C18/"+clause, "", nil)
			return
		}
		c := mkCase()
		// deterministic code under a controlled source: confirm 5x through the replay path
		for i := 0; i < 5; i++ {
			c2, _ := c18Exec(c, false)
			if c2 != clause {
				sub.Extra("machinery_errors", []string{fmt.Sprintf("C18 verdict not reproducible (%q then %q): %s", clause, c2, c)})
				return
			}
		}
		_, msg := c18Exec(c, false)
		ref := c18RefOf(c)
		sub.Violation("C18/"+clause, msg+"\ncase: "+c.String()+"\n"+ref.explain(), c)
		w.reported[clause] = true
	}
	for _, temp := range c18Temps {
		for _, k := range c18TopKs(n) {
			for _, p := range c18TopPs {
				for _, m := range c18MinPs {
					refv := c18Reference(logits, temp, k, p, m)
					ref := &refv
					adm := ref.admissibleMask()
					st.groups++
					if sub.WantSample() {
						sub.Sample(map[string]any{"case": mk("draw", temp, k, p, m, c18Draws[0], 0), "admissible_mask": adm})
					} else {
						sub.Sample(nil)
					}
					if !weird {
						all := uint32(1)<<uint(n) - 1
						// non-trivial: the filters (or the arg-max) really exclude something that is in the vocabulary
						if adm != all && adm != 0 && ref.anyFinite {
							st.nontrivGroups++
							nontrivVec = true
						}
					}
					for _, dk := range c18Draws {
						st.evals++
						st.calls++
						cl, id, err := w.draw(ref, logits, temp, k, p, m, dk)
						if cl != "" {
							report(func() c18Case { return mk("draw", temp, k, p, m, dk, 0) }, cl, func() string {
								c2, _, _ := w.draw(ref, logits, temp, k, p, m, dk)
								return c2
							})
							continue
						}
						// outcome class = (length, admissible mask, returned id | error)
						oc := uint64(n)<<56 | uint64(adm)<<16 | uint64(uint16(id))
						if err != nil {
							st.errOK++
							oc = uint64(n)<<56 | 0xffff
						}
						if _, ok := w.seen[oc]; !ok {
							w.seen[oc] = struct{}{}
							sub.DistinctH("outcome", oc)
						}
					}
					seeds := c18Seeds
					if weird {
						seeds = c18Seeds[:1]
					}
					for _, seed := range seeds {
						st.evals++
						st.calls += 2 * c18SeqLen
						cl, _, _, _ := w.seeded(ref, logits, temp, k, p, m, seed)
						if cl != "" {
							report(func() c18Case { return mk("seed", temp, k, p, m, 0, seed) }, cl, func() string {
								c2, _, _, _ := w.seeded(ref, logits, temp, k, p, m, seed)
								return c2
							})
						}
					}
				}
			}
		}
	}
	if nontrivVec {
		sub.Distinct("nontrivial", vecKey)
	}
	if weird {
		sub.Distinct("weird_vector", vecKey)
	}
}

func c18RefOf(c c18Case) *c18Ref {
	if len(c.Logits) > c18MaxN {
		return &c18Ref{}
	}
	logits := make([]float32, len(c.Logits))
	for i, s := range c.Logits {
		logits[i], _ = c18P(s)
	}
	t, _ := c18P(c.Temp)
	p, _ := c18P(c.TopP)
	m, _ := c18P(c.MinP)
	ref := c18Reference(logits, t, c.TopK, p, m)
	return &ref
}

// c18RunItem enumerates every vector of length it.n over it.alpha that starts with it.prefix.
// Returns false if the time budget stopped it.
func c18RunItem(it c18Item, sub *evid.Run) bool {
	w := newC18Worker()
	var st c18Stats
	if it.kind == "runs" {
		// long vectors in run-length form: a^i b^j c^k with i,j,k >= 1 and lo <= i+j+k <= hi (it.n = hi, lo = c18RunsLo)
		complete := true
		a, b, c := it.alpha[it.prefix[0]], it.alpha[it.prefix[1]], it.alpha[it.prefix[2]]
	outer:
		for n := c18RunsLo; n <= it.n; n++ {
			for i := 1; i <= n-2; i++ {
				for j := 1; i+j <= n-1; j++ {
					if c18Stop.Load() || sub.Expired() {
						c18Stop.Store(true)
						complete = false
						break outer
					}
					logits := make([]float32, 0, n)
					for x := 0; x < n; x++ {
						switch {
						case x < i:
							logits = append(logits, a)
						case x < i+j:
							logits = append(logits, b)
						default:
							logits = append(logits, c)
						}
					}
					c18Vector(sub, w, logits, false, &st)
					sub.Add("vectors", 1)
					sub.Add("run_length_vectors", 1)
				}
			}
		}
		sub.Add("evaluations", st.evals)
		sub.Add("sample_calls", st.calls)
		sub.Add("parameter_groups", st.groups)
		sub.Add("nontrivial_parameter_groups", st.nontrivGroups)
		sub.Add("accepted_error_returns_no_finite_logit_or_weird", st.errOK)
		return complete
	}
	A := len(it.alpha)
	idx := make([]int, it.n)
	copy(idx, it.prefix)
	logits := make([]float32, it.n)
	complete := true
	for {
		if c18Stop.Load() || sub.Expired() {
			c18Stop.Store(true)
			complete = false
			break
		}
		beyond := false // does the vector use a symbol beyond the base alphabet?
		for i, a := range idx {
			logits[i] = it.alpha[a]
			if a >= len(c18Base) {
				beyond = true
			}
		}
		if beyond == (it.kind != "base") {
			c18Vector(sub, w, logits, it.kind == "weird", &st)
			sub.Add("vectors", 1)
		}
		// odometer over the positions after the prefix (last position fastest)
		j := it.n - 1
		for ; j >= len(it.prefix); j-- {
			idx[j]++
			if idx[j] < A {
				break
			}
			idx[j] = 0
		}
		if j < len(it.prefix) {
			break
		}
	}
	sub.Add("evaluations", st.evals)
	sub.Add("sample_calls", st.calls)
	sub.Add("parameter_groups", st.groups)
	sub.Add("nontrivial_parameter_groups", st.nontrivGroups)
	sub.Add("accepted_error_returns_no_finite_logit_or_weird", st.errOK)
	return complete
}

func c18SelfCheck() error {
	// the RNG seam delivers exactly the chosen draws
	w := newC18Worker()
	for _, k := range c18Draws {
		w.src.word = uint64(k) << 32
		if got, want := w.rng.Float32(), float32(k)/(1<<24); got != want {
			return fmt.Errorf("controlled source: k=%d gives r=%v, want %v", k, got, want)
		}
	}
	// and Sample consults it exactly when temperature > 0
	s := NewSampler(1, 0, 1, 0, 0, nil)
	s.rng = w.rng
	w.src.calls = 0
	if _, err := s.Sample([]float32{0, 1}); err != nil || w.src.calls == 0 {
		return fmt.Errorf("Sample did not draw from the replaced rng (calls=%d err=%v)", w.src.calls, err)
	}
	// text round trip of every alphabet symbol
	for _, f := range append(append(append([]float32{}, c18Base...), c18Extra...), c18Weird...) {
		g, err := c18P(c18F(f))
		if err != nil || math.Float32bits(g) != math.Float32bits(f) && !(f != f && g != g) {
			return fmt.Errorf("float text round trip failed for %v", f)
		}
	}
	return nil
}

func ZZVerifC18() {
	r := evid.Start("C18", "exploration")
	if p := evid.ReplayPath(); p != "" {
		var c c18Case
		if err := evid.LoadReplay(p, &c); err != nil {
			fmt.Println("replay:", err)
			os.Exit(2)
		}
		fmt.Printf("replaying case %s\n", c)
		clause, msg := c18Exec(c, true)
		if clause == "bad-case" {
			fmt.Println("replay:", msg)
			os.Exit(2)
		}
		if clause != "" {
			fmt.Printf("FAILS: C18/%s: %s\n", clause, msg)
			os.Exit(1)
		}
		fmt.Println("holds")
		os.Exit(0)
	}
	if err := c18SelfCheck(); err != nil {
		r.Extra("machinery_errors", []string{err.Error()})
		r.NotExhaustive("self-check failed, nothing enumerated")
		r.Finish()
	}
	thorough := evid.Thorough()
	// the live heap is a few MB while every Sample call allocates: without this the collector
	// would run every few milliseconds on all cores
	debug.SetGCPercent(20000)
	debug.SetMemoryLimit(1 << 30) // ... but never let the heap grow beyond 1 GiB

	// bounds: (kind, max length); "ext" and "weird" enumerate only the vectors that use one of their extra symbols
	ext := append(append([]float32{}, c18Base...), c18Extra...)
	weirdAlpha := append(append([]float32{}, c18Base...), c18Weird...)
	type phase struct {
		kind   string
		lo, hi int
	}
	// dispatch order = priority order if the time budget should stop the run
	phases := []phase{{"base", 1, 5}, {"ext", 1, 3}, {"weird", 1, 4}}
	budget := 115 * time.Second // ~20 s of work on 16 idle cores; the margin is for a loaded machine
	if thorough {
		phases = []phase{{"base", 1, 5}, {"ext", 1, 3}, {"weird", 1, 4}, {"base", 6, 6}, {"ext", 4, 5}, {"weird", 5, 5}}
		budget = 15 * time.Minute // ~5.5 min of work on 16 idle cores
	}
	if v, err := strconv.Atoi(os.Getenv("C18_MAXLEN")); err == nil { // debugging aid only
		for i := range phases {
			phases[i].hi = min(phases[i].hi, v)
		}
		r.NotExhaustive(fmt.Sprintf("C18_MAXLEN=%d debugging cap", v))
	}
	if v, err := strconv.Atoi(os.Getenv("C18_BUDGET_S")); err == nil && v > 0 { // for running to completion on a loaded machine
		budget = time.Duration(v) * time.Second
	}
	r.SetDeadline(budget)

	r.Rule("every logit vector (ordered, with repetition) of length 1..base_max_len over the base alphabet (ties, -Inf, +-3e38, 88, 1 vs 1+2^-23) and of length 1..ext_max_len over base+ext symbols (-88, 1e-45, -0, 2^127) and, beyond those lengths, every vector a^i b^j c^k (three runs, i,j,k >= 1, total length 6..runs_max_len) over {0, 1, -1, -Inf, 1+2^-23} x temperature x top-k {-1,0,1,2,n,n+1} x top-p x min-p x {6 exact RNG draws r=k/2^24 through a replaced Sampler.rng, 3 seeds through the real NewSampler (two fresh samplers x 8 calls)}; every call goes through the real NewSampler(...).Sample(...). A separate sub-run covers every vector that contains +Inf or NaN with the weak oracle. One evaluation = one (vector, parameters, draw) call or one (vector, parameters, seed) pair of 8-call sequences. Non-trivial = the reference's admissible set is a non-empty proper subset of the vocabulary (filters / arg-max really exclude a token); distinct_nontrivial counts distinct logit vectors (main run only) having such a parameter combination, nontrivial_parameter_groups counts the (vector, parameters) combinations; +Inf/NaN vectors are counted in distinct_weird_vector.")
	r.Assume(
		"admissible set, float64 reference: top-k = tokens whose logit >= the k-th largest (boundary ties all admissible; k<=0 or k>=n keeps all); probabilities = softmax(logit/max(temperature,1e-7)) over that set (1e-7 is the documented temperature floor; it only widens the sets); top-p = shortest descending-probability prefix whose mass exceeds p; min-p = prob >= min_p * max prob; filters compose in the sampler's order",
		"tolerance: a token is reported as outside top-p / min-p only if it fails for every float32 rounding of logit/temperature and of the subtraction of the maximum (envelope 2^-22*(|z|+|zmax|) on the scaled logits) and then by a further relative margin of 1e-4; near-ties are therefore never judged",
		"when a finite logit divided by the temperature leaves the float32 range, only 'a token is returned, in range, not -Inf, inside top-k' is demanded (no top-p/min-p judgement); an error return there is reported because the property says a token is always returned while some logit is finite",
		"+Inf and NaN logits are outside the property text ('finite' / 'negative infinity'): only 'no panic, and an id in range or an error' is demanded",
		"an error return is accepted when no logit is finite (all -Inf)",
		"reproducibility: two fresh NewSampler(seed) given the same 8 inputs return the same 8 ids; parameters are passed through NewSampler so its clamping applies",
		"trusted: math/rand/v2 computes Float32 from the top 32 bits of one source word (checked at start-up), the Go float64 math library")

	var items []c18Item
	maxLen := map[string]int{}
	for _, ph := range phases {
		alpha := map[string][]float32{"base": c18Base, "ext": ext, "weird": weirdAlpha}[ph.kind]
		for n := ph.lo; n <= ph.hi; n++ {
			maxLen[ph.kind] = max(maxLen[ph.kind], n)
			pl := max(n-2, 0)
			var rec func(pre []int)
			rec = func(pre []int) {
				if len(pre) == pl {
					items = append(items, c18Item{kind: ph.kind, n: n, alpha: alpha, prefix: append([]int{}, pre...)})
					return
				}
				for a := range alpha {
					rec(append(pre, a))
				}
			}
			rec(nil)
		}
	}
	runsHi := 10
	if thorough {
		runsHi = 16
	}
	for a := range c18RunsAlpha {
		for b := range c18RunsAlpha {
			for c := range c18RunsAlpha {
				if a != b && b != c {
					items = append(items, c18Item{kind: "runs", n: runsHi, alpha: c18RunsAlpha, prefix: []int{a, b, c}})
				}
			}
		}
	}
	subs := make([]*evid.Run, len(items))
	done := make([]bool, len(items))
	names := make([]string, len(items))
	for i := range items {
		names[i] = strconv.Itoa(i)
	}
	r.Parallel(0, names, func(item string, _ *evid.Run) {
		i, _ := strconv.Atoi(item)
		s := r.Sub()
		done[i] = c18RunItem(items[i], s)
		subs[i] = s
	})
	// merge in ascending vector length (evid keeps the first witness per signature, so it is the smallest)
	order := make([]int, len(items))
	for i := range order {
		order[i] = i
	}
	sort.SliceStable(order, func(a, b int) bool { return items[order[a]].n < items[order[b]].n })
	incomplete := map[string]int{}
	total := map[string]int{}
	for _, i := range order {
		r.Merge(subs[i])
		total[items[i].group()]++
		if !done[i] {
			incomplete[items[i].group()]++
		}
	}
	if len(incomplete) > 0 {
		b, _ := json.Marshal(incomplete)
		t, _ := json.Marshal(total)
		r.NotExhaustive(fmt.Sprintf("time budget %v reached; work items not completed per (vector length, alphabet): %s of %s; every group not listed as incomplete was covered completely", budget, b, t))
	}
	r.Extra("bounds", map[string]any{
		"base_alphabet":            c18Fs(c18Base),
		"runs_max_len":             runsHi,
		"base_max_len":             maxLen["base"],
		"ext_additional_symbols":   c18Fs(c18Extra),
		"ext_max_len":              maxLen["ext"],
		"weird_additional_symbols": c18Fs(c18Weird),
		"weird_max_len":            maxLen["weird"],
		"temperatures":             c18Fs(c18Temps),
		"top_k":                    "{-1,0,1,2,n,n+1}",
		"top_p":                    c18Fs(c18TopPs),
		"min_p":                    c18Fs(c18MinPs),
		"draws_k_over_2pow24":      c18Draws,
		"seeds":                    c18Seeds,
		"calls_per_seeded_case":    2 * c18SeqLen,
	})
	r.Finish()
}
