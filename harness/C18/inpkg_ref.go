package sample

// C18 reference: which token ids may a sampler return for (logits, temperature,
// top-k, top-p, min-p)?  Written independently of samplers.go / transforms.go:
// float64 arithmetic, no call into the code under test, and *tolerant*: a token
// is called inadmissible only when it fails a filter for every way the float32
// roundings inside a sampler could have fallen, and then by a further relative
// margin of 1e-4.

import (
	"fmt"
	"math"
	"strings"
)

const (
	c18RelMargin = 1e-4 // relative margin demanded before a filter failure is reported
	// a float32 sampler rounds x/T once (relative 2^-24), subtracts the rounded
	// maximum (another 2^-24 of each operand and of the difference); 2^-22 of
	// (|z|+|zmax|) is twice the worst case of that chain
	c18ScaledEps = 1.0 / (1 << 22)
)

type c18Ref struct {
	n         int
	weird     bool // a +Inf or NaN logit: outside the property text, weak check only
	greedy    bool // temperature 0
	anyFinite bool // some logit is finite (main run: some logit > -Inf)
	maxLogit  float64
	overflow  bool // a finite logit divided by the temperature leaves the float32 range
	failK     uint32
	failP     uint32
	failM     uint32

	x [c18MaxN]float64
	// kept for explanations only
	prob [c18MaxN]float64 // exact (float64) probabilities after top-k, NaN for tokens outside K
	sgt  [c18MaxN]float64 // lower bound of the probability mass definitely ahead of token i
	whi  [c18MaxN]float64 // upper bound of prob_i / prob_max
}

// c18MaxN bounds the vector length the reference handles (fixed arrays keep the
// enumeration free of heap allocations on the reference side).
const c18MaxN = 16

// c18TempFloor is the documented lower clip of the temperature ("temperature
// clipping near 0"), as the float32 value the sampler holds.
var c18TempFloor = float64(float32(1e-7))

func c18Reference(logits []float32, temp float32, topK int, topP, minP float32) (ref c18Ref) {
	n := len(logits)
	ref.n, ref.maxLogit = n, math.Inf(-1)
	x := ref.x[:n]
	for i, l := range logits {
		x[i] = float64(l)
		if math.IsNaN(x[i]) || math.IsInf(x[i], 1) {
			ref.weird = true
		}
		if !math.IsInf(x[i], 0) && !math.IsNaN(x[i]) {
			ref.anyFinite = true
		}
		if x[i] > ref.maxLogit {
			ref.maxLogit = x[i]
		}
	}
	if ref.weird {
		return ref
	}
	if !(temp > 0) {
		ref.greedy = true
		return ref
	}
	if !ref.anyFinite {
		return ref // no finite mass: nothing is demanded beyond "in range or error"
	}

	// ---- top-k on the raw logits: exact comparisons, boundary ties are all admissible
	if topK > 0 && topK < n {
		var sa [c18MaxN]float64
		s := sa[:n]
		copy(s, x)
		for a := 1; a < n; a++ { // insertion sort, descending
			for b := a; b > 0 && s[b] > s[b-1]; b-- {
				s[b], s[b-1] = s[b-1], s[b]
			}
		}
		kth := s[topK-1]
		for i := range x {
			if x[i] < kth {
				ref.failK |= 1 << uint(i)
			}
		}
	}

	// ---- scaled logits
	T := math.Max(float64(temp), c18TempFloor)
	var z [c18MaxN]float64
	zmax := math.Inf(-1)
	for i := range x {
		z[i] = x[i] / T
		if !math.IsInf(x[i], 0) && math.Abs(z[i]) > math.MaxFloat32*(1-1e-6) {
			ref.overflow = true
		}
		if ref.failK&(1<<uint(i)) == 0 && z[i] > zmax {
			zmax = z[i]
		}
	}

	// ---- weights relative to the maximum, with rounding envelopes.  When a scaled logit
	// leaves the float32 range a sampler may either keep the exact quotient (wider
	// arithmetic) or saturate it at +-MaxFloat32; a token fails top-p / min-p only if it
	// fails under both readings.
	ref.failP, ref.failM = c18Filters(&ref, z[:n], zmax, topP, minP, true)
	if ref.overflow {
		var zs [c18MaxN]float64
		smax := math.Inf(-1)
		for i := range x {
			zs[i] = z[i]
			if !math.IsInf(x[i], 0) {
				zs[i] = math.Max(-math.MaxFloat32, math.Min(math.MaxFloat32, z[i]))
			}
			if ref.failK&(1<<uint(i)) == 0 && zs[i] > smax {
				smax = zs[i]
			}
		}
		fp, fm := c18Filters(&ref, zs[:n], smax, topP, minP, false)
		ref.failP &= fp
		ref.failM &= fm
	}
	return ref
}

// c18Filters evaluates top-p and min-p for one reading z of the scaled logits.
func c18Filters(ref *c18Ref, z []float64, zmax float64, topP, minP float32, record bool) (failP, failM uint32) {
	n := len(z)
	var lo, hi, wlo, whi [c18MaxN]float64 // lo/hi: bounds of the log weight
	var Whi, Wexact float64
	for i := 0; i < n; i++ {
		if ref.failK&(1<<uint(i)) != 0 {
			continue
		}
		l := z[i] - zmax
		if math.IsInf(z[i], -1) {
			lo[i], hi[i] = math.Inf(-1), math.Inf(-1)
		} else {
			e := c18ScaledEps*(math.Abs(z[i])+math.Abs(zmax)) + 1e-6
			lo[i], hi[i] = l-e, l+e
		}
		wlo[i] = math.Max(0, math.Exp(lo[i])*(1-1e-6)-1e-40)
		whi[i] = math.Exp(hi[i])*(1+1e-6) + 1e-40
		Whi += whi[i]
		Wexact += math.Exp(l)
	}
	Whi *= 1 + 1e-6
	for t := 0; t < n; t++ {
		if ref.failK&(1<<uint(t)) != 0 {
			if record {
				ref.prob[t] = math.NaN()
			}
			continue
		}
		// top-p: the shortest prefix (by descending probability) whose mass exceeds p.
		// Token t is outside it only if the tokens that are *certainly* more probable
		// than t already carry more than p.
		var s float64
		for j := 0; j < n; j++ {
			if ref.failK&(1<<uint(j)) == 0 && lo[j] > hi[t] {
				s += wlo[j]
			}
		}
		s /= Whi
		if record {
			ref.prob[t] = math.Exp(z[t]-zmax) / Wexact
			ref.sgt[t] = s
			ref.whi[t] = whi[t]
		}
		if s*(1-c18RelMargin)-1e-30 > float64(topP) {
			failP |= 1 << uint(t)
		}
		// min-p: prob_t >= minP * prob_max  <=>  weight_t (relative to the max) >= minP
		if minP > 0 && whi[t]*(1+c18RelMargin)+1e-30 < float64(minP) {
			failM |= 1 << uint(t)
		}
	}
	return failP, failM
}

// admissibleMask returns the ids the oracle would accept (bit i = token i).
func (ref *c18Ref) admissibleMask() uint32 {
	all := uint32(1)<<uint(ref.n) - 1
	switch {
	case ref.weird:
		return all
	case ref.greedy:
		var m uint32
		for i, v := range ref.x[:ref.n] {
			if v == ref.maxLogit {
				m |= 1 << uint(i)
			}
		}
		return m
	case !ref.anyFinite:
		return all
	}
	m := all &^ ref.failK
	m &^= ref.failP | ref.failM
	for i, v := range ref.x[:ref.n] {
		if math.IsInf(v, -1) {
			m &^= 1 << uint(i)
		}
	}
	return m
}

// judge returns "" when (id, err) is acceptable, else the oracle clause that fails.
func (ref *c18Ref) judge(id int32, err error) string {
	if ref.weird {
		if err == nil && (id < 0 || int(id) >= ref.n) {
			return "id-out-of-range"
		}
		return ""
	}
	if err != nil {
		if !ref.anyFinite {
			return "" // no finite logit: the property demands nothing
		}
		if !ref.greedy && ref.overflow {
			return "error-on-finite-logits/scaled-logit-overflow"
		}
		return "error-on-finite-logits/other"
	}
	if id < 0 || int(id) >= ref.n {
		return "id-out-of-range"
	}
	if ref.anyFinite && math.IsInf(ref.x[id], -1) {
		return "neginf-token"
	}
	if ref.greedy {
		if ref.x[id] != ref.maxLogit {
			return "greedy-not-max"
		}
		return ""
	}
	if !ref.anyFinite {
		return ""
	}
	b := uint32(1) << uint(id)
	if ref.failK&b != 0 {
		return "outside-top-k"
	}
	if ref.failP&b != 0 {
		return "outside-top-p"
	}
	if ref.failM&b != 0 {
		return "outside-min-p"
	}
	return ""
}

func (ref *c18Ref) explain() string {
	var b strings.Builder
	m := ref.admissibleMask()
	var ids []string
	for i := 0; i < ref.n; i++ {
		if m&(1<<uint(i)) != 0 {
			ids = append(ids, fmt.Sprint(i))
		}
	}
	fmt.Fprintf(&b, "reference: admissible ids {%s}", strings.Join(ids, ","))
	switch {
	case ref.weird:
		b.WriteString(" (+Inf/NaN logit: only 'no panic, id in range or error' is demanded)")
	case ref.greedy:
		fmt.Fprintf(&b, " (temperature 0: logit must equal the maximum %v)", ref.maxLogit)
	case !ref.anyFinite:
		b.WriteString(" (no finite logit: id in range or error)")
	default:
		if ref.overflow {
			b.WriteString(" (a scaled logit leaves the float32 range: top-p / min-p failures are reported only if they hold both for the exact and for the saturated quotient)")
		}
		for i := 0; i < ref.n; i++ {
			fmt.Fprintf(&b, "\n    id %d logit %v", i, ref.x[i])
			if ref.failK&(1<<uint(i)) != 0 {
				b.WriteString("  outside top-k")
				continue
			}
			fmt.Fprintf(&b, "  prob %.6g  mass certainly ahead >= %.6g  prob/max <= %.6g", ref.prob[i], ref.sgt[i], ref.whi[i])
			if ref.failP&(1<<uint(i)) != 0 {
				b.WriteString("  outside top-p")
			}
			if ref.failM&(1<<uint(i)) != 0 {
				b.WriteString("  outside min-p")
			}
		}
	}
	return b.String()
}
