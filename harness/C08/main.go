package main

import "github.com/ollama/ollama/server/internal/cache/blob"

func main() { blob.ZZVerifC08() }
