package blob

// C08 harness: the real blob.DiskCache over the controlled file system.
// Three exhaustive sub-enumerations share one oracle:
//   sources:    every way a source reader can misbehave (sequential)
//   crash:      every crash point (incl. write prefixes) of every short history
//   concurrent: every interleaving (FS-call granularity) of writers of one blob

import (
	"bytes"
	"crypto/sha256"
	"encoding/json"
	"errors"
	"fmt"
	"io"
	gos "os"
	"path/filepath"
	"sort"
	"strings"
	gotime "time"

	"github.com/ollama/ollama/zzverif/evid"
	"github.com/ollama/ollama/zzverif/mcos"
	"github.com/ollama/ollama/zzverif/mcrt"
)

func z8Data(size int, variant byte) []byte {
	b := make([]byte, size)
	for i := range b {
		b[i] = variant*16 + byte(i) + 1
	}
	return b
}

func z8Digest(b []byte) Digest {
	var d Digest
	s := sha256.Sum256(b)
	copy(d.sum[:], s[:])
	return d
}

// ---- source readers ------------------------------------------------------------------

type z8Source struct {
	Kind  string `json:"kind"`  // good, short, long, flip, error
	K     int    `json:"k"`     // parameter: bytes missing / extra / flipped index / bytes before the error
	Chunk int    `json:"chunk"` // bytes per Read (0: all at once)
}

func (s z8Source) String() string { return fmt.Sprintf("%s(%d)/chunk%d", s.Kind, s.K, s.Chunk) }

type z8Reader struct {
	data  []byte
	pos   int
	chunk int
	errAt int // -1: none
	yield bool
}

var errZ8Source = errors.New("source failed")

func (r *z8Reader) Read(p []byte) (int, error) {
	if r.yield {
		mcrt.Yield("source.Read")
	}
	if r.errAt >= 0 && r.pos >= r.errAt {
		return 0, errZ8Source
	}
	if r.pos >= len(r.data) {
		return 0, io.EOF
	}
	n := len(r.data) - r.pos
	if r.chunk > 0 && n > r.chunk {
		n = r.chunk
	}
	if n > len(p) {
		n = len(p)
	}
	if r.errAt >= 0 && r.pos+n > r.errAt {
		n = r.errAt - r.pos
	}
	copy(p, r.data[r.pos:r.pos+n])
	r.pos += n
	return n, nil
}

func z8NewReader(good []byte, s z8Source) *z8Reader {
	r := &z8Reader{chunk: s.Chunk, errAt: -1}
	switch s.Kind {
	case "good":
		r.data = good
	case "short":
		r.data = good[:len(good)-s.K]
	case "long":
		r.data = append(append([]byte{}, good...), make([]byte, s.K)...)
	case "flip":
		r.data = append([]byte{}, good...)
		r.data[s.K] ^= 0x40
	case "error":
		r.data = good
		r.errAt = s.K
	}
	return r
}

// ---- oracle ----------------------------------------------------------------------------

type z8World struct {
	dir    string
	blobs  map[string][]byte // name -> true content
	stored map[string]bool   // a Put/Import of this blob has returned nil
	where  string
}

// checkBlobs: the invariant of the property, evaluated directly on the directory.
func (w *z8World) checkBlobs(fail func(clause, msg string)) {
	names := make([]string, 0, len(w.blobs))
	for n := range w.blobs {
		names = append(names, n)
	}
	sort.Strings(names)
	for _, n := range names {
		data := w.blobs[n]
		d := z8Digest(data)
		file := filepath.Join(w.dir, "blobs", fmt.Sprintf("sha256-%x", d.sum))
		st, err := gos.Stat(file)
		present := err == nil && st.Size() == int64(len(data)) && len(data) > 0
		if present {
			got, _ := gos.ReadFile(file)
			if !bytes.Equal(got, data) {
				clip := func(b []byte) []byte {
					if len(b) > 24 {
						return b[:24]
					}
					return b
				}
				fail("wrong-content", fmt.Sprintf("blob %s is present with its size %d but holds %x... instead of %x...", n, len(data), clip(got), clip(data)))
			}
		}
		if w.stored[n] && len(data) > 0 && !present {
			sz := int64(-1)
			if err == nil {
				sz = st.Size()
			}
			fail("lost-blob", fmt.Sprintf("blob %s was stored successfully but is no longer retrievable (file size now %d, expected %d)", n, sz, len(data)))
		}
	}
}

// checkNames: resolving a name returns the digest of exactly the bytes linked, and that blob is retrievable.
func (w *z8World) checkNames(names []string, fail func(clause, msg string)) {
	c, err := Open(w.dir)
	if err != nil {
		fail("reopen", "Open on the directory failed: "+err.Error())
		return
	}
	for _, name := range names {
		mp, err := c.manifestPath(name)
		if err != nil {
			continue
		}
		raw, rerr := gos.ReadFile(mp)
		d, err := c.Resolve(name)
		if err != nil {
			if rerr == nil && len(raw) > 0 {
				fail("resolve-error", fmt.Sprintf("name %s has a manifest file of %d bytes but Resolve fails: %v", name, len(raw), err))
			}
			continue
		}
		if rerr != nil || d != z8Digest(raw) {
			fail("resolve-digest", fmt.Sprintf("Resolve(%s) = %v, the linked bytes hash to %v", name, d, z8Digest(raw)))
		}
		if e, err := c.Get(d); len(raw) > 0 && (err != nil || e.Size != int64(len(raw))) {
			fail("resolve-unretrievable", fmt.Sprintf("Resolve(%s) = %v but Get of it fails (%v, size %d)", name, d, err, e.Size))
		}
	}
}

// ---- sub-harness 1: faulty sources (sequential) --------------------------------------------

type z8SrcCase struct {
	Size     int      `json:"size"`
	Src      z8Source `json:"src"`
	Declared int      `json:"declared"`
	Chunked  []int    `json:"chunked,omitempty"` // chunk boundaries order (chunk indices), nil: plain Put
	BadChunk int      `json:"bad_chunk"`         // index into Chunked of the chunk fed from Src (-1: none)
	Stop     int      `json:"stop"`              // stop after this many chunks (simulates an aborted transfer)
}

func z8RunSrcCase(dir string, c z8SrcCase) (clause, msg string) {
	gos.RemoveAll(dir)
	defer func() {
		if r := recover(); r != nil {
			clause, msg = "panic", fmt.Sprint(r)
		}
	}()
	data := z8Data(c.Size, 1)
	d := z8Digest(data)
	w := &z8World{dir: dir, blobs: map[string][]byte{"A": data}, stored: map[string]bool{}}
	cache, err := Open(dir)
	if err != nil {
		return "open", err.Error()
	}
	fail := func(cl, m string) {
		if clause == "" {
			clause, msg = cl, m
		}
	}
	if c.Chunked == nil {
		err = cache.Put(d, z8NewReader(data, c.Src), int64(c.Declared))
		if err == nil && c.Declared == c.Size {
			w.stored["A"] = true
		}
		w.checkBlobs(fail)
		if c.Src.Kind == "good" && c.Declared == c.Size && err != nil {
			fail("good-put-fails", "Put of correct content fails: "+err.Error())
		}
		// a correct Put afterwards
		err = cache.Put(d, z8NewReader(data, z8Source{Kind: "good", Chunk: 2}), int64(c.Size))
		if err == nil {
			w.stored["A"] = true
		}
		w.checkBlobs(fail)
		return
	}
	// chunked: 3 chunks over the blob, written in the given order
	bounds := z8ChunkBounds(c.Size)
	ck, err := cache.Chunked(d, int64(c.Size))
	if err != nil {
		return "chunked", err.Error()
	}
	for i, ci := range c.Chunked {
		if i == c.Stop {
			break
		}
		part := data[bounds[ci]:bounds[ci+1]]
		src := z8Source{Kind: "good", Chunk: 2}
		if i == c.BadChunk {
			src = c.Src
		}
		if src.Kind != "good" && src.K >= len(part) {
			src.K = len(part) - 1
		}
		err := ck.Put(Chunk{Start: int64(bounds[ci]), End: int64(bounds[ci+1] - 1)}, z8Digest(part), z8NewReader(part, src))
		w.where = fmt.Sprintf("after chunk %d (%v)", ci, err)
		w.checkBlobs(func(cl, m string) { fail(cl, m+" "+w.where) })
	}
	ck.Close()
	w.checkBlobs(fail)
	return
}

func z8ChunkBounds(size int) []int { return []int{0, size / 3, 2 * size / 3, size} }

// ---- sub-harnesses 2 and 3 under mcrt ----------------------------------------------------

type z8Op struct {
	Kind string   `json:"op"` // put, import, link, unlink, resolve, chunked
	Blob string   `json:"blob,omitempty"`
	Name string   `json:"name,omitempty"`
	Src  z8Source `json:"src,omitempty"`
	Ord  []int    `json:"order,omitempty"`
}

func (o z8Op) String() string {
	switch o.Kind {
	case "put", "import":
		return fmt.Sprintf("%s(%s,%s)", o.Kind, o.Blob, o.Src)
	case "chunked":
		return fmt.Sprintf("chunked(%s,order %v)", o.Blob, o.Ord)
	case "link":
		return fmt.Sprintf("link(%s->%s)", o.Name, o.Blob)
	default:
		return fmt.Sprintf("%s(%s)", o.Kind, o.Name)
	}
}

type z8Scenario struct {
	Kind    string   `json:"kind"` // crash, concurrent
	Threads [][]z8Op `json:"threads"`
	Crash   bool     `json:"crash"`
}

var z8Blobs = map[string][]byte{
	"A": z8Data(5, 1),
	"B": z8Data(9, 2),
	"M": []byte(`{"layers":[]}`),
	// larger than the copy buffer of io.Copy (32 KiB): stored in several writes even from a source that delivers all it is asked for
	"L": z8Data(70000, 3),
}

const z8Name1 = "registry.example/lib/model:tag"
const z8Name2 = "registry.example/lib/MODEL:tag"

func z8Exec(c *DiskCache, w *z8World, op z8Op) {
	data := z8Blobs[op.Blob]
	switch op.Kind {
	case "put":
		r := z8NewReader(data, op.Src)
		if err := c.Put(z8Digest(data), r, int64(len(data))); err == nil {
			w.stored[op.Blob] = true
			mcrt.Observe("put %s ok", op.Blob)
		} else {
			mcrt.Observe("put %s: %v", op.Blob, z8Err(err))
		}
	case "import":
		if _, err := c.Import(z8NewReader(data, op.Src), int64(len(data))); err == nil && op.Src.Kind == "good" {
			w.stored[op.Blob] = true
		}
	case "chunked":
		bounds := z8ChunkBounds(len(data))
		ck, err := c.Chunked(z8Digest(data), int64(len(data)))
		if err != nil {
			return
		}
		okAll := true
		for _, ci := range op.Ord {
			part := data[bounds[ci]:bounds[ci+1]]
			if err := ck.Put(Chunk{Start: int64(bounds[ci]), End: int64(bounds[ci+1] - 1)}, z8Digest(part), z8NewReader(part, z8Source{Kind: "good", Chunk: 2})); err != nil {
				okAll = false
			}
		}
		ck.Close()
		if okAll && len(op.Ord) == 3 {
			w.stored[op.Blob] = true
		}
	case "link":
		err := c.Link(op.Name, z8Digest(data))
		if err == nil {
			// linked only to a blob that exists
			if !w.stored[op.Blob] {
				mcrt.Fail("C08: link-without-blob: Link(%s) succeeded although blob %s was never stored", op.Name, op.Blob)
			}
		}
	case "unlink":
		c.Unlink(op.Name)
	case "resolve":
		c.Resolve(op.Name)
	}
}

func z8Err(err error) string {
	s := err.Error()
	if i := strings.LastIndex(s, ": "); i >= 0 {
		s = s[i+2:]
	}
	return s
}

var z8Root string

func z8Body(sc z8Scenario) func() {
	return func() {
		dir := filepath.Join(z8Root, "cache")
		gos.RemoveAll(z8Root)
		gos.MkdirAll(filepath.Join(z8Root, "tmp"), 0o755)
		gos.Setenv("TMPDIR", filepath.Join(z8Root, "tmp"))
		w := &z8World{dir: dir, blobs: z8Blobs, stored: map[string]bool{}}
		fail := func(cl, m string) { mcrt.Fail("C08: %s: %s", cl, m) }
		env := &mcos.Env{Root: z8Root, CrashEnabled: sc.Crash, WritePrefixes: sc.Crash}
		env.OnMutate = func(label string) {
			w.checkBlobs(func(cl, m string) { fail(cl, m+" [before "+label+"]") })
		}
		env.OnCrash = func(label string) {
			// the directory is what a kill at this instant leaves behind
			// (w.stored holds exactly the stores that had returned nil at this instant: they must survive)
			w.checkBlobs(func(cl, m string) { fail(cl+"-after-crash", m+" [crash "+label+"]") })
			w.checkNames([]string{z8Name1, z8Name2}, func(cl, m string) { fail(cl+"-after-crash", m+" [crash "+label+"]") })
			// the next process opens the cache on what the crash left and stores once more: a store that
			// reports success must make the blob retrievable whatever debris is in its way
			menu := []z8Op{{Kind: "import", Blob: "A", Src: z8Source{Kind: "good", Chunk: 2}}, {Kind: "put", Blob: "A", Src: z8Source{Kind: "good", Chunk: 2}},
				{Kind: "put", Blob: "B", Src: z8Source{Kind: "good", Chunk: 3}}, {Kind: "import", Blob: "B", Src: z8Source{Kind: "good", Chunk: 3}}}
			labels := []string{"nothing"}
			for _, o := range menu {
				labels = append(labels, fmt.Sprintf("%s %s", o.Kind, o.Blob))
			}
			if k := mcrt.Choose(mcrt.Free, "after the restart", labels...); k > 0 {
				c2, err := Open(dir)
				if err != nil {
					fail("reopen-after-crash", fmt.Sprintf("the cache cannot be opened on what the crash left: %v [crash %s]", err, label))
					return
				}
				mcrt.Observe("after restart: %s", labels[k])
				z8Exec(c2, w, menu[k-1])
				w.checkBlobs(func(cl, m string) { fail(cl+"-after-restart", m+" [crash "+label+", then "+labels[k]+"]") })
			}
		}
		mcos.E = env
		mcrt.OnExecEnd(func() { mcos.E = nil })
		c, err := Open(dir)
		if err != nil {
			mcrt.Fail("C08: open: %v", err)
			return
		}
		if len(sc.Threads) == 1 {
			for _, op := range sc.Threads[0] {
				z8Exec(c, w, op)
			}
		} else {
			var wg mcrt.WaitGroup
			for ti, ops := range sc.Threads {
				ops := ops
				wg.Add(1)
				mcrt.GoNamed(fmt.Sprintf("w%d", ti), func() {
					defer wg.Done()
					for _, op := range ops {
						z8Exec(c, w, op)
					}
				})
			}
			wg.Wait()
		}
		env.Frozen = true
		w.checkBlobs(func(cl, m string) { fail(cl, m+" [end]") })
		w.checkNames([]string{z8Name1, z8Name2}, func(cl, m string) { fail(cl, m+" [end]") })
	}
}

func z8Scenarios(thorough bool) []z8Scenario {
	var l []z8Scenario
	good := z8Source{Kind: "good", Chunk: 2}
	// crash: every history of <= 2 (thorough: 3) operations
	alphabet := []z8Op{
		{Kind: "put", Blob: "A", Src: good},
		{Kind: "put", Blob: "B", Src: z8Source{Kind: "good", Chunk: 3}},
		{Kind: "put", Blob: "A", Src: z8Source{Kind: "flip", K: 1, Chunk: 2}},
		{Kind: "put", Blob: "A", Src: z8Source{Kind: "short", K: 2, Chunk: 2}},
		{Kind: "import", Blob: "A", Src: good},
		{Kind: "put", Blob: "M", Src: z8Source{Kind: "good", Chunk: 5}},
		{Kind: "put", Blob: "M", Src: z8Source{Kind: "short", K: 3, Chunk: 5}}, // a failed store of the manifest blob
		{Kind: "link", Name: z8Name1, Blob: "M"},
		{Kind: "link", Name: z8Name2, Blob: "M"},
		{Kind: "unlink", Name: z8Name1},
		{Kind: "resolve", Name: z8Name1},
		{Kind: "chunked", Blob: "B", Ord: []int{0, 1, 2}},
		{Kind: "chunked", Blob: "B", Ord: []int{2, 0, 1}},
		{Kind: "chunked", Blob: "B", Ord: []int{2, 1}},
	}
	depth := 2
	if thorough {
		depth = 3
	}
	var rec func(h []z8Op)
	rec = func(h []z8Op) {
		if len(h) > 0 {
			l = append(l, z8Scenario{Kind: "crash", Threads: [][]z8Op{append([]z8Op{}, h...)}, Crash: true})
		}
		if len(h) == depth {
			return
		}
		for _, op := range alphabet {
			rec(append(h, op))
		}
	}
	rec(nil)
	big := z8Source{Kind: "good", Chunk: 1 << 20}
	l = append(l, z8Scenario{Kind: "crash", Crash: true, Threads: [][]z8Op{{{Kind: "put", Blob: "L", Src: big}}}})
	l = append(l, z8Scenario{Kind: "crash", Crash: true, Threads: [][]z8Op{{{Kind: "import", Blob: "L", Src: big}}}})
	l = append(l, z8Scenario{Kind: "concurrent", Threads: [][]z8Op{{{Kind: "put", Blob: "L", Src: big}}, {{Kind: "put", Blob: "L", Src: big}}}})
	// concurrent writers of the same blob
	srcs := []z8Source{good, {Kind: "flip", K: 0, Chunk: 2}, {Kind: "flip", K: 4, Chunk: 2}, {Kind: "short", K: 2, Chunk: 2}, {Kind: "error", K: 2, Chunk: 2}, {Kind: "long", K: 1, Chunk: 2}}
	for _, s2 := range srcs {
		l = append(l, z8Scenario{Kind: "concurrent", Threads: [][]z8Op{{{Kind: "put", Blob: "A", Src: good}}, {{Kind: "put", Blob: "A", Src: s2}}}})
		l = append(l, z8Scenario{Kind: "concurrent", Crash: true, Threads: [][]z8Op{{{Kind: "put", Blob: "A", Src: good}}, {{Kind: "put", Blob: "A", Src: s2}}}})
	}
	l = append(l, z8Scenario{Kind: "concurrent", Threads: [][]z8Op{{{Kind: "put", Blob: "M", Src: good}, {Kind: "link", Name: z8Name1, Blob: "M"}}, {{Kind: "put", Blob: "M", Src: good}, {Kind: "link", Name: z8Name2, Blob: "M"}}}})
	l = append(l, z8Scenario{Kind: "concurrent", Threads: [][]z8Op{{{Kind: "put", Blob: "A", Src: good}}, {{Kind: "chunked", Blob: "A", Ord: []int{2, 0, 1}}}}})
	if thorough {
		for _, s2 := range srcs[1:] {
			l = append(l, z8Scenario{Kind: "concurrent", Threads: [][]z8Op{{{Kind: "put", Blob: "A", Src: good}}, {{Kind: "put", Blob: "A", Src: s2}}, {{Kind: "put", Blob: "A", Src: good}}}})
		}
	}
	return l
}

type z8Replay struct {
	Src      *z8SrcCase  `json:"src_case,omitempty"`
	Scenario *z8Scenario `json:"scenario,omitempty"`
	Choices  string      `json:"choices,omitempty"`
}

func z8Bounds(sc z8Scenario, thorough bool) mcrt.Bounds {
	var b mcrt.Bounds
	if sc.Crash {
		b[mcrt.Crash] = 1
	}
	if sc.Kind == "concurrent" {
		b[mcrt.Preempt] = 3
		b[mcrt.Switch] = -1
		if thorough {
			b[mcrt.Preempt] = -1
		}
		if len(sc.Threads) > 2 {
			b[mcrt.Preempt] = 2
		}
	}
	return b
}

// z8Sig: oracle clause + mechanism involved (root-cause granularity)
func z8Sig(f string, sc z8Scenario) string {
	s := strings.TrimPrefix(f, "C08: ")
	if i := strings.Index(s, ":"); i > 0 {
		s = s[:i]
	}
	mech := "single-writer"
	if sc.Kind == "concurrent" {
		// writers that all deliver correct content must never hurt each other; the recorded finding needs a failing writer
		mech = "concurrent-good-writers"
		for _, t := range sc.Threads {
			for _, o := range t {
				if (o.Kind == "put" || o.Kind == "import") && o.Src.Kind != "good" {
					mech = "concurrent-writers"
				}
			}
		}
	}
	for _, t := range sc.Threads {
		for _, o := range t {
			if o.Kind == "chunked" {
				mech = "chunked-write"
			}
		}
	}
	return "C08/" + s + "/" + mech
}

func ZZVerifC08() {
	r := evid.Start("C08", "fault_enumeration")
	thorough := evid.Thorough()
	z8Root = fmt.Sprintf("/dev/shm/verif-c08-%d", gos.Getpid())
	defer gos.RemoveAll(z8Root)
	if p := evid.ReplayPath(); p != "" {
		var rp z8Replay
		if err := evid.LoadReplay(p, &rp); err != nil {
			fmt.Println("replay:", err)
			gos.Exit(2)
		}
		if rp.Src != nil {
			js, _ := json.Marshal(rp.Src)
			fmt.Printf("source case %s\n", js)
			cl, m := z8RunSrcCase(filepath.Join(z8Root, "src"), *rp.Src)
			gos.RemoveAll(z8Root)
			if cl != "" {
				fmt.Printf("FAILS: %s: %s\n", cl, m)
				gos.Exit(1)
			}
			fmt.Println("holds")
			gos.Exit(0)
		}
		x := &mcrt.Explorer{Bounds: z8Bounds(*rp.Scenario, true), Body: z8Body(*rp.Scenario), Cfg: mcrt.Config{MaxSteps: 20000}, NoCache: true}
		res, labels := x.Replay(mcrt.DecodeChoices(rp.Choices))
		gos.RemoveAll(z8Root)
		js, _ := json.Marshal(rp.Scenario)
		fmt.Printf("scenario %s\n", js)
		for _, l := range labels {
			fmt.Println("  choice", l)
		}
		for _, t := range res.Trace {
			fmt.Println(t)
		}
		bad := false
		for _, f := range res.Failures {
			fmt.Println("FAILS:", f)
			bad = true
		}
		for _, pn := range res.Panics {
			fmt.Println("PANIC:", pn.Value)
			bad = true
		}
		if bad {
			gos.Exit(1)
		}
		fmt.Println("holds on this execution")
		gos.Exit(0)
	}

	scs := z8Scenarios(thorough)
	budget := 200 * gotime.Second
	if thorough {
		budget = 15 * gotime.Minute
	}
	deadline := gotime.Now().Add(budget)
	var items []string
	for i := range scs {
		items = append(items, fmt.Sprintf("S %d", i))
	}
	items = append(items, "SRC 0", "SRC 1", "SRC 2", "SRC 3", "NAMES 0")
	r.Fanout(items, evid.FanoutOpts{Env: []string{"GOMAXPROCS=2"}, MemLimitMB: 4096}, func(item string, sub *evid.Run) {
		var kind string
		var idx int
		fmt.Sscan(item, &kind, &idx)
		if kind == "SRC" {
			z8Sources(sub, idx, thorough)
			return
		}
		if kind == "NAMES" {
			z8Names(sub, thorough)
			return
		}
		sc := scs[idx]
		x := &mcrt.Explorer{Bounds: z8Bounds(sc, thorough), Body: z8Body(sc), Cfg: mcrt.Config{MaxSteps: 20000}, Deadline: deadline}
		x.OnExec = func(choices []int, res *mcrt.Result) {
			if res.Pruned {
				return
			}
			key := item + "\n" + strings.Join(res.Log, "\n")
			if sub.Distinct("outcome", key) {
				if res.Aborted || sc.Kind == "concurrent" {
					sub.Distinct("nontrivial", key)
				}
				if sub.WantSample() {
					sub.Sample(map[string]any{"scenario": sc, "log": res.Log})
				} else {
					sub.Sample(nil)
				}
			}
			var fails []string
			for _, f := range res.Failures {
				fails = append(fails, f)
			}
			for _, p := range res.Panics {
				fails = append(fails, "C08: panic: "+p.Value)
			}
			if len(fails) == 0 {
				return
			}
			if !x.Confirm(choices, res, 5) {
				sub.Extra("machinery_errors", []string{"nondeterministic replay in " + fmt.Sprint(sc) + " " + mcrt.EncodeChoices(choices)})
				return
			}
			js, _ := json.Marshal(sc)
			sub.Violation(z8Sig(fails[0], sc), strings.Join(fails, "\n")+"\nscenario "+string(js)+"\nchoices "+mcrt.EncodeChoices(choices), z8Replay{Scenario: &sc, Choices: mcrt.EncodeChoices(choices)})
		}
		x.Explore(nil)
		sub.Add("evaluations", x.Execs)
		sub.Add("transitions", x.Transitions)
		sub.Add("pruned_by_hb_cache", x.PrunedExecs)
		if x.Stopped {
			sub.NotExhaustive("time budget reached in scenario " + fmt.Sprint(sc))
		}
	})
	r.Rule("sources: every blob size x every reader misbehaviour (short/long by k, flipped byte at each index, error after k bytes, wrong declared size) x read chunking, through Put and through every order / abort point / bad chunk of a 3-chunk Chunker write; crash: every history of the operation alphabet up to the stated depth x every crash point (before each mutating FS call and after each proper prefix of each write); concurrent: all interleavings at FS-call granularity of 2-3 writers of one blob within the preemption bound, also combined with one crash. Oracle on every state/image: present-with-right-size => right content, acknowledged store stays retrievable, Link only to a stored blob, Resolve == digest of the linked bytes and retrievable. names: every history of up to 3 (thorough 4) Link / Unlink operations over six names that differ in the letter case of one part or in the model, against a reference table (name up to case -> bytes last linked); after every operation every spelling resolves to what the table says. Non-trivial = distinct executions that ended in a crash image or ran concurrent writers, and name histories that leave two names linked.")
	r.Assume("a crash is process death: what was written stays written (no page-cache loss is modelled)", "time stamps (Chtimes) are not part of the property")
	r.Extra("bounds", map[string]any{"scenarios": len(scs), "crash_history_depth": map[bool]int{false: 2, true: 3}[thorough]})
	r.Finish()
}

// z8Names: every history of up to depth link / unlink operations over names that differ in the letter case of one
// part (host, namespace, model, tag) or in the model, against a reference table "name up to case -> blob"; after every
// operation every spelling of every name must resolve to what the table says (or to nothing).
func z8Names(sub *evid.Run, thorough bool) {
	dir := filepath.Join(z8Root, "names")
	names := []string{"H.example/n/m:t", "h.example/n/x:t", "H.example/n/x:t", "h.example/n/m:t", "h.example/N/m:t", "h.example/n/M:T"}
	blobs := []string{"M", "M2"}
	data := map[string][]byte{"M": []byte(`{"layers":[]}`), "M2": []byte(`{"layers":[],"x":1}`)}
	type op struct {
		Link bool   `json:"link"`
		Name string `json:"name"`
		Blob string `json:"blob,omitempty"`
	}
	var ops []op
	for _, n := range names {
		for _, b := range blobs {
			ops = append(ops, op{true, n, b})
		}
		ops = append(ops, op{false, n, ""})
	}
	depth := 3
	if thorough {
		depth = 4
	}
	run := func(h []op) {
		gos.RemoveAll(dir)
		c, err := Open(dir)
		if err != nil {
			sub.Extra("machinery_errors", []string{"C08 names: " + err.Error()})
			return
		}
		for _, b := range blobs {
			if err := PutBytes(c, z8Digest(data[b]), data[b]); err != nil {
				sub.Extra("machinery_errors", []string{"C08 names: " + err.Error()})
				return
			}
		}
		table := map[string]string{}
		for i, o := range h {
			if o.Link {
				if err := c.Link(o.Name, z8Digest(data[o.Blob])); err == nil {
					table[strings.ToLower(o.Name)] = o.Blob
				}
			} else if _, err := c.Unlink(o.Name); err == nil {
				delete(table, strings.ToLower(o.Name))
			}
			for _, n := range names {
				want, linked := table[strings.ToLower(n)]
				d, err := c.Resolve(n)
				js, _ := json.Marshal(h[:i+1])
				switch {
				case linked && err != nil:
					sub.Violation("C08/names/linked-name-does-not-resolve", fmt.Sprintf("after %s the name %s is linked to %s (under some spelling) but Resolve fails: %v", js, n, want, err), h[:i+1])
					return
				case linked && d != z8Digest(data[want]):
					sub.Violation("C08/names/resolves-to-other-bytes", fmt.Sprintf("after %s Resolve(%s) = %v, the bytes last linked under this name (up to case) are %s = %v", js, n, d, want, z8Digest(data[want])), h[:i+1])
					return
				case !linked && err == nil:
					sub.Violation("C08/names/unlinked-name-resolves", fmt.Sprintf("after %s Resolve(%s) = %v although the name is not linked", js, n, d), h[:i+1])
					return
				}
			}
		}
		sub.Eval()
		if len(table) >= 2 {
			js, _ := json.Marshal(h)
			sub.Distinct("nontrivial", string(js))
		}
	}
	var rec func(h []op)
	rec = func(h []op) {
		if len(h) > 0 {
			run(h)
		}
		if len(h) == depth {
			return
		}
		for _, o := range ops {
			rec(append(h, o))
		}
	}
	rec(nil)
	gos.RemoveAll(dir)
}

func z8Sources(sub *evid.Run, shard int, thorough bool) {
	dir := filepath.Join(z8Root, fmt.Sprintf("src%d", shard))
	sizes := []int{0, 1, 2, 5, 9}
	n := 0
	run := func(c z8SrcCase) {
		n++
		if n%4 != shard {
			return
		}
		sub.Eval()
		js, _ := json.Marshal(c)
		if c.Src.Kind != "good" || c.Declared != c.Size || c.Chunked != nil {
			sub.Distinct("nontrivial", string(js))
		}
		if sub.WantSample() {
			sub.Sample(c)
		} else {
			sub.Sample(nil)
		}
		cl, m := z8RunSrcCase(dir, c)
		if cl == "" {
			return
		}
		for i := 0; i < 5; i++ {
			if c2, _ := z8RunSrcCase(dir, c); c2 != cl {
				sub.Extra("machinery_errors", []string{"C08 source case not reproducible " + string(js)})
				return
			}
		}
		sig := "C08/" + cl + "/single-writer"
		if c.Chunked != nil {
			sig = "C08/" + cl + "/chunked-write"
		}
		sub.Violation(sig, m+"\ncase "+string(js), z8Replay{Src: &c})
	}
	for _, size := range sizes {
		for _, chunk := range []int{0, 1, 2, 3} {
			var srcs []z8Source
			srcs = append(srcs, z8Source{Kind: "good", Chunk: chunk})
			for k := 1; k <= size; k++ {
				srcs = append(srcs, z8Source{Kind: "short", K: k, Chunk: chunk})
			}
			for k := 1; k <= 2; k++ {
				srcs = append(srcs, z8Source{Kind: "long", K: k, Chunk: chunk})
			}
			for k := 0; k < size; k++ {
				srcs = append(srcs, z8Source{Kind: "flip", K: k, Chunk: chunk})
			}
			for k := 0; k <= size; k++ {
				srcs = append(srcs, z8Source{Kind: "error", K: k, Chunk: chunk})
			}
			for _, s := range srcs {
				for _, decl := range []int{size, size - 1, size + 1} {
					if decl < 0 {
						continue
					}
					run(z8SrcCase{Size: size, Src: s, Declared: decl, BadChunk: -1})
				}
			}
		}
	}
	// chunked writes of a 9-byte blob: every order of the 3 chunks, every abort point, every bad chunk
	perms := [][]int{{0, 1, 2}, {0, 2, 1}, {1, 0, 2}, {1, 2, 0}, {2, 0, 1}, {2, 1, 0}}
	for _, size := range []int{5, 9} {
		for _, p := range perms {
			for stop := 1; stop <= 3; stop++ {
				run(z8SrcCase{Size: size, Declared: size, Chunked: p, BadChunk: -1, Stop: stop, Src: z8Source{Kind: "good"}})
				for bad := 0; bad < stop; bad++ {
					for _, s := range []z8Source{{Kind: "flip", K: 0, Chunk: 2}, {Kind: "short", K: 1, Chunk: 2}, {Kind: "error", K: 1, Chunk: 2}} {
						run(z8SrcCase{Size: size, Declared: size, Chunked: p, BadChunk: bad, Stop: stop, Src: s})
					}
				}
			}
		}
	}
	// a manifest blob just over Resolve's read limit of 1 MiB (a literal in the code, so the real size is used):
	// the name must resolve to the digest of exactly the bytes linked, or not at all
	if shard == 0 {
		sub.Eval()
		big := bytes.Repeat([]byte("0123456789abcdef"), (1<<20)/16)
		big = append(big, 'x')
		gos.RemoveAll(dir)
		if c, err := Open(dir); err == nil {
			d := DigestFromBytes(big)
			if err := c.Put(d, bytes.NewReader(big), int64(len(big))); err == nil {
				if err := c.Link(z8Name1, d); err == nil {
					if got, err := c.Resolve(z8Name1); err == nil && got != d {
						sub.Violation("C08/resolve-digest/large-manifest", fmt.Sprintf("a manifest blob of %d bytes was stored and linked; Resolve returns %v, the linked bytes hash to %v (the digest of the first 1 MiB is %v)", len(big), got, d, DigestFromBytes(big[:1<<20])), nil)
					}
				}
			}
		}
	}
	gos.RemoveAll(dir)
}
