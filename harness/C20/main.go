// C20 harness: exhaustive bounded enumeration of strings through the real
// BytePairEncoding (real llama3.2 vocabulary; synthetic byte-complete vocabulary
// with adversarial merges) and the real SentencePieceModel (synthetic vocabulary
// with byte-fallback tokens). See DESIGN.md section 3/C20 and NOTES.md.
package main

import (
	"fmt"
	"os"
	"runtime"
	"strconv"
	"strings"
	"sync/atomic"
	"time"

	"github.com/ollama/ollama/zzverif/evid"
)

// class representatives (DESIGN 3/C20); the per-tokenizer control literal s1 is appended
var baseAlphabet = []string{
	"a", "B", "\u00e9", "\u4e2d", "\U0001f600", "\u0301", "1", " ", "\t", "\n", "\r", "'", "s", "~", "!", "\u00a0", "\u00ad", "\u007f",
}

type subrun struct {
	name   string
	alpha  []string
	maxLen int
	norm   bool
	plen   int             // prefix length of a work item
	own    map[string]bool // symbols first listed by this sub-run (nil: main run, everything counts)
}

type ctx struct{ pre, post []string }

type plan struct {
	sp      *tokSpec
	subs    []*subrun
	allcp   []ctx           // contexts of the all-code-points sub-run
	cpOwned map[string]bool // symbols that occur in some enumerated alphabet
	pairMax int             // code-point-pairs sub-run: all pairs of code points U+0001..pairMax
	pool    chan *tok
}

func (p *plan) get() *tok {
	select {
	case t := <-p.pool:
		return t
	default:
	}
	t, err := newTok(p.sp)
	if err != nil {
		fmt.Fprintln(os.Stderr, "C20: cannot build tokenizer", p.sp.name+":", err)
		os.Exit(2)
	}
	return t
}

func (p *plan) put(t *tok) {
	select {
	case p.pool <- t:
	default:
	}
}

func ipow(b, e int) int {
	n := 1
	for i := 0; i < e; i++ {
		n *= b
	}
	return n
}

func mkplan(sp *tokSpec, thorough bool) *plan {
	p := &plan{sp: sp, pool: make(chan *tok, 2*runtime.NumCPU())}
	pick := func(q, t int) int {
		if thorough {
			return t
		}
		return q
	}
	mainAlpha := append(append([]string{}, baseAlphabet...), sp.s1)
	add := func(name string, alpha []string, maxLen int, norm bool) {
		p.subs = append(p.subs, &subrun{name: name, alpha: alpha, maxLen: maxLen, norm: norm})
	}
	add("main", mainAlpha, pick(5, 6), false)
	add("two-specials", []string{"a", " ", sp.s1, sp.s2}, pick(6, 8), false)
	add("partial-literal", []string{"a", sp.s1, sp.s1[:len(sp.s1)-1], ">", "<"}, pick(4, 6), false)
	add("id105-106-literals", []string{"a", " ", sp.v105, sp.v106, sp.s1}, pick(4, 6), false)
	switch sp.name {
	case "bpe-synth":
		add("ab-deep", []string{"a", "b"}, pick(12, 16), false)
		add("ab-space", []string{"a", "b", " "}, pick(8, 10), false)
	case "spm-synth":
		add("ab-space", []string{"a", "b", " "}, pick(8, 10), false)
		add("u2581", []string{"a", " ", spmSep, sp.s1}, pick(5, 7), true)
		add("byte-token-literals", []string{"a", " ", "<0x41>", "<0x0A>", sp.s1}, pick(4, 6), false)
	}
	seen := map[string]bool{}
	for i, s := range p.subs {
		if i > 0 {
			s.own = map[string]bool{}
		}
		for _, a := range s.alpha {
			if !seen[a] {
				seen[a] = true
				if i > 0 {
					s.own[a] = true
				}
			}
		}
		if s.name == "partial-literal" {
			// two symbols of this alphabet concatenate to a third one, so its cases are not
			// distinct by construction: they are evaluated but never counted as distinct cases
			s.own = map[string]bool{}
		}
		s.plen = 0
		for s.plen < s.maxLen && ipow(len(s.alpha), s.plen) < 64 {
			s.plen++
		}
	}
	p.cpOwned = seen
	p.pairMax = pick(0xff, 0x7ff)
	p.allcp = []ctx{{}, {pre: []string{"a"}, post: []string{"a"}}}
	if thorough {
		p.allcp = append(p.allcp, ctx{pre: []string{" "}}, ctx{post: []string{" "}}, ctx{pre: []string{"1"}, post: []string{"\n"}}, ctx{pre: []string{sp.s1}, post: []string{"'", "s"}})
	}
	return p
}

var capNoted atomic.Bool

const cpChunk = 4096
const pairChunk = 16

// work executes one item: "<plan>|<subrun>|<prefix indexes>" or "<plan>|allcp|<first code point>".
func work(plans []*plan, item string, r *evid.Run) {
	f := strings.Split(item, "|")
	pi, _ := strconv.Atoi(f[0])
	p := plans[pi]
	t := p.get()
	defer p.put(t)
	t0 := time.Now()
	defer func() { r.Add("worker_ms/"+p.sp.name, time.Since(t0).Milliseconds()) }()
	n := 0
	expired := func() bool {
		n++
		if (n == 1 || n%512 == 0) && r.Expired() {
			if capNoted.CompareAndSwap(false, true) {
				r.NotExhaustive("internal time budget reached: some work items (sub-run prefixes / code-point chunks) were not or only partly enumerated; the cases/* counters give what was covered")
			}
			return true
		}
		return false
	}
	if f[1] == "allcp" {
		first, _ := strconv.Atoi(f[2])
		defer t.flush(r, "all-code-points")
		if expired() {
			return
		}
		for cp := first; cp < first+cpChunk && cp <= 0x10ffff; cp++ {
			if cp == 0 || (cp >= 0xd800 && cp <= 0xdfff) {
				continue // NUL is excluded by the property; surrogates are not valid UTF-8
			}
			c := string(rune(cp))
			if p.sp.family == "spm" && c == spmSep {
				continue // enumerated in the labelled u2581 sub-run
			}
			for _, cx := range p.allcp {
				syms := append(append(append([]string{}, cx.pre...), c), cx.post...)
				t.run(r, "all-code-points", kase{syms: syms}, !p.cpOwned[c])
			}
			if expired() {
				return
			}
		}
		return
	}
	if f[1] == "cppairs" {
		first, _ := strconv.Atoi(f[2])
		defer t.flush(r, "code-point-pairs")
		for a := first; a < first+pairChunk && a <= p.pairMax; a++ {
			if a == 0 {
				continue
			}
			ca := string(rune(a))
			for b := 1; b <= p.pairMax; b++ {
				cb := string(rune(b))
				if p.sp.family == "spm" && (ca == spmSep || cb == spmSep) {
					continue
				}
				t.run(r, "code-point-pairs", kase{syms: []string{ca, cb}}, !p.cpOwned[ca] && !p.cpOwned[cb])
				if expired() {
					return
				}
			}
		}
		return
	}
	si, _ := strconv.Atoi(f[1])
	s := p.subs[si]
	defer t.flush(r, s.name)
	seq := make([]string, 0, s.maxLen)
	owned := 0
	counted := func() bool { return s.own == nil || owned > 0 }
	push := func(a string) {
		seq = append(seq, a)
		if s.own[a] {
			owned++
		}
	}
	pop := func() {
		if s.own[seq[len(seq)-1]] {
			owned--
		}
		seq = seq[:len(seq)-1]
	}
	stop := false
	var rec func(limit int)
	rec = func(limit int) {
		if stop {
			return
		}
		t.run(r, s.name, kase{syms: seq, norm: s.norm}, counted())
		if expired() {
			stop = true
			return
		}
		if len(seq) >= limit {
			return
		}
		for _, a := range s.alpha {
			push(a)
			rec(limit)
			pop()
		}
	}
	if f[2] == "short" {
		// everything shorter than the item prefix length
		if s.plen > 0 {
			rec(s.plen - 1)
		}
		return
	}
	for _, x := range strings.Split(f[2], ",") {
		i, _ := strconv.Atoi(x)
		push(s.alpha[i])
	}
	rec(s.maxLen)
}

func main() {
	r := evid.Start("C20", "exploration")
	repo := os.Getenv("VERIF_REPO")
	if repo == "" {
		repo = "/repo"
	}
	v1, err := loadLlama32(repo)
	if err != nil {
		fmt.Fprintln(os.Stderr, "C20: cannot load the llama3.2 vocabulary:", err)
		os.Exit(2)
	}
	specs := []*tokSpec{v1, synthBPE(), synthSPM()}

	if rp := evid.ReplayPath(); rp != "" {
		replay(rp, specs)
		return
	}

	thorough := evid.Thorough()
	if thorough {
		r.SetDeadline(14 * time.Minute)
	} else {
		r.SetDeadline(70 * time.Second)
	}
	var plans []*plan
	for _, sp := range specs {
		plans = append(plans, mkplan(sp, thorough))
	}

	r.Rule("For each of three tokenizers built from the real code (BytePairEncoding with the real llama3.2 vocabulary via llama.New; BytePairEncoding with a synthetic byte-complete vocabulary with overlapping merges via mistral3.NewTextModel; SentencePieceModel with a synthetic gemma-layout vocabulary with 256 byte tokens): " +
		"every string of length <= n symbols over each sub-run alphabet (main: 18 class-representative code points + one control-token literal; two-specials; literals of vocabulary entries 105/106; deep runs over {a,b} / {a,b,space}; for SPM the labelled U+2581 and <0xNN>-literal sub-runs), " +
		"every Unicode scalar value except NUL alone and inside fixed contexts (all-code-points), and every ordered pair of code points below a bound (code-point-pairs). Each case: Encode(s,false) -> ids in [0,|V|) -> Decode == s -> control-token ids appear exactly where the control literals are and the text between them round-trips -> (length <= 3) Encode(s,true) differs only by a leading BOS / trailing EOS. " +
		"Cases are distinct by construction (each (tokenizer, string) is generated once; a sub-run case is counted only if it contains a symbol that no earlier sub-run enumerates, an all-code-points / code-point-pairs case only if its code points occur in no sub-run alphabet; the partial-literal sub-run is never counted). Non-trivial = at least one produced token covers more than one input byte (a merge, a multi-byte piece or a control literal was recognised), or SPM byte fallback was used. " +
		"A failing case is attributed to its shortest failing contiguous sub-sequence (its core), which is re-executed 5x; the signature is family/clause/core.")
	r.Assume(
		"special tokens whose literal must map to the token id = tokens of type CONTROL in the vocabulary given to the tokenizer; for the literals of vocabulary entries 105/106 (hard-coded in Vocabulary.SpecialVocabulary) only the round trip and the id range are demanded",
		"SentencePiece represents a space as U+2581, so input that itself contains U+2581 comes back with a space there; this is inherent to the format: such inputs are enumerated in the sub-run 'u2581' with U+2581 expected back as a space and counted in spm_u2581_cases_returned_as_space, not reported",
		"addSpecial=true is checked in the weakest form (the result decodes to the text after removing an optional leading BOS / trailing EOS) and only for cases of length <= 3 symbols",
		"the synthetic vocabularies are byte-complete by construction; the llama3.2 vocabulary is checked for byte completeness when it is loaded",
		"GPT-2 byte/rune table and all expected values are computed by the harness independently of the code under test; Go's unicode/utf8 and strings packages are trusted")

	// shortest cases first, sequentially, so that the reported message of a signature is its smallest input
	var items []string
	for pi, p := range plans {
		for si := range p.subs {
			work(plans, fmt.Sprintf("%d|%d|short", pi, si), r)
		}
	}
	// then the prefixes of every sub-run, interleaved over tokenizers, followed by the code-point chunks
	for pi, p := range plans {
		for si, s := range p.subs {
			idx := make([]int, s.plen)
			for {
				var parts []string
				for _, i := range idx {
					parts = append(parts, strconv.Itoa(i))
				}
				items = append(items, fmt.Sprintf("%d|%d|%s", pi, si, strings.Join(parts, ",")))
				k := s.plen - 1
				for k >= 0 {
					idx[k]++
					if idx[k] < len(s.alpha) {
						break
					}
					idx[k] = 0
					k--
				}
				if k < 0 {
					break
				}
			}
		}
	}
	for pi := range plans {
		for cp := 0; cp <= 0x10ffff; cp += cpChunk {
			items = append(items, fmt.Sprintf("%d|allcp|%d", pi, cp))
		}
	}
	for pi, p := range plans {
		for a := 0; a <= p.pairMax; a += pairChunk {
			items = append(items, fmt.Sprintf("%d|cppairs|%d", pi, a))
		}
	}
	r.Parallel(0, items, func(item string, sub *evid.Run) { work(plans, item, sub) })

	reportFindings(r)

	bounds := map[string]any{}
	for _, p := range plans {
		b := map[string]any{"vocabulary": p.sp.info, "control_literals_in_alphabets": []string{p.sp.s1, p.sp.s2},
			"vocabulary_entries_105_106": []string{p.sp.v105, p.sp.v106}}
		for _, s := range p.subs {
			b[s.name] = map[string]any{"alphabet": s.alpha, "max_len": s.maxLen, "u2581_expected_as_space": s.norm}
		}
		var cx []string
		for _, c := range p.allcp {
			cx = append(cx, strings.Join(c.pre, "")+"<cp>"+strings.Join(c.post, ""))
		}
		b["all-code-points"] = map[string]any{"range": "U+0001..U+10FFFF without surrogates", "contexts": cx}
		b["code-point-pairs"] = fmt.Sprintf("all ordered pairs of code points U+0001..U+%04X", p.pairMax)
		bounds[p.sp.name] = b
	}
	r.Extra("bounds", bounds)
	r.Finish()
}

func replay(path string, specs []*tokSpec) {
	var c replayCase
	if err := evid.LoadReplay(path, &c); err != nil {
		fmt.Println("replay:", err)
		os.Exit(2)
	}
	for _, sp := range specs {
		if sp.name != c.Tok {
			continue
		}
		t, err := newTok(sp)
		if err != nil {
			fmt.Println("replay:", err)
			os.Exit(2)
		}
		k := kase{syms: c.Syms, norm: c.Norm}
		fmt.Printf("replaying tokenizer=%s subrun=%s symbols=%q\n", c.Tok, c.Subrun, c.Syms)
		v := t.check(k)
		fmt.Printf("Encode(%s,false) = %v\nDecode = %s\n", strconv.QuoteToASCII(k.text()), v.ids, strconv.QuoteToASCII(v.dec))
		if v.clause != "" {
			fmt.Printf("FAILS: %s: %s\n", v.clause, v.detail)
			os.Exit(1)
		}
		fmt.Println("holds")
		os.Exit(0)
	}
	fmt.Println("replay: unknown tokenizer", c.Tok)
	os.Exit(2)
}
