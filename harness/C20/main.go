// C20 harness: exhaustive bounded enumeration of strings through the real
// BytePairEncoding (real llama3.2 vocabulary; synthetic byte-complete vocabulary
// with adversarial merges) and the real SentencePieceModel (synthetic vocabulary
// with byte-fallback tokens). See DESIGN.md section 3/C20 and NOTES.md.
package main

import (
	"fmt"
	"os"
	"runtime"
	"runtime/pprof"
	"strconv"
	"strings"
	"sync/atomic"
	"time"

	"github.com/ollama/ollama/zzverif/evid"
)

// class representatives (DESIGN 3/C20); the per-tokenizer control literal s1 is appended
var baseAlphabet = []string{
	"a", "B", "\u00e9", "\u4e2d", "\U0001f600", "\u0301", "1", " ", "\t", "\n", "\r", "'", "s", "~", "!", "\u00a0", "\u00ad", "\u007f",
}

type subrun struct {
	name   string
	alpha  []string
	qLen   int // bound of the quick tier
	maxLen int // bound of this tier
	norm   bool
	plen   int             // prefix length of a work item
	own    map[string]bool // symbols first listed by this sub-run (nil: main run, everything counts)
}

type ctx struct{ pre, post []string }

type plan struct {
	sp      *tokSpec
	subs    []*subrun
	allcp   []ctx           // contexts of the all-code-points sub-run
	nqCtx   int             // the first nqCtx contexts belong to the quick tier
	cpOwned map[string]bool // symbols that occur in some enumerated alphabet
	pairMax int             // code-point-pairs sub-run: all ordered pairs of code points U+0001..pairMax
	pool    chan *tok
}

const pairQuickMax = 0xff

func (p *plan) get() *tok {
	select {
	case t := <-p.pool:
		return t
	default:
	}
	t, err := newTok(p.sp)
	if err != nil {
		fmt.Fprintln(os.Stderr, "C20: cannot build tokenizer", p.sp.name+":", err)
		os.Exit(2)
	}
	return t
}

func (p *plan) put(t *tok) {
	select {
	case p.pool <- t:
	default:
	}
}

func ipow(b, e int) int {
	n := 1
	for i := 0; i < e; i++ {
		n *= b
	}
	return n
}

func mkplan(sp *tokSpec, thorough bool) *plan {
	p := &plan{sp: sp, pool: make(chan *tok, 2*runtime.NumCPU())}
	mainAlpha := append(append([]string{}, baseAlphabet...), sp.s1)
	add := func(name string, alpha []string, q, t int, norm bool) {
		s := &subrun{name: name, alpha: alpha, qLen: q, maxLen: q, norm: norm}
		if thorough {
			s.maxLen = t
		}
		p.subs = append(p.subs, s)
	}
	add("main", mainAlpha, 4, 6, false)
	add("two-specials", []string{"a", " ", sp.s1, sp.s2}, 6, 8, false)
	add("partial-literal", []string{"a", sp.s1, sp.s1[:len(sp.s1)-1], ">", "<"}, 4, 6, false)
	add("id105-106-literals", []string{"a", " ", sp.v105, sp.v106, sp.s1}, 4, 6, false)
	// every kind of white space the pre-tokenizer alternatives (\s*[\r\n]+, \s+(?!\S), \s+) can meet, next to a letter and a digit
	add("whitespace", []string{" ", "\n", "\v", "\f", "\u0085", "\u2028", "\u3000", "a", "1"}, 4, 6, false)
	if sp.family == "bpe" {
		// the case-insensitive contraction alternative, including the code points that fold to s and k
		add("contractions", []string{"'", "s", "S", "t", "T", "\u017f", "\u212a", "a", " "}, 4, 6, false)
	}
	switch sp.name {
	case "bpe-synth":
		add("ab-deep", []string{"a", "b"}, 12, 16, false)
		add("ab-space", []string{"a", "b", " "}, 8, 10, false)
	case "spm-synth":
		add("ab-space", []string{"a", "b", " "}, 8, 10, false)
		add("u2581", []string{"a", " ", spmSep, sp.s1}, 5, 7, true)
		add("byte-token-literals", []string{"a", " ", "<0x41>", "<0x0A>", sp.s1}, 4, 6, false)
	}
	seen := map[string]bool{}
	for i, s := range p.subs {
		if i > 0 {
			s.own = map[string]bool{}
		}
		for _, a := range s.alpha {
			if !seen[a] {
				seen[a] = true
				if i > 0 {
					s.own[a] = true
				}
			}
		}
		if s.name == "partial-literal" {
			// two symbols of this alphabet concatenate to a third one, so its cases are not
			// distinct by construction: they are evaluated but never counted as distinct cases
			s.own = map[string]bool{}
		}
		s.plen = 0
		for s.plen < s.qLen && ipow(len(s.alpha), s.plen) < 64 {
			s.plen++
		}
	}
	p.cpOwned = seen
	p.pairMax = pairQuickMax
	if thorough {
		p.pairMax = 0x7ff
	}
	p.allcp = []ctx{{}}
	if sp.family == "bpe" {
		// between two letters: exercises the class transitions of the pre-tokenizer expression
		p.allcp = append(p.allcp, ctx{pre: []string{"a"}, post: []string{"a"}})
	}
	p.nqCtx = len(p.allcp)
	if thorough {
		if sp.family != "bpe" {
			p.allcp = append(p.allcp, ctx{pre: []string{"a"}, post: []string{"a"}})
		}
		p.allcp = append(p.allcp, ctx{pre: []string{" "}}, ctx{post: []string{" "}}, ctx{pre: []string{"1"}, post: []string{"\n"}}, ctx{pre: []string{sp.s1}, post: []string{"'", "s"}})
	}
	return p
}

var stopProfile = func() {}

// phase 0 = everything inside the quick-tier bounds; phase k >= 1 (thorough only) = the strings of
// exactly (quick bound + k) symbols of every sub-run, and for k = 1 also the additional code-point
// contexts and code-point pairs. Phases are executed in this order.
const maxPhases = 8

var itemsTotal, itemsDone, itemsCut [maxPhases]atomic.Int64

const cpChunk = 4096
const pairChunk = 16

func atoi(s string) int { n, _ := strconv.Atoi(s); return n }

// work executes one item:
//
//	<plan>|sub|<subrun>|<prefix indexes or ->|<lo>|<hi>|<phase>   strings with this prefix and lo < length <= hi
//	<plan>|allcp|<first code point>|<ctx from>|<ctx to>|<phase>
//	<plan>|cppairs|<first code point>|<phase>
func work(plans []*plan, item string, r *evid.Run) {
	f := strings.Split(item, "|")
	p := plans[atoi(f[0])]
	phase := atoi(f[len(f)-1])
	t := p.get()
	defer p.put(t)
	t0 := time.Now()
	n := 0
	cut := false
	expired := func() bool {
		n++
		if (n == 1 || n%512 == 0) && r.Expired() {
			cut = true
		}
		return cut
	}
	defer func() {
		r.Add("worker_ms/"+p.sp.name, time.Since(t0).Milliseconds())
		if cut {
			itemsCut[phase].Add(1)
		} else {
			itemsDone[phase].Add(1)
		}
	}()
	switch f[1] {
	case "allcp":
		first, from, to := atoi(f[2]), atoi(f[3]), atoi(f[4])
		defer t.flush(r, "all-code-points")
		if expired() {
			return
		}
		for cp := first; cp < first+cpChunk && cp <= 0x10ffff; cp++ {
			if cp == 0 || (cp >= 0xd800 && cp <= 0xdfff) {
				continue // NUL is excluded by the property; surrogates are not valid UTF-8
			}
			c := string(rune(cp))
			if p.sp.family == "spm" && c == spmSep {
				continue // enumerated in the labelled u2581 sub-run
			}
			for _, cx := range p.allcp[from:to] {
				syms := append(append(append([]string{}, cx.pre...), c), cx.post...)
				t.run(r, "all-code-points", kase{syms: syms}, !p.cpOwned[c])
			}
			if expired() {
				return
			}
		}
	case "cppairs":
		first := atoi(f[2])
		defer t.flush(r, "code-point-pairs")
		hiA := p.pairMax
		if phase == 0 {
			hiA = pairQuickMax
		}
		for a := max(first, 1); a < first+pairChunk && a <= hiA; a++ {
			ca := string(rune(a))
			lo, hi := 1, hiA
			if phase == 1 && a <= pairQuickMax {
				lo = pairQuickMax + 1 // the pairs with both code points <= pairQuickMax belong to phase 0
			}
			for b := lo; b <= hi; b++ {
				cb := string(rune(b))
				t.run(r, "code-point-pairs", kase{syms: []string{ca, cb}}, !p.cpOwned[ca] && !p.cpOwned[cb])
				if expired() {
					return
				}
			}
		}
	case "sub":
		s := p.subs[atoi(f[2])]
		lo, hi := atoi(f[4]), atoi(f[5])
		defer t.flush(r, s.name)
		seq := make([]string, 0, s.maxLen)
		owned := 0
		push := func(a string) {
			seq = append(seq, a)
			if s.own[a] {
				owned++
			}
		}
		pop := func() {
			if s.own[seq[len(seq)-1]] {
				owned--
			}
			seq = seq[:len(seq)-1]
		}
		var rec func()
		rec = func() {
			if cut {
				return
			}
			if len(seq) > lo {
				t.run(r, s.name, kase{syms: seq, norm: s.norm}, s.own == nil || owned > 0)
				if expired() {
					return
				}
			}
			if len(seq) >= hi {
				return
			}
			for _, a := range s.alpha {
				push(a)
				rec()
				pop()
			}
		}
		if f[3] != "-" {
			for _, x := range strings.Split(f[3], ",") {
				push(s.alpha[atoi(x)])
			}
		}
		if expired() {
			return
		}
		rec()
	}
}

func main() {
	r := evid.Start("C20", "exploration")
	repo := os.Getenv("VERIF_REPO")
	if repo == "" {
		repo = "/repo"
	}
	v1, err := loadLlama32(repo)
	if err != nil {
		fmt.Fprintln(os.Stderr, "C20: cannot load the llama3.2 vocabulary:", err)
		os.Exit(2)
	}
	specs := []*tokSpec{v1, synthBPE(), synthSPM()}

	if rp := evid.ReplayPath(); rp != "" {
		replay(rp, specs)
		return
	}

	if pf := os.Getenv("C20_CPUPROFILE"); pf != "" {
		if f, err := os.Create(pf); err == nil {
			pprof.StartCPUProfile(f)
			stopProfile = pprof.StopCPUProfile
		}
	}
	thorough := evid.Thorough()
	if thorough {
		r.SetDeadline(14 * time.Minute)
	} else {
		r.SetDeadline(85 * time.Second)
	}
	if b, err := strconv.Atoi(os.Getenv("C20_BUDGET_S")); err == nil && b > 0 {
		r.SetDeadline(time.Duration(b) * time.Second) // operator override of the internal time budget
	}
	var plans []*plan
	for _, sp := range specs {
		plans = append(plans, mkplan(sp, thorough))
	}

	r.Rule("For each of three tokenizers built from the real code (BytePairEncoding with the real llama3.2 vocabulary via llama.New; BytePairEncoding with a synthetic byte-complete vocabulary with overlapping merges via mistral3.NewTextModel; SentencePieceModel with a synthetic gemma-layout vocabulary with 256 byte tokens): " +
		"every string of length <= n symbols over each sub-run alphabet (main: 18 class-representative code points + one control-token literal; two-specials; partial control literals; literals of vocabulary entries 105/106; white-space kinds; contraction suffixes with case folding; deep runs over {a,b} / {a,b,space}; for SPM the labelled U+2581 and <0xNN>-literal sub-runs), " +
		"every Unicode scalar value except NUL alone and inside fixed contexts (all-code-points), and every ordered pair of code points below a bound (code-point-pairs). Each case: Encode(s,false) -> ids in [0,|V|) -> Decode == s -> control-token ids appear exactly where the control literals are and the text between them round-trips -> (length <= 3) Encode(s,true) differs only by a leading BOS / trailing EOS. " +
		"Cases are distinct by construction (each (tokenizer, string) is generated once; a sub-run case is counted only if it contains a symbol that no earlier sub-run enumerates, an all-code-points / code-point-pairs case only if its code points occur in no sub-run alphabet; the partial-literal sub-run is never counted). Non-trivial = at least one produced token covers more than one input byte (a merge, a multi-byte piece or a control literal was recognised), or SPM byte fallback was used. " +
		"A failing case is attributed to its shortest failing contiguous sub-sequence (its core), which is re-executed 5x; the signature is family/clause/defect class of the core. Work is ordered so that everything inside the quick-tier bounds is enumerated before anything deeper.")
	r.Assume(
		"special tokens whose literal must map to the token id = tokens of type CONTROL in the vocabulary given to the tokenizer; for the literals of vocabulary entries 105/106 (hard-coded in Vocabulary.SpecialVocabulary) only the round trip and the id range are demanded",
		"SentencePiece represents a space as U+2581, so input that itself contains U+2581 comes back with a space there; this is inherent to the format: such inputs are enumerated in the sub-run 'u2581' with U+2581 expected back as a space and counted in spm_u2581_cases_returned_as_space, not reported",
		"addSpecial=true is checked in the weakest form (the result decodes to the text after removing an optional leading BOS / trailing EOS) and only for cases of length <= 3 symbols",
		"the synthetic vocabularies are byte-complete by construction; the llama3.2 vocabulary is checked for byte completeness when it is loaded",
		"GPT-2 byte/rune table and all expected values are computed by the harness independently of the code under test; Go's unicode/utf8 and strings packages are trusted")

	// shortest cases first, sequentially
	for pi, p := range plans {
		for si, s := range p.subs {
			if s.plen > 0 {
				itemsTotal[0].Add(1)
				work(plans, fmt.Sprintf("%d|sub|%d|-|-1|%d|0", pi, si, s.plen-1), r)
			}
		}
	}
	// phase 0: everything inside the quick bounds; phases 1.. (thorough): one more symbol each
	var items []string
	addItem := func(phase int, f string, a ...any) {
		items = append(items, fmt.Sprintf(f, a...)+"|"+strconv.Itoa(phase))
		itemsTotal[phase].Add(1)
	}
	for phase := 0; phase < maxPhases; phase++ {
		for pi, p := range plans {
			for si, s := range p.subs {
				lo, hi := s.plen-1, s.qLen
				if phase > 0 {
					lo, hi = s.qLen+phase-1, s.qLen+phase
					if hi > s.maxLen {
						continue
					}
				}
				idx := make([]int, s.plen)
				for {
					parts := []string{}
					for _, i := range idx {
						parts = append(parts, strconv.Itoa(i))
					}
					pre := strings.Join(parts, ",")
					if pre == "" {
						pre = "-"
					}
					addItem(phase, "%d|sub|%d|%s|%d|%d", pi, si, pre, lo, hi)
					k := s.plen - 1
					for k >= 0 {
						idx[k]++
						if idx[k] < len(s.alpha) {
							break
						}
						idx[k] = 0
						k--
					}
					if k < 0 {
						break
					}
				}
			}
		}
		if phase > 1 {
			continue
		}
		for pi, p := range plans {
			from, to := 0, p.nqCtx
			if phase == 1 {
				from, to = p.nqCtx, len(p.allcp)
			}
			if from < to {
				for cp := 0; cp <= 0x10ffff; cp += cpChunk {
					addItem(phase, "%d|allcp|%d|%d|%d", pi, cp, from, to)
				}
			}
		}
		for pi, p := range plans {
			hi := pairQuickMax
			if phase == 1 {
				hi = p.pairMax
				if hi <= pairQuickMax {
					continue
				}
			}
			for a := 0; a <= hi; a += pairChunk {
				addItem(phase, "%d|cppairs|%d", pi, a)
			}
		}
	}
	r.Parallel(0, items, func(item string, sub *evid.Run) { work(plans, item, sub) })

	progress := []map[string]any{}
	firstCut := -1
	var cutNote []string
	for ph := 0; ph < maxPhases; ph++ {
		if itemsTotal[ph].Load() == 0 {
			continue
		}
		name := "within the quick-tier bounds"
		if ph > 0 {
			name = fmt.Sprintf("quick bound + %d symbols", ph)
			if ph == 1 {
				name += ", additional code-point contexts and pairs"
			}
		}
		progress = append(progress, map[string]any{"phase": ph, "what": name, "work_items": itemsTotal[ph].Load(), "completed": itemsDone[ph].Load(), "cut_by_time_budget": itemsCut[ph].Load()})
		if itemsCut[ph].Load() > 0 {
			if firstCut < 0 {
				firstCut = ph
			}
			cutNote = append(cutNote, fmt.Sprintf("phase %d (%s): %d of %d work items completed", ph, name, itemsDone[ph].Load(), itemsTotal[ph].Load()))
		}
	}
	r.Extra("work_phases", progress)
	if firstCut >= 0 {
		done := "nothing was enumerated completely"
		if firstCut == 1 {
			done = "every case inside the quick-tier bounds was enumerated"
		} else if firstCut > 1 {
			done = fmt.Sprintf("every case inside the quick-tier bounds and all phases before phase %d were enumerated completely", firstCut)
		}
		r.NotExhaustive("internal time budget reached; " + done + "; incomplete: " + strings.Join(cutNote, "; ") + " (a work item is one sub-run prefix / code-point chunk; the cases/* counters give what was executed)")
	}

	reportFindings(r)
	stopProfile()

	bounds := map[string]any{}
	for _, p := range plans {
		b := map[string]any{"vocabulary": p.sp.info, "control_literals_in_alphabets": []string{p.sp.s1, p.sp.s2},
			"vocabulary_entries_105_106": []string{p.sp.v105, p.sp.v106}}
		for _, s := range p.subs {
			b[s.name] = map[string]any{"alphabet": s.alpha, "max_len": s.maxLen, "u2581_expected_as_space": s.norm}
		}
		var cx []string
		for _, c := range p.allcp {
			cx = append(cx, strings.Join(c.pre, "")+"<cp>"+strings.Join(c.post, ""))
		}
		b["all-code-points"] = map[string]any{"range": "U+0001..U+10FFFF without surrogates", "contexts": cx}
		b["code-point-pairs"] = fmt.Sprintf("all ordered pairs of code points U+0001..U+%04X", p.pairMax)
		bounds[p.sp.name] = b
	}
	r.Extra("bounds", bounds)
	r.Finish()
}

func replay(path string, specs []*tokSpec) {
	var c replayCase
	if err := evid.LoadReplay(path, &c); err != nil {
		fmt.Println("replay:", err)
		os.Exit(2)
	}
	for _, sp := range specs {
		if sp.name != c.Tok {
			continue
		}
		t, err := newTok(sp)
		if err != nil {
			fmt.Println("replay:", err)
			os.Exit(2)
		}
		k := kase{syms: c.Syms, norm: c.Norm}
		fmt.Printf("replaying tokenizer=%s subrun=%s symbols=%q\n", c.Tok, c.Subrun, c.Syms)
		v := t.check(k)
		fmt.Printf("Encode(%s,false) = %v\nDecode = %s\n", strconv.QuoteToASCII(k.text()), v.ids, strconv.QuoteToASCII(v.dec))
		if v.clause != "" {
			fmt.Printf("FAILS: %s: %s\n", v.clause, v.detail)
			os.Exit(1)
		}
		fmt.Println("holds")
		os.Exit(0)
	}
	fmt.Println("replay: unknown tokenizer", c.Tok)
	os.Exit(2)
}
