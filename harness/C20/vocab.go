package main

// Vocabularies and tokenizer construction for the C20 harness.
//
//  V1 "bpe-llama3.2"  real encoder.json + vocab.bpe from $VERIF_REPO/model/testdata/llama3.2,
//                     built through the real llama.New (so the llama3 pre-tokenizer expression
//                     is the one in the tree, not a copy).
//  V2 "bpe-synth"     synthetic byte-complete BPE vocabulary in the GPT-2 layout with adversarial
//                     overlapping merges, built through the real mistral3.NewTextModel (second
//                     pre-tokenizer expression of the tree).
//  V3 "spm-synth"     synthetic SentencePiece vocabulary in the gemma layout (control tokens,
//                     <start_of_turn>/<end_of_turn> at ids 105/106, all 256 byte tokens, scored
//                     pieces), built with the real model.NewSentencePieceModel.

import (
	"bufio"
	"encoding/json"
	"fmt"
	"os"
	"path/filepath"
	"strings"

	"github.com/ollama/ollama/model"
	"github.com/ollama/ollama/model/models/llama"
	"github.com/ollama/ollama/model/models/mistral3"
)

// ---- fs.Config stand-in ------------------------------------------------------

type kv map[string]any

func kvGet[T any](c kv, k string, d []T) T {
	if v, ok := c[k].(T); ok {
		return v
	}
	if len(d) > 0 {
		return d[0]
	}
	var z T
	return z
}

func (c kv) Architecture() string                      { return "verif" }
func (c kv) String(k string, d ...string) string       { return kvGet(c, k, d) }
func (c kv) Uint(k string, d ...uint32) uint32         { return kvGet(c, k, d) }
func (c kv) Float(k string, d ...float32) float32      { return kvGet(c, k, d) }
func (c kv) Bool(k string, d ...bool) bool             { return kvGet(c, k, d) }
func (c kv) Strings(k string, d ...[]string) []string  { return kvGet(c, k, d) }
func (c kv) Uints(k string, d ...[]uint32) []uint32    { return kvGet(c, k, d) }
func (c kv) Floats(k string, d ...[]float32) []float32 { return kvGet(c, k, d) }

// ---- GPT-2 byte <-> rune table (written independently of the code under test) ----

// printable bytes map to themselves, the other 68 bytes map to U+0100.. in byte order.
func gpt2ByteRunes() (tbl [256]rune, order []byte) {
	printable := func(b int) bool {
		return (b >= 0x21 && b <= 0x7e) || (b >= 0xa1 && b <= 0xac) || (b >= 0xae && b <= 0xff)
	}
	n := 0
	var rest []byte
	for b := 0; b < 256; b++ {
		if printable(b) {
			tbl[b] = rune(b)
			order = append(order, byte(b))
		} else {
			tbl[b] = rune(256 + n)
			n++
			rest = append(rest, byte(b))
		}
	}
	order = append(order, rest...) // GPT-2 / llama3 id layout: printable bytes first
	return
}

func gpt2Map(raw string) string {
	tbl, _ := gpt2ByteRunes()
	var sb strings.Builder
	for _, b := range []byte(raw) {
		sb.WriteRune(tbl[b])
	}
	return sb.String()
}

// ---- tokenizer description -------------------------------------------------------

type tokSpec struct {
	name    string
	family  string // "bpe" | "spm"
	vsize   int
	bos     int32
	eos     int32
	addBOS  bool
	addEOS  bool
	control map[string]int32 // literals of CONTROL tokens -> id (the special tokens the oracle asserts)
	s1, s2  string           // two control literals used as alphabet symbols (s1 is neither BOS nor EOS)
	v105    string           // Values[105], Values[106]: the ids hard-coded in Vocabulary.SpecialVocabulary
	v106    string
	byteIDs map[int32]bool // spm: ids of <0xNN> tokens
	build   func() (model.TextProcessor, error)
	info    map[string]any
}

// ---- V1 -----------------------------------------------------------------------------

func loadLlama32(repo string) (*tokSpec, error) {
	dir := filepath.Join(repo, "model", "testdata", "llama3.2")
	b, err := os.ReadFile(filepath.Join(dir, "encoder.json"))
	if err != nil {
		return nil, err
	}
	enc := map[string]int32{}
	if err := json.Unmarshal(b, &enc); err != nil {
		return nil, fmt.Errorf("encoder.json: %v", err)
	}
	tokens := make([]string, len(enc))
	seen := make([]bool, len(enc))
	for t, id := range enc {
		if id < 0 || int(id) >= len(enc) || seen[id] {
			return nil, fmt.Errorf("encoder.json: ids are not a permutation of 0..%d", len(enc)-1)
		}
		tokens[id], seen[id] = t, true
	}
	types := make([]uint32, len(tokens))
	for i := range types {
		types[i] = model.TOKEN_TYPE_NORMAL
	}
	// the named control tokens of llama 3.x, at their real ids when the file has exactly the 128000 base tokens
	control := map[string]int32{}
	for _, t := range []string{"<|begin_of_text|>", "<|end_of_text|>", "<|reserved_special_token_0|>", "<|reserved_special_token_1|>",
		"<|finetune_right_pad_id|>", "<|step_id|>", "<|start_header_id|>", "<|end_header_id|>", "<|eom_id|>", "<|eot_id|>", "<|python_tag|>"} {
		if _, ok := enc[t]; ok {
			return nil, fmt.Errorf("encoder.json unexpectedly contains %s", t)
		}
		control[t] = int32(len(tokens))
		tokens = append(tokens, t)
		types = append(types, model.TOKEN_TYPE_CONTROL)
	}
	f, err := os.Open(filepath.Join(dir, "vocab.bpe"))
	if err != nil {
		return nil, err
	}
	defer f.Close()
	var merges []string
	sc := bufio.NewScanner(f)
	first := true
	for sc.Scan() {
		l := sc.Text()
		if first && strings.HasPrefix(l, "#version") {
			first = false
			continue
		}
		first = false
		if l != "" {
			merges = append(merges, l)
		}
	}
	// byte completeness: every one of the 256 byte symbols must be a token
	tbl, _ := gpt2ByteRunes()
	for b := 0; b < 256; b++ {
		if _, ok := enc[string(tbl[b])]; !ok {
			return nil, fmt.Errorf("llama3.2 vocabulary does not cover byte 0x%02x", b)
		}
	}
	sp := &tokSpec{name: "bpe-llama3.2", family: "bpe", vsize: len(tokens),
		bos: control["<|begin_of_text|>"], eos: control["<|end_of_text|>"], addBOS: true, addEOS: false,
		control: control, s1: "<|eot_id|>", s2: "<|begin_of_text|>", v105: tokens[105], v106: tokens[106],
		info: map[string]any{"tokens": len(tokens), "merges": len(merges), "control_tokens": len(control),
			"constructor": "llama.New (pre-tokenizer expression = the default in model/models/llama/model.go)"}}
	sp.build = func() (model.TextProcessor, error) {
		m, err := llama.New(kv{
			"tokenizer.ggml.model":        "gpt2",
			"tokenizer.ggml.tokens":       tokens,
			"tokenizer.ggml.token_type":   types,
			"tokenizer.ggml.merges":       merges,
			"tokenizer.ggml.bos_token_id": uint32(sp.bos),
			"tokenizer.ggml.eos_token_id": uint32(sp.eos),
		})
		if err != nil {
			return nil, err
		}
		tp, ok := m.(model.TextProcessor)
		if !ok {
			return nil, fmt.Errorf("llama model is not a TextProcessor")
		}
		return tp, nil
	}
	return sp, nil
}

// ---- V2 -----------------------------------------------------------------------------

func synthBPE() *tokSpec {
	tbl, order := gpt2ByteRunes()
	var tokens []string
	have := map[string]bool{}
	for _, b := range order {
		t := string(tbl[b])
		tokens = append(tokens, t)
		have[t] = true
	}
	// merges in rank order, raw bytes; the result of each merge becomes a token unless noted
	type mg struct {
		l, r  string
		token bool
	}
	ms := []mg{
		{"a", "a", true}, {"a", "b", true}, {"b", "a", true}, {"ab", "a", true}, {"aa", "b", true},
		{"b", "b", true}, {"ab", "ab", true}, {"ba", "b", true}, {"aa", "aa", true}, {"bb", "a", true},
		{"a", "bb", true}, {"aba", "b", true}, {"b", "ab", true}, {"ab", "b", true}, {"aab", "a", true},
		{"bb", "bb", false}, // a merge whose result is not a token: must be skipped by the encoder
		{"ba", "ba", true}, {"a", "ba", true}, {"bab", "ab", true},
		{" ", "a", true}, {" ", " ", true}, {"  ", " ", true}, {" a", "b", true}, {" ", "B", true}, {"B", "a", true}, {" B", "a", true},
		{"\n", "\n", true}, {"\r", "\n", true}, {"\t", "\t", true}, {" ", "\n", true},
		{"'", "s", true}, {"s", "s", true}, {"a", "s", true}, {"s", "a", true}, {"1", "1", true}, {"11", "1", true}, {"!", "!", true}, {"~", "~", true},
		{"\xc3", "\xa9", true},                         // é
		{"\xc2", "\xa0", true}, {"\xc2", "\xad", true}, // NBSP, SHY share the lead byte
		{"\xe4", "\xb8", true}, {"\xe4\xb8", "\xad", true}, // 中 in two steps
		{"\xf0", "\x9f", true}, {"\x98", "\x80", true}, {"\xf0\x9f", "\x98\x80", true}, // 😀 in three steps
		{"\xcc", "\x81", true}, {"a", "\xcc\x81", true}, // combining acute, then a + acute
		{"\xc3\xa9", "\xc3\xa9", true}, {"\xe4\xb8\xad", "\xe4\xb8\xad", true},
		{"\x7f", "\x7f", true},
	}
	var merges []string
	for _, m := range ms {
		l, r := gpt2Map(m.l), gpt2Map(m.r)
		merges = append(merges, l+" "+r)
		if m.token && !have[l+r] {
			have[l+r] = true
			tokens = append(tokens, l+r)
		}
	}
	types := make([]uint32, len(tokens))
	for i := range types {
		types[i] = model.TOKEN_TYPE_NORMAL
	}
	control := map[string]int32{}
	for _, t := range []string{"<|bos|>", "<|eos|>", "<|sp|>", "<|pad|>"} {
		control[t] = int32(len(tokens))
		tokens = append(tokens, t)
		types = append(types, model.TOKEN_TYPE_CONTROL)
	}
	sp := &tokSpec{name: "bpe-synth", family: "bpe", vsize: len(tokens),
		bos: control["<|bos|>"], eos: control["<|eos|>"], addBOS: true, addEOS: true,
		control: control, s1: "<|sp|>", s2: "<|bos|>", v105: tokens[105], v106: tokens[106],
		info: map[string]any{"tokens": len(tokens), "merges": len(merges), "control_tokens": len(control),
			"constructor": "mistral3.NewTextModel (pre-tokenizer expression = the default in model/models/mistral3/model_text.go)"}}
	sp.build = func() (model.TextProcessor, error) {
		m, err := mistral3.NewTextModel(kv{
			"tokenizer.ggml.model":         "gpt2",
			"tokenizer.ggml.tokens":        tokens,
			"tokenizer.ggml.token_type":    types,
			"tokenizer.ggml.merges":        merges,
			"tokenizer.ggml.bos_token_id":  uint32(sp.bos),
			"tokenizer.ggml.eos_token_id":  uint32(sp.eos),
			"tokenizer.ggml.add_eos_token": true,
		})
		if err != nil {
			return nil, err
		}
		var tp model.TextProcessor = m
		return tp, nil
	}
	return sp
}

// ---- V3 -----------------------------------------------------------------------------

func synthSPM() *tokSpec {
	var tokens []string
	var types []uint32
	var scores []float32
	add := func(t string, ty uint32, sc float32) int32 {
		tokens = append(tokens, t)
		types = append(types, ty)
		scores = append(scores, sc)
		return int32(len(tokens) - 1)
	}
	control := map[string]int32{}
	control["<pad>"] = add("<pad>", model.TOKEN_TYPE_CONTROL, 0)
	control["<eos>"] = add("<eos>", model.TOKEN_TYPE_CONTROL, 0)
	control["<bos>"] = add("<bos>", model.TOKEN_TYPE_CONTROL, 0)
	add("<unk>", model.TOKEN_TYPE_UNKNOWN, 0)
	control["<mask>"] = add("<mask>", model.TOKEN_TYPE_CONTROL, 0)
	for i := 0; len(tokens) < 105; i++ {
		add(fmt.Sprintf("<unused%d>", i), model.TOKEN_TYPE_UNUSED, 0)
	}
	add("<start_of_turn>", model.TOKEN_TYPE_USER_DEFINED, 0) // 105
	add("<end_of_turn>", model.TOKEN_TYPE_USER_DEFINED, 0)   // 106
	add("\n", model.TOKEN_TYPE_NORMAL, -1)
	add("\n\n", model.TOKEN_TYPE_NORMAL, -2)
	byteIDs := map[int32]bool{}
	for b := 0; b < 256; b++ {
		byteIDs[add(fmt.Sprintf("<0x%02X>", b), model.TOKEN_TYPE_BYTE, 0)] = true
	}
	// scored pieces; several share a score so that the position tie-break decides
	pieces := []struct {
		t string
		s float32
	}{
		{"▁", -3}, {"a", -4}, {"b", -4}, {"s", -5}, {"1", -5}, {"B", -6}, {"!", -6}, {"'", -6}, {"é", -7}, {"中", -7},
		{"▁▁", -8}, {"▁a", -8}, {"ab", -9}, {"ba", -9}, {"aa", -10}, {"bb", -10}, {"aba", -8.5}, {"bab", -11}, {"aab", -9},
		{"abab", -12}, {"▁ab", -9.5}, {"'s", -10}, {"ss", -10}, {"as", -10}, {"sa", -10}, {"11", -10}, {"111", -9}, {"▁B", -11}, {"Ba", -11},
		{"!!", -11}, {"éé", -12}, {"a▁", -12}, {"▁▁▁", -12}, {"▁▁▁▁", -7.5}, {"\n\n\n", -12}, {"a\n", -13}, {"中中", -13}, {"baba", -9}, {"abba", -13},
		// pieces that let the merge loop assemble the text "<0x41>" step by step
		{"<0", -14}, {"x4", -14}, {"1>", -14}, {"<0x4", -15},
	}
	for _, p := range pieces {
		add(p.t, model.TOKEN_TYPE_NORMAL, p.s)
	}
	sp := &tokSpec{name: "spm-synth", family: "spm", vsize: len(tokens),
		bos: control["<bos>"], eos: control["<eos>"], addBOS: true, addEOS: true,
		control: control, s1: "<mask>", s2: "<bos>", v105: tokens[105], v106: tokens[106], byteIDs: byteIDs,
		info: map[string]any{"tokens": len(tokens), "byte_tokens": 256, "scored_pieces": len(pieces) + 2, "control_tokens": len(control),
			"constructor": "model.NewSentencePieceModel, gemma id layout (<start_of_turn>/<end_of_turn> at 105/106)"}}
	sp.build = func() (model.TextProcessor, error) {
		m := model.NewSentencePieceModel(&model.Vocabulary{
			Values: tokens, Types: types, Scores: scores,
			BOS: sp.bos, EOS: sp.eos, AddBOS: true, AddEOS: true,
		})
		var tp model.TextProcessor = m
		return tp, nil
	}
	return sp
}
