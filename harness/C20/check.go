package main

// Oracle, minimal-core attribution and violation recording for the C20 harness.

import (
	"encoding/hex"
	"fmt"
	"slices"
	"strconv"
	"strings"

	"github.com/ollama/ollama/model"
	"github.com/ollama/ollama/zzverif/evid"
)

const spmSep = "▁"

// tok is one tokenizer instance; never shared between goroutines.
type tok struct {
	*tokSpec
	tp   model.TextProcessor
	memo map[string]*verdict // verdicts of short sequences (core search)
	conf map[string]*confirmed
	ctl  map[int32]bool // ids of control tokens

	nEval, nNontrivial, nAmbiguous int64 // flushed into the evidence per work item
}

// confirmed is the re-executed (5x) verdict of a minimal failing core.
type confirmed struct {
	clause string
	msg    string
}

func newTok(sp *tokSpec) (*tok, error) {
	tp, err := sp.build()
	if err != nil {
		return nil, err
	}
	t := &tok{tokSpec: sp, tp: tp, memo: map[string]*verdict{}, conf: map[string]*confirmed{}, ctl: map[int32]bool{}}
	for _, id := range sp.control {
		t.ctl[id] = true
	}
	return t, nil
}

// verdict of one case. clause == "" means every oracle clause holds.
type verdict struct {
	clause    string
	detail    string
	ids       []int32
	dec       string
	ambiguous bool // normalised sub-run: exact round trip differs only by U+2581 -> space
}

// a case is a sequence of alphabet symbols; symbols are strings (one code point or one literal)
type kase struct {
	syms []string
	norm bool // U+2581 in the input is expected back as a space (labelled SPM sub-run)
}

func (k kase) text() string { return strings.Join(k.syms, "") }

func (t *tok) inRange(ids []int32) (int32, bool) {
	for _, id := range ids {
		if id < 0 || int(id) >= t.vsize {
			return id, false
		}
	}
	return 0, true
}

func (t *tok) want(s string, norm bool) string {
	if norm {
		return strings.ReplaceAll(s, spmSep, " ")
	}
	return s
}

// check evaluates all oracle clauses on one case.
func (t *tok) check(k kase) (v *verdict) {
	v = &verdict{}
	defer func() {
		if r := recover(); r != nil {
			v.clause, v.detail = "panic", fmt.Sprint(r)
		}
	}()
	text := k.text()
	ids, err := t.tp.Encode(text, false)
	if err != nil {
		v.clause, v.detail = "error", "Encode: "+err.Error()
		return
	}
	v.ids = ids
	if id, ok := t.inRange(ids); !ok {
		v.clause, v.detail = "id-range", fmt.Sprintf("Encode produced id %d outside [0,%d)", id, t.vsize)
		return
	}
	dec, err := t.tp.Decode(ids)
	if err != nil {
		v.clause, v.detail = "error", "Decode: "+err.Error()
		return
	}
	v.dec = dec
	if dec != t.want(text, k.norm) {
		v.clause = "roundtrip"
		v.detail = fmt.Sprintf("Decode(Encode(s)) = %s, expected %s", strconv.QuoteToASCII(dec), strconv.QuoteToASCII(t.want(text, k.norm)))
		return
	}
	if k.norm && dec != text {
		v.ambiguous = true
	}
	// special-token clause: the control-token ids in the output are exactly the ids of the
	// control literals of the input, in order, and the pieces between them decode to the
	// text between the literals.
	var wantSpecial []int32
	var segs []string
	cur := ""
	for _, s := range k.syms {
		if id, ok := t.control[s]; ok {
			wantSpecial = append(wantSpecial, id)
			segs = append(segs, cur)
			cur = ""
		} else {
			cur += s
		}
	}
	segs = append(segs, cur)
	var gotSpecial []int32
	var idSegs [][]int32
	var curIDs []int32
	for _, id := range ids {
		if t.isControl(id) {
			gotSpecial = append(gotSpecial, id)
			idSegs = append(idSegs, curIDs)
			curIDs = nil
		} else {
			curIDs = append(curIDs, id)
		}
	}
	idSegs = append(idSegs, curIDs)
	if !slices.Equal(gotSpecial, wantSpecial) {
		v.clause = "special-id"
		v.detail = fmt.Sprintf("control-token ids in the output are %v, the literals in the input are %v", gotSpecial, wantSpecial)
		return
	}
	for i := range segs {
		d, err := t.tp.Decode(idSegs[i])
		if err != nil || d != t.want(segs[i], k.norm) {
			v.clause = "special-id"
			v.detail = fmt.Sprintf("tokens between special ids (segment %d) decode to %s, the text there is %s", i, strconv.QuoteToASCII(d), strconv.QuoteToASCII(segs[i]))
			return
		}
	}
	// addSpecial=true: same text modulo an optional leading BOS / trailing EOS (short cases only)
	if len(k.syms) <= 3 {
		y, err := t.tp.Encode(text, true)
		if err != nil {
			v.clause, v.detail = "error", "Encode(addSpecial): "+err.Error()
			return
		}
		if id, ok := t.inRange(y); !ok {
			v.clause, v.detail = "id-range", fmt.Sprintf("Encode(addSpecial) produced id %d outside [0,%d)", id, t.vsize)
			return
		}
		ok := false
		for _, sb := range []bool{false, true} {
			for _, se := range []bool{false, true} {
				z := y
				if sb {
					if !t.addBOS || len(z) == 0 || z[0] != t.bos {
						continue
					}
					z = z[1:]
				}
				if se {
					if !t.addEOS || len(z) == 0 || z[len(z)-1] != t.eos {
						continue
					}
					z = z[:len(z)-1]
				}
				if d, err := t.tp.Decode(z); err == nil && d == t.want(text, k.norm) {
					ok = true
				}
			}
		}
		if !ok {
			v.clause = "add-special"
			v.detail = fmt.Sprintf("Encode(s,true) = %v does not decode to s after removing an optional leading BOS(%d)/trailing EOS(%d)", y, t.bos, t.eos)
			return
		}
	}
	return
}

func (t *tok) isControl(id int32) bool { return t.ctl[id] }

func (t *tok) flush(r *evid.Run, subrun string) {
	r.Add("evaluations", t.nEval)
	r.Add("cases/"+t.name+"/"+subrun, t.nEval)
	if t.nNontrivial > 0 {
		r.Add("distinct_nontrivial", t.nNontrivial)
	}
	if t.nAmbiguous > 0 {
		r.Add("spm_u2581_cases_returned_as_space", t.nAmbiguous)
	}
	t.nEval, t.nNontrivial, t.nAmbiguous = 0, 0, 0
}

func (t *tok) nontrivial(k kase, v *verdict) bool {
	if len(v.ids) == 0 {
		return false
	}
	if len(v.ids) != len(k.text()) {
		return true
	}
	for _, id := range v.ids {
		if t.byteIDs[id] {
			return true
		}
	}
	return false
}

func (t *tok) failsMemo(k kase) bool {
	if len(k.syms) > 3 {
		return t.check(k).clause != ""
	}
	key := k.text()
	if k.norm {
		key = "N" + key
	} else {
		key = "E" + key
	}
	// the special clause depends on the symbol structure only through control literals,
	// which cannot be produced by concatenating other symbols, so the text is a sound key
	v := t.memo[key]
	if v == nil {
		v = t.check(k)
		v.ids, v.dec = nil, ""
		t.memo[key] = v
	}
	return v.clause != ""
}

// core returns the shortest (then leftmost) contiguous sub-sequence of k that fails on its own.
func (t *tok) core(k kase) kase {
	n := len(k.syms)
	for l := 1; l < n; l++ {
		for i := 0; i+l <= n; i++ {
			sub := kase{syms: k.syms[i : i+l], norm: k.norm}
			if t.failsMemo(sub) {
				return sub
			}
		}
	}
	return k
}

// sigName renders a core for the violation signature: plain symbols as a quoted ASCII
// string, literals that stand for a class by the class name.
func (t *tok) sigName(k kase) string {
	var sb strings.Builder
	plain := ""
	flush := func() {
		if plain != "" {
			sb.WriteString(strconv.QuoteToASCII(plain))
			plain = ""
		}
	}
	for _, s := range k.syms {
		name := ""
		switch {
		case s == t.v105 || s == t.v106:
			name = "[literal of vocabulary entry 105/106]"
		case t.isControlLit(s):
			name = "[control-token literal]"
		case len(s) == 6 && strings.HasPrefix(s, "<0x") && strings.HasSuffix(s, ">"):
			name = "[<0xNN> literal]"
		}
		if name == "" {
			plain += s
		} else {
			flush()
			sb.WriteString(name)
		}
	}
	flush()
	return sb.String()
}

func (t *tok) isControlLit(s string) bool { _, ok := t.control[s]; return ok }

type replayCase struct {
	Tok    string   `json:"tokenizer"`
	Subrun string   `json:"subrun"`
	Syms   []string `json:"symbols"`
	Hex    string   `json:"text_hex"`
	Norm   bool     `json:"u2581_normalised,omitempty"`
}

func describe(t *tok, k kase, v *verdict) string {
	return fmt.Sprintf("tokenizer %s, input %s (bytes %s): Encode -> %v, Decode -> %s\n%s: %s",
		t.name, strconv.QuoteToASCII(k.text()), hex.EncodeToString([]byte(k.text())), v.ids, strconv.QuoteToASCII(v.dec), v.clause, v.detail)
}

// run executes one enumerated case and records everything about it.
// counted=false: the same (tokenizer, text) also occurs in the main enumeration and is not
// counted again towards the distinct non-trivial cases.
func (t *tok) run(r *evid.Run, subrun string, k kase, counted bool) {
	t.nEval++
	v := t.check(k)
	if counted && t.nontrivial(k, v) {
		t.nNontrivial++
	}
	if v.ambiguous {
		t.nAmbiguous++
	}
	if r.WantSample() {
		r.Sample(map[string]any{"tokenizer": t.name, "subrun": subrun, "text": k.text(), "ids": v.ids, "decoded": v.dec, "verdict": v.clause})
	} else {
		r.Sample(nil)
	}
	if v.clause == "" {
		return
	}
	c := t.core(k)
	ckey := c.text()
	if c.norm {
		ckey = "N" + ckey
	}
	cf := t.conf[ckey]
	if cf == nil {
		cv := t.check(c)
		cf = &confirmed{clause: cv.clause}
		for i := 0; i < 5; i++ {
			if v2 := t.check(c); v2.clause != cv.clause || v2.dec != cv.dec || !slices.Equal(v2.ids, cv.ids) {
				cf.clause = "nondeterministic-" + cv.clause
				break
			}
		}
		cf.msg = "smallest failing input: " + describe(t, c, cv)
		t.conf[ckey] = cf
	}
	sig := "C20/" + t.family + "/" + cf.clause + "/" + t.sigName(c)
	// evid keeps the first message per signature; later calls only count
	r.Violation(sig, cf.msg, replayCase{Tok: t.name, Subrun: subrun, Syms: slices.Clone(c.syms), Hex: hex.EncodeToString([]byte(c.text())), Norm: c.norm})
}
