package main

// Oracle, minimal-core attribution and violation recording for the C20 harness.

import (
	"encoding/hex"
	"fmt"
	"slices"
	"sort"
	"strconv"
	"strings"
	"sync"
	"unicode"
	"unicode/utf8"

	"github.com/ollama/ollama/model"
	"github.com/ollama/ollama/zzverif/evid"
)

const spmSep = "▁"

// tok is one tokenizer instance; never shared between goroutines.
type tok struct {
	*tokSpec
	tp    model.TextProcessor
	memo  map[string]*verdict // verdicts of short sequences (core search)
	conf  map[string]*confirmed
	ctl   map[int32]bool      // ids of control tokens
	found map[string]*finding // violations seen since the last flush, by signature

	nEval, nNontrivial, nAmbiguous int64 // flushed into the evidence per work item
}

// confirmed is the re-executed (5x) verdict of a minimal failing core.
type confirmed struct {
	clause string
	msg    string
	sig    string
}

func newTok(sp *tokSpec) (*tok, error) {
	tp, err := sp.build()
	if err != nil {
		return nil, err
	}
	t := &tok{tokSpec: sp, tp: tp, memo: map[string]*verdict{}, conf: map[string]*confirmed{}, ctl: map[int32]bool{}, found: map[string]*finding{}}
	for _, id := range sp.control {
		t.ctl[id] = true
	}
	return t, nil
}

// verdict of one case. clause == "" means every oracle clause holds.
type verdict struct {
	clause    string
	detail    string
	ids       []int32
	dec       string
	ambiguous bool // normalised sub-run: exact round trip differs only by U+2581 -> space
}

// a case is a sequence of alphabet symbols; symbols are strings (one code point or one literal)
type kase struct {
	syms []string
	norm bool // U+2581 in the input is expected back as a space (labelled SPM sub-run)
}

func (k kase) text() string { return strings.Join(k.syms, "") }

func (t *tok) inRange(ids []int32) (int32, bool) {
	for _, id := range ids {
		if id < 0 || int(id) >= t.vsize {
			return id, false
		}
	}
	return 0, true
}

func (t *tok) want(s string, norm bool) string {
	if norm {
		return strings.ReplaceAll(s, spmSep, " ")
	}
	return s
}

// check evaluates all oracle clauses on one case.
func (t *tok) check(k kase) (v *verdict) {
	v = &verdict{}
	defer func() {
		if r := recover(); r != nil {
			v.clause, v.detail = "panic", fmt.Sprint(r)
		}
	}()
	text := k.text()
	ids, err := t.tp.Encode(text, false)
	if err != nil {
		v.clause, v.detail = "error", "Encode: "+err.Error()
		return
	}
	v.ids = ids
	if id, ok := t.inRange(ids); !ok {
		v.clause, v.detail = "id-range", fmt.Sprintf("Encode produced id %d outside [0,%d)", id, t.vsize)
		return
	}
	dec, err := t.tp.Decode(ids)
	if err != nil {
		v.clause, v.detail = "error", "Decode: "+err.Error()
		return
	}
	v.dec = dec
	if dec != t.want(text, k.norm) {
		v.clause = "roundtrip"
		v.detail = fmt.Sprintf("Decode(Encode(s)) = %s, expected %s", strconv.QuoteToASCII(dec), strconv.QuoteToASCII(t.want(text, k.norm)))
		return
	}
	if k.norm && dec != text {
		v.ambiguous = true
	}
	// special-token clause: the control-token ids in the output are exactly the ids of the
	// control literals occurring in the input text, in order, and the tokens between them
	// decode to the text between the literals. (Control literals of these vocabularies
	// cannot overlap each other, so a left-to-right scan of the text is unambiguous.)
	var wantSpecial []int32
	var segs []string
	from := 0
	for i := 0; i < len(text); {
		hit := ""
		if text[i] == '<' {
			for lit := range t.control {
				if strings.HasPrefix(text[i:], lit) {
					hit = lit
					break
				}
			}
		}
		if hit == "" {
			i++
			continue
		}
		wantSpecial = append(wantSpecial, t.control[hit])
		segs = append(segs, text[from:i])
		i += len(hit)
		from = i
	}
	segs = append(segs, text[from:])
	var gotSpecial []int32
	var idSegs [][]int32
	start := 0
	for i, id := range ids {
		if t.ctl[id] {
			gotSpecial = append(gotSpecial, id)
			idSegs = append(idSegs, ids[start:i])
			start = i + 1
		}
	}
	idSegs = append(idSegs, ids[start:])
	if !slices.Equal(gotSpecial, wantSpecial) {
		v.clause = "special-id"
		v.detail = fmt.Sprintf("control-token ids in the output are %v, the control literals in the input are %v", gotSpecial, wantSpecial)
		return
	}
	if len(wantSpecial) > 0 {
		for i := range segs {
			d, err := t.tp.Decode(idSegs[i])
			if err != nil || d != t.want(segs[i], k.norm) {
				v.clause = "special-id"
				v.detail = fmt.Sprintf("the tokens between the special ids (segment %d) decode to %s, the text there is %s", i, strconv.QuoteToASCII(d), strconv.QuoteToASCII(segs[i]))
				return
			}
		}
	}
	// addSpecial=true: same text modulo an optional leading BOS / trailing EOS (short cases only)
	if len(k.syms) <= 3 {
		y, err := t.tp.Encode(text, true)
		if err != nil {
			v.clause, v.detail = "error", "Encode(addSpecial): "+err.Error()
			return
		}
		if id, ok := t.inRange(y); !ok {
			v.clause, v.detail = "id-range", fmt.Sprintf("Encode(addSpecial) produced id %d outside [0,%d)", id, t.vsize)
			return
		}
		ok := false
		for _, sb := range []bool{false, true} {
			for _, se := range []bool{false, true} {
				z := y
				if sb {
					if !t.addBOS || len(z) == 0 || z[0] != t.bos {
						continue
					}
					z = z[1:]
				}
				if se {
					if !t.addEOS || len(z) == 0 || z[len(z)-1] != t.eos {
						continue
					}
					z = z[:len(z)-1]
				}
				if d, err := t.tp.Decode(z); err == nil && d == t.want(text, k.norm) {
					ok = true
				}
			}
		}
		if !ok {
			v.clause = "add-special"
			v.detail = fmt.Sprintf("Encode(s,true) = %v does not decode to s after removing an optional leading BOS(%d)/trailing EOS(%d)", y, t.bos, t.eos)
			return
		}
	}
	return
}

func (t *tok) flush(r *evid.Run, subrun string) {
	r.Add("evaluations", t.nEval)
	r.Add("cases/"+t.name+"/"+subrun, t.nEval)
	if t.nNontrivial > 0 {
		r.Add("distinct_nontrivial", t.nNontrivial)
	}
	if t.nAmbiguous > 0 {
		r.Add("spm_u2581_cases_returned_as_space", t.nAmbiguous)
	}
	t.nEval, t.nNontrivial, t.nAmbiguous = 0, 0, 0
	for _, f := range t.found {
		mergeFinding(f)
	}
	clear(t.found)
}

func (t *tok) nontrivial(k kase, v *verdict) bool {
	if len(v.ids) == 0 {
		return false
	}
	if len(v.ids) != len(k.text()) {
		return true
	}
	for _, id := range v.ids {
		if t.byteIDs[id] {
			return true
		}
	}
	return false
}

func (t *tok) failsMemo(k kase) bool {
	if len(k.syms) > 3 {
		return t.check(k).clause != ""
	}
	key := k.text()
	if k.norm {
		key = "N" + key
	} else {
		key = "E" + key
	}
	// the special clause depends on the symbol structure only through control literals,
	// which cannot be produced by concatenating other symbols, so the text is a sound key
	v := t.memo[key]
	if v == nil {
		v = t.check(k)
		v.ids, v.dec = nil, ""
		if len(t.memo) < 200000 {
			t.memo[key] = v
		}
	}
	return v.clause != ""
}

// core returns the shortest (then leftmost) contiguous sub-sequence of k that fails on its own.
func (t *tok) core(k kase) kase {
	n := len(k.syms)
	for l := 1; l < n; l++ {
		for i := 0; i+l <= n; i++ {
			sub := kase{syms: k.syms[i : i+l], norm: k.norm}
			if t.failsMemo(sub) {
				return sub
			}
		}
	}
	return k
}

// sigName renders the defect class of a minimal failing core for the violation signature.
//
//   - a core that is one literal standing for a class (control-token literal, the literal of
//     vocabulary entry 105/106, a <0xNN> literal) is named by that class;
//   - a core that is one code point failing the round trip is named by what happens to its
//     bytes (which byte comes back as which other byte / which kind of byte is lost / the whole
//     code point of which category is lost), so that one byte-level or one category-level
//     defect gives one signature for all code points it affects;
//   - a longer core is named by the classes of its symbols (literal classes, Unicode major
//     category of plain code points).
func (t *tok) sigName(k kase, v *verdict) string {
	class := func(s string) string {
		switch {
		case s == t.v105 || s == t.v106:
			return "[literal of vocabulary entry 105/106]"
		case t.isControlLit(s):
			return "[control-token literal]"
		case len(s) == 6 && strings.HasPrefix(s, "<0x") && strings.HasSuffix(s, ">"):
			return "[<0xNN> literal]"
		case utf8.RuneCountInString(s) != 1:
			return "[partial control literal]"
		}
		return ""
	}
	if len(k.syms) == 1 {
		s := k.syms[0]
		if c := class(s); c != "" {
			return c
		}
		r, _ := utf8.DecodeRuneInString(s)
		if v.clause != "roundtrip" {
			return fmt.Sprintf("code point (%d-byte, category %s)", len(s), majorCategory(r))
		}
		exp, dec := t.want(s, k.norm), v.dec
		switch {
		case dec == "":
			return fmt.Sprintf("code point lost (%d-byte, category %s)", len(s), majorCategory(r))
		case len(dec) > len(exp):
			return "extra bytes decoded"
		}
		i := 0
		for i < len(dec) && dec[i] == exp[i] {
			i++
		}
		if len(dec) == len(exp) {
			return fmt.Sprintf("byte 0x%02x decoded as 0x%02x", exp[i], dec[i])
		}
		return byteClass(exp[i]) + " byte lost"
	}
	var parts []string
	for _, s := range k.syms {
		c := class(s)
		if c == "" {
			r, _ := utf8.DecodeRuneInString(s)
			c = majorCategory(r)
		}
		parts = append(parts, c)
	}
	return strings.Join(parts, "+")
}

func byteClass(b byte) string {
	switch {
	case b < 0x80:
		return "ASCII"
	case b < 0xc0:
		return "continuation"
	case b < 0xe0:
		return "2-byte-lead"
	case b < 0xf0:
		return "3-byte-lead"
	}
	return "4-byte-lead"
}

func majorCategory(r rune) string {
	for _, c := range []struct {
		n string
		t *unicode.RangeTable
	}{{"L", unicode.L}, {"M", unicode.M}, {"N", unicode.N}, {"P", unicode.P}, {"S", unicode.S}, {"Z", unicode.Z}, {"C", unicode.C}} {
		if unicode.Is(c.t, r) {
			return c.n
		}
	}
	return "Cn"
}

func (t *tok) isControlLit(s string) bool { _, ok := t.control[s]; return ok }

type replayCase struct {
	Tok    string   `json:"tokenizer"`
	Subrun string   `json:"subrun"`
	Syms   []string `json:"symbols"`
	Hex    string   `json:"text_hex"`
	Norm   bool     `json:"u2581_normalised,omitempty"`
}

func describe(t *tok, k kase, v *verdict) string {
	return fmt.Sprintf("tokenizer %s, input %s (bytes %s): Encode -> %v, Decode -> %s\n%s: %s",
		t.name, strconv.QuoteToASCII(k.text()), hex.EncodeToString([]byte(k.text())), v.ids, strconv.QuoteToASCII(v.dec), v.clause, v.detail)
}

// run executes one enumerated case and records everything about it.
// counted=false: the same (tokenizer, text) also occurs in the main enumeration and is not
// counted again towards the distinct non-trivial cases.
func (t *tok) run(r *evid.Run, subrun string, k kase, counted bool) {
	t.nEval++
	v := t.check(k)
	if counted && t.nontrivial(k, v) {
		t.nNontrivial++
	}
	if v.ambiguous {
		t.nAmbiguous++
	}
	if r.WantSample() {
		r.Sample(map[string]any{"tokenizer": t.name, "subrun": subrun, "text": k.text(), "ids": v.ids, "decoded": v.dec, "verdict": v.clause})
	} else {
		r.Sample(nil)
	}
	if v.clause == "" {
		return
	}
	c := t.core(k)
	ckey := c.text()
	if c.norm {
		ckey = "N" + ckey
	}
	cf := t.conf[ckey]
	if cf == nil {
		cv := t.check(c)
		cf = &confirmed{clause: cv.clause}
		for i := 0; i < 5; i++ {
			if v2 := t.check(c); v2.clause != cv.clause || v2.dec != cv.dec || !slices.Equal(v2.ids, cv.ids) {
				cf.clause = "nondeterministic-" + cv.clause
				break
			}
		}
		cf.msg = "smallest failing input: " + describe(t, c, cv)
		cf.sig = "C20/" + t.family + "/" + cf.clause + "/" + t.sigName(c, cv)
		if len(t.conf) < 50000 {
			t.conf[ckey] = cf
		}
	}
	f := t.found[cf.sig]
	if f == nil {
		f = &finding{sig: cf.sig}
		t.found[cf.sig] = f
	}
	f.count++
	if ct := c.text(); f.msg == "" || len(ct) < len(f.core) || (len(ct) == len(f.core) && ct < f.core) {
		f.core, f.msg = ct, cf.msg
		f.replay = replayCase{Tok: t.name, Subrun: subrun, Syms: slices.Clone(c.syms), Hex: hex.EncodeToString([]byte(ct)), Norm: c.norm}
	}
}

// finding accumulates the cases attributed to one signature and keeps the smallest core.
type finding struct {
	sig    string
	count  int64
	core   string
	msg    string
	replay replayCase
}

var (
	findMu   sync.Mutex
	findings = map[string]*finding{}
)

func mergeFinding(f *finding) {
	findMu.Lock()
	defer findMu.Unlock()
	g := findings[f.sig]
	if g == nil {
		findings[f.sig] = f
		return
	}
	g.count += f.count
	if len(f.core) < len(g.core) || (len(f.core) == len(g.core) && f.core < g.core) ||
		(f.core == g.core && f.replay.Tok < g.replay.Tok) {
		g.core, g.msg, g.replay = f.core, f.msg, f.replay
	}
}

// reportFindings hands the accumulated violations to evid, smallest core first.
func reportFindings(r *evid.Run) {
	var l []*finding
	for _, f := range findings {
		l = append(l, f)
	}
	sort.Slice(l, func(i, j int) bool {
		if len(l[i].core) != len(l[j].core) {
			return len(l[i].core) < len(l[j].core)
		}
		return l[i].sig < l[j].sig
	})
	for _, f := range l {
		msg := fmt.Sprintf("%s\n(%d enumerated cases fail with this core class)", f.msg, f.count)
		for i := int64(0); i < f.count; i++ {
			r.Violation(f.sig, msg, f.replay)
		}
	}
}
