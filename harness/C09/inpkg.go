package ollama

// C09 harness (new registry client): the real Registry.Pull / Registry.Push
// over the real blob.DiskCache (controlled FS) against the in-process fake
// registry (controlled network), explored under mcrt: request/body faults,
// broken chunk plans, cancellation, chunk completion orders, retry histories.

import (
	"bytes"
	gocontext "context"
	"crypto/sha256"
	"encoding/json"
	"fmt"
	"net/http"
	gos "os"
	"path/filepath"
	"strings"
	gotime "time"

	"github.com/ollama/ollama/server/internal/cache/blob"
	"github.com/ollama/ollama/zzverif/evid"
	"github.com/ollama/ollama/zzverif/fakereg"
	"github.com/ollama/ollama/zzverif/mcos"
	"github.com/ollama/ollama/zzverif/mcrt"
)

type z9Scenario struct {
	Name       string   `json:"name"`
	Op         string   `json:"op"`                    // pull, push
	Present    int      `json:"present,omitempty"`     // push: the registry already holds the first n layers
	CancelLate bool     `json:"cancel_late,omitempty"` // the client goes away exactly before some request or body piece (class cancel)
	Handler    bool     `json:"handler,omitempty"`     // pull through registry.Local's /api/pull handler (its retry loop around Pull)
	Layers     []int    `json:"layers"`
	Config     int      `json:"config"` // size of the config blob (0: none)
	MaxStreams int      `json:"max_streams"`
	Faults     []string `json:"faults,omitempty"`
	PlanFaults bool     `json:"plan_faults,omitempty"`
	Cancel     bool     `json:"cancel,omitempty"`
	Faulty     int      `json:"faulty_attempts"` // attempts with faults enabled before the clean one
	Prior      bool     `json:"prior,omitempty"` // an older version of the tag is already pulled
	ReadSize   int      `json:"read_size,omitempty"`
	SharedHead bool     `json:"shared_head,omitempty"` // all layers begin with the same chunk
}

const (
	z9Host = "reg.test"
	z9Name = "reg.test/lib/model:tag"
)

func z9Data(size int, variant byte) []byte {
	b := make([]byte, size)
	for i := range b {
		b[i] = variant*32 + byte(i) + 1
	}
	return b
}

type z9Layer struct {
	Digest string `json:"digest"`
	Size   int    `json:"size"`
}

func z9Manifest(srv *fakereg.Server, layers [][]byte, config []byte) []byte {
	type layer struct {
		Digest    string `json:"digest"`
		MediaType string `json:"mediaType"`
		Size      int    `json:"size"`
	}
	var m struct {
		Layers []layer `json:"layers"`
		Config *layer  `json:"config,omitempty"`
	}
	for _, l := range layers {
		m.Layers = append(m.Layers, layer{srv.AddBlob(l), "application/vnd.ollama.image.model", len(l)})
	}
	if config != nil {
		m.Config = &layer{srv.AddBlob(config), "application/vnd.docker.container.image.v1+json", len(config)}
	}
	b, _ := json.Marshal(m)
	return b
}

type z9World struct {
	root  string
	cdir  string
	srv   *fakereg.Server
	blobs map[string][]byte // digest -> true content (everything ever published)
}

func (w *z9World) blobFile(d string) string {
	return filepath.Join(w.cdir, "blobs", strings.Replace(d, ":", "-", 1))
}

// layersOf parses manifest bytes with an independent reader.
func z9LayersOf(manifest []byte) ([]z9Layer, error) {
	var m struct {
		Layers []z9Layer `json:"layers"`
		Config *z9Layer  `json:"config"`
	}
	if err := json.Unmarshal(manifest, &m); err != nil {
		return nil, err
	}
	l := m.Layers
	if m.Config != nil && m.Config.Digest != "" {
		l = append(l, *m.Config)
	}
	return l, nil
}

// checkManifest: every layer of the manifest is in the cache with the manifest's size and digest.
func (w *z9World) checkManifest(manifest []byte) string {
	layers, err := z9LayersOf(manifest)
	if err != nil {
		return "the linked manifest is not valid JSON: " + err.Error()
	}
	for _, l := range layers {
		got, err := gos.ReadFile(w.blobFile(l.Digest))
		if err != nil {
			return fmt.Sprintf("[missing] layer %s (size %d) is missing", l.Digest[:14], l.Size)
		}
		if len(got) != l.Size {
			return fmt.Sprintf("[wrong-size] layer %s has size %d, manifest says %d", l.Digest[:14], len(got), l.Size)
		}
		if fmt.Sprintf("sha256:%x", sha256.Sum256(got)) != l.Digest {
			return fmt.Sprintf("[wrong-content] layer %s has the manifest's size %d but its content %x does not hash to its digest (published: %x)", l.Digest[:14], l.Size, got, w.blobs[l.Digest])
		}
	}
	return ""
}

func (w *z9World) linked() []byte {
	b, err := gos.ReadFile(filepath.Join(w.cdir, "manifests", "reg.test", "lib", "model", "tag"))
	if err != nil {
		return nil
	}
	return b
}

func z9Body(sc z9Scenario) func() {
	return func() {
		root := z9Root
		gos.RemoveAll(root)
		gos.MkdirAll(root, 0o755)
		w := &z9World{root: root, cdir: filepath.Join(root, "cache"), blobs: map[string][]byte{}}
		srv := fakereg.New(z9Host)
		srv.ReadSize = sc.ReadSize
		if srv.ReadSize == 0 {
			srv.ReadSize = 2
		}
		w.srv = srv
		env := &mcos.Env{Root: root}
		mcos.E = env
		mcrt.OnExecEnd(func() { mcos.E = nil })
		c, err := blob.Open(w.cdir)
		if err != nil {
			mcrt.Fail("C09: open cache: %v", err)
			return
		}
		reg := &Registry{Cache: c, HTTPClient: &http.Client{Transport: srv}, ChunkingThreshold: 8, MaxStreams: sc.MaxStreams, ReadTimeout: 30 * gotime.Second}

		publish := func(variant byte) []byte {
			var layers [][]byte
			for i, n := range sc.Layers {
				layers = append(layers, z9Data(n, variant+byte(i)))
				if sc.SharedHead && i > 0 {
					// the first chunk (4 bytes) of every layer is that of the first layer: same chunk digest, same range
					copy(layers[i], layers[0][:4])
				}
			}
			var cfg []byte
			if sc.Config > 0 {
				cfg = z9Data(sc.Config, variant+7)
			}
			m := z9Manifest(srv, layers, cfg)
			srv.Manifests["lib/model:tag"] = m
			for d, b := range srv.Blobs {
				w.blobs[d] = b
			}
			return m
		}

		if sc.Op == "push" {
			z9Push(sc, w, reg, c)
			return
		}

		var old []byte
		if sc.Prior {
			old = publish(1)
			env.Frozen = true
			srv.NoFaultsLeft = true
			reg.ReadTimeout = 0
			if err := reg.Pull(gocontext.Background(), z9Name); err != nil {
				mcrt.Fail("C09: setup pull failed: %v", err)
				return
			}
			reg.ReadTimeout = 30 * gotime.Second
			env.Frozen = false
		}
		served := publish(3)

		// "linked only after that": whenever the name is linked to the new manifest, its layers are complete
		env.OnMutate = func(label string) {
			if m := w.linked(); m != nil && bytes.Equal(m, served) {
				if msg := w.checkManifest(m); msg != "" {
					mcrt.Fail("C09: linked-before-complete: the name is linked to the new manifest while %s [before %s]", msg, label)
				}
			}
		}

		for attempt := 1; attempt <= sc.Faulty+1; attempt++ {
			clean := attempt == sc.Faulty+1
			srv.Faults = !clean && len(sc.Faults) > 0
			srv.FaultKinds = sc.Faults
			srv.PlanFaults = !clean && sc.PlanFaults
			srv.NoFaultsLeft = clean
			if clean {
				reg.ReadTimeout = 0 // the clean attempt is not allowed to be slow either (an early clock advance would be a stall)
			}
			ctx, cancel := gocontext.WithCancel(gocontext.Background())
			srv.OnNetPoint = nil
			if sc.Cancel && !clean {
				mcrt.GoNamed(fmt.Sprintf("cancel%d", attempt), func() {
					mcrt.Yield("client goes away")
					mcrt.Observe("cancel")
					cancel()
				})
			}
			if sc.CancelLate && !clean {
				// exactly before a request or a piece of a body, however late in the transfer (one deviation of class cancel)
				gone := false
				srv.OnNetPoint = func(label string) {
					if !gone && mcrt.Choose(mcrt.Cancel, "client goes away before "+label, "no", "yes") == 1 {
						gone = true
						mcrt.Observe("cancel before %s", label)
						cancel()
					}
				}
			}
			var err error
			srv.Down = false
			if sc.Handler {
				if ZZPullVia == nil {
					panic("C09 harness: ZZPullVia not set by main")
				}
				if !clean && mcrt.Choose(mcrt.Fault, "registry outage for the whole attempt", "no", "yes") == 1 {
					// every request is answered 503 until the client gives up after two virtual minutes
					// (the handler retries temporary errors for as long as the request lives)
					mcrt.Observe("fault: registry down")
					srv.Down = true
					var stop gocontext.CancelFunc
					ctx, stop = mcrt.WithTimeout(ctx, 2*gotime.Minute)
					defer stop()
				}
				err = ZZPullVia(ctx, reg, z9Name)
				srv.Down = false
			} else {
				err = reg.Pull(ctx, z9Name)
			}
			cancel()
			mcrt.WaitIdle(false) // let stragglers of this attempt finish
			mcrt.Observe("attempt %d: %v", attempt, z9Err(err))
			m := w.linked()
			malformed := false
			for _, f := range sc.Faults {
				if strings.HasPrefix(f, "manifest-") {
					malformed = true // what the registry served in this attempt may itself be an altered manifest
				}
			}
			if err == nil && malformed && !clean {
				if m == nil {
					mcrt.Fail("C09: success-not-linked: Pull reported success but the name is not linked")
				} else if msg := w.checkManifest(m); msg != "" {
					mcrt.Fail("C09: success-incomplete: Pull reported success (attempt %d) but %s", attempt, msg)
				}
			} else if err == nil {
				if m == nil || !bytes.Equal(m, served) {
					mcrt.Fail("C09: success-not-linked: Pull reported success but the name is not linked to the manifest the registry served")
				}
				if msg := w.checkManifest(served); msg != "" {
					mcrt.Fail("C09: success-incomplete: Pull reported success (attempt %d) but %s", attempt, msg)
				}
			} else {
				if m != nil {
					if msg := w.checkManifest(m); msg != "" {
						mcrt.Fail("C09: failed-pull-linked-incomplete: Pull failed (%v) and the name resolves to a manifest of which %s", z9Err(err), msg)
					}
					if old != nil && !bytes.Equal(m, old) && !bytes.Equal(m, served) {
						mcrt.Fail("C09: failed-pull-linked-garbage: the name resolves to a manifest that is neither the old nor the new one")
					}
				}
				if clean {
					mcrt.Fail("C09: clean-retry-fails: a fault-free pull after %d failed attempt(s) fails: %v", sc.Faulty, err)
				}
			}
		}
	}
}

// ZZPullVia is set by the harness main (which may import server/internal/registry): it sends POST /api/pull
// through registry.Local's handler - whose loop retries Pull on temporary errors - and returns nil iff the
// response ends with status "success".
var ZZPullVia func(ctx gocontext.Context, reg *Registry, name string) error

func z9Err(err error) string {
	if err == nil {
		return "ok"
	}
	s := err.Error()
	if len(s) > 60 {
		s = s[:60]
	}
	return s
}

func z9Push(sc z9Scenario, w *z9World, reg *Registry, c *blob.DiskCache) {
	srv := w.srv
	env := mcos.E
	// local model: layers + manifest in the cache, linked
	env.Frozen = true
	type layer struct {
		Digest    string `json:"digest"`
		MediaType string `json:"mediaType"`
		Size      int    `json:"size"`
	}
	var m struct {
		Config *layer  `json:"config,omitempty"`
		Layers []layer `json:"layers"`
	}
	var digests []string
	for i, n := range sc.Layers {
		data := z9Data(n, 5+byte(i))
		d := blob.DigestFromBytes(data)
		if err := blob.PutBytes(c, d, data); err != nil {
			mcrt.Fail("C09: setup: %v", err)
			return
		}
		m.Layers = append(m.Layers, layer{d.String(), "application/vnd.ollama.image.model", n})
		digests = append(digests, d.String())
		if i < sc.Present {
			srv.AddBlob(data)
		}
	}
	if sc.Config > 0 {
		// the manifest also names a config blob, as every model made by create does
		data := z9Data(sc.Config, 29)
		d := blob.DigestFromBytes(data)
		if err := blob.PutBytes(c, d, data); err != nil {
			mcrt.Fail("C09: setup: %v", err)
			return
		}
		m.Config = &layer{d.String(), "application/vnd.docker.container.image.v1+json", sc.Config}
		digests = append(digests, d.String())
	}
	mb, _ := json.Marshal(m)
	md := blob.DigestFromBytes(mb)
	blob.PutBytes(c, md, mb)
	if err := c.Link(z9Name, md); err != nil {
		mcrt.Fail("C09: setup link: %v", err)
		return
	}
	env.Frozen = false
	srv.Faults = len(sc.Faults) > 0
	srv.FaultKinds = sc.Faults
	ctx, cancel := gocontext.WithCancel(gocontext.Background())
	if sc.Cancel {
		mcrt.GoNamed("cancel", func() {
			mcrt.Yield("client goes away")
			mcrt.Observe("cancel")
			cancel()
		})
	}
	if sc.CancelLate {
		gone := false
		srv.OnNetPoint = func(label string) {
			if !gone && mcrt.Choose(mcrt.Cancel, "client goes away before "+label, "no", "yes") == 1 {
				gone = true
				mcrt.Observe("cancel before %s", label)
				cancel()
			}
		}
	}
	err := reg.Push(ctx, z9Name, nil)
	cancel()
	mcrt.WaitIdle(false)
	mcrt.Observe("push: %v", z9Err(err))
	// request log: the manifest is committed only after every layer was accepted
	accepted := map[string]bool{}
	for _, l := range srv.Log {
		switch {
		case strings.HasPrefix(l, "BLOB-ACCEPTED "), strings.HasPrefix(l, "BLOB-PRESENT "):
			accepted[strings.Fields(l)[1]] = true
		case strings.HasPrefix(l, "MANIFEST-COMMITTED "):
			for _, d := range digests {
				if !accepted[d] {
					mcrt.Fail("C09: manifest-before-layers: the manifest was sent to the registry before layer %s had been accepted", d[:14])
				}
			}
		}
	}
	if err == nil && len(srv.ManifestPuts) == 0 {
		mcrt.Fail("C09: push-success-without-manifest: Push reported success but no manifest was sent")
	}
}

var z9Root string

func z9Scenarios(thorough bool) []z9Scenario {
	netf := []string{"500", "neterr", "truncate", "truncate-clean", "flip", "ignore-range"}
	l := []z9Scenario{
		{Name: "small-layer", Op: "pull", Layers: []int{3}, Config: 2, MaxStreams: 1, Faults: netf, Faulty: 1},
		{Name: "chunked-layer", Op: "pull", Layers: []int{12}, MaxStreams: 2, Faults: netf, Faulty: 1},
		{Name: "shared-first-chunk", Op: "pull", Layers: []int{12, 10}, MaxStreams: 1, SharedHead: true, Faults: []string{"500"}, Faulty: 1},
		{Name: "chunk-plans", Op: "pull", Layers: []int{12}, MaxStreams: 2, PlanFaults: true, Faulty: 1},
		{Name: "two-layers-unlimited", Op: "pull", Layers: []int{12, 3}, MaxStreams: -1, Faults: []string{"500", "truncate"}, Faulty: 1},
		{Name: "chunked-cancel", Op: "pull", Layers: []int{12}, MaxStreams: 2, Cancel: true, Faulty: 1},
		{Name: "replace-tag", Op: "pull", Layers: []int{12, 3}, MaxStreams: 1, Prior: true, Faults: []string{"500", "truncate", "flip"}, Faulty: 1},
		{Name: "stall", Op: "pull", Layers: []int{12}, MaxStreams: 2, Faults: []string{"stall"}, Faulty: 1},
		{Name: "handler-chunked", Op: "pull", Layers: []int{12}, MaxStreams: 2, Handler: true, Faults: []string{"500", "neterr", "truncate", "flip"}, Faulty: 1},
		{Name: "handler-two-layers", Op: "pull", Layers: []int{3, 12}, Config: 2, MaxStreams: 1, Handler: true, Faults: []string{"500", "neterr"}, Faulty: 1},
		{Name: "push", Op: "push", Layers: []int{3, 12}, MaxStreams: 2, Faults: []string{"500", "neterr", "307"}},
		{Name: "malformed-manifest", Op: "pull", Layers: []int{3, 12}, Config: 2, MaxStreams: 1, Faults: []string{"badjson", "manifest-empty-digest", "manifest-short-digest", "manifest-nohex-digest", "manifest-null-layer", "manifest-negative-size", "manifest-dup-layer", "manifest-wrong-size"}, Faulty: 1},
		{Name: "push-config", Op: "push", Layers: []int{3}, Config: 2, MaxStreams: 1},
		{Name: "push-cancel", Op: "push", Layers: []int{3, 12}, MaxStreams: 1, Cancel: true},
		{Name: "push-cancel-late", Op: "push", Layers: []int{3, 12}, MaxStreams: 1, CancelLate: true, Faults: []string{"500"}},
		{Name: "chunked-cancel-late", Op: "pull", Layers: []int{12, 3}, MaxStreams: 2, CancelLate: true, Faults: []string{"500", "flip"}, Faulty: 1},
		{Name: "push-present", Op: "push", Layers: []int{3, 12}, MaxStreams: 1, Present: 1, Faults: []string{"500", "neterr"}},
		{Name: "push-present-parallel", Op: "push", Layers: []int{3, 12, 5}, MaxStreams: 2, Present: 2, Faults: []string{"500"}},
	}
	if thorough {
		l = append(l,
			z9Scenario{Name: "chunked-two-retries", Op: "pull", Layers: []int{12}, MaxStreams: 2, Faults: netf, PlanFaults: true, Faulty: 2},
			z9Scenario{Name: "big-and-small", Op: "pull", Layers: []int{20, 8, 3}, Config: 2, MaxStreams: 2, Faults: []string{"500", "truncate", "flip"}, Faulty: 1},
			z9Scenario{Name: "chunked-cancel-faults", Op: "pull", Layers: []int{12}, MaxStreams: -1, Cancel: true, Faults: []string{"truncate"}, Faulty: 1},
			z9Scenario{Name: "push-three", Op: "push", Layers: []int{3, 12, 20}, MaxStreams: -1, Faults: []string{"500", "neterr"}},
		)
	}
	return l
}

func z9Bounds(thorough bool) mcrt.Bounds {
	var b mcrt.Bounds
	b[mcrt.Fault] = 1
	b[mcrt.Cancel] = 1
	b[mcrt.Preempt] = 1
	b[mcrt.Switch] = 1
	b[mcrt.Time] = 1
	if thorough {
		b[mcrt.Fault] = 2
		b[mcrt.Preempt] = 2
		b[mcrt.Switch] = 2
	}
	return b
}

type z9Replay struct {
	Scenario z9Scenario  `json:"scenario"`
	Choices  string      `json:"choices"`
	Bounds   mcrt.Bounds `json:"bounds"`
}

func z9Sig(f string, sc z9Scenario) string {
	s := strings.TrimPrefix(f, "C09: ")
	sub := ""
	for _, k := range []string{"[missing]", "[wrong-size]", "[wrong-content]"} {
		if strings.Contains(s, k) {
			sub = "-" + strings.Trim(k, "[]")
		}
	}
	if i := strings.Index(s, ":"); i > 0 {
		s = s[:i]
	}
	s += sub
	mech := "single-request"

	for _, n := range sc.Layers {
		if n >= 8 {
			mech = "chunked"
		}
	}
	return "C09/" + s + "/" + sc.Op + "/" + mech
}

func ZZVerifC09() {
	r := evid.Start("C09", "fault_enumeration")
	thorough := evid.Thorough()
	z9Root = fmt.Sprintf("/dev/shm/verif-c09-%d", gos.Getpid())
	defer gos.RemoveAll(z9Root)
	if p := evid.ReplayPath(); p != "" {
		var rp z9Replay
		if err := evid.LoadReplay(p, &rp); err != nil {
			fmt.Println("replay:", err)
			gos.Exit(2)
		}
		x := &mcrt.Explorer{Bounds: rp.Bounds, Body: z9Body(rp.Scenario), Cfg: mcrt.Config{MaxSteps: 50000}, NoCache: true}
		res, labels := x.Replay(mcrt.DecodeChoices(rp.Choices))
		gos.RemoveAll(z9Root)
		js, _ := json.Marshal(rp.Scenario)
		fmt.Printf("scenario %s\n", js)
		for _, l := range labels {
			fmt.Println("  choice", l)
		}
		for _, t := range res.Trace {
			fmt.Println(t)
		}
		bad := false
		for _, f := range res.Failures {
			fmt.Println("FAILS:", f)
			bad = true
		}
		for _, pn := range res.Panics {
			fmt.Println("PANIC:", pn.Value, pn.Stack)
			bad = true
		}
		if bad {
			gos.Exit(1)
		}
		fmt.Println("holds on this execution")
		gos.Exit(0)
	}
	scs := z9Scenarios(thorough)
	bounds := z9Bounds(thorough)
	totalCap := 2 // at most this many deviations of all classes together in one execution
	if thorough {
		totalCap = 3
	}
	budget := 200 * gotime.Second
	if thorough {
		budget = 18 * gotime.Minute
	}
	deadline := gotime.Now().Add(budget)
	byName := map[string]z9Scenario{}
	for _, s := range scs {
		byName[s.Name] = s
	}
	onExec := func(sub *evid.Run, sc z9Scenario, x *mcrt.Explorer) func([]int, *mcrt.Result) {
		return func(choices []int, res *mcrt.Result) {
			if res.Pruned {
				return
			}
			key := sc.Name + "\n" + strings.Join(res.Log, "\n")
			if sub.Distinct("outcome", key) {
				if strings.Contains(key, "fault") || strings.Contains(key, "cancel") {
					sub.Distinct("nontrivial", key)
				}
				if sub.WantSample() {
					sub.Sample(map[string]any{"scenario": sc.Name, "log": res.Log})
				} else {
					sub.Sample(nil)
				}
			}
			var fails []string
			fails = append(fails, res.Failures...)
			for _, p := range res.Panics {
				fails = append(fails, "C09: panic in "+p.Thread+": "+p.Value)
			}
			if res.Horizon {
				fails = append(fails, "C09: no-termination: the operation did not finish within the step horizon")
			}
			if len(fails) == 0 {
				return
			}
			if !x.Confirm(choices, res, 5) {
				sub.Extra("machinery_errors", []string{"nondeterministic replay in " + sc.Name + " " + mcrt.EncodeChoices(choices)})
				return
			}
			js, _ := json.Marshal(sc)
			sig := z9Sig(fails[0], sc)
			clean := true
			for _, l := range res.Log {
				if strings.Contains(l, "fault") || strings.Contains(l, "cancel") || strings.Contains(l, "gone") || (strings.HasPrefix(l, "attempt ") && !strings.HasSuffix(l, ": ok")) {
					clean = false
				}
			}
			if clean {
				// the registry answered every request correctly and the client stayed: not one of the "earlier attempt failed" histories
				sig += "/no-fault"
			}
			sub.Violation(sig, strings.Join(fails, "\n")+"\nscenario "+string(js)+"\nchoices "+mcrt.EncodeChoices(choices)+"\nlog:\n  "+strings.Join(res.Log, "\n  "),
				z9Replay{Scenario: sc, Choices: mcrt.EncodeChoices(choices), Bounds: bounds})
		}
	}
	var items []string
	if !evid.IsWorker() {
		for _, sc := range scs {
			x := &mcrt.Explorer{Bounds: bounds, TotalCap: totalCap, Body: z9Body(sc), Cfg: mcrt.Config{MaxSteps: 50000}}
			x.OnExec = onExec(r, sc, x)
			for _, p := range x.Roots() {
				items = append(items, sc.Name+"|"+mcrt.EncodeChoices(p))
			}
			r.Add("evaluations", x.Execs)
			r.Add("transitions", x.Transitions)
		}
	}
	r.Fanout(items, evid.FanoutOpts{Env: []string{"GOMAXPROCS=2"}, MemLimitMB: 4096}, func(item string, sub *evid.Run) {
		parts := strings.SplitN(item, "|", 2)
		sc := byName[parts[0]]
		x := &mcrt.Explorer{Bounds: bounds, TotalCap: totalCap, Body: z9Body(sc), Cfg: mcrt.Config{MaxSteps: 50000}, Deadline: deadline}
		x.OnExec = onExec(sub, sc, x)
		x.Explore(mcrt.DecodeChoices(parts[1]))
		sub.Add("evaluations", x.Execs)
		sub.Add("transitions", x.Transitions)
		sub.Add("pruned_by_hb_cache", x.PrunedExecs)
		if x.Stopped {
			sub.NotExhaustive("time budget reached in " + item)
		}
		if x.HorizonHits > 0 {
			sub.Add("horizon_hits", x.HorizonHits)
		}
	})
	r.Rule("for each scenario (layer sizes on both sides of the chunking threshold, stream limits, prior version) every execution of [faulty attempt(s) -> fault-free attempt] of the real Registry.Pull / Push within the deviation bounds: per-request faults (error status, connection reset, truncated or flipped body, Range ignored, stall until the read timeout), broken chunk plans, client cancellation at any point, chunk completion orders (thread interleavings at sync/FS/network points). Non-trivial = distinct executions in which a fault or cancellation occurred.")
	r.Extra("bounds", fmt.Sprintf("%s; total deviations <= %d", bounds.String(), totalCap))
	r.Extra("scenarios", len(scs))
	r.Assume("registry content itself is never changed by a fault; manifests are served intact (their digest is not checkable by the client protocol)",
		"read timeout and stalls run on the virtual clock")
	r.Finish()
}
