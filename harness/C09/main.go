package main

import "github.com/ollama/ollama/server/internal/client/ollama"

func main() { ollama.ZZVerifC09() }
