package main

import (
	"bytes"
	"context"
	"encoding/json"
	"errors"
	"io"
	"log/slog"
	"net/http/httptest"
	"strings"

	"github.com/ollama/ollama/server/internal/client/ollama"
	"github.com/ollama/ollama/server/internal/registry"
)

// pullVia drives the real /api/pull handler of registry.Local (streaming mode: the retry loop around
// Registry.Pull) and reports what a client would conclude from the response.
func pullVia(ctx context.Context, reg *ollama.Registry, name string) error {
	local := &registry.Local{Client: reg, Logger: slog.New(slog.NewTextHandler(io.Discard, nil))}
	body, _ := json.Marshal(map[string]any{"model": name, "stream": true})
	req := httptest.NewRequest("POST", "/api/pull", bytes.NewReader(body)).WithContext(ctx)
	rec := httptest.NewRecorder()
	local.ServeHTTP(rec, req)
	last := ""
	for _, ln := range strings.Split(strings.TrimSpace(rec.Body.String()), "\n") {
		if strings.TrimSpace(ln) != "" {
			last = ln
		}
	}
	var st struct {
		Status string `json:"status"`
		Error  string `json:"error"`
	}
	json.Unmarshal([]byte(last), &st)
	if rec.Code == 200 && st.Status == "success" {
		return nil
	}
	if st.Error != "" {
		return errors.New(st.Error)
	}
	if err := ctx.Err(); err != nil {
		return err
	}
	return errors.New("pull handler: status " + rec.Result().Status + " last line " + last)
}

func main() {
	ollama.ZZPullVia = pullVia
	ollama.ZZVerifC09()
}
