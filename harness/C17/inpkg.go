package server

// C17 harness, part 3: enumeration, oracle, reporting.
//
// (model output) x (every chunking of it, Done chunk with/without content) x
// (request shapes) x (runner failing after k delivered chunks), each executed
// through the real gin router in-process, NDJSON / SSE decoded by the harness and,
// for the native endpoints, also by the real api.Client.

import (
	"encoding/json"
	"fmt"
	"os"
	"os/signal"
	"path/filepath"
	"regexp"
	"runtime/pprof"
	"strconv"
	"strings"
	"syscall"
	"time"

	"github.com/ollama/ollama/zzverif/evid"
)

// ---- the enumerated space ----------------------------------------------------------

const (
	c17TC1 = `{"name":"f","arguments":{"a":1}}`
	c17TC2 = `{"name":"g","arguments":{}}`
)

var c17Outputs = []c17Output{
	// short outputs (<= 10 runes): every one of the 2^(L-1) chunkings
	{Name: "empty", Text: "", Reason: "stop", Prompt: 5, Eval: 1},
	{Name: "two-letters", Text: "hi", Reason: "stop", Prompt: 5, Eval: 2},
	{Name: "plain", Text: "Hello wrld", Reason: "stop", Prompt: 6, Eval: 3},
	{Name: "plain-length", Text: "So, first", Reason: "length", Prompt: 6, Eval: 128},
	{Name: "multibyte", Text: "hé 世界 \U0001F600!ß", Reason: "stop", Prompt: 7, Eval: 9},
	{Name: "escapes", Text: "<a&b>\"\\\n\t ", Reason: "stop", Prompt: 8, Eval: 10},
	// longer outputs: every chunking with at most D cuts
	{Name: "tool-call", Text: c17TC1, Reason: "stop", Prompt: 11, Eval: 12},
	{Name: "tool-call-length", Text: c17TC2, Reason: "length", Prompt: 11, Eval: 64},
	{Name: "two-tool-calls", Text: c17TC1 + c17TC2, Reason: "stop", Prompt: 12, Eval: 21},
	{Name: "two-tool-calls-newline", Text: c17TC2 + "\n" + c17TC2, Reason: "stop", Prompt: 12, Eval: 22},
	{Name: "tool-call-nested", Text: `{"name":"f","arguments":{"o":{"k":[1,{"z":"}"}]}}}`, Reason: "stop", Prompt: 13, Eval: 23},
	{Name: "text-then-tool-call", Text: "ok " + c17TC2, Reason: "stop", Prompt: 14, Eval: 24},
	{Name: "tool-call-then-text", Text: c17TC2 + " ok", Reason: "stop", Prompt: 15, Eval: 25},
	{Name: "json-then-tool-call", Text: `{"x":1}` + c17TC2, Reason: "stop", Prompt: 16, Eval: 26},
	{Name: "malformed-json", Text: `{"name":"f","arguments":{"a":1}`, Reason: "stop", Prompt: 17, Eval: 27},
	{Name: "tool-calls-in-array", Text: "[" + c17TC2 + "," + c17TC1 + "]", Reason: "stop", Prompt: 18, Eval: 28},
}

func c17Families() []c17Family {
	var fs []c17Family
	// base families first (the dimensions the handlers branch on), then the pass-through dimensions
	for _, pass := range []bool{false, true} {
		for _, format := range []string{"", "json"} {
			for _, stop := range []bool{false, true} {
				if (format != "" || stop) != pass {
					continue
				}
				for _, raw := range []bool{false, true} {
					fs = append(fs, c17Family{Kind: "generate", Raw: raw, Format: format, Stop: stop})
				}
				for _, tools := range []bool{false, true} {
					fs = append(fs, c17Family{Kind: "chat", Tools: tools, Format: format, Stop: stop})
				}
			}
		}
	}
	return fs
}

func (f c17Family) base() bool { return f.Format == "" && !f.Stop }

type c17Bounds struct {
	ShortLen         int `json:"all_splits_up_to_runes"`
	MaxCuts          int `json:"max_cuts_long_outputs"`
	MaxCutsDeep      int `json:"max_cuts_deep_outputs_in_chat_tools_family"`
	MaxCutsPass      int `json:"max_cuts_long_outputs_where_text_is_opaque_or_format_stop_set"`
	MaxCutsPassShort int `json:"max_cuts_short_outputs_in_format_stop_families"`
}

// outputs enumerated one cut deeper in the chat+tools family (thorough tier)
var c17DeepOutputs = map[string]bool{"tool-call-length": true, "tool-call-then-text": true}

func c17GetBounds() c17Bounds {
	if evid.Thorough() {
		return c17Bounds{ShortLen: 10, MaxCuts: 3, MaxCutsDeep: 4, MaxCutsPass: 2, MaxCutsPassShort: 10}
	}
	return c17Bounds{ShortLen: 10, MaxCuts: 2, MaxCutsDeep: 2, MaxCutsPass: 1, MaxCutsPassShort: 2}
}

// maxDepth: largest number of cuts (complete scripts) / delivered chunks (failing scripts)
//
//	base families (no format, no stop):
//	  outputs of <= ShortLen runes: every chunking
//	  longer outputs: <= MaxCuts cuts in the chat+tools family (the only one whose handler looks into the text;
//	  <= MaxCutsDeep for the outputs named in c17DeepOutputs) and for the output "tool-call" in the others;
//	  <= MaxCutsPass cuts for the remaining longer outputs in families where the text is opaque
//	pass-through families (format and/or stop set): <= MaxCutsPass cuts (<= MaxCutsPassShort for short outputs)
func (b c17Bounds) maxDepth(f c17Family, o c17Output, fail bool) int {
	L := len([]rune(o.Text))
	full := L - 1
	if fail {
		full = L
	}
	if full < 0 {
		full = 0
	}
	d := 0
	switch {
	case L <= b.ShortLen && f.base():
		d = full
	case L <= b.ShortLen:
		d = b.MaxCutsPassShort
	case f.base() && f.Tools && c17DeepOutputs[o.Name]:
		d = b.MaxCutsDeep
	case f.base() && (f.Tools || o.Name == "tool-call"):
		d = b.MaxCuts
	default:
		d = b.MaxCutsPass
	}
	return min(d, full)
}

func c17Binom(n, k int) int64 {
	if k < 0 || k > n {
		return 0
	}
	r := int64(1)
	for i := 0; i < k; i++ {
		r = r * int64(n-i) / int64(i+1)
	}
	return r
}

// number of scripts of one (output, depth, mode)
func c17Count(o c17Output, depth int, fail bool) int64 {
	L := len([]rune(o.Text))
	if fail {
		return 2 * c17Binom(L, depth) // (ending in an error, ending in nothing)
	}
	if L == 0 {
		if depth == 0 {
			return 1
		}
		return 0
	}
	return 2 * c17Binom(L-1, depth)
}

// c17Scripts calls fn for every script of (output, depth, mode), in lexicographic order of the cuts.
func c17Scripts(o c17Output, depth int, fail bool, fn func(idx int64, s c17Script) bool) {
	L := len([]rune(o.Text))
	hi := L - 1 // cut positions 1..hi
	if fail {
		hi = L
	}
	var idx int64
	cuts := make([]int, depth)
	var rec func(pos, from int) bool
	rec = func(pos, from int) bool {
		if pos == depth {
			c := append([]int{}, cuts...)
			if fail {
				if !fn(idx, c17Script{Cuts: c, Fail: true}) {
					return false
				}
				idx++
				if !fn(idx, c17Script{Cuts: c, Fail: true, NoDone: true}) {
					return false
				}
				idx++
				return true
			}
			if !fn(idx, c17Script{Cuts: c}) {
				return false
			}
			idx++
			if L > 0 {
				if !fn(idx, c17Script{Cuts: c, DoneContent: true}) {
					return false
				}
				idx++
			}
			return true
		}
		for p := from; p <= hi-(depth-pos-1); p++ {
			cuts[pos] = p
			if !rec(pos+1, p+1) {
				return false
			}
		}
		return true
	}
	rec(0, 1)
}

// ---- executing one (family, output, script) ------------------------------------------

func c17RunVariant(e *c17Env, f c17Family, o c17Output, s c17Script, variant string) c17Outcome {
	cbs, err := c17Callbacks(o, s)
	if err != nil {
		return c17Outcome{End: "malformed", Note: "harness script: " + err.Error()}
	}
	e.runner.cbs, e.runner.fail, e.runner.nodone, e.runner.calls = cbs, s.Fail, s.NoDone, 0
	path, body := c17Body(f, variant)
	stream := strings.Contains(variant, "/stream")
	var out c17Outcome
	switch {
	case strings.HasPrefix(variant, "client/"):
		out = c17RunClient(e, f, body, stream)
	case strings.HasPrefix(variant, "openai/"):
		rec := e.post(path, body)
		out = c17DecodeOpenAI(rec.status, rec.body.String(), stream)
	default:
		rec := e.post(path, body)
		out = c17DecodeNative(rec.status, rec.body.String(), stream)
	}
	out.Calls = e.runner.calls
	if e.reqSeen == nil {
		e.reqSeen = map[string]bool{}
	}
	e.reqSeen[e.runner.lastPrompt+"\x00"+e.runner.lastFormat+"\x00"+strings.Join(e.runner.lastStop, "\x00")] = true
	return out
}

type c17Finding struct {
	Sig string
	Msg string
}

func c17TupleEq(a, b c17Tuple, counts bool) bool {
	if a.Text != b.Text || a.Finish != b.Finish || len(a.Tools) != len(b.Tools) {
		return false
	}
	for i := range a.Tools {
		if a.Tools[i] != b.Tools[i] {
			return false
		}
	}
	if counts && a.HasCounts && b.HasCounts && (a.Prompt != b.Prompt || a.Eval != b.Eval) {
		return false
	}
	return true
}

var c17SigRe = regexp.MustCompile(`[^a-zA-Z0-9_,-]+`)

func c17Word(s string) string {
	if s == "" {
		return "none"
	}
	return c17SigRe.ReplaceAllString(s, "_")
}

// c17DiffClass names the way got differs from want (the defect class part of a signature).
func c17DiffClass(got, want c17Tuple) string {
	toolsEq := len(got.Tools) == len(want.Tools)
	if toolsEq {
		for i := range got.Tools {
			if got.Tools[i] != want.Tools[i] {
				toolsEq = false
			}
		}
	}
	switch {
	case !toolsEq && len(got.Tools) < len(want.Tools):
		return "toolcall-lost"
	case !toolsEq && len(got.Tools) > len(want.Tools):
		return "toolcall-extra"
	case !toolsEq:
		return "toolcall-differs"
	case got.Text != want.Text && len(want.Tools) > 0 && want.Text == "":
		return "content-leak-with-toolcall"
	case got.Text != want.Text && len(got.Text) < len(want.Text):
		return "content-lost"
	case got.Text != want.Text && len(got.Text) > len(want.Text):
		return "content-extra"
	case got.Text != want.Text:
		return "content-differs"
	case got.Finish != want.Finish && want.Finish == "tool_calls" && !strings.Contains(got.Finish, ","):
		// one class whatever the done_reason (stop, length) that shows up instead
		return "finish-reason/done_reason-instead-of-tool_calls"
	case got.Finish != want.Finish:
		return "finish-reason/" + c17Word(got.Finish) + "-vs-" + c17Word(want.Finish)
	}
	return "token-counts"
}

// documented mapping native -> OpenAI: finish_reason is "tool_calls" when the message
// carries tool calls, otherwise the native done_reason; usage = prompt/eval counts.
func c17MapOpenAI(t c17Tuple) c17Tuple {
	if len(t.Tools) > 0 {
		t.Finish = "tool_calls"
	}
	return t
}

func c17VariantClass(v string) string {
	v = strings.TrimSuffix(v, "+usage")
	return strings.ReplaceAll(v, "/", "-")
}

func c17Show(o c17Outcome) string {
	b, _ := json.Marshal(o.T)
	s := fmt.Sprintf("end=%s status=%d messages=%d tuple=%s", o.End, o.Status, o.Msgs, b)
	if o.Err != "" {
		s += " error=" + strconv.Quote(o.Err)
	}
	if o.Note != "" {
		s += " note=" + strconv.Quote(o.Note)
	}
	return s
}

func c17Desc(f c17Family, o c17Output, s c17Script) string {
	cbs, _ := c17Callbacks(o, s)
	var parts []string
	for _, cb := range cbs {
		if cb.Done {
			parts = append(parts, "DONE("+strconv.Quote(cb.Content)+")")
		} else {
			parts = append(parts, strconv.Quote(cb.Content))
		}
	}
	if s.Fail {
		parts = append(parts, "ERROR")
	}
	return fmt.Sprintf("request %s, output %q (%s), runner callbacks: %s", f, o.Text, o.Name, strings.Join(parts, " | "))
}

type c17Baseline struct {
	ref       c17Outcome // native/nostream, one content callback + empty Done
	stream    c17Outcome // native/stream, same script
	refOK     bool
	streamAgr bool
}

// c17Check executes every variant for one script and applies the oracle.
// outcomes is filled for reporting; machinery != "" means the harness itself misbehaved.
func c17Check(e *c17Env, f c17Family, o c17Output, s c17Script, bl *c17Baseline) (outs map[string]c17Outcome, finds []c17Finding, machinery string) {
	outs = map[string]c17Outcome{}
	vars := c17Variants(f)
	for _, v := range vars {
		out := c17RunVariant(e, f, o, s, v)
		outs[v] = out
		if out.Calls != 1 {
			return outs, nil, fmt.Sprintf("variant %s: runner called %d times (request did not reach the runner exactly once): %s body=%q", v, out.Calls, c17Show(out), out.Body)
		}
		if strings.HasPrefix(out.Note, "harness") {
			return outs, nil, out.Note
		}
	}
	desc := c17Desc(f, o, s)
	add := func(sig, msg string) { finds = append(finds, c17Finding{sig, msg + "\n" + desc}) }

	want := "final"
	when := "on-success"
	if s.Fail {
		want, when = "error", "on-runner-error"
	}
	if s.NoDone {
		when = "on-runner-end-without-done"
	}
	// clause: every response ends with exactly one final message or exactly one error
	for _, v := range vars {
		out := outs[v]
		if out.End == want || (s.NoDone && out.End == "final") {
			continue // (a runner that just stops may be answered with a final message or with an error)
		}
		if strings.HasPrefix(v, "client/") {
			raw := outs["native/"+strings.TrimPrefix(v, "client/")]
			if raw.End == out.End {
				continue // the client faithfully shows what the server sent; reported for the raw variant
			}
			add("C17/client-vs-raw/"+f.class()+"/"+c17VariantClass(v)+"/end-"+out.End+"-vs-"+raw.End,
				fmt.Sprintf("api.Client sees the response end as %q but the raw body ends as %q\n  client: %s\n  raw:    %s body=%q", out.End, raw.End, c17Show(out), c17Show(raw), raw.Body))
			continue
		}
		add("C17/stream-end/"+f.Kind+"/"+c17VariantClass(v)+"/"+out.End+"-"+when,
			fmt.Sprintf("%s: response must end with exactly one %s, but ends as %q\n  %s\n  body=%q", v, map[string]string{"final": "final message", "error": "error"}[want], out.End, c17Show(out), out.Body))
	}
	if s.Fail {
		return outs, finds, ""
	}
	ok := func(v string) bool { _, has := outs[v]; return has && outs[v].End == "final" }

	// clause: the non-streamed response does not depend on the chunking
	if ok("native/nostream") && bl.refOK && !c17TupleEq(outs["native/nostream"].T, bl.ref.T, true) {
		add("C17/split-dependence/"+f.class()+"/native-nostream/"+c17DiffClass(outs["native/nostream"].T, bl.ref.T),
			fmt.Sprintf("non-streamed response differs from the non-streamed response for the unsplit output\n  got:      %s\n  expected: %s", c17Show(outs["native/nostream"]), c17Show(bl.ref)))
	}
	// clause: concatenation of the streamed chunks == the non-streamed response, for every chunking
	if ok("native/stream") && bl.refOK && !c17TupleEq(outs["native/stream"].T, bl.ref.T, true) {
		rel := "stream-vs-nonstream"
		if bl.streamAgr {
			rel = "split-dependence" // the stream agrees with non-stream for the unsplit output, so the chunking matters
		}
		add("C17/"+rel+"/"+f.class()+"/native-stream/"+c17DiffClass(outs["native/stream"].T, bl.ref.T),
			fmt.Sprintf("concatenated stream differs from the non-streamed response\n  stream:     %s\n  non-stream: %s\n  stream body=%q", c17Show(outs["native/stream"]), c17Show(bl.ref), outs["native/stream"].Body))
	}
	// clause: what api.Client delivers == what is on the wire
	for _, x := range []string{"nostream", "stream"} {
		if ok("client/"+x) && ok("native/"+x) && !c17TupleEq(outs["client/"+x].T, outs["native/"+x].T, true) {
			add("C17/client-vs-raw/"+f.class()+"/client-"+x+"/"+c17DiffClass(outs["client/"+x].T, outs["native/"+x].T),
				fmt.Sprintf("result decoded by api.Client differs from the raw body\n  client: %s\n  raw:    %s", c17Show(outs["client/"+x]), c17Show(outs["native/"+x])))
		}
	}
	// clause: OpenAI-compatible endpoint == native endpoint after the field mapping
	for _, v := range c17OpenAIVariants {
		if !ok(v) {
			continue
		}
		nv := "native/nostream"
		if strings.Contains(v, "/stream") {
			nv = "native/stream"
		}
		if !ok(nv) {
			continue
		}
		wantT := c17MapOpenAI(outs[nv].T)
		if !c17TupleEq(outs[v].T, wantT, true) {
			add("C17/openai-vs-native/"+f.class()+"/"+c17VariantClass(v)+"/"+c17DiffClass(outs[v].T, wantT),
				fmt.Sprintf("%s differs from %s (after mapping done_reason -> finish_reason, counts -> usage)\n  openai: %s\n  native: %s (mapped finish=%q)\n  openai body=%q", v, nv, c17Show(outs[v]), c17Show(outs[nv]), wantT.Finish, outs[v].Body))
		}
		if strings.HasSuffix(v, "+usage") && !outs[v].T.HasCounts {
			add("C17/openai-vs-native/"+f.class()+"/openai-stream/usage-missing",
				fmt.Sprintf("%s: include_usage was requested but no usage message was streamed\n  %s\n  body=%q", v, c17Show(outs[v]), outs[v].Body))
		}
	}
	return outs, finds, ""
}

// ---- worker state ---------------------------------------------------------------------

var (
	c17env       *c17Env
	c17baselines = map[string]*c17Baseline{}
	c17sigSeen   = map[string]int{}
)

func c17GetEnv() *c17Env {
	if c17env != nil {
		return c17env
	}
	base := os.Getenv("VERIF_C17_DIR")
	if base == "" {
		base = fmt.Sprintf("/dev/shm/verif-c17-%d", os.Getpid())
	}
	dir := filepath.Join(base, fmt.Sprintf("w%s-%d", os.Getenv("VERIF_WORKER_INDEX"), os.Getpid()))
	e, err := c17NewEnv(dir)
	if err != nil {
		fmt.Fprintln(os.Stderr, "C17: cannot set up server:", err)
		if !evid.IsWorker() {
			os.RemoveAll(base) // replay / bench: nobody else cleans up
		}
		os.Exit(3)
	}
	c17env = e
	return e
}

func c17GetBaseline(e *c17Env, f c17Family, o c17Output) *c17Baseline {
	key := f.String() + "|" + o.Name
	if bl := c17baselines[key]; bl != nil {
		return bl
	}
	bl := &c17Baseline{}
	bl.ref = c17RunVariant(e, f, o, c17Script{}, "native/nostream")
	bl.stream = c17RunVariant(e, f, o, c17Script{}, "native/stream")
	bl.refOK = bl.ref.End == "final" && bl.ref.Calls == 1
	bl.streamAgr = bl.refOK && bl.stream.End == "final" && c17TupleEq(bl.stream.T, bl.ref.T, true)
	c17baselines[key] = bl
	return bl
}

func c17HasSig(finds []c17Finding, sig string) bool {
	for _, f := range finds {
		if f.Sig == sig {
			return true
		}
	}
	return false
}

func c17Machinery(r *evid.Run, msg string) {
	r.Extra("machinery_errors", []string{msg})
	r.NotExhaustive("machinery error: " + msg)
}

// c17RunCase: one (family, output, script): execute, count, report.
func c17RunCase(e *c17Env, f c17Family, o c17Output, s c17Script, r *evid.Run) {
	bl := c17GetBaseline(e, f, o)
	outs, finds, mach := c17Check(e, f, o, s, bl)
	cs := c17Case{Family: f, Output: o, Script: s}
	key, _ := json.Marshal(cs)
	cbs, _ := c17Callbacks(o, s)
	callbacks := len(cbs)
	if s.Fail {
		callbacks++
	}
	r.Add("runner_scripts", 1)
	// non-trivial: the runner made at least two callbacks (the output was really split,
	// or something was delivered before the failure)
	if callbacks >= 2 {
		r.Distinct("nontrivial", string(key))
	}
	for v, out := range outs {
		r.Eval()
		r.Add("requests_"+strings.ReplaceAll(strings.TrimSuffix(v, "+usage"), "/", "_"), 1)
		tb, _ := json.Marshal(out.T)
		r.Distinct("outcome", v+out.End+string(tb))
	}
	for k := range e.reqSeen {
		r.Distinct("runner_request", k) // distinct (prompt, format, stop) triples the runner was asked for
	}
	clear(e.reqSeen)
	if r.WantSample() {
		r.Sample(map[string]any{"case": cs, "callbacks": c17Desc(f, o, s), "outcome_native_stream": outs["native/stream"].T, "end_native_stream": outs["native/stream"].End})
	} else {
		r.Sample(nil)
	}
	if mach != "" {
		c17Machinery(r, mach+"\n"+c17Desc(f, o, s))
		return
	}
	for _, fd := range finds {
		// re-execution before recording: 5x for the first occurrence of a defect class in this worker
		// (that one carries the message and the replay case), 1x for the next 20, after that the class
		// is established as reproducible here and further occurrences are only counted
		seen := c17sigSeen[fd.Sig]
		c17sigSeen[fd.Sig] = seen + 1
		first := seen == 0
		reruns := 0
		switch {
		case first:
			reruns = 5
		case seen <= 20:
			reruns = 1
		}
		for i := 0; i < reruns; i++ {
			_, again, m2 := c17Check(e, f, o, s, bl)
			if m2 != "" || !c17HasSig(again, fd.Sig) {
				c17Machinery(r, "verdict not reproducible for "+fd.Sig+": "+c17Desc(f, o, s))
				return
			}
		}
		rep, msg := cs, fd.Msg
		if first {
			// shrink: drop cuts / the Done content while the same defect class is still observed
			cur := s
			for changed := true; changed; {
				changed = false
				var cands []c17Script
				if cur.DoneContent {
					c := cur
					c.DoneContent = false
					cands = append(cands, c)
				}
				for i := range cur.Cuts {
					c := cur
					c.Cuts = append(append([]int{}, cur.Cuts[:i]...), cur.Cuts[i+1:]...)
					cands = append(cands, c)
				}
				for _, c := range cands {
					if _, err := c17Callbacks(o, c); err != nil {
						continue
					}
					_, fs, m3 := c17Check(e, f, o, c, bl)
					if m3 == "" && c17HasSig(fs, fd.Sig) {
						cur, changed = c, true
						for _, x := range fs {
							if x.Sig == fd.Sig {
								msg = x.Msg
							}
						}
						break
					}
				}
			}
			rep.Script = cur
		}
		rep.Sig = fd.Sig
		r.Violation(fd.Sig, msg, rep)
	}
}

// ---- work items ---------------------------------------------------------------------------

// item: "<family index> <output index> <C|F> <depth> <part> <parts>"
func c17Work(item string, sub *evid.Run) {
	var fi, oi, depth, part, parts int
	var mode string
	if _, err := fmt.Sscan(item, &fi, &oi, &mode, &depth, &part, &parts); err != nil {
		c17Machinery(sub, "bad item "+item)
		return
	}
	e := c17GetEnv()
	f, o := c17Families()[fi], c17Outputs[oi]
	c17Scripts(o, depth, mode == "F", func(idx int64, s c17Script) bool {
		if int(idx%int64(parts)) != part {
			return true
		}
		if sub.Expired() {
			sub.NotExhaustive(fmt.Sprintf("time budget reached inside item %q at script %d", item, idx))
			return false
		}
		c17RunCase(e, f, o, s, sub)
		return true
	})
}

func c17Replay(path string) {
	var c c17Case
	if err := evid.LoadReplay(path, &c); err != nil {
		fmt.Println("replay:", err)
		os.Exit(2)
	}
	if c.Family.Kind != "generate" && c.Family.Kind != "chat" {
		fmt.Println("replay: this file does not describe a (family, output, script) case (a worker crash record?); re-run `vx check C17` instead")
		os.Exit(2)
	}
	base := fmt.Sprintf("/dev/shm/verif-c17-%d", os.Getpid())
	os.Setenv("VERIF_C17_DIR", base)
	code := func() int {
		defer os.RemoveAll(base)
		e := c17GetEnv()
		bl := c17GetBaseline(e, c.Family, c.Output)
		fmt.Println("replaying:", c17Desc(c.Family, c.Output, c.Script))
		fmt.Println("  reference (native/nostream, unsplit):", c17Show(bl.ref))
		outs, finds, mach := c17Check(e, c.Family, c.Output, c.Script, bl)
		for _, v := range c17Variants(c.Family) {
			fmt.Printf("  %-20s %s\n      body=%q\n", v, c17Show(outs[v]), outs[v].Body)
		}
		if mach != "" {
			fmt.Println("MACHINERY:", mach)
			return 2
		}
		fails := false
		for _, fd := range finds {
			mark := "other finding"
			if c.Sig == "" || fd.Sig == c.Sig {
				mark = "FAILS"
				fails = true
			}
			fmt.Printf("%s: %s\n  %s\n", mark, fd.Sig, strings.ReplaceAll(fd.Msg, "\n", "\n  "))
		}
		if fails {
			return 1
		}
		fmt.Println("holds (the recorded violation does not reproduce)")
		return 0
	}()
	os.Exit(code)
}

func ZZVerifC17() {
	r := evid.Start("C17", "exploration")
	if p := evid.ReplayPath(); p != "" {
		c17Replay(p)
	}
	if os.Getenv("VERIF_C17_BENCH") != "" {
		c17Bench()
	}
	b := c17GetBounds()
	fams := c17Families()
	budget := 110 * time.Second
	if evid.Thorough() {
		budget = 14*time.Minute + 30*time.Second
	}
	if v, err := strconv.Atoi(os.Getenv("VERIF_C17_BUDGET_S")); err == nil && v > 0 {
		budget = time.Duration(v) * time.Second // developer override, e.g. on a loaded machine
	}
	if evid.IsWorker() {
		// the coordinator's absolute deadline
		if u, err := strconv.ParseInt(os.Getenv("VERIF_C17_DEADLINE"), 10, 64); err == nil {
			r.SetDeadline(time.Until(time.Unix(u, 0)))
		}
		r.Fanout(nil, evid.FanoutOpts{}, c17Work) // never returns
	}

	r.SetDeadline(budget)
	deadline := time.Now().Add(budget)
	base := fmt.Sprintf("/dev/shm/verif-c17-%d", os.Getpid())
	os.MkdirAll(base, 0o755)
	cleanup := func() { os.RemoveAll(base) }
	sigc := make(chan os.Signal, 1)
	signal.Notify(sigc, syscall.SIGINT, syscall.SIGTERM, syscall.SIGHUP)
	go func() { <-sigc; cleanup(); os.Exit(2) }()

	r.Rule("case = (request family, model output, runner script); family = generate{raw} / chat{tools} x format{-,json} x stop{-,set} (16 families); " +
		"runner script = a chunking of the output at rune boundaries x final Done callback with/without content, or a failing script (k chunks covering a prefix are delivered, then Completion returns an error; every choice of the k boundaries). " +
		"Depth: in the 4 families without format/stop every chunking (all 2^(L-1)) and every failing script of outputs of <= 10 runes; for longer outputs every chunking / failing script with <= D cuts / delivered chunks, " +
		"D = bounds.max_cuts_long_outputs in the chat+tools family (the only handler that looks into the text; bounds.max_cuts_deep_outputs_in_chat_tools_family for the outputs tool-call-length and tool-call-then-text) and for the output 'tool-call' in the other three, D = bounds.max_cuts_long_outputs_where_text_is_opaque... for the remaining long outputs there; " +
		"in the 12 families with format and/or stop (pass-through dimensions) <= bounds.max_cuts_long_outputs_where_text_is_opaque... cuts for long and <= bounds.max_cuts_short_outputs_in_format_stop_families cuts for short outputs. " +
		"Every case is sent as native non-stream, native stream (raw NDJSON), api.Client non-stream, api.Client stream (stream field omitted), and where the endpoint exists (/v1/completions has neither raw nor format) as OpenAI non-stream, stream, stream+include_usage, through the real gin router, scheduler and handlers; evaluations counts these HTTP requests, runner_scripts the cases. " +
		"Non-trivial = the runner made >= 2 callbacks (the output was really split, or something was delivered before the failure); distinct_nontrivial counts the distinct non-trivial cases (each of them is executed in 4 or 7 variants).")
	r.Assume(
		"runner contract (llm.LlamaServer.Completion as implemented by llm/server.go): content callbacks, then either one Done callback as the last callback and a nil return, or a non-nil error before any Done callback; a runner that returns nil without Done, or fails after Done, is outside the enumerated space",
		"chunks are valid UTF-8 (the bundled runner holds back incomplete UTF-8 sequences), so outputs are split at rune boundaries only",
		"token counts of a stream are those of its final message (NDJSON done:true line; OpenAI usage message when include_usage is set); without include_usage an OpenAI stream exposes no counts and none are compared",
		"field mapping native -> OpenAI: finish_reason = \"tool_calls\" when the message has tool calls, else done_reason; usage.prompt_tokens/completion_tokens = prompt_eval_count/eval_count; tool-call index, ids, timestamps, durations, model name, context are not compared",
		"on runner failure the property only demands exactly one error indication (HTTP error status with an error object, or an error object as last stream message); partial content before it and the error text are not compared",
		"the scripted runner ignores format/stop (it replays the given output); these request dimensions only check that the handlers treat them as pass-through",
		"done_reason values compared as the comma-joined list of all non-empty reasons seen in a response, so a reason on a non-final chunk or a repeated reason is a difference")

	// phases by depth so that the recorded example of a defect class comes from the simplest scripts
	maxPhase := 3
	var total, plannedReq int64
	type itemT struct {
		s string
		n int64
	}
	perItem := int64(2500)
	if evid.Thorough() {
		perItem = 6000
	}
	workers := 0
	opts := evid.FanoutOpts{Workers: workers, ItemTimeout: 20 * time.Minute, Env: []string{"GOMAXPROCS=1", "GOGC=400", "VERIF_C17_DIR=" + base, "VERIF_C17_DEADLINE=" + strconv.FormatInt(deadline.Unix(), 10)},
		OnCrash: func(item, tail string, timedOut bool) (string, string) {
			if !timedOut && strings.Contains(tail, "panic:") {
				i := strings.Index(tail, "panic:")
				line := tail[i:]
				if j := strings.IndexByte(line, '\n'); j > 0 {
					line = line[:j]
				}
				return "C17/panic/" + c17Word(line), "server process panicked while serving item " + item + ":\n" + tail
			}
			return "", ""
		}}
	for phase := 0; phase <= maxPhase; phase++ {
		var items []itemT
		for fi, f := range fams {
			for oi, o := range c17Outputs {
				for _, fail := range []bool{false, true} {
					md := b.maxDepth(f, o, fail)
					for d := 0; d <= md; d++ {
						if !(d == phase || (phase == maxPhase && d > phase)) {
							continue
						}
						n := c17Count(o, d, fail)
						if n == 0 {
							continue
						}
						parts := int((n + perItem - 1) / perItem)
						mode := "C"
						if fail {
							mode = "F"
						}
						for p := 0; p < parts; p++ {
							items = append(items, itemT{fmt.Sprintf("%d %d %s %d %d %d", fi, oi, mode, d, p, parts), n / int64(parts)})
						}
						total += n
						plannedReq += n * int64(len(c17Variants(f)))
					}
				}
			}
		}
		var list []string
		for _, it := range items {
			list = append(list, it.s)
		}
		if os.Getenv("VERIF_C17_PLAN") != "" {
			fmt.Printf("phase %d: %d items\n", phase, len(list))
			continue
		}
		if len(list) > 0 {
			r.Fanout(list, opts, c17Work)
		}
	}
	if os.Getenv("VERIF_C17_PLAN") != "" {
		fmt.Printf("planned cases %d, planned requests %d\n", total, plannedReq)
		cleanup()
		os.Exit(0)
	}
	if got := r.Count("runner_scripts"); got != total {
		r.NotExhaustive(fmt.Sprintf("%d of %d planned (family, output, script) cases were executed", got, total))
	}
	var outs []map[string]any
	for _, o := range c17Outputs {
		outs = append(outs, map[string]any{"name": o.Name, "text": o.Text, "runes": len([]rune(o.Text)), "done_reason": o.Reason})
	}
	var fnames []string
	for _, f := range fams {
		fnames = append(fnames, f.String())
	}
	r.Extra("bounds", b)
	r.Extra("outputs", outs)
	r.Extra("families", fnames)
	r.Extra("planned_cases", total)
	r.Extra("planned_requests", plannedReq)
	r.Extra("variants_per_case", map[string]any{"native": c17NativeVariants, "openai": c17OpenAIVariants})
	cleanup()
	r.Finish()
}

// c17Bench: developer aid (VERIF_C17_BENCH=<family index>): time the first 300 scripts of one item.
func c17Bench() {
	fi, _ := strconv.Atoi(os.Getenv("VERIF_C17_BENCH"))
	base := fmt.Sprintf("/dev/shm/verif-c17-%d", os.Getpid())
	os.Setenv("VERIF_C17_DIR", base)
	defer os.RemoveAll(base)
	e := c17GetEnv()
	f, o := c17Families()[fi], c17Outputs[8]
	sub := evid.Start("C17", "exploration")
	if pf := os.Getenv("VERIF_C17_PROF"); pf != "" {
		fh, _ := os.Create(pf)
		pprof.StartCPUProfile(fh)
		defer pprof.StopCPUProfile()
	}
	t0 := time.Now()
	n := 0
	c17Scripts(o, 2, false, func(idx int64, s c17Script) bool {
		c17RunCase(e, f, o, s, sub)
		n++
		return n < 300
	})
	d := time.Since(t0)
	fmt.Printf("family %s: %d scripts, %d requests, %v, %.0f us/request\n", f, n, sub.Count("evaluations"), d, float64(d.Microseconds())/float64(sub.Count("evaluations")))
	pprof.StopCPUProfile()
	os.RemoveAll(base)
	os.Exit(0)
}
