package server

// Plain `go test` reproductions of the C17 findings, written against the test-suite's own
// scaffolding (mockRunner, createBinFile, createRequest). Not part of the harness build.
//
//	cd /repo && printf '{"Replace":{"%s/server/zz_c17_repro_test.go":"/verif/harness/C17/repro/c17_repro_test.go"}}' "$PWD" > /dev/shm/c17-ov.json
//	GOFLAGS=-mod=mod GOPROXY=off go test -overlay /dev/shm/c17-ov.json -vet=off -run 'TestC17Repro' -v ./server/
//
// Every test FAILS on the unpatched tree and passes with harness/C17/patches/*.diff applied.

import (
	"bytes"
	"context"
	"encoding/json"
	"errors"
	"io"
	"net/http"
	"net/http/httptest"
	"strings"
	"testing"
	"time"

	"github.com/ollama/ollama/api"
	"github.com/ollama/ollama/discover"
	"github.com/ollama/ollama/fs/ggml"
	"github.com/ollama/ollama/llm"
)

func c17ReproServer(t *testing.T, mock *mockRunner) (*Server, http.Handler) {
	t.Helper()
	s := &Server{
		sched: &Scheduler{
			pendingReqCh:  make(chan *LlmRequest, 1),
			finishedReqCh: make(chan *LlmRequest, 1),
			expiredCh:     make(chan *runnerRef, 1),
			unloadedCh:    make(chan any, 1),
			loaded:        make(map[string]*runnerRef),
			newServerFn:   newMockServer(mock),
			getGpuFn:      discover.GetGPUInfo,
			getCpuFn:      discover.GetCPUInfo,
			reschedDelay:  250 * time.Millisecond,
			loadFn: func(req *LlmRequest, _ *ggml.GGML, _ discover.GpuInfoList, _ int) {
				req.successCh <- &runnerRef{llama: mock}
			},
		},
	}
	go s.sched.Run(context.TODO())
	_, digest := createBinFile(t, ggml.KV{
		"general.architecture":          "llama",
		"llama.block_count":             uint32(1),
		"llama.context_length":          uint32(8192),
		"llama.embedding_length":        uint32(4096),
		"llama.attention.head_count":    uint32(32),
		"llama.attention.head_count_kv": uint32(8),
		"tokenizer.ggml.tokens":         []string{""},
		"tokenizer.ggml.scores":         []float32{0},
		"tokenizer.ggml.token_type":     []int32{0},
	}, []ggml.Tensor{
		{Name: "token_embd.weight", Shape: []uint64{1}, WriterTo: bytes.NewReader(make([]byte, 4))},
		{Name: "output.weight", Shape: []uint64{1}, WriterTo: bytes.NewReader(make([]byte, 4))},
	})
	w := createRequest(t, s.CreateHandler, api.CreateRequest{
		Model: "test",
		Files: map[string]string{"file.gguf": digest},
		Template: `
{{- if .Tools }}
{{ .Tools }}
{{ end }}
{{- range .Messages }}
{{- .Role }}: {{ .Content }}
{{- range .ToolCalls }}{"name": "{{ .Function.Name }}", "arguments": {{ .Function.Arguments }}}
{{- end }}
{{ end }}`,
		Stream: &stream,
	})
	if w.Code != http.StatusOK {
		t.Fatalf("create: %d %s", w.Code, w.Body)
	}
	h, err := s.GenerateRoutes(nil)
	if err != nil {
		t.Fatal(err)
	}
	return s, h
}

func c17Chunks(chunks ...llm.CompletionResponse) func(context.Context, llm.CompletionRequest, func(llm.CompletionResponse)) error {
	return func(_ context.Context, _ llm.CompletionRequest, fn func(llm.CompletionResponse)) error {
		for _, c := range chunks {
			fn(c)
		}
		return nil
	}
}

var c17ReproTools = []api.Tool{{Type: "function", Function: api.ToolFunction{Name: "g", Description: "g"}}}

func c17ChatToolNames(t *testing.T, s *Server, streaming bool) (names []string, content string) {
	t.Helper()
	w := createRequest(t, s.ChatHandler, api.ChatRequest{
		Model:    "test",
		Messages: []api.Message{{Role: "user", Content: "hi"}},
		Tools:    c17ReproTools,
		Stream:   &streaming,
	})
	if w.Code != http.StatusOK {
		t.Fatalf("status %d: %s", w.Code, w.Body)
	}
	dec := json.NewDecoder(w.Body)
	for {
		var r api.ChatResponse
		if err := dec.Decode(&r); err == io.EOF {
			break
		} else if err != nil {
			t.Fatal(err)
		}
		content += r.Message.Content
		for _, tc := range r.Message.ToolCalls {
			names = append(names, tc.Function.Name)
		}
	}
	return names, content
}

// Finding 1: C17/split-dependence/chat-tools/native-stream/toolcall-lost
func TestC17ReproSecondToolCallLost(t *testing.T) {
	mock := &mockRunner{}
	s, _ := c17ReproServer(t, mock)
	// the model emits two tool calls; the first runner chunk ends inside the second one
	mock.CompletionFn = c17Chunks(
		llm.CompletionResponse{Content: `{"name":"g","arguments":{}}` + "\n" + `{`},
		llm.CompletionResponse{Content: `"name":"h","arguments":{}}`},
		llm.CompletionResponse{Done: true, DoneReason: llm.DoneReasonStop, PromptEvalCount: 1, EvalCount: 2},
	)
	nonStream, _ := c17ChatToolNames(t, s, false)
	streamed, _ := c17ChatToolNames(t, s, true)
	if strings.Join(nonStream, ",") != "g,h" {
		t.Fatalf("non-streamed tool calls = %v, want [g h]", nonStream)
	}
	if strings.Join(streamed, ",") != strings.Join(nonStream, ",") {
		t.Errorf("streamed tool calls = %v, non-streamed = %v", streamed, nonStream)
	}
}

// Finding 2: C17/split-dependence/chat-tools/native-stream/content-leak-with-toolcall
func TestC17ReproContentLeakAfterToolCall(t *testing.T) {
	mock := &mockRunner{}
	s, _ := c17ReproServer(t, mock)
	mock.CompletionFn = c17Chunks(
		llm.CompletionResponse{Content: `{"name":"g","arguments":{}}`},
		llm.CompletionResponse{Content: ` ok`, Done: true, DoneReason: llm.DoneReasonStop, PromptEvalCount: 1, EvalCount: 2},
	)
	_, nonStream := c17ChatToolNames(t, s, false)
	_, streamed := c17ChatToolNames(t, s, true)
	if streamed != nonStream {
		t.Errorf("streamed content = %q, non-streamed content = %q", streamed, nonStream)
	}
}

func c17SSE(t *testing.T, h http.Handler, path, body string) string {
	t.Helper()
	srv := httptest.NewServer(h)
	defer srv.Close()
	resp, err := http.Post(srv.URL+path, "application/json", strings.NewReader(body))
	if err != nil {
		t.Fatal(err)
	}
	defer resp.Body.Close()
	b, _ := io.ReadAll(resp.Body)
	return string(b)
}

// Finding 3: C17/openai-vs-native/chat-tools/openai-stream/finish-reason/done_reason-instead-of-tool_calls
func TestC17ReproOpenAIStreamFinishReason(t *testing.T) {
	mock := &mockRunner{}
	_, h := c17ReproServer(t, mock)
	mock.CompletionFn = c17Chunks(
		llm.CompletionResponse{Content: `{"name":"g","arguments":{}}`, Done: true, DoneReason: llm.DoneReasonStop, PromptEvalCount: 1, EvalCount: 2},
	)
	req := `{"model":"test","messages":[{"role":"user","content":"hi"}],"tools":[{"type":"function","function":{"name":"g","description":"g","parameters":{"type":"object","required":[],"properties":{}}}}],"stream":%v}`
	nonStream := c17SSE(t, h, "/v1/chat/completions", strings.Replace(req, "%v", "false", 1))
	streamed := c17SSE(t, h, "/v1/chat/completions", strings.Replace(req, "%v", "true", 1))
	if !strings.Contains(nonStream, `"finish_reason":"tool_calls"`) {
		t.Fatalf("non-streamed: %s", nonStream)
	}
	if !strings.Contains(streamed, `"finish_reason":"tool_calls"`) {
		t.Errorf("streamed response never reports finish_reason tool_calls:\n%s", streamed)
	}
}

// Findings 4+5: C17/stream-end/{chat,generate}/openai-stream/none-on-runner-error
func TestC17ReproOpenAIStreamSwallowsRunnerError(t *testing.T) {
	mock := &mockRunner{}
	_, h := c17ReproServer(t, mock)
	mock.CompletionFn = func(_ context.Context, _ llm.CompletionRequest, fn func(llm.CompletionResponse)) error {
		fn(llm.CompletionResponse{Content: "Hel"})
		return errors.New("runner crashed")
	}
	for path, body := range map[string]string{
		"/v1/chat/completions": `{"model":"test","messages":[{"role":"user","content":"hi"}],"stream":true}`,
		"/v1/completions":      `{"model":"test","prompt":"hi","stream":true}`,
	} {
		out := c17SSE(t, h, path, body)
		if !strings.Contains(out, "runner crashed") && !strings.Contains(out, "[DONE]") {
			t.Errorf("%s: the stream ends with neither an error nor [DONE]:\n%s", path, out)
		}
	}
}
