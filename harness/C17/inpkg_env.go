package server

// C17 harness, part 1: the in-process server under test.
//
// One real Server with a real Scheduler (InitScheduler + the real load path), the
// real gin router from GenerateRoutes, two tiny GGUF models created through the real
// create handler inside a private OLLAMA_MODELS directory, and a scripted
// llm.LlamaServer whose Completion replays one chosen chunking of one chosen model
// output, synchronously, chunk by chunk.

import (
	"bytes"
	"context"
	"encoding/json"
	"errors"
	"fmt"
	"io"
	"net/http"
	"net/http/httptest"
	"net/url"
	"os"
	"path/filepath"
	"strings"

	"github.com/gin-gonic/gin"

	"github.com/ollama/ollama/api"
	"github.com/ollama/ollama/discover"
	"github.com/ollama/ollama/fs/ggml"
	"github.com/ollama/ollama/llm"
)

// ---- case description -------------------------------------------------------

type c17Output struct {
	Name   string `json:"name"`
	Text   string `json:"text"`
	Reason string `json:"reason"` // stop | length
	Prompt int    `json:"prompt_tokens"`
	Eval   int    `json:"eval_tokens"`
}

type c17Family struct {
	Kind   string `json:"kind"` // generate | chat
	Tools  bool   `json:"tools,omitempty"`
	Format string `json:"format,omitempty"` // "" | json
	Raw    bool   `json:"raw,omitempty"`
	Stop   bool   `json:"stop,omitempty"`
}

func (f c17Family) String() string {
	s := f.Kind
	if f.Tools {
		s += "+tools"
	}
	if f.Raw {
		s += "+raw"
	}
	if f.Format != "" {
		s += "+format=" + f.Format
	}
	if f.Stop {
		s += "+stop"
	}
	return s
}

// class used in violation signatures: only the dimensions the handlers branch on
func (f c17Family) class() string {
	s := f.Kind
	if f.Tools {
		s += "-tools"
	}
	if f.Raw {
		s += "-raw"
	}
	return s
}

// c17Script says how the runner delivers the output.
//
// Complete script (Fail=false): Cuts are rune offsets 0<c1<..<ck<L; the output is
// delivered as k+1 pieces. With DoneContent the last piece travels inside the final
// Done callback, otherwise every piece is a content-only callback and the Done
// callback is empty (what the bundled runner does).
//
// Failing script (Fail=true): Cuts are rune offsets 0<c1<..<ck<=L; the k pieces
// [0,c1) .. [c(k-1),ck) are delivered, then Completion returns an error (no Done).
type c17Script struct {
	Cuts        []int `json:"cuts"`
	DoneContent bool  `json:"done_content,omitempty"`
	Fail        bool  `json:"fail,omitempty"`
	// NoDone (with Fail): Completion returns nil instead of an error, still without a Done callback - what
	// llm's Completion does when the runner's stream ends without a final event or the token-repeat limit aborts it
	NoDone bool `json:"no_done,omitempty"`
}

type c17Case struct {
	Family c17Family `json:"family"`
	Output c17Output `json:"output"`
	Script c17Script `json:"script"`
	Sig    string    `json:"signature,omitempty"`
}

func c17Callbacks(o c17Output, s c17Script) ([]llm.CompletionResponse, error) {
	runes := []rune(o.Text)
	L := len(runes)
	prev := 0
	var pieces []string
	for _, c := range s.Cuts {
		if c <= prev || c > L || (!s.Fail && c >= L) {
			return nil, fmt.Errorf("bad cuts %v for output of %d runes (fail=%v)", s.Cuts, L, s.Fail)
		}
		pieces = append(pieces, string(runes[prev:c]))
		prev = c
	}
	if s.Fail {
		var cbs []llm.CompletionResponse
		for _, p := range pieces {
			cbs = append(cbs, llm.CompletionResponse{Content: p})
		}
		return cbs, nil
	}
	if L > 0 {
		pieces = append(pieces, string(runes[prev:]))
	}
	done := llm.CompletionResponse{Done: true, PromptEvalCount: o.Prompt, EvalCount: o.Eval,
		PromptEvalDuration: 3, EvalDuration: 5}
	switch o.Reason {
	case "stop":
		done.DoneReason = llm.DoneReasonStop
	case "length":
		done.DoneReason = llm.DoneReasonLength
	default:
		return nil, fmt.Errorf("bad done reason %q", o.Reason)
	}
	if s.DoneContent {
		if len(pieces) == 0 {
			return nil, errors.New("done_content with empty output")
		}
		done.Content = pieces[len(pieces)-1]
		pieces = pieces[:len(pieces)-1]
	}
	var cbs []llm.CompletionResponse
	for _, p := range pieces {
		cbs = append(cbs, llm.CompletionResponse{Content: p})
	}
	return append(cbs, done), nil
}

// ---- scripted runner ---------------------------------------------------------

const c17RunnerError = "c17: runner failed"

type c17Runner struct {
	cbs    []llm.CompletionResponse
	fail   bool
	nodone bool
	calls  int
	// what the runner was asked (for the distinct-request statistics only)
	lastPrompt string
	lastFormat string
	lastStop   []string
}

func (m *c17Runner) Ping(ctx context.Context) error             { return nil }
func (m *c17Runner) WaitUntilRunning(ctx context.Context) error { return nil }
func (m *c17Runner) Completion(ctx context.Context, req llm.CompletionRequest, fn func(llm.CompletionResponse)) error {
	m.calls++
	m.lastPrompt = req.Prompt
	m.lastFormat = string(req.Format)
	m.lastStop = nil
	if req.Options != nil {
		m.lastStop = append([]string{}, req.Options.Stop...)
	}
	for _, cb := range m.cbs {
		fn(cb)
	}
	if m.fail {
		if m.nodone {
			return nil
		}
		return errors.New(c17RunnerError)
	}
	return nil
}
func (m *c17Runner) Embedding(ctx context.Context, input string) ([]float32, error) {
	return nil, errors.New("c17: no embeddings")
}
func (m *c17Runner) Tokenize(ctx context.Context, s string) (tokens []int, err error) {
	for range strings.Fields(s) {
		tokens = append(tokens, len(tokens))
	}
	return
}
func (m *c17Runner) Detokenize(ctx context.Context, tokens []int) (string, error) { return "", nil }
func (m *c17Runner) Close() error                                                 { return nil }
func (m *c17Runner) EstimatedVRAM() uint64                                        { return 0 }
func (m *c17Runner) EstimatedTotal() uint64                                       { return 0 }
func (m *c17Runner) EstimatedVRAMByGPU(gpuID string) uint64                       { return 0 }

// ---- response recorder ----------------------------------------------------------

type c17Rec struct {
	hdr    http.Header
	status int
	body   bytes.Buffer
	gone   chan bool
}

func c17NewRec() *c17Rec { return &c17Rec{hdr: http.Header{}, gone: make(chan bool)} }

func (r *c17Rec) Header() http.Header { return r.hdr }
func (r *c17Rec) WriteHeader(code int) {
	if r.status == 0 {
		r.status = code
	}
}
func (r *c17Rec) Write(p []byte) (int, error) {
	if r.status == 0 {
		r.status = http.StatusOK
	}
	return r.body.Write(p)
}
func (r *c17Rec) Flush() {
	if r.status == 0 {
		r.status = http.StatusOK
	}
}
func (r *c17Rec) CloseNotify() <-chan bool { return r.gone }

// ---- environment -------------------------------------------------------------------

const (
	c17GenModel  = "c17gen"
	c17ChatModel = "c17chat"
	c17StopWord  = "<|c17stop|>"
)

const c17ChatTemplate = `
{{- if .Tools }}
{{ .Tools }}
{{ end }}
{{- range .Messages }}
{{- .Role }}: {{ .Content }}
{{- range .ToolCalls }}{"name": "{{ .Function.Name }}", "arguments": {{ .Function.Arguments }}}
{{- end }}
{{ end }}`

const c17GenTemplate = `{{ if .System }}{{ .System }} {{ end }}{{ .Prompt }}`

type c17Env struct {
	dir     string
	handler http.Handler
	runner  *c17Runner
	client  *api.Client
	cancel  context.CancelFunc
	reqSeen map[string]bool
}

// serve runs one request through the real router, like net/http would: the request
// context is cancelled when the handler returns (the scheduler releases the runner on that).
func (e *c17Env) serve(req *http.Request) *c17Rec {
	ctx, cancel := context.WithCancel(req.Context())
	defer cancel()
	rec := c17NewRec()
	e.handler.ServeHTTP(rec, req.WithContext(ctx))
	if rec.status == 0 {
		rec.status = http.StatusOK
	}
	return rec
}

func (e *c17Env) post(path string, body []byte) *c17Rec {
	req := httptest.NewRequest(http.MethodPost, path, bytes.NewReader(body))
	req.Header.Set("Content-Type", "application/json")
	return e.serve(req)
}

// RoundTrip lets the real api.Client talk to the in-process router.
func (e *c17Env) RoundTrip(req *http.Request) (*http.Response, error) {
	rec := e.serve(req)
	return &http.Response{
		StatusCode: rec.status, Status: fmt.Sprintf("%d %s", rec.status, http.StatusText(rec.status)),
		Proto: "HTTP/1.1", ProtoMajor: 1, ProtoMinor: 1,
		Header: rec.hdr, Body: io.NopCloser(bytes.NewReader(rec.body.Bytes())),
		ContentLength: int64(rec.body.Len()), Request: req,
	}, nil
}

func c17NewEnv(dir string) (*c17Env, error) {
	models := filepath.Join(dir, "models")
	if err := os.MkdirAll(models, 0o755); err != nil {
		return nil, err
	}
	os.Setenv("OLLAMA_MODELS", models)
	os.Setenv("HOME", dir)
	gin.SetMode(gin.ReleaseMode)
	gin.DefaultWriter = io.Discard
	gin.DefaultErrorWriter = io.Discard

	runner := &c17Runner{}
	ctx, cancel := context.WithCancel(context.Background())
	sched := InitScheduler(ctx)
	sched.newServerFn = func(_ discover.GpuInfoList, _ string, _ *ggml.GGML, _, _ []string, _ api.Options, _ int) (llm.LlamaServer, error) {
		return runner, nil
	}
	cpu := func() discover.GpuInfoList {
		g := discover.GpuInfo{Library: "cpu", ID: "0"}
		g.TotalMemory = 64 << 30
		g.FreeMemory = 48 << 30
		return discover.GpuInfoList{g}
	}
	sched.getGpuFn = cpu
	sched.getCpuFn = cpu
	sched.Run(ctx)

	s := &Server{sched: sched}
	h, err := s.GenerateRoutes(nil)
	if err != nil {
		cancel()
		return nil, err
	}
	e := &c17Env{dir: dir, handler: h, runner: runner, cancel: cancel}
	base, _ := url.Parse("http://c17.invalid")
	e.client = api.NewClient(base, &http.Client{Transport: e})

	digest, err := c17WriteBlob(dir, models)
	if err != nil {
		cancel()
		return nil, err
	}
	f := false
	for name, tmpl := range map[string]string{c17GenModel: c17GenTemplate, c17ChatModel: c17ChatTemplate} {
		body, _ := json.Marshal(api.CreateRequest{Model: name, Files: map[string]string{"file.gguf": digest}, Template: tmpl, Stream: &f})
		rec := e.post("/api/create", body)
		if rec.status != http.StatusOK {
			cancel()
			return nil, fmt.Errorf("create %s: status %d: %s", name, rec.status, rec.body.String())
		}
	}
	return e, nil
}

func c17WriteBlob(dir, models string) (string, error) {
	p := filepath.Join(dir, "c17.gguf")
	f, err := os.Create(p)
	if err != nil {
		return "", err
	}
	defer f.Close()
	t := func(name string) ggml.Tensor {
		return ggml.Tensor{Name: name, Shape: []uint64{1}, WriterTo: bytes.NewReader(make([]byte, 4))}
	}
	if err := ggml.WriteGGUF(f, ggml.KV{
		"general.architecture":          "llama",
		"llama.block_count":             uint32(1),
		"llama.context_length":          uint32(8192),
		"llama.embedding_length":        uint32(4096),
		"llama.attention.head_count":    uint32(32),
		"llama.attention.head_count_kv": uint32(8),
		"tokenizer.ggml.tokens":         []string{""},
		"tokenizer.ggml.scores":         []float32{0},
		"tokenizer.ggml.token_type":     []int32{0},
	}, []ggml.Tensor{
		t("token_embd.weight"), t("blk.0.attn_norm.weight"), t("blk.0.ffn_down.weight"), t("blk.0.ffn_gate.weight"),
		t("blk.0.ffn_up.weight"), t("blk.0.ffn_norm.weight"), t("blk.0.attn_k.weight"), t("blk.0.attn_output.weight"),
		t("blk.0.attn_q.weight"), t("blk.0.attn_v.weight"), t("output.weight"),
	}); err != nil {
		return "", err
	}
	if _, err := f.Seek(0, 0); err != nil {
		return "", err
	}
	digest, _ := GetSHA256Digest(f)
	if err := createLink(p, filepath.Join(models, "blobs", "sha256-"+strings.TrimPrefix(digest, "sha256:"))); err != nil {
		return "", err
	}
	return digest, nil
}

// ---- request shapes --------------------------------------------------------------------

const c17ToolJSON = `{"type":"function","function":{"name":"f","description":"look something up","parameters":{"type":"object","required":["a"],"properties":{"a":{"type":"integer","description":"a number"}}}}}`

const (
	c17GenPrompt  = "Why is the sky blue?"
	c17ChatPrompt = "What is the weather in Paris?"
)

// variants of one family; every one of them is sent for every runner script
var c17NativeVariants = []string{"native/nostream", "native/stream", "client/nostream", "client/stream"}
var c17OpenAIVariants = []string{"openai/nostream", "openai/stream", "openai/stream+usage"}

func c17HasOpenAI(f c17Family) bool {
	if f.Kind == "generate" {
		// /v1/completions has neither raw nor format
		return !f.Raw && f.Format == ""
	}
	return true
}

func c17Variants(f c17Family) []string {
	v := append([]string{}, c17NativeVariants...)
	if c17HasOpenAI(f) {
		v = append(v, c17OpenAIVariants...)
	}
	return v
}

// c17Body returns the endpoint path and JSON body of one variant.
func c17Body(f c17Family, variant string) (string, []byte) {
	stream := strings.Contains(variant, "/stream")
	m := map[string]any{}
	openai := strings.HasPrefix(variant, "openai/")
	var path string
	var tool any
	json.Unmarshal([]byte(c17ToolJSON), &tool)
	switch {
	case f.Kind == "generate" && !openai:
		path = "/api/generate"
		m["model"] = c17GenModel
		m["prompt"] = c17GenPrompt
		m["stream"] = stream
		if f.Raw {
			m["raw"] = true
		}
		if f.Format != "" {
			m["format"] = f.Format
		}
		if f.Stop {
			m["options"] = map[string]any{"stop": []string{c17StopWord}}
		}
	case f.Kind == "generate" && openai:
		path = "/v1/completions"
		m["model"] = c17GenModel
		m["prompt"] = c17GenPrompt
		m["stream"] = stream
		if f.Stop {
			m["stop"] = []string{c17StopWord}
		}
	case f.Kind == "chat" && !openai:
		path = "/api/chat"
		m["model"] = c17ChatModel
		m["messages"] = []map[string]any{{"role": "user", "content": c17ChatPrompt}}
		m["stream"] = stream
		if f.Tools {
			m["tools"] = []any{tool}
		}
		if f.Format != "" {
			m["format"] = f.Format
		}
		if f.Stop {
			m["options"] = map[string]any{"stop": []string{c17StopWord}}
		}
	default:
		path = "/v1/chat/completions"
		m["model"] = c17ChatModel
		m["messages"] = []map[string]any{{"role": "user", "content": c17ChatPrompt}}
		m["stream"] = stream
		if f.Tools {
			m["tools"] = []any{tool}
		}
		if f.Format == "json" {
			m["response_format"] = map[string]any{"type": "json_object"}
		}
		if f.Stop {
			m["stop"] = []string{c17StopWord}
		}
	}
	if openai && strings.HasSuffix(variant, "+usage") {
		m["stream_options"] = map[string]any{"include_usage": true}
	}
	b, _ := json.Marshal(m)
	return path, b
}
