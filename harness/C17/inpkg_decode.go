package server

// C17 harness, part 2: decoding of response bodies into a result tuple and a
// classification of how the response ended. The decoders use their own structs
// (not api.* / openai.*), so a change of the types under test cannot hide itself.

import (
	"context"
	"encoding/json"
	"fmt"
	"net/http"
	"strings"

	"github.com/ollama/ollama/api"
)

type c17TC struct {
	Name string `json:"name"`
	Args string `json:"args"` // canonical JSON
	// Index: the position the response states for the call (function.index / index; absent = 0)
	Index int `json:"index"`
}

type c17Tuple struct {
	Text      string  `json:"text"`
	Tools     []c17TC `json:"tools"`
	Finish    string  `json:"finish"` // all non-empty finish/done reasons seen, joined by ","
	Prompt    int     `json:"prompt"`
	Eval      int     `json:"eval"`
	HasCounts bool    `json:"has_counts"`
}

// End: how the response ended.
//
//	final      zero or more ordinary messages, then exactly one final message (done:true / [DONE]), nothing after
//	error      zero or more ordinary messages, then exactly one error, nothing after
//	none       neither a final message nor an error
//	both       at least one final message and at least one error
//	multi-final / multi-error   more than one of them
//	trailing   something follows the final message or the error
//	malformed  the body is not a sequence of well-formed messages
type c17Outcome struct {
	Status int      `json:"status"`
	End    string   `json:"end"`
	T      c17Tuple `json:"tuple"`
	Msgs   int      `json:"messages"`
	Err    string   `json:"error,omitempty"`
	Body   string   `json:"-"`
	Calls  int      `json:"runner_calls"`
	Note   string   `json:"note,omitempty"`
}

func c17Canon(raw json.RawMessage) string {
	if len(raw) == 0 {
		return ""
	}
	var v any
	if err := json.Unmarshal(raw, &v); err != nil {
		return "!" + string(raw)
	}
	// OpenAI carries arguments as a JSON string containing JSON
	if s, ok := v.(string); ok {
		var v2 any
		if err := json.Unmarshal([]byte(s), &v2); err != nil {
			return "!" + s
		}
		v = v2
	}
	b, _ := json.Marshal(v)
	return string(b)
}

func c17EndOf(kinds []byte) string {
	nf, ne := 0, 0
	for _, k := range kinds {
		switch k {
		case 'F':
			nf++
		case 'E':
			ne++
		case 'X':
			return "malformed"
		}
	}
	switch {
	case nf == 0 && ne == 0:
		return "none"
	case nf > 0 && ne > 0:
		return "both"
	case nf > 1:
		return "multi-final"
	case ne > 1:
		return "multi-error"
	case kinds[len(kinds)-1] == 'M':
		return "trailing"
	case nf == 1:
		return "final"
	}
	return "error"
}

type c17NativeMsg struct {
	Error      json.RawMessage `json:"error"`
	Done       bool            `json:"done"`
	DoneReason string          `json:"done_reason"`
	Response   string          `json:"response"`
	Message    *struct {
		Content   string `json:"content"`
		ToolCalls []struct {
			Function struct {
				Index     int             `json:"index"`
				Name      string          `json:"name"`
				Arguments json.RawMessage `json:"arguments"`
			} `json:"function"`
		} `json:"tool_calls"`
	} `json:"message"`
	PromptEvalCount int `json:"prompt_eval_count"`
	EvalCount       int `json:"eval_count"`
}

func c17IsErr(raw json.RawMessage) bool { return len(raw) > 0 && string(raw) != "null" }

func c17ErrText(raw json.RawMessage) string {
	var s string
	if json.Unmarshal(raw, &s) == nil {
		return s
	}
	var o struct {
		Message string `json:"message"`
	}
	if json.Unmarshal(raw, &o) == nil && o.Message != "" {
		return o.Message
	}
	return string(raw)
}

// c17DecodeNative decodes an /api/generate or /api/chat body (one JSON value, or NDJSON).
func c17DecodeNative(status int, body string, stream bool) c17Outcome {
	o := c17Outcome{Status: status, Body: body}
	var lines []string
	if stream && status == http.StatusOK {
		if body != "" && !strings.HasSuffix(body, "\n") {
			o.End = "malformed"
			o.Note = "NDJSON body does not end with a newline"
			return o
		}
		if body != "" {
			lines = strings.Split(strings.TrimSuffix(body, "\n"), "\n")
		}
	} else {
		lines = []string{body}
	}
	var kinds []byte
	var reasons []string
	for _, ln := range lines {
		var m c17NativeMsg
		if err := json.Unmarshal([]byte(ln), &m); err != nil {
			kinds = append(kinds, 'X')
			o.Note = "bad JSON message: " + err.Error()
			continue
		}
		o.Msgs++
		switch {
		case c17IsErr(m.Error):
			kinds = append(kinds, 'E')
			o.Err = c17ErrText(m.Error)
			continue
		case m.Done:
			kinds = append(kinds, 'F')
			o.T.Prompt, o.T.Eval, o.T.HasCounts = m.PromptEvalCount, m.EvalCount, true
		default:
			kinds = append(kinds, 'M')
		}
		o.T.Text += m.Response
		if m.Message != nil {
			o.T.Text += m.Message.Content
			for _, tc := range m.Message.ToolCalls {
				o.T.Tools = append(o.T.Tools, c17TC{tc.Function.Name, c17Canon(tc.Function.Arguments), tc.Function.Index})
			}
		}
		if m.DoneReason != "" {
			reasons = append(reasons, m.DoneReason)
		}
	}
	o.T.Finish = strings.Join(reasons, ",")
	o.End = c17EndOf(kinds)
	if status != http.StatusOK && o.End == "final" {
		o.End = "malformed"
		o.Note = fmt.Sprintf("final message with HTTP status %d", status)
	}
	return o
}

type c17OAIMsg struct {
	Error   json.RawMessage `json:"error"`
	Object  string          `json:"object"`
	Choices []struct {
		Text    *string      `json:"text"`
		Message *c17OAIDelta `json:"message"`
		Delta   *c17OAIDelta `json:"delta"`
		Finish  *string      `json:"finish_reason"`
	} `json:"choices"`
	Usage *struct {
		PromptTokens     int `json:"prompt_tokens"`
		CompletionTokens int `json:"completion_tokens"`
		TotalTokens      int `json:"total_tokens"`
	} `json:"usage"`
}

type c17OAIDelta struct {
	Content   *string `json:"content"`
	ToolCalls []struct {
		Index    int `json:"index"`
		Function struct {
			Name      string          `json:"name"`
			Arguments json.RawMessage `json:"arguments"`
		} `json:"function"`
	} `json:"tool_calls"`
}

// c17DecodeOpenAI decodes a /v1/completions or /v1/chat/completions body (one JSON value, or SSE).
func c17DecodeOpenAI(status int, body string, stream bool) c17Outcome {
	o := c17Outcome{Status: status, Body: body}
	var payloads []string
	sse := stream && status == http.StatusOK && (body == "" || strings.HasPrefix(body, "data: "))
	if sse {
		if body != "" && !strings.HasSuffix(body, "\n\n") {
			o.End = "malformed"
			o.Note = "SSE body does not end with a blank line"
			return o
		}
		if body != "" {
			for _, ev := range strings.Split(strings.TrimSuffix(body, "\n\n"), "\n\n") {
				p, ok := strings.CutPrefix(ev, "data: ")
				if !ok {
					o.End = "malformed"
					o.Note = "SSE event without data: prefix"
					return o
				}
				payloads = append(payloads, p)
			}
		}
	} else {
		payloads = []string{body}
	}
	var kinds []byte
	var reasons []string
	for _, p := range payloads {
		if sse && p == "[DONE]" {
			kinds = append(kinds, 'F')
			o.Msgs++
			continue
		}
		var m c17OAIMsg
		if err := json.Unmarshal([]byte(p), &m); err != nil {
			kinds = append(kinds, 'X')
			o.Note = "bad JSON message: " + err.Error()
			continue
		}
		o.Msgs++
		if c17IsErr(m.Error) {
			kinds = append(kinds, 'E')
			o.Err = c17ErrText(m.Error)
			continue
		}
		if sse {
			kinds = append(kinds, 'M')
		} else {
			// a non-streamed completion object is the one final message
			kinds = append(kinds, 'F')
		}
		for _, ch := range m.Choices {
			if ch.Text != nil {
				o.T.Text += *ch.Text
			}
			for _, d := range []*c17OAIDelta{ch.Message, ch.Delta} {
				if d == nil {
					continue
				}
				if d.Content != nil {
					o.T.Text += *d.Content
				}
				for _, tc := range d.ToolCalls {
					o.T.Tools = append(o.T.Tools, c17TC{tc.Function.Name, c17Canon(tc.Function.Arguments), tc.Index})
				}
			}
			if ch.Finish != nil && *ch.Finish != "" {
				reasons = append(reasons, *ch.Finish)
			}
		}
		if m.Usage != nil {
			if !sse || len(m.Choices) == 0 {
				// streamed: the usage message is the one with no choices
				o.T.Prompt, o.T.Eval, o.T.HasCounts = m.Usage.PromptTokens, m.Usage.CompletionTokens, true
				if m.Usage.TotalTokens != m.Usage.PromptTokens+m.Usage.CompletionTokens {
					o.Note = "usage.total_tokens is not the sum"
				}
			}
		}
	}
	o.T.Finish = strings.Join(reasons, ",")
	o.End = c17EndOf(kinds)
	if status != http.StatusOK && o.End == "final" {
		o.End = "malformed"
		o.Note = fmt.Sprintf("final message with HTTP status %d", status)
	}
	return o
}

// ---- through the real api.Client -----------------------------------------------------

func c17ClientTuple(kinds *[]byte, o *c17Outcome, reasons *[]string, done bool, reason, text string, tcs []api.ToolCall, m api.Metrics) {
	o.Msgs++
	if done {
		*kinds = append(*kinds, 'F')
		o.T.Prompt, o.T.Eval, o.T.HasCounts = m.PromptEvalCount, m.EvalCount, true
	} else {
		*kinds = append(*kinds, 'M')
	}
	o.T.Text += text
	for _, tc := range tcs {
		b, _ := json.Marshal(tc.Function.Arguments)
		o.T.Tools = append(o.T.Tools, c17TC{tc.Function.Name, c17Canon(b), tc.Function.Index})
	}
	if reason != "" {
		*reasons = append(*reasons, reason)
	}
}

func c17RunClient(e *c17Env, f c17Family, body []byte, stream bool) c17Outcome {
	var o c17Outcome
	var kinds []byte
	var reasons []string
	var err error
	ctx := context.Background()
	if f.Kind == "generate" {
		var req api.GenerateRequest
		if uerr := json.Unmarshal(body, &req); uerr != nil {
			o.End, o.Note = "malformed", "harness request: "+uerr.Error()
			return o
		}
		if stream {
			req.Stream = nil // default is streaming
		}
		err = e.client.Generate(ctx, &req, func(r api.GenerateResponse) error {
			c17ClientTuple(&kinds, &o, &reasons, r.Done, r.DoneReason, r.Response, nil, r.Metrics)
			return nil
		})
	} else {
		var req api.ChatRequest
		if uerr := json.Unmarshal(body, &req); uerr != nil {
			o.End, o.Note = "malformed", "harness request: "+uerr.Error()
			return o
		}
		if stream {
			req.Stream = nil
		}
		err = e.client.Chat(ctx, &req, func(r api.ChatResponse) error {
			c17ClientTuple(&kinds, &o, &reasons, r.Done, r.DoneReason, r.Message.Content, r.Message.ToolCalls, r.Metrics)
			return nil
		})
	}
	if err != nil {
		kinds = append(kinds, 'E')
		o.Err = err.Error()
	}
	o.T.Finish = strings.Join(reasons, ",")
	o.End = c17EndOf(kinds)
	return o
}
