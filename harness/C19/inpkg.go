package server

// C19 harness: exhaustive bounded enumeration of
//
//	conversations (role x length x images x "[img]" placeholder per message)
//	  x context lengths (every boundary of the closed-form token cost, -1/0/+1)
//	  x template styles (legacy .System/.Prompt/.Response, range .Messages, .System + range .Messages)
//	  x model kinds (no projector, clip projector = 768 tokens per image, mllama family without projector)
//
// through the real chatPrompt with a tokenizer that counts the capital letters
// A-Z. Message j consists of the letter 'A'+j repeated len_j times and the
// templates contain no capital letters, so the token count of any candidate
// retention is a closed form that does not depend on the template code, and the
// prompt can be taken apart again letter by letter.

import (
	"context"
	"encoding/json"
	"fmt"
	"os"
	"runtime/debug"
	"runtime/pprof"
	"sort"
	"strconv"
	"strings"
	"sync"
	"time"

	"github.com/ollama/ollama/api"
	"github.com/ollama/ollama/llm"
	"github.com/ollama/ollama/template"
	"github.com/ollama/ollama/zzverif/evid"
)

type c19Msg struct {
	Role string `json:"role"`
	Len  int    `json:"len"`
	Imgs int    `json:"imgs,omitempty"`
	PH   int    `json:"ph,omitempty"` // 1: the content carries one "[img]" placeholder after its first letter
}

type c19Case struct {
	Msgs  []c19Msg `json:"msgs"`
	Ctx   int      `json:"ctx"`
	Tmpl  string   `json:"tmpl"`
	Model string   `json:"model"`
}

// ---- fixed ingredients -------------------------------------------------------

var c19TmplNames = []string{"legacy", "messages", "messages+system"}

// no capital letters in any template text
var c19TmplSrc = map[string]string{
	// what the repository's own prompt tests use (the legacy variables), with markers
	"legacy": `{{ if .System }}<s>{{ .System }}</s>{{ end }}{{ if .Prompt }}<u>{{ .Prompt }}</u>{{ end }}{{ if .Response }}<a>{{ .Response }}</a>{{ end }}`,
	// chatml style: every role printed in place
	"messages": `{{ range .Messages }}<{{ .Role }}>{{ .Content }}</{{ .Role }}>{{ end }}<assistant>`,
	// llama3 style: system text hoisted through .System, the loop prints user/assistant only
	"messages+system": `{{ if .System }}<s>{{ .System }}</s>{{ end }}{{ range .Messages }}{{ if eq .Role "user" }}<u>{{ .Content }}</u>{{ else if eq .Role "assistant" }}<a>{{ .Content }}</a>{{ end }}{{ end }}<a>`,
}

var c19ModelNames = []string{"noproj", "clip", "mllama-noproj"}

func c19ImageCost(model string) int {
	if model == "clip" {
		return 768
	}
	return 0 // chatPrompt charges images only when the model has projector files
}

func c19Content(j int, m c19Msg) string {
	l := string(rune('A' + j))
	if m.PH > 0 {
		return l + "[img]" + strings.Repeat(l, m.Len-1)
	}
	return strings.Repeat(l, m.Len)
}

func c19ImageBytes(j, k int) []byte {
	return []byte{'i', 'm', 'g', ':', byte('0' + j), ':', byte('0' + k)}
}

func c19ImageID(b []byte) (j, k int, ok bool) {
	if len(b) != 7 || string(b[:4]) != "img:" || b[5] != ':' {
		return 0, 0, false
	}
	return int(b[4] - '0'), int(b[6] - '0'), true
}

func c19Tokenize(_ context.Context, s string) ([]int, error) {
	n := 0
	for i := 0; i < len(s); i++ {
		if s[i] >= 'A' && s[i] <= 'Z' {
			n++
		}
	}
	return make([]int, n), nil
}

type c19Env struct{ models map[string]*Model }

func c19NewEnv() *c19Env {
	e := &c19Env{models: map[string]*Model{}}
	for _, tn := range c19TmplNames {
		for _, mn := range c19ModelNames {
			t, err := template.Parse(c19TmplSrc[tn])
			if err != nil {
				fmt.Fprintln(os.Stderr, "C19: template does not parse:", tn, err)
				os.Exit(2)
			}
			m := &Model{Template: t}
			switch mn {
			case "clip":
				m.ProjectorPaths = []string{"vision"}
			case "mllama-noproj":
				m.Config = ConfigV2{ModelFamilies: []string{"mllama"}}
			}
			e.models[tn+"/"+mn] = m
		}
	}
	return e
}

// ---- reference (closed form) ---------------------------------------------------

type c19Exp struct {
	cost   []int  // cost[i]: tokens of "system messages before i + messages i.." incl. image tokens of messages i..
	nExp   int    // first index of the run that must be retained
	regime string // all-fit | truncated | overflow (the latest message alone, with its system messages, exceeds ctx)
	kept   []bool
}

func c19Costs(msgs []c19Msg, model string) []int {
	m := len(msgs)
	cost := make([]int, m)
	ic := c19ImageCost(model)
	sysBefore := 0
	total := 0
	for _, x := range msgs {
		total += x.Len + ic*x.Imgs
	}
	// cost[i] = sysBefore(i) + sum_{j>=i}
	run := total
	for i := 0; i < m; i++ {
		cost[i] = sysBefore + run
		run -= msgs[i].Len + ic*msgs[i].Imgs
		if msgs[i].Role == "system" {
			sysBefore += msgs[i].Len
		}
	}
	return cost
}

func c19Expect(c *c19Case) c19Exp {
	m := len(c.Msgs)
	e := c19Exp{cost: c19Costs(c.Msgs, c.Model), kept: make([]bool, m)}
	e.nExp = m - 1
	for i := m - 2; i >= 0; i-- {
		if e.cost[i] <= c.Ctx {
			e.nExp = i
		} else {
			break
		}
	}
	switch {
	case e.cost[m-1] > c.Ctx:
		e.regime = "overflow"
	case e.nExp == 0:
		e.regime = "all-fit"
	default:
		e.regime = "truncated"
	}
	for j := range c.Msgs {
		e.kept[j] = j >= e.nExp || c.Msgs[j].Role == "system"
	}
	return e
}

// ---- one execution of the real code ---------------------------------------------

type c19Obs struct {
	prompt string
	images []llm.ImageData
	err    error
	panic  any
}

func c19Call(env *c19Env, c *c19Case) (o c19Obs) {
	defer func() {
		if r := recover(); r != nil {
			o.panic = r
		}
	}()
	msgs := make([]api.Message, len(c.Msgs))
	for j, x := range c.Msgs {
		msgs[j] = api.Message{Role: x.Role, Content: c19Content(j, x)}
		for k := 0; k < x.Imgs; k++ {
			msgs[j].Images = append(msgs[j].Images, api.ImageData(c19ImageBytes(j, k)))
		}
	}
	model := env.models[c.Tmpl+"/"+c.Model]
	if model == nil {
		o.err = fmt.Errorf("harness: unknown template/model %q/%q", c.Tmpl, c.Model)
		return o
	}
	opts := api.Options{Runner: api.Runner{NumCtx: c.Ctx}}
	o.prompt, o.images, o.err = chatPrompt(context.Background(), model, c19Tokenize, &opts, msgs, nil)
	return o
}

// ---- oracle ---------------------------------------------------------------------

type c19Ev struct {
	tag bool
	v   int
}

func c19ParsePrompt(p string) (evs []c19Ev) {
	for i := 0; i < len(p); {
		b := p[i]
		if b >= 'A' && b <= 'Z' {
			evs = append(evs, c19Ev{false, int(b - 'A')})
			i++
			continue
		}
		if b == '[' && strings.HasPrefix(p[i:], "[img-") {
			rest := p[i+5:]
			k := 0
			for k < len(rest) && rest[k] >= '0' && rest[k] <= '9' {
				k++
			}
			if k > 0 && k < len(rest) && rest[k] == ']' {
				n, _ := strconv.Atoi(rest[:k])
				evs = append(evs, c19Ev{true, n})
				i += 5 + k + 1
				continue
			}
		}
		i++
	}
	return evs
}

// c19Judge returns "" when the property holds for this observation, otherwise a
// violation signature (defect class) and a one-line explanation.
func c19Judge(c *c19Case, e *c19Exp, o *c19Obs) (sig, why string) {
	m := len(c.Msgs)
	if o.panic != nil {
		return "C19/panic", fmt.Sprint("chatPrompt panicked: ", o.panic)
	}
	if o.err != nil {
		return "C19/error", "chatPrompt returned an error instead of a prompt: " + o.err.Error()
	}
	evs := c19ParsePrompt(o.prompt)
	count := make([]int, m)
	var order []int
	prev := -1
	for _, ev := range evs {
		if ev.tag {
			continue
		}
		if ev.v >= m {
			return "C19/foreign-text", fmt.Sprintf("prompt contains letter %c which belongs to no message", 'A'+ev.v)
		}
		count[ev.v]++
		if ev.v != prev {
			order = append(order, ev.v)
			prev = ev.v
		}
	}
	L := func(j int) string { return fmt.Sprintf("message %d (%s, letter %c)", j, c.Msgs[j].Role, 'A'+j) }

	// 1. the latest message
	if count[m-1] == 0 {
		return "C19/latest-missing", "the latest " + L(m-1) + " is not in the prompt"
	}
	// 2. which non-system messages are present: exactly the run nExp..
	var extra, missing []int
	minPresent := m
	for j := 0; j < m; j++ {
		if c.Msgs[j].Role == "system" {
			continue
		}
		present := count[j] > 0
		if present && j < minPresent {
			minPresent = j
		}
		if present && !e.kept[j] {
			extra = append(extra, j)
		}
		if !present && e.kept[j] {
			missing = append(missing, j)
		}
	}
	if len(extra) > 0 || len(missing) > 0 {
		contiguous := true
		for j := minPresent; j < m; j++ {
			if c.Msgs[j].Role != "system" && count[j] == 0 {
				contiguous = false
			}
		}
		switch {
		case !contiguous:
			return "C19/run/not-contiguous", fmt.Sprintf("present non-system messages are not a recent run: unexpected %v, missing %v (expected run starts at %d)", extra, missing, e.nExp)
		case len(extra) > 0:
			return "C19/run/too-long", fmt.Sprintf("%s is in the prompt although the run starting there costs %d tokens > ctx %d (longest fitting run starts at %d)", L(extra[0]), e.cost[extra[0]], c.Ctx, e.nExp)
		default:
			return "C19/run/too-short", fmt.Sprintf("%s was dropped although the run starting at %d costs %d tokens <= ctx %d", L(missing[0]), e.nExp, e.cost[e.nExp], c.Ctx)
		}
	}
	// 3. every retained non-system message exactly once, complete
	for j := e.nExp; j < m; j++ {
		if c.Msgs[j].Role == "system" {
			continue
		}
		if count[j] > c.Msgs[j].Len {
			return "C19/retained-duplicated", fmt.Sprintf("%s: %d letters in the prompt, content has %d", L(j), count[j], c.Msgs[j].Len)
		}
		if count[j] < c.Msgs[j].Len {
			return "C19/retained-incomplete", fmt.Sprintf("%s: %d letters in the prompt, content has %d", L(j), count[j], c.Msgs[j].Len)
		}
	}
	// 4. original order (non-system messages; templates may hoist system text)
	last := -1
	for _, j := range order {
		if c.Msgs[j].Role == "system" {
			continue
		}
		if j <= last {
			return "C19/order", fmt.Sprintf("%s appears after message %d in the prompt", L(j), last)
		}
		last = j
	}
	// 5. system messages: those before the run and those inside it
	for j := 0; j < m; j++ {
		if c.Msgs[j].Role != "system" {
			continue
		}
		if count[j] == 0 {
			pos := "in-run"
			if j == e.nExp-1 {
				pos = "immediately-before-run"
			} else if j < e.nExp-1 {
				pos = "earlier-before-run"
			}
			return "C19/system-missing/" + pos, fmt.Sprintf("system %s is not in the prompt (retained run starts at %d)", L(j), e.nExp)
		}
		if count[j]%c.Msgs[j].Len != 0 {
			return "C19/system-incomplete", fmt.Sprintf("system %s: %d letters in the prompt, content has %d", L(j), count[j], c.Msgs[j].Len)
		}
	}
	// 6. images
	owner := make([]int, len(o.images))
	sent := map[[2]int]bool{}
	for p, im := range o.images {
		j, k, ok := c19ImageID(im.Data)
		if !ok || j >= m || k >= c.Msgs[j].Imgs {
			return "C19/image/unknown-data", fmt.Sprintf("images[%d] carries data %q that is no image of the conversation", p, im.Data)
		}
		if sent[[2]int{j, k}] {
			return "C19/image/sent-twice", fmt.Sprintf("image %d of %s occurs twice in the returned list", k, L(j))
		}
		sent[[2]int{j, k}] = true
		if !e.kept[j] {
			return "C19/image/of-dropped-message-sent", fmt.Sprintf("images[%d] is image %d of dropped %s", p, k, L(j))
		}
		owner[p] = j
	}
	for j := e.nExp; j < m; j++ {
		for k := 0; k < c.Msgs[j].Imgs; k++ {
			if !sent[[2]int{j, k}] {
				return "C19/image/of-retained-message-not-sent", fmt.Sprintf("image %d of retained %s is not in the returned list", k, L(j))
			}
		}
	}
	tagCount := make([]int, len(o.images))
	for x, ev := range evs {
		if !ev.tag {
			continue
		}
		if ev.v < 0 || ev.v >= len(o.images) {
			return "C19/tag/index-out-of-range", fmt.Sprintf("prompt contains [img-%d] but %d images are returned", ev.v, len(o.images))
		}
		tagCount[ev.v]++
		before, after := -1, -1
		for y := x - 1; y >= 0; y-- {
			if !evs[y].tag {
				before = evs[y].v
				break
			}
		}
		for y := x + 1; y < len(evs); y++ {
			if !evs[y].tag {
				after = evs[y].v
				break
			}
		}
		if owner[ev.v] != before && owner[ev.v] != after {
			return "C19/tag/wrong-index-for-message", fmt.Sprintf("[img-%d] stands at the text of message %d/%d but images[%d] is an image of %s", ev.v, before, after, ev.v, L(owner[ev.v]))
		}
	}
	for p, n := range tagCount {
		if n == 0 {
			return "C19/tag/missing", fmt.Sprintf("images[%d] (of %s) has no [img-%d] tag in the prompt", p, L(owner[p]), p)
		}
		if n > 1 {
			return "C19/tag/duplicated", fmt.Sprintf("[img-%d] occurs %d times in the prompt", p, n)
		}
	}
	return "", ""
}

func c19Contents(msgs []c19Msg) []string {
	var out []string
	for j, x := range msgs {
		out = append(out, c19Content(j, x))
	}
	return out
}

func c19Describe(c *c19Case, e *c19Exp, o *c19Obs) string {
	var b strings.Builder
	cj, _ := json.Marshal(c)
	fmt.Fprintf(&b, "case: %s\n", cj)
	for j, x := range c.Msgs {
		fmt.Fprintf(&b, "  msg %d %-9s content %q images %d\n", j, x.Role, c19Content(j, x), x.Imgs)
	}
	fmt.Fprintf(&b, "closed-form cost of (system before i + messages i..) for i=0..: %v; num_ctx %d => regime %s, retained run must start at %d\n", e.cost, c.Ctx, e.regime, e.nExp)
	if o.panic != nil {
		fmt.Fprintf(&b, "observed: panic %v", o.panic)
	} else if o.err != nil {
		fmt.Fprintf(&b, "observed: error %v", o.err)
	} else {
		var im []string
		for _, i := range o.images {
			im = append(im, fmt.Sprintf("{id %d %s}", i.ID, i.Data))
		}
		fmt.Fprintf(&b, "observed prompt: %q images: %v", o.prompt, im)
	}
	return b.String()
}

// c19Check runs one case through the real code and the oracle.
func c19Check(env *c19Env, c *c19Case) (sig, why string, e c19Exp, o c19Obs) {
	e = c19Expect(c)
	o = c19Call(env, c)
	sig, why = c19Judge(c, &e, &o)
	return
}

// ---- aggregation of violations (smallest input per signature) ---------------------

type c19Hit struct {
	c     c19Case
	rank  []int
	msg   string
	count int64
}

type c19Agg struct {
	mu sync.Mutex
	m  map[string]*c19Hit
}

func c19Rank(c *c19Case) []int {
	r := []int{len(c.Msgs), 0, 0, 0, c.Ctx, 0, 0}
	for _, x := range c.Msgs {
		r[1] += x.Len
		r[2] += x.Imgs
		r[3] += x.PH
	}
	for i, n := range c19TmplNames {
		if n == c.Tmpl {
			r[5] = i
		}
	}
	for i, n := range c19ModelNames {
		if n == c.Model {
			r[6] = i
		}
	}
	for _, x := range c.Msgs {
		ri := 0
		for i, n := range []string{"user", "assistant", "system"} {
			if n == x.Role {
				ri = i
			}
		}
		r = append(r, ri, x.Len, x.Imgs, x.PH)
	}
	return r
}

func c19Less(a, b []int) bool {
	for i := 0; i < len(a) && i < len(b); i++ {
		if a[i] != b[i] {
			return a[i] < b[i]
		}
	}
	return len(a) < len(b)
}

func (a *c19Agg) add(sig string, c *c19Case, msg func() string) {
	rank := c19Rank(c)
	a.mu.Lock()
	defer a.mu.Unlock()
	h := a.m[sig]
	if h == nil {
		h = &c19Hit{}
		a.m[sig] = h
	}
	if h.count == 0 || c19Less(rank, h.rank) {
		h.c = c19Case{Msgs: append([]c19Msg{}, c.Msgs...), Ctx: c.Ctx, Tmpl: c.Tmpl, Model: c.Model}
		h.rank = rank
		h.msg = msg()
	}
	h.count++
}

// ---- enumeration ----------------------------------------------------------------

func c19Alphabet(name string) []c19Msg {
	var a []c19Msg
	add := func(role string, lens, imgs []int, ph bool) {
		for _, l := range lens {
			for _, i := range imgs {
				a = append(a, c19Msg{Role: role, Len: l, Imgs: i})
				if ph && l >= 2 && i >= 1 {
					a = append(a, c19Msg{Role: role, Len: l, Imgs: i, PH: 1})
				}
			}
		}
	}
	lens := []int{1, 3}
	switch name {
	case "full": // images on every role, placeholder variant on user messages: 8+6+6 = 20 options
		add("user", lens, []int{0, 1, 2}, true)
		add("assistant", lens, []int{0, 1, 2}, false)
		add("system", lens, []int{0, 1, 2}, false)
	case "mid": // user 0..2 images, assistant/system 0..1 image: 6+4+4 = 14 options
		add("user", lens, []int{0, 1, 2}, false)
		add("assistant", lens, []int{0, 1}, false)
		add("system", lens, []int{0, 1}, false)
	case "user-images": // images on user messages only: 6+2+2 = 10 options
		add("user", lens, []int{0, 1, 2}, false)
		add("assistant", lens, []int{0}, false)
		add("system", lens, []int{0}, false)
	case "user-one-image": // user messages with 0..1 image, others none: 4+2+2 = 8 options
		add("user", lens, []int{0, 1}, false)
		add("assistant", lens, []int{0}, false)
		add("system", lens, []int{0}, false)
	case "text": // no images: 6 options
		add("user", lens, []int{0}, false)
		add("assistant", lens, []int{0}, false)
		add("system", lens, []int{0}, false)
	}
	return a
}

type c19Level struct {
	M        int    `json:"messages"`
	Alphabet string `json:"alphabet"`
	// CtxHi: also try cost(i)+1 (cost(i)-1 and cost(i) already hit every equivalence class of num_ctx)
	CtxHi bool `json:"ctx_plus_one"`
	// Mllama: also run the mllama-without-projector model kind
	Mllama bool `json:"mllama"`
}

func c19CtxValues(cost []int, hi bool) []int {
	set := map[int]bool{}
	top := 0
	if hi {
		top = 1
	}
	for _, c := range cost {
		for d := -1; d <= top; d++ {
			if c+d >= 1 {
				set[c+d] = true
			}
		}
	}
	out := make([]int, 0, len(set))
	for v := range set {
		out = append(out, v)
	}
	sort.Ints(out)
	return out
}

// c19Pick keeps, per work item, the most instructive case seen (for coverage.samples).
type c19Pick struct {
	score int
	v     any
}

func c19RunConversation(env *c19Env, msgs []c19Msg, sub *evid.Run, agg *c19Agg, tag string, lv c19Level, pick *c19Pick) {
	anyImg, maxImg := false, 0
	for _, x := range msgs {
		if x.Imgs > 0 {
			anyImg = true
		}
		if x.Imgs > maxImg {
			maxImg = x.Imgs
		}
	}
	sub.Add("conversations", 1)
	sub.Add("conversations_"+tag, 1)
	var evals int64
	for _, model := range c19ModelNames {
		if model != "noproj" && !anyImg {
			continue // without images the model kinds take identical paths
		}
		if model == "mllama-noproj" && (maxImg > 1 || !lv.Mllama) {
			continue // >1 image: documented refusal (errTooManyImages), no prompt is built
		}
		cost := c19Costs(msgs, model)
		for _, ctx := range c19CtxValues(cost, lv.CtxHi) {
			for _, tn := range c19TmplNames {
				c := c19Case{Msgs: msgs, Ctx: ctx, Tmpl: tn, Model: model}
				sig, why, e, o := c19Check(env, &c)
				evals++
				sub.Eval()
				keptImg := false
				for j := range msgs {
					if e.kept[j] && msgs[j].Imgs > 0 {
						keptImg = true
					}
				}
				if e.nExp > 0 || e.regime == "overflow" || keptImg {
					sub.Add("distinct_nontrivial", 1)
				}
				sub.Distinct("outcome", fmt.Sprintf("%d/%d/%s/%d/%s/%s/%s", len(msgs), e.nExp, e.regime, len(o.images), tn, model, sig))
				score := 1
				if e.nExp > 0 {
					score++
				}
				if e.nExp > 0 && e.nExp < len(msgs)-1 {
					score++ // partial truncation
				}
				if len(o.images) > 0 {
					score++
				}
				for j := 0; j < e.nExp; j++ {
					if msgs[j].Role == "system" {
						score++ // a system message kept from before the run
						break
					}
				}
				if tn != "legacy" {
					score++
				}
				if score > pick.score {
					pick.score = score
					pick.v = map[string]any{"case": c19Case{Msgs: append([]c19Msg{}, msgs...), Ctx: ctx, Tmpl: tn, Model: model}, "contents": c19Contents(msgs),
						"prompt": o.prompt, "images_returned": len(o.images), "expected_run_start": e.nExp, "regime": e.regime, "verdict": sig}
				}
				if sig != "" {
					agg.add(sig, &c, func() string { return why + "\n" + c19Describe(&c, &e, &o) })
				}
			}
		}
	}
	sub.Add("evaluations_"+tag, evals)
}

func c19Replay(path string) {
	var c c19Case
	if err := evid.LoadReplay(path, &c); err != nil {
		fmt.Println("replay:", err)
		os.Exit(2)
	}
	if len(c.Msgs) == 0 || len(c.Msgs) > 9 {
		fmt.Println("replay: case must have 1..9 messages")
		os.Exit(2)
	}
	for _, x := range c.Msgs {
		if x.Len < 1 || x.Imgs < 0 || x.Imgs > 9 || (x.PH > 0 && x.Imgs < 1) {
			fmt.Println("replay: malformed message in case")
			os.Exit(2)
		}
	}
	env := c19NewEnv()
	sig, why, e, o := c19Check(env, &c)
	fmt.Println("replaying", c19Describe(&c, &e, &o))
	if sig != "" {
		fmt.Printf("FAILS: %s: %s\n", sig, why)
		os.Exit(1)
	}
	fmt.Println("holds")
	os.Exit(0)
}

func ZZVerifC19() {
	r := evid.Start("C19", "exploration")
	if p := evid.ReplayPath(); p != "" {
		c19Replay(p)
	}
	if pf := os.Getenv("C19_CPUPROFILE"); pf != "" {
		f, _ := os.Create(pf)
		pprof.StartCPUProfile(f)
		defer pprof.StopCPUProfile()
	}
	// the code under test allocates heavily per call while the live heap stays small
	debug.SetGCPercent(400)
	debug.SetMemoryLimit(3 << 30)
	thorough := evid.Thorough()
	levels := []c19Level{
		{M: 1, Alphabet: "full", CtxHi: true, Mllama: true},
		{M: 2, Alphabet: "full", CtxHi: true, Mllama: true},
		{M: 3, Alphabet: "full", CtxHi: true, Mllama: true},
		{M: 4, Alphabet: "full", Mllama: true},
		{M: 5, Alphabet: "text"},
		{M: 6, Alphabet: "text"},
	}
	budget := 110 * time.Second
	if thorough {
		levels = []c19Level{
			{M: 1, Alphabet: "full", CtxHi: true, Mllama: true},
			{M: 2, Alphabet: "full", CtxHi: true, Mllama: true},
			{M: 3, Alphabet: "full", CtxHi: true, Mllama: true},
			{M: 4, Alphabet: "full", CtxHi: true, Mllama: true},
			{M: 5, Alphabet: "mid", CtxHi: true},
			{M: 6, Alphabet: "user-one-image"},
			{M: 7, Alphabet: "text"},
		}
		budget = 18 * time.Minute
	}
	if v := os.Getenv("C19_BUDGET_S"); v != "" { // development aid / slow machines
		n, _ := strconv.Atoi(v)
		budget = time.Duration(n) * time.Second
	}
	r.SetDeadline(budget)
	if v := os.Getenv("C19_LEVELS"); v != "" { // development aid: JSON list of levels
		levels = nil
		if err := json.Unmarshal([]byte(v), &levels); err != nil {
			fmt.Fprintln(os.Stderr, "C19_LEVELS:", err)
			os.Exit(2)
		}
		r.NotExhaustive("C19_LEVELS override in effect: not the registered bounds")
	}
	r.Rule("every conversation of m messages over the level's per-message alphabet (role {user,assistant,system} x length {1,3} x images {0,1,2} x optional \"[img]\" placeholder; message j is the letter 'A'+j repeated) x every num_ctx >= 1 in {cost(i)-1, cost(i) : i} (which meets every equivalence class of num_ctx and both sides of every boundary; plus cost(i)+1 on the levels marked ctx_plus_one) where cost(i) is the closed-form token count of retaining messages i.. x 3 template styles x model kinds {noproj; clip projector (768 tokens/image) when the conversation has images; mllama-without-projector on the levels marked mllama, only with <=1 image per message}. Each case is one call of the real chatPrompt with a tokenizer counting capital letters; cases are distinct by construction (mixed-radix counter over the alphabet, de-duplicated ctx list). Non-trivial = something must be dropped (expected run start > 0), or the latest message alone overflows, or a kept message carries an image; trivial = everything fits and no image is involved.")
	r.Assume(
		"'fits' = tokens of (system messages before the run + the run) + image tokens of the run <= num_ctx; image tokens are those chatPrompt documents: 768 per image for a model with projector files, 0 without (the mllama+projector path, 1 token per image, needs real image decoding and is not enumerated)",
		"token growth is monotone when the run is extended (true for the letter-counting tokenizer), so 'longest recent run that fits' and 'extend until the first step that does not fit' coincide",
		"'in their original order' is checked on non-system messages; templates that print .System hoist system text by design, so a system message only has to be present (at least once)",
		"an image 'appears tagged with its index' = exactly one [img-k] in the prompt per returned image k, adjacent to (before, inside or after) the text of the message owning images[k]; order of the returned list and the ID field are not constrained beyond that",
		"images of system messages that precede the retained run are neither required nor forbidden (the property speaks of retained and dropped messages only); chatPrompt does not send them",
		"mllama with more than one image per message returns errTooManyImages by design; such conversations are not enumerated for the mllama model kind",
		"empty message contents and tools are not enumerated",
	)

	agg := &c19Agg{m: map[string]*c19Hit{}}
	var bounds []map[string]any
	for _, lv := range levels {
		alpha := c19Alphabet(lv.Alphabet)
		tag := fmt.Sprintf("m%d", lv.M)
		// work items: the first min(3, m) messages, as indices into the alphabet
		plen := min(3, lv.M)
		items := []string{""}
		for k := 0; k < plen; k++ {
			var next []string
			for _, it := range items {
				for a := range alpha {
					next = append(next, strings.TrimSpace(it+" "+strconv.Itoa(a)))
				}
			}
			items = next
		}
		var pmu sync.Mutex
		picks := map[string]any{}
		r.Parallel(0, items, func(item string, sub *evid.Run) {
			if sub.Expired() {
				sub.Add("work_items_skipped_"+tag, 1)
				return
			}
			env := c19NewEnv()
			pick := &c19Pick{}
			defer func() {
				pmu.Lock()
				picks[item] = pick.v
				pmu.Unlock()
			}()
			msgs := make([]c19Msg, 0, lv.M)
			for _, f := range strings.Fields(item) {
				a, _ := strconv.Atoi(f)
				msgs = append(msgs, alpha[a])
			}
			var rec func()
			rec = func() {
				if len(msgs) == lv.M {
					c19RunConversation(env, msgs, sub, agg, tag, lv, pick)
					return
				}
				for _, o := range alpha {
					msgs = append(msgs, o)
					rec()
					msgs = msgs[:len(msgs)-1]
				}
			}
			rec()
		})
		// two written-out cases per level: the most instructive case of the work items at 1/3 and 2/3 of the list
		smp := r.Sub()
		done := map[string]bool{}
		for _, it := range []string{items[len(items)/3], items[2*len(items)/3]} {
			if v := picks[it]; v != nil && !done[it] {
				smp.Sample(v)
			}
			done[it] = true
		}
		r.Merge(smp)
		if n := r.Count("work_items_skipped_" + tag); n > 0 {
			r.NotExhaustive(fmt.Sprintf("time budget %v reached: level m=%d (%s) skipped %d of %d work items (3-message prefixes); levels without such a note were enumerated completely", budget, lv.M, lv.Alphabet, n, len(items)))
		}
		bounds = append(bounds, map[string]any{"messages": lv.M, "alphabet": lv.Alphabet, "options_per_message": len(alpha), "ctx_plus_one": lv.CtxHi, "mllama": lv.Mllama,
			"conversations": r.Count("conversations_" + tag), "evaluations": r.Count("evaluations_" + tag)})
	}
	r.Extra("bounds", map[string]any{"levels": bounds, "templates": c19TmplNames, "models": c19ModelNames, "lengths": []int{1, 3},
		"ctx": "every closed-form boundary cost(i)-1 and cost(i) (and cost(i)+1 where ctx_plus_one), >= 1", "image_tokens": map[string]int{"clip": 768, "noproj": 0, "mllama-noproj": 0}})

	// report: one violation per signature with its smallest input, confirmed by re-execution
	sigs := make([]string, 0, len(agg.m))
	for s := range agg.m {
		sigs = append(sigs, s)
	}
	sort.Slice(sigs, func(i, j int) bool { return c19Less(agg.m[sigs[i]].rank, agg.m[sigs[j]].rank) })
	env := c19NewEnv()
	for _, s := range sigs {
		h := agg.m[s]
		stable := true
		for i := 0; i < 5; i++ {
			if s2, _, _, _ := c19Check(env, &h.c); s2 != s {
				stable = false
			}
		}
		if !stable {
			cj, _ := json.Marshal(h.c)
			r.Extra("machinery_errors", []string{"C19 case not reproducible: " + string(cj)})
			continue
		}
		r.Violation(s, h.msg, h.c)
		for i := int64(1); i < h.count; i++ {
			r.Violation(s, "", nil)
		}
	}
	pprof.StopCPUProfile()
	r.Finish()
}
