package main

import "github.com/ollama/ollama/fs/ggml"

func main() { ggml.ZZVerifC05() }
