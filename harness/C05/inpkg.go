package ggml

// C05 harness: exhaustive enumeration of (KV map, tensor list) inputs from a
// small alphabet through the real WriteGGUF and the real Decode.

import (
	"bytes"
	"encoding/json"
	"fmt"
	"io"
	"os"
	"reflect"
	"sort"
	"strings"

	"github.com/ollama/ollama/zzverif/evid"
)

type c05Tensor struct {
	Name  string   `json:"name"`
	Kind  uint32   `json:"kind"`
	Shape []uint64 `json:"shape"`
}

type c05KV struct {
	Key string `json:"key"`
	Val string `json:"val"` // index into c05Values, by name
}

type c05Case struct {
	KV      []c05KV     `json:"kv"`
	Tensors []c05Tensor `json:"tensors"`
	// Count0: the tensors' WriterTo reports 0 bytes written, as the tensor writers of package convert do
	// (safetensor, experts, ropeFactor: "return 0, binary.Write(...)")
	Count0 bool `json:"count0,omitempty"`
}

// c05Count0 writes everything and reports nothing, like convert's tensor writers.
type c05Count0 struct{ r *bytes.Reader }

func (c c05Count0) WriteTo(w io.Writer) (int64, error) {
	_, err := c.r.WriteTo(w)
	return 0, err
}

var c05Values = map[string]any{
	"u32:0":     uint32(0),
	"u32:max":   uint32(0xffffffff),
	"f32:1.5":   float32(1.5),
	"bool:t":    true,
	"bool:f":    false,
	"str:":      "",
	"str:x":     "x",
	"str:hello": "hello, wörld",
	"i32s:0":    []int32{},
	"i32s:1":    []int32{-7},
	"i32s:3":    []int32{1, -2, 3},
	"u32s:0":    []uint32{},
	"u32s:3":    []uint32{1, 2, 0xfffffffe},
	"f32s:0":    []float32{},
	"f32s:3":    []float32{0.5, -1, 3e38},
	"strs:0":    []string{},
	"strs:1":    []string{""},
	"strs:3":    []string{"a", "", "ccc"},
	"align:8":   uint32(8),
	"align:16":  uint32(16),
	"align:64":  uint32(64),
	"align:24":  uint32(24),
	"align:40":  uint32(40),
	"pad:1":     "p",
	"pad:2":     "pp",
	"pad:3":     "ppp",
	"pad:5":     "ppppp",
	"pad:7":     "ppppppp",
	"pad:13":    "ppppppppppppp",
	"pad:31":    strings.Repeat("p", 31),
}

// (kind, shape) alphabet; byte sizes 1,2,5,18,31,32,33,34,64
var c05Shapes = []c05Tensor{
	{Kind: 24, Shape: []uint64{1}},       // I8, 1 byte
	{Kind: 1, Shape: []uint64{1}},        // F16, 2 bytes
	{Kind: 24, Shape: []uint64{5}},       // I8, 5 bytes
	{Kind: 2, Shape: []uint64{32}},       // Q4_0, 18 bytes
	{Kind: 24, Shape: []uint64{31, 1}},   // I8, 31 bytes, 2-D
	{Kind: 0, Shape: []uint64{2, 4}},     // F32, 32 bytes, 2-D
	{Kind: 24, Shape: []uint64{3, 11}},   // I8, 33 bytes, 2-D
	{Kind: 8, Shape: []uint64{32}},       // Q8_0, 34 bytes
	{Kind: 30, Shape: []uint64{2, 4, 4}}, // BF16, 64 bytes, 3-D
	{Kind: 2, Shape: []uint64{2, 32}},    // Q4_0, 2 rows of one block: 36 bytes (row count not a multiple of the block size)
	{Kind: 8, Shape: []uint64{3, 32}},    // Q8_0, 3 rows: 102 bytes
	{Kind: 12, Shape: []uint64{1, 256}},  // Q4_K, one super-block: 144 bytes
}

// c05RefSize: byte size of a tensor from an independent table (bytes per block / elements per block)
func c05RefSize(kind uint32, shape []uint64) uint64 {
	n := uint64(1)
	for _, d := range shape {
		n *= d
	}
	switch kind {
	case 0:
		return n * 4
	case 1, 30:
		return n * 2
	case 24:
		return n
	case 2:
		return n / 32 * 18
	case 8:
		return n / 32 * 34
	case 12:
		return n / 256 * 144
	}
	panic("kind not in the harness table")
}

var c05Names = []string{"blk.0.a", "blk.1.a", "blk.10.a", "output.weight", "token_embd.weight", "v.x"}

func c05Data(i int, n uint64) []byte {
	b := make([]byte, n)
	for j := range b {
		b[j] = byte(0x10*(i+1) + j%13 + 1)
	}
	return b
}

type c05ws struct {
	buf []byte
	pos int64
}

func (w *c05ws) Write(p []byte) (int, error) {
	end := w.pos + int64(len(p))
	if end > int64(len(w.buf)) {
		w.buf = append(w.buf, make([]byte, end-int64(len(w.buf)))...)
	}
	copy(w.buf[w.pos:], p)
	w.pos = end
	return len(p), nil
}

func (w *c05ws) Seek(off int64, whence int) (int64, error) {
	switch whence {
	case io.SeekStart:
		w.pos = off
	case io.SeekCurrent:
		w.pos += off
	case io.SeekEnd:
		w.pos = int64(len(w.buf)) + off
	}
	return w.pos, nil
}

func c05Norm(v any) any {
	// decoded arrays -> []any for comparison; written slices -> []any
	if a, ok := v.(*array); ok {
		if a.values == nil {
			return fmt.Sprintf("uncollected(size=%d)", a.size)
		}
		if len(a.values) != a.size {
			return fmt.Sprintf("array size %d but %d values", a.size, len(a.values))
		}
		return append([]any{}, a.values...)
	}
	rv := reflect.ValueOf(v)
	if rv.Kind() == reflect.Slice {
		out := []any{}
		for i := 0; i < rv.Len(); i++ {
			out = append(out, rv.Index(i).Interface())
		}
		return out
	}
	return v
}

// c05Check runs one case; returns "" or (clause, message).
func c05Check(c c05Case, verbose bool) (clause, msg string) {
	defer func() {
		if r := recover(); r != nil {
			clause, msg = "panic", fmt.Sprint(r)
		}
	}()
	kv := KV{}
	for _, e := range c.KV {
		kv[e.Key] = c05Values[e.Val]
	}
	ts := make([]Tensor, len(c.Tensors))
	data := map[string][]byte{}
	for i, t := range c.Tensors {
		tt := Tensor{Name: t.Name, Kind: t.Kind, Shape: append([]uint64{}, t.Shape...)}
		if tt.Size() != c05RefSize(t.Kind, t.Shape) {
			return "tensor-size", fmt.Sprintf("tensor %s kind %d shape %v: Size() = %d, expected %d bytes", t.Name, t.Kind, t.Shape, tt.Size(), c05RefSize(t.Kind, t.Shape))
		}
		d := c05Data(i, c05RefSize(t.Kind, t.Shape))
		data[t.Name] = d
		tt.WriterTo = bytes.NewReader(d)
		if c.Count0 {
			tt.WriterTo = c05Count0{bytes.NewReader(d)}
		}
		ts[i] = tt
	}
	ws := &c05ws{}
	if err := WriteGGUF(ws, kv, ts); err != nil {
		return "write-error", err.Error()
	}
	buf := ws.buf
	g, end, err := Decode(bytes.NewReader(buf), -1)
	if err != nil {
		return "decode-error", err.Error()
	}
	if verbose {
		fmt.Printf("file length %d, decoded end %d, tensor base %d\n", len(buf), end, g.Tensors().Offset)
	}
	if end != int64(len(buf)) {
		return "end-offset", fmt.Sprintf("decoder end offset %d != file length %d", end, len(buf))
	}
	// keys and values
	got := g.KV()
	for k, want := range kv {
		gv, ok := got[k]
		if !ok {
			return "kv-missing", "key " + k + " missing after decode"
		}
		if !reflect.DeepEqual(c05Norm(gv), c05Norm(want)) {
			return "kv-value", fmt.Sprintf("key %s: wrote %#v decoded %#v", k, c05Norm(want), c05Norm(gv))
		}
	}
	for k := range got {
		if _, ok := kv[k]; !ok && k != "general.parameter_count" {
			return "kv-extra", "decoded unexpected key " + k
		}
	}
	align := uint64(32)
	if a, ok := kv["general.alignment"]; ok {
		align = uint64(a.(uint32))
	}
	items := g.Tensors().Items()
	if len(items) != len(c.Tensors) {
		return "tensor-count", fmt.Sprintf("wrote %d tensors decoded %d", len(c.Tensors), len(items))
	}
	byName := map[string]*Tensor{}
	for _, t := range items {
		byName[t.Name] = t
	}
	for _, t := range c.Tensors {
		d := byName[t.Name]
		if d == nil {
			return "tensor-missing", "tensor " + t.Name + " missing"
		}
		if d.Kind != t.Kind {
			return "tensor-kind", fmt.Sprintf("tensor %s kind %d != %d", t.Name, d.Kind, t.Kind)
		}
		rev := make([]uint64, len(t.Shape))
		for i := range t.Shape {
			rev[i] = t.Shape[len(t.Shape)-1-i]
		}
		if !reflect.DeepEqual(rev, d.Shape) {
			return "tensor-shape", fmt.Sprintf("tensor %s shape %v, expected reversed %v", t.Name, d.Shape, rev)
		}
		if d.Size() != c05RefSize(t.Kind, t.Shape) {
			return "tensor-size", fmt.Sprintf("decoded tensor %s kind %d shape %v: Size() = %d, expected %d bytes", t.Name, d.Kind, d.Shape, d.Size(), c05RefSize(t.Kind, t.Shape))
		}
		abs := g.Tensors().Offset + d.Offset
		if verbose {
			fmt.Printf("tensor %-18s kind %2d size %3d decoded offset %d (abs %d)\n", t.Name, t.Kind, d.Size(), d.Offset, abs)
		}
		if abs%align != 0 {
			return "tensor-align", fmt.Sprintf("tensor %s absolute offset %d not a multiple of alignment %d", t.Name, abs, align)
		}
		want := data[t.Name]
		if abs+uint64(len(want)) > uint64(len(buf)) {
			return "tensor-bytes", fmt.Sprintf("tensor %s decoded location [%d,+%d) beyond file length %d", t.Name, abs, len(want), len(buf))
		}
		if !bytes.Equal(buf[abs:abs+uint64(len(want))], want) {
			return "tensor-bytes", fmt.Sprintf("tensor %s: bytes at decoded offset %d differ from the bytes written", t.Name, abs)
		}
	}
	return "", ""
}

func c05Sizes(c c05Case) string {
	var s []string
	for _, t := range c.Tensors {
		s = append(s, fmt.Sprint(c05RefSize(t.Kind, t.Shape)))
	}
	return strings.Join(s, ",")
}

func c05Nontrivial(c c05Case) bool {
	// padding arithmetic is exercised when a tensor of unaligned size is followed by another one,
	// or a typed array/string value is round-tripped
	for i, t := range c.Tensors {
		if i+1 < len(c.Tensors) && c05RefSize(t.Kind, t.Shape)%8 != 0 {
			return true
		}
	}
	for _, e := range c.KV {
		if strings.Contains(e.Val, "s:") || strings.HasPrefix(e.Val, "str:") {
			return true
		}
	}
	return false
}

func c05Run(c c05Case, r *evid.Run) {
	r.Eval()
	b, _ := json.Marshal(c)
	if c05Nontrivial(c) {
		r.Distinct("nontrivial", string(b))
	}
	if r.WantSample() {
		r.Sample(c)
	} else {
		r.Sample(nil)
	}
	clause, msg := c05Check(c, false)
	if clause == "" {
		return
	}
	// deterministic code: confirm by re-running 5 times
	for i := 0; i < 5; i++ {
		c2, _ := c05Check(c, false)
		if c2 != clause {
			r.Extra("machinery_errors", []string{"C05 case not reproducible: " + string(b)})
			return
		}
	}
	// signature: oracle clause + structural class (tensor count / position), not the concrete names
	sig := "C05/" + clause
	r.Violation(sig, msg+"\ncase: "+string(b)+" sizes="+c05Sizes(c), c)
}

func ZZVerifC05() {
	r := evid.Start("C05", "exploration")
	if p := evid.ReplayPath(); p != "" {
		var c c05Case
		if err := evid.LoadReplay(p, &c); err != nil {
			fmt.Println("replay:", err)
			os.Exit(2)
		}
		b, _ := json.Marshal(c)
		fmt.Printf("replaying case %s\n", b)
		clause, msg := c05Check(c, true)
		if clause != "" {
			fmt.Printf("FAILS: %s: %s\n", clause, msg)
			os.Exit(1)
		}
		fmt.Println("holds")
		os.Exit(0)
	}
	thorough := evid.Thorough()
	r.Rule("all (KV map, tensor list) pairs from the alphabet: tensor lists = every ordered selection of distinct names x every (kind,shape) per tensor up to N tensors, x alignment {32,8,16,64,24,40} x header pad strings x tensor writers that report their byte count / report 0 like package convert's; KV maps = every subset of <=K keys x every value of every writer-supported type. Non-trivial = an unaligned-size tensor is followed by another tensor, or a string/array value is round-tripped. Each case: WriteGGUF -> Decode(-1) -> compare KV, tensor kinds, reversed shapes, bytes at decoded offsets, alignment, end offset == file length.")
	r.Assume("tensor data supplied through io.WriterTo writes exactly Size() bytes (what convert and create do); the count it reports may be right or 0",
		"accessor helpers (KV.Uints etc.) are not part of the round trip; decoded raw values are compared")

	maxN := 3
	if thorough {
		maxN = 4
	}
	// work items: (number of tensors, first tensor name index, alignment variant) to spread over goroutines
	// alignments that are no power of two are legal (the format asks for a multiple of 8)
	aligns := []string{"", "align:8", "align:16", "align:64", "align:24", "align:40"}
	pads := []string{"", "pad:1", "pad:3", "pad:5", "pad:13", "pad:31"}
	var items []string
	for n := 0; n <= maxN; n++ {
		for a := range aligns {
			for p := range pads {
				if a >= 4 && p%2 == 1 {
					continue
				}
				items = append(items, fmt.Sprintf("T %d %d %d 0", n, a, p))
				if n > 0 && p < 2 {
					items = append(items, fmt.Sprintf("T %d %d %d 1", n, a, p))
				}
			}
		}
	}
	keys := []string{"a", "general.name", "llama.x", "tokenizer.ggml.tokens", "zz"}
	var vals []string
	for k := range c05Values {
		if !strings.HasPrefix(k, "align:") && !strings.HasPrefix(k, "pad:") {
			vals = append(vals, k)
		}
	}
	sort.Strings(vals)
	for i := range vals {
		items = append(items, fmt.Sprintf("K %d", i))
	}
	r.Parallel(0, items, func(item string, sub *evid.Run) {
		var kind string
		var n, a, p, w int
		fmt.Sscan(item, &kind, &n, &a, &p, &w)
		if kind == "T" {
			var kvs []c05KV
			if aligns[a] != "" {
				kvs = append(kvs, c05KV{"general.alignment", aligns[a]})
			}
			if pads[p] != "" {
				kvs = append(kvs, c05KV{"general.name", pads[p]})
			}
			// all ordered selections of n distinct names, all shape assignments
			var rec func(ts []c05Tensor, used int)
			rec = func(ts []c05Tensor, used int) {
				if len(ts) == n {
					c05Run(c05Case{KV: kvs, Tensors: append([]c05Tensor{}, ts...), Count0: w == 1}, sub)
					return
				}
				for ni, name := range c05Names {
					if used&(1<<ni) != 0 {
						continue
					}
					// to keep n=4 affordable the last positions draw from a reduced shape alphabet in quick mode
					shapes := c05Shapes
					if !thorough && n == 3 && len(ts) == 2 {
						shapes = append(append([]c05Tensor{}, c05Shapes[:5]...), c05Shapes[9])
					}
					if thorough && n == 4 && len(ts) >= 2 {
						shapes = []c05Tensor{c05Shapes[0], c05Shapes[2], c05Shapes[5], c05Shapes[7], c05Shapes[9]}
					}
					for _, sh := range shapes {
						rec(append(ts, c05Tensor{Name: name, Kind: sh.Kind, Shape: sh.Shape}), used|1<<ni)
					}
				}
			}
			rec(nil, 0)
			return
		}
		// K: first key gets value index n; up to 3 keys in total (2 in quick), fixed two-tensor list
		tens := []c05Tensor{{Name: "blk.0.a", Kind: 24, Shape: []uint64{5}}, {Name: "output.weight", Kind: 0, Shape: []uint64{2, 4}}}
		maxK := 2
		if thorough {
			maxK = 3
		}
		var rec func(kvs []c05KV, from int)
		rec = func(kvs []c05KV, from int) {
			c05Run(c05Case{KV: append([]c05KV{}, kvs...), Tensors: tens}, sub)
			if len(kvs) == maxK {
				return
			}
			for ki := from; ki < len(keys); ki++ {
				for _, v := range vals {
					rec(append(kvs, c05KV{keys[ki], v}), ki+1)
				}
			}
		}
		for ki := range keys {
			rec([]c05KV{{keys[ki], vals[n]}}, ki+1)
		}
	})
	r.Extra("bounds", map[string]any{"max_tensors": maxN, "names": c05Names, "shape_alphabet": len(c05Shapes), "alignments": []int{32, 8, 16, 64, 24, 40}, "writers": []string{"honest count", "count 0 (convert)"}, "kv_values": len(vals), "kv_keys": keys})
	r.Finish()
}
