package main

import (
	"os"

	"github.com/ollama/ollama/runner/ollamarunner"
)

func main() {
	if os.Getenv("VERIF_ID") == "C14" {
		ollamarunner.ZZVerifC14()
		return
	}
	ollamarunner.ZZVerifC07()
}
