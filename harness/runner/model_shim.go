package model

import (
	"github.com/ollama/ollama/kvcache"
	"github.com/ollama/ollama/ml"
)

// ZZNewBase builds a model.Base around an arbitrary backend and cache (the
// fields are unexported; harness models embed the result).
func ZZNewBase(b ml.Backend, cache kvcache.Cache) Base {
	return Base{b: b, config: config{Cache: cache}}
}
