package ollamarunner

// Runner harness (C07, C14): the real ollamarunner.Server (completion handler,
// processBatch, InputCache) on the real kvcache over the fakeml backend with a
// scripted model, driven event by event under mcrt.

import (
	"bytes"
	gocontext "context"
	"encoding/json"
	"fmt"
	"net/http"
	"net/http/httptest"
	"os"
	"sort"
	"strings"
	gotime "time"

	"github.com/ollama/ollama/api"
	"github.com/ollama/ollama/kvcache"
	"github.com/ollama/ollama/llm"
	"github.com/ollama/ollama/ml"
	"github.com/ollama/ollama/model"
	"github.com/ollama/ollama/model/input"
	"github.com/ollama/ollama/zzverif/evid"
	"github.com/ollama/ollama/zzverif/fakeml"
	"github.com/ollama/ollama/zzverif/mcrt"
	mcsem "github.com/ollama/ollama/zzverif/shim/semaphore"
	mcsync "github.com/ollama/ollama/zzverif/shim/sync"
)

// ---- scripted model -------------------------------------------------------------------

const (
	zrLayers  = 2
	zrHeadDim = 2
	zrHeads   = 1
)

type zrModel struct {
	model.Base
	w      *zrWorld
	pieces []string // token id -> text; token 0 is EOS
	window int32
	// C14: emit script[k] as the k-th generated token (then EOS)
	script    []int32
	promptLen int
}

func (m *zrModel) Encode(s string, addSpecial bool) ([]int32, error) {
	var out []int32
	for _, c := range s {
		found := false
		for id, p := range m.pieces {
			if id > 0 && p == string(c) {
				out = append(out, int32(id))
				found = true
				break
			}
		}
		if !found {
			return nil, fmt.Errorf("no token for %q", c)
		}
	}
	return out, nil
}

func (m *zrModel) Decode(ids []int32) (string, error) {
	var b strings.Builder
	for _, id := range ids {
		b.WriteString(m.pieces[id])
	}
	return b.String(), nil
}

func (m *zrModel) Is(id int32, sp model.Special) bool { return sp == model.SpecialEOS && id == 0 }

func zrK(tok int32, layer, d int, pos int32) float32 {
	return float32(int(tok)*8192 + (layer*2+d)*1024 + int(pos))
}
func zrV(tok int32, layer, d int) float32 { return float32(int(tok)*8 + layer*2 + d) }

type zrEnt struct {
	tok int32
	pos int32
}

func (m *zrModel) Forward(ctx ml.Context, batch input.Batch) (ml.Tensor, error) {
	cache := m.Config().Cache
	toksF := batch.Inputs.(*fakeml.Tensor).Floats()
	n := len(batch.Positions)
	toks := make([]int32, n)
	for i := range toks {
		toks[i] = int32(toksF[i])
	}
	type lv struct{ k, v, mask *fakeml.Tensor }
	var views []lv
	var deps []ml.Tensor
	for layer := 0; layer < zrLayers; layer++ {
		cache.SetLayer(layer)
		kd := make([]float32, zrHeadDim*zrHeads*n)
		vd := make([]float32, zrHeadDim*zrHeads*n)
		for i := 0; i < n; i++ {
			for d := 0; d < zrHeadDim; d++ {
				kd[d+zrHeadDim*i] = zrK(toks[i], layer, d, batch.Positions[i])
				vd[d+zrHeadDim*i] = zrV(toks[i], layer, d)
			}
		}
		k, _ := ctx.FromFloatSlice(kd, zrHeadDim, zrHeads, n)
		v, _ := ctx.FromFloatSlice(vd, zrHeadDim, zrHeads, n)
		cache.Put(ctx, k, v)
		hk, hv, mask := cache.Get(ctx)
		views = append(views, lv{hk.(*fakeml.Tensor), hv.(*fakeml.Tensor), mask.(*fakeml.Tensor)})
		deps = append(deps, hk, hv, mask)
	}
	vocab := len(m.pieces)
	w := m.w
	// what the runner has recorded for each sequence at this moment (cache record + inputs of this batch)
	record := map[int][]int32{}
	if w != nil && w.s != nil {
		for _, sq := range w.s.seqs {
			if sq == nil || sq.cache == nil {
				continue
			}
			var r []int32
			for _, in := range sq.cache.Inputs {
				r = append(r, in.Token)
			}
			for _, in := range sq.pendingInputs {
				r = append(r, in.Token)
			}
			record[sq.cache.Id] = r
		}
	}
	positions := append([]int32{}, batch.Positions...)
	seqs := append([]int{}, batch.Sequences...)
	outputs := append([]int32{}, batch.Outputs...)
	permuted := false
	out := fakeml.Custom(ctx, deps, []int{vocab, len(outputs)}, func(out []float32) {
		visible := make([][]zrEnt, n)
		for layer, x := range views {
			hist := x.mask.Dim(0)
			for i := 0; i < n; i++ {
				var vis []zrEnt
				for j := 0; j < hist; j++ {
					if x.mask.At(j, i) != 0 {
						continue
					}
					kv := int(x.k.At(0, 0, j))
					var vv int
					if permuted {
						vv = int(x.v.At(j, 0, 0))
					} else {
						vv = int(x.v.At(0, 0, j))
					}
					e := zrEnt{int32(kv / 8192), int32(kv % 1024)}
					if (kv%8192)/1024 != layer*2 || vv%8 != layer*2 || int32(vv/8) != e.tok {
						mcrt.Fail("C07: cache exposes inconsistent key/value data to the model (layer %d, key %d value %d)", layer, kv, vv)
					}
					vis = append(vis, e)
				}
				sort.Slice(vis, func(a, b int) bool { return vis[a].pos < vis[b].pos })
				if layer == 0 {
					visible[i] = vis
				} else if fmt.Sprint(vis) != fmt.Sprint(visible[i]) {
					mcrt.Fail("C07: layers see different histories for the same token: %v vs %v", visible[i], vis)
				}
			}
		}
		// M1: what the model sees for token i == what the runner recorded for that slot
		for i := 0; i < n; i++ {
			rec, ok := record[seqs[i]]
			if !ok {
				mcrt.Fail("C07: batch contains sequence %d that no active request owns", seqs[i])
				continue
			}
			var want []zrEnt
			for p := int32(0); p <= positions[i] && int(p) < len(rec); p++ {
				if m.window > 0 && p < positions[i]-m.window {
					continue
				}
				want = append(want, zrEnt{rec[p], p})
			}
			if int(positions[i]) >= len(rec) {
				mcrt.Fail("C07: token at position %d of slot %d is beyond the %d inputs recorded for it", positions[i], seqs[i], len(rec))
			}
			if fmt.Sprint(want) != fmt.Sprint(visible[i]) {
				w.m1Fail(seqs[i], positions[i], want, visible[i])
			}
		}
		for o, idx := range outputs {
			vis := visible[idx]
			next := int32(0)
			if m.script != nil {
				// k-th generated token: k = number of tokens seen beyond the prompt
				k := int(positions[idx]) + 1 - m.promptLen
				if k >= 0 && k < len(m.script) {
					next = m.script[k]
				}
			} else {
				h := uint32(17)
				for _, e := range vis {
					h = h*31 + uint32(e.tok)*7 + uint32(e.pos)*3 + 1
				}
				h ^= h >> 7
				next = int32(h % uint32(vocab))
			}
			for t := 0; t < vocab; t++ {
				out[o*vocab+t] = 0
			}
			out[o*vocab+int(next)] = 1
		}
	})
	return out, nil
}

// ---- world ----------------------------------------------------------------------------

type zrConfig struct {
	Slots     int    `json:"slots"`
	NumCtx    int    `json:"num_ctx"`
	Batch     int    `json:"batch"`
	MultiUser bool   `json:"multiuser"`
	Cache     string `json:"cache"` // causal, noshift, swa2
}

type zrReq struct {
	Prompt     string   `json:"prompt"`
	NumPredict int      `json:"num_predict"`
	NumKeep    int      `json:"num_keep"`
	Stop       []string `json:"stop,omitempty"`
}

type zrRun struct {
	spec      zrReq
	rec       *httptest.ResponseRecorder
	cancel    gocontext.CancelFunc
	returned  bool
	cancelled bool
	id        int
}

type zrWorld struct {
	cfg    zrConfig
	s      *Server
	m      *zrModel
	runs   []*zrRun
	m1Seen bool
	dead   bool
}

func (w *zrWorld) m1Fail(slot int, pos int32, want, got []zrEnt) {
	kind := "wrong"
	if len(got) < len(want) {
		kind = "missing"
	} else if len(got) > len(want) {
		kind = "extra"
	}
	mcrt.Fail("C07: M1 %s: slot %d position %d: the model is shown (token,pos) %v but the slot's recorded inputs are %v", kind, slot, pos, got, want)
}

func zrNewWorld(cfg zrConfig, pieces []string) *zrWorld {
	w := &zrWorld{cfg: cfg}
	b := &fakeml.Backend{}
	shift := func(ctx ml.Context, layer int, key, shift ml.Tensor) (ml.Tensor, error) {
		return fakeml.AddAlongLast(ctx, key, shift), nil
	}
	var c kvcache.Cache
	m := &zrModel{w: w, pieces: pieces}
	switch cfg.Cache {
	case "causal":
		c = kvcache.NewCausalCache(shift)
	case "noshift":
		c = kvcache.NewCausalCache(nil)
	case "swa2":
		c = kvcache.NewSWACache(2, shift)
		m.window = 2
	default:
		panic("bad cache kind")
	}
	m.Base = model.ZZNewBase(b, c)
	w.m = m
	s := &Server{batchSize: cfg.Batch, status: llm.ServerStatusReady, model: m, parallel: cfg.Slots}
	s.cond = mcsync.NewCond(&s.mu)
	var err error
	s.cache, err = NewInputCache(m, "", int32(cfg.NumCtx*cfg.Slots), cfg.Slots, cfg.Batch, cfg.MultiUser)
	if err != nil {
		panic(err)
	}
	s.seqs = make([]*Sequence, cfg.Slots)
	s.seqsSem = mcsem.NewWeighted(int64(cfg.Slots))
	w.s = s
	return w
}

func (w *zrWorld) submit(spec zrReq) *zrRun {
	opts := api.DefaultOptions()
	opts.NumPredict = spec.NumPredict
	opts.NumKeep = spec.NumKeep
	opts.Stop = spec.Stop
	opts.Temperature = 0
	body, _ := json.Marshal(llm.CompletionRequest{Prompt: spec.Prompt, Options: &opts})
	ctx, cancel := gocontext.WithCancel(gocontext.Background())
	req := httptest.NewRequest("POST", "/completion", bytes.NewReader(body)).WithContext(ctx)
	run := &zrRun{spec: spec, rec: httptest.NewRecorder(), cancel: cancel, id: len(w.runs)}
	w.runs = append(w.runs, run)
	mcrt.GoNamed(fmt.Sprintf("req%d", run.id), func() {
		w.s.completion(run.rec, req)
		run.returned = true
	})
	return run
}

type zrResult struct {
	Text   string
	Pieces []string
	Done   bool
	Reason llm.DoneReason
	Eval   int
	Status int
	Raw    string
}

func (r *zrRun) result() zrResult {
	res := zrResult{Status: r.rec.Code, Raw: r.rec.Body.String()}
	dec := json.NewDecoder(strings.NewReader(res.Raw))
	for {
		var cr llm.CompletionResponse
		if err := dec.Decode(&cr); err != nil {
			break
		}
		if cr.Done {
			res.Done = true
			res.Reason = cr.DoneReason
			res.Eval = cr.EvalCount
		} else {
			res.Text += cr.Content
			res.Pieces = append(res.Pieces, cr.Content)
		}
	}
	return res
}

func (w *zrWorld) active() bool {
	for _, sq := range w.s.seqs {
		if sq != nil {
			return true
		}
	}
	return false
}

// checkSlots: M2 — a slot in use belongs to exactly one active request
func (w *zrWorld) checkSlots() {
	owners := map[int]int{}
	for _, sq := range w.s.seqs {
		if sq == nil {
			continue
		}
		owners[sq.cache.Id]++
		if !sq.cache.InUse {
			mcrt.Fail("C07: slot %d is used by an active request but not marked in use", sq.cache.Id)
		}
	}
	inUse := 0
	for i := range w.s.cache.slots {
		sl := &w.s.cache.slots[i]
		if sl.InUse {
			inUse++
		}
		if owners[sl.Id] > 1 {
			mcrt.Fail("C07: slot %d is given to %d requests at the same time", sl.Id, owners[sl.Id])
		}
		if int32(len(sl.Inputs)) > w.s.cache.numCtx {
			mcrt.Fail("C07: slot %d records %d inputs, more than the context size %d", sl.Id, len(sl.Inputs), w.s.cache.numCtx)
		}
	}
	if inUse != len(owners) {
		mcrt.Fail("C07: %d slots are marked in use but %d are owned by active requests", inUse, len(owners))
	}
}

// step runs one batch; an error from processBatch makes the real run loop panic (the runner process dies)
func (w *zrWorld) step() bool {
	if w.dead {
		return false
	}
	if err := w.s.processBatch(); err != nil {
		mcrt.Fail("C07: processBatch failed (the runner's run loop panics on this): %v", err)
		w.dead = true
		return false
	}
	return true
}

func (w *zrWorld) drain() {
	if w.dead {
		return
	}
	for i := 0; i < 200 && w.active() && !w.dead; i++ {
		mcrt.Sleep(gotime.Millisecond)
		if !w.step() {
			return
		}
		mcrt.WaitIdle(false)
		w.checkSlots()
	}
	if w.active() {
		mcrt.Fail("C07: requests still active after 200 batches")
	}
}

// ---- C07 -----------------------------------------------------------------------------

var zrPiecesC07 = []string{"", "x", "y", "z"}

var zrMenu = []zrReq{
	{Prompt: "xy", NumPredict: 2, NumKeep: 0},
	{Prompt: "xyx", NumPredict: 4, NumKeep: 1},
	{Prompt: "xyxy", NumPredict: 1, NumKeep: -1},
	{Prompt: "y", NumPredict: 4, NumKeep: 0},
	{Prompt: "xyxyxyx", NumPredict: 2, NumKeep: 1},
	{Prompt: "xy", NumPredict: 3, NumKeep: 0, Stop: []string{"y"}},
	// every pair of generated tokens is a stop sequence: the first token is held back and decoded, the second
	// completes the stop, both are cut from the record - a decoded token stays in the cache beyond the recorded inputs
	{Prompt: "xy", NumPredict: 4, NumKeep: 0, Stop: []string{"xx", "xy", "xz", "yx", "yy", "yz", "zx", "zy", "zz"}},
}

// zrAlone: what a fresh runner of the same configuration generates for spec (memoised per process)
var zrAloneMemo = map[string]zrResult{}

func zrAlone(cfg zrConfig, spec zrReq) zrResult {
	one := cfg
	one.Slots = 1
	one.MultiUser = false
	key := fmt.Sprint(one, spec)
	if r, ok := zrAloneMemo[key]; ok {
		return r
	}
	if mcrt.Active() {
		panic("zrAlone: reference not precomputed for " + key)
	}
	var res zrResult
	ch := &zrDefaultChooser{}
	mr := mcrt.Run(ch, mcrt.Config{MaxSteps: 100000}, func() {
		w := zrNewWorld(one, zrPiecesC07)
		run := w.submit(spec)
		mcrt.WaitIdle(false)
		w.drain()
		mcrt.WaitIdle(false)
		res = run.result()
	})
	if len(mr.Panics) > 0 {
		res.Raw = "PANIC " + mr.Panics[0].Value
	}
	// failures of the reference run itself (e.g. a known M1 defect on this path) make the comparison meaningless
	if len(mr.Failures) > 0 {
		res.Raw = "REFERENCE-FAILED " + mr.Failures[0]
	}
	zrAloneMemo[key] = res
	return res
}

type zrDefaultChooser struct{}

func (*zrDefaultChooser) Pick(kind string, opts []mcrt.Option) int { return 0 }
func (*zrDefaultChooser) Visit(k mcrt.Key) bool                    { return true }

type zrC07Scenario struct {
	Cfg       zrConfig `json:"config"`
	MaxEvents int      `json:"max_events"`
	MaxReqs   int      `json:"max_reqs"`
	Menu      []int    `json:"menu"`
}

func zrC07Body(sc zrC07Scenario) func() {
	return func() {
		w := zrNewWorld(sc.Cfg, zrPiecesC07)
		for ev := 0; ev < sc.MaxEvents; ev++ {
			mcrt.Sleep(gotime.Millisecond)
			labels := []string{"end"}
			var acts []func()
			acts = append(acts, nil)
			if w.active() {
				labels = append(labels, "batch")
				acts = append(acts, func() { w.step() })
			}
			if len(w.runs) < sc.MaxReqs {
				for _, mi := range sc.Menu {
					spec := zrMenu[mi]
					labels = append(labels, fmt.Sprintf("submit %q np=%d keep=%d stop=%v", spec.Prompt, spec.NumPredict, spec.NumKeep, spec.Stop))
					acts = append(acts, func() { w.submit(spec) })
				}
			}
			for _, run := range w.runs {
				run := run
				if !run.returned && !run.cancelled {
					labels = append(labels, fmt.Sprintf("cancel req%d", run.id))
					acts = append(acts, func() { run.cancelled = true; run.cancel() })
				}
			}
			c := mcrt.Choose(mcrt.Free, "event", labels...)
			if c == 0 {
				break
			}
			mcrt.Observe("%s", labels[c])
			acts[c]()
			if w.dead {
				return
			}
			mcrt.WaitIdle(false)
			w.checkSlots()
		}
		w.drain()
		if w.dead {
			return
		}
		mcrt.WaitIdle(false)
		// end state: every request returned, every slot free, all slots of the semaphore available
		for _, run := range w.runs {
			if !run.returned {
				mcrt.Fail("C07: request %d never returned", run.id)
				continue
			}
			res := run.result()
			mcrt.Observe("req%d -> %q done=%v reason=%v", run.id, res.Text, res.Done, res.Reason)
			if run.cancelled {
				continue
			}
			if res.Status != 200 || !res.Done {
				mcrt.Fail("C07: request %d (%q) ended with status %d done=%v: %s", run.id, run.spec.Prompt, res.Status, res.Done, strings.TrimSpace(res.Raw))
				continue
			}
			// M3: same tokens as a fresh runner with an empty cache
			alone := zrAlone(sc.Cfg, run.spec)
			if strings.HasPrefix(alone.Raw, "REFERENCE-FAILED") || strings.HasPrefix(alone.Raw, "PANIC") {
				continue
			}
			if alone.Text != res.Text || alone.Reason != res.Reason {
				mcrt.Fail("C07: M3 request %d (%q np=%d keep=%d) generated %q (%v) but a fresh runner generates %q (%v)", run.id, run.spec.Prompt, run.spec.NumPredict, run.spec.NumKeep, res.Text, res.Reason, alone.Text, alone.Reason)
			}
		}
		for i := range w.s.cache.slots {
			if w.s.cache.slots[i].InUse {
				mcrt.Fail("C07: slot %d still marked in use after all requests ended", i)
			}
		}
		if !w.s.seqsSem.TryAcquire(int64(sc.Cfg.Slots)) {
			mcrt.Fail("C07: not all %d sequence permits were returned", sc.Cfg.Slots)
		}
	}
}

type zrReplay struct {
	Kind    string         `json:"kind"`
	C07     *zrC07Scenario `json:"c07,omitempty"`
	C14     *zrC14Case     `json:"c14,omitempty"`
	Choices string         `json:"choices"`
}

func zrConfigs(thorough bool) []zrConfig {
	var l []zrConfig
	ctxs := []int{3, 4}
	batches := []int{1, 2}
	if thorough {
		ctxs = []int{3, 4, 6}
		batches = []int{1, 2, 3}
	}
	for _, slots := range []int{1, 2} {
		for _, nc := range ctxs {
			for _, b := range batches {
				for _, mu := range []bool{false, true} {
					if slots == 1 && mu && !thorough {
						continue
					}
					for _, ck := range []string{"causal", "noshift", "swa2"} {
						l = append(l, zrConfig{Slots: slots, NumCtx: nc, Batch: b, MultiUser: mu, Cache: ck})
					}
				}
			}
		}
	}
	return l
}

func zrSignature(prop, msg string) string {
	// failure class: the message without numbers, quoted strings and bracketed lists, cut to a fixed length
	s := strings.TrimPrefix(msg, prop+": ")
	var b strings.Builder
	depth := 0
	inq := false
	for _, c := range s {
		switch {
		case c == '"':
			inq = !inq
		case inq:
		case c == '[' || c == '(' || c == '{':
			depth++
		case c == ']' || c == ')' || c == '}':
			if depth > 0 {
				depth--
			}
		case depth > 0:
		case c >= '0' && c <= '9':
		default:
			b.WriteRune(c)
		}
	}
	out := strings.Join(strings.Fields(b.String()), " ")
	if len(out) > 100 {
		out = out[:100]
	}
	return out
}

func ZZVerifC07() {
	r := evid.Start("C07", "model_checking")
	thorough := evid.Thorough()
	if p := evid.ReplayPath(); p != "" {
		zrReplayFile(p, "C07")
		return
	}
	cfgs := zrConfigs(thorough)
	maxEvents, maxReqs := 5, 2
	menu := []int{0, 1, 2, 3, 4, 5, 6}
	if thorough {
		maxEvents, maxReqs = 7, 3
	}
	budget := 200 * gotime.Second
	if thorough {
		budget = 18 * gotime.Minute
	}
	deadline := gotime.Now().Add(budget)
	items := make([]string, len(cfgs))
	for i := range cfgs {
		items[i] = fmt.Sprint(i)
	}
	r.Fanout(items, evid.FanoutOpts{Env: []string{"GOMAXPROCS=2"}, MemLimitMB: 4096}, func(item string, sub *evid.Run) {
		var ci int
		fmt.Sscan(item, &ci)
		sc := zrC07Scenario{Cfg: cfgs[ci], MaxEvents: maxEvents, MaxReqs: maxReqs, Menu: menu}
		for _, mi := range menu {
			zrAlone(sc.Cfg, zrMenu[mi]) // reference outputs, computed outside any execution
		}
		x := &mcrt.Explorer{Body: zrC07Body(sc), Cfg: mcrt.Config{MaxSteps: 200000}, Deadline: deadline, NoCache: true}
		x.OnExec = func(choices []int, res *mcrt.Result) {
			key := fmt.Sprint(ci) + "\n" + strings.Join(res.Log, "\n")
			if sub.Distinct("outcome", key) {
				n := 0
				for _, l := range res.Log {
					if strings.HasPrefix(l, "submit") {
						n++
					}
				}
				if n >= 2 {
					sub.Distinct("nontrivial", key)
				}
				if sub.WantSample() {
					sub.Sample(map[string]any{"config": sc.Cfg, "log": res.Log})
				} else {
					sub.Sample(nil)
				}
			}
			var fails []string
			for _, f := range res.Failures {
				if strings.HasPrefix(f, "C07:") {
					fails = append(fails, f)
				}
			}
			for _, p := range res.Panics {
				fails = append(fails, "C07: panic in "+p.Thread+": "+p.Value)
			}
			if len(fails) == 0 {
				return
			}
			if !x.Confirm(choices, res, 5) {
				sub.Extra("machinery_errors", []string{"nondeterministic replay: " + fmt.Sprint(sc.Cfg) + " " + mcrt.EncodeChoices(choices)})
				return
			}
			sig := "C07/" + zrSignature("C07", fails[0]) + "/" + sc.Cfg.Cache
			js, _ := json.Marshal(sc.Cfg)
			sub.Violation(sig, fmt.Sprintf("%s\nconfig %s\nevents:\n  %s", strings.Join(fails, "\n"), js, strings.Join(res.Log, "\n  ")),
				zrReplay{Kind: "c07", C07: &sc, Choices: mcrt.EncodeChoices(choices)})
		}
		x.Explore(nil)
		sub.Add("evaluations", x.Execs)
		sub.Add("traces_validated_against_impl", x.Execs)
		sub.Add("transitions", x.Transitions)
		for k := range x.States {
			sub.DistinctH("state", k.A^k.B^k.Cur)
		}
		if x.Stopped {
			sub.NotExhaustive(fmt.Sprintf("time budget reached in config %v", sc.Cfg))
		}
	})
	r.Rule(fmt.Sprintf("every history of up to %d events (submit one of %d request kinds, run one batch, cancel a request; at most %d requests) followed by a drain, for every runner configuration (slots, context size, batch size, single/multi-user slot policy, cache with shift / without shift / sliding window), executed on the real ollamarunner.Server + InputCache + kvcache with a scripted model whose next token is a function of the history the cache exposes; non-trivial = distinct event logs with at least two requests", maxEvents, len(menu), maxReqs))
	r.Extra("bounds", map[string]any{"max_events": maxEvents, "max_requests": maxReqs, "configs": len(cfgs), "menu": zrMenu})
	r.Assume("batches are serialised with request admission by the server mutex, so events are explored at the granularity submit / one processBatch / cancel (the run loop is a plain for-loop around processBatch)",
		"runner/llamarunner (cgo llama.cpp context) is outside the explored scope",
		"a fresh runner = same configuration with one slot, the request alone")
	r.Finish()
}

func zrReplayFile(p, prop string) {
	var rp zrReplay
	if err := evid.LoadReplay(p, &rp); err != nil {
		fmt.Println("replay:", err)
		os.Exit(2)
	}
	var body func()
	if rp.Kind == "c07" {
		for _, mi := range rp.C07.Menu {
			zrAlone(rp.C07.Cfg, zrMenu[mi])
		}
		body = zrC07Body(*rp.C07)
		js, _ := json.Marshal(rp.C07)
		fmt.Printf("scenario %s\n", js)
	} else {
		body = zrC14Body(*rp.C14)
		js, _ := json.Marshal(rp.C14)
		fmt.Printf("case %s\n", js)
	}
	x := &mcrt.Explorer{Body: body, Cfg: mcrt.Config{MaxSteps: 200000}, NoCache: true}
	res, labels := x.Replay(mcrt.DecodeChoices(rp.Choices))
	for _, l := range labels {
		fmt.Println("  choice", l)
	}
	for _, l := range res.Log {
		fmt.Println("  #", l)
	}
	bad := false
	for _, f := range res.Failures {
		if strings.HasPrefix(f, prop+":") {
			fmt.Println("FAILS:", f)
			bad = true
		}
	}
	for _, pn := range res.Panics {
		fmt.Println("PANIC:", pn.Value, "\n", pn.Stack)
		bad = true
	}
	if bad {
		os.Exit(1)
	}
	fmt.Println("holds on this execution")
	os.Exit(0)
}

var _ = http.StatusOK
