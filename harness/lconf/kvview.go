// Mounted by the lconf harness overlay INTO package github.com/ollama/ollama/llama
// as llama/zz_verif_kvview.go. It adds read-only observers of the real llama.cpp
// KV cache to the cgo binding; nothing here changes what the binding does.
//
//   - ZZKvView: the cache as shown by llama.h's debugging API
//     (llama_kv_cache_view_init / _update / _free).
//   - ZZKvRaw: the llama_kv_cell array itself (pos, delta, seq_id set) plus the
//     bookkeeping fields head / used / has_shift / do_defrag, read by the C++
//     helper zz_verif_kvraw.cpp straight out of llama_kv_cache_unified.
//
// The #cgo flags (include paths) come from llama.go; they apply to the whole
// package.
package llama

/*
#include <stdlib.h>
#include <stdint.h>
#include "llama.h"

// implemented in zz_verif_kvraw.cpp
int32_t zz_verif_kv_raw(struct llama_context * ctx, int32_t n_cells_max, int32_t n_seq_max,
                        int32_t * pos, int32_t * delta, int32_t * n_seq, int32_t * seqs, int32_t * info);
int32_t zz_verif_kv_reset_fresh(struct llama_context * ctx);
*/
import "C"

import "unsafe"

// ZZCell is one KV cell: its position and the (sorted) sequence ids that hold it.
type ZZCell struct {
	Pos   int
	Delta int // only filled by ZZKvRaw: the not yet applied K-shift of the cell
	Seqs  []int
}

// ZZKvViewInfo is the content of struct llama_kv_cache_view after an update.
type ZZKvViewInfo struct {
	NCells           int
	TokenCount       int
	UsedCells        int
	MaxContiguous    int
	MaxContiguousIdx int
	Cells            []ZZCell // all n_cells cells, physical order; an unpopulated cell has no Seqs
}

// ZZKvView reads the cache through llama.h's kv-cache-view API. nSeqMax bounds the
// number of sequence ids reported per cell (llama_kv_cache_view.n_seq_max).
//
// NOTE (llama-kv-cache.cpp, llama_kv_cache_view_update): the view reports
// `cells[i].pos + cells[i].delta`, but seq_add has already added delta to pos, so
// between a seq_add and the next llama_kv_self_update/llama_decode the view shows
// every shifted cell shifted TWICE. With update=true llama_kv_self_update is called
// first: it applies the pending K-shift to the K data and zeroes the deltas (this is
// exactly what the next llama_decode would do first), after which the view shows
// the cell positions the cache really has. The cell meta data (pos, seq ids) is not
// touched by llama_kv_self_update unless a defrag was requested.
func (c *Context) ZZKvView(nSeqMax int, update bool) ZZKvViewInfo {
	if update {
		C.llama_kv_self_update(c.c)
	}
	v := C.llama_kv_cache_view_init(c.c, C.int32_t(nSeqMax))
	defer C.llama_kv_cache_view_free(&v)
	C.llama_kv_cache_view_update(c.c, &v)

	out := ZZKvViewInfo{
		NCells:           int(v.n_cells),
		TokenCount:       int(v.token_count),
		UsedCells:        int(v.used_cells),
		MaxContiguous:    int(v.max_contiguous),
		MaxContiguousIdx: int(v.max_contiguous_idx),
	}
	if v.cells == nil || v.cells_sequences == nil || out.NCells <= 0 {
		return out
	}
	cells := unsafe.Slice(v.cells, out.NCells)
	seqs := unsafe.Slice(v.cells_sequences, out.NCells*nSeqMax)
	out.Cells = make([]ZZCell, out.NCells)
	for i := range out.NCells {
		out.Cells[i].Pos = int(cells[i].pos)
		for j := range nSeqMax {
			if s := int(seqs[i*nSeqMax+j]); s >= 0 {
				out.Cells[i].Seqs = append(out.Cells[i].Seqs, s)
			}
		}
	}
	return out
}

// ZZKvCells is the short form asked for by the conformance harness: the populated and
// unpopulated cells of the real cache as seen through the llama.h view, after
// llama_kv_self_update.
func (c *Context) ZZKvCells(nSeqMax int) []ZZCell { return c.ZZKvView(nSeqMax, true).Cells }

// ZZKvRawInfo is llama_kv_cache_unified as it is in memory.
type ZZKvRawInfo struct {
	Size     int // number of cells (kv_size: n_ctx after padding)
	Head     int
	Used     int
	N        int
	HasShift bool
	DoDefrag bool
	Cells    []ZZCell
}

// ZZKvRaw reads the cell array directly (no llama.h API in between, nothing is modified).
func (c *Context) ZZKvRaw(nSeqMax int) ZZKvRawInfo {
	info := make([]C.int32_t, 8)
	maxCells := int(C.zz_verif_kv_raw(c.c, 0, C.int32_t(nSeqMax), nil, nil, nil, nil, &info[0]))
	if maxCells <= 0 {
		panic("zz_verif_kv_raw: the context has no unified kv cache")
	}
	pos := make([]C.int32_t, maxCells)
	delta := make([]C.int32_t, maxCells)
	nseq := make([]C.int32_t, maxCells)
	seqs := make([]C.int32_t, maxCells*nSeqMax)
	n := int(C.zz_verif_kv_raw(c.c, C.int32_t(maxCells), C.int32_t(nSeqMax), &pos[0], &delta[0], &nseq[0], &seqs[0], &info[0]))
	if n < 0 {
		panic("zz_verif_kv_raw: the context has no unified kv cache or it has more cells than the harness reads")
	}
	out := ZZKvRawInfo{Size: int(info[0]), Head: int(info[1]), Used: int(info[2]), N: int(info[3]),
		HasShift: info[4] != 0, DoDefrag: info[5] != 0, Cells: make([]ZZCell, n)}
	for i := range n {
		out.Cells[i].Pos = int(pos[i])
		out.Cells[i].Delta = int(delta[i])
		k := int(nseq[i])
		if k > nSeqMax {
			panic("zz_verif_kv_raw: a cell holds more sequence ids than nSeqMax")
		}
		for j := range k {
			out.Cells[i].Seqs = append(out.Cells[i].Seqs, int(seqs[i*nSeqMax+j]))
		}
	}
	return out
}

func (c *Context) ZZKvUsedCells() int { return int(C.llama_kv_self_used_cells(c.c)) }
func (c *Context) ZZKvNTokens() int   { return int(C.llama_kv_self_n_tokens(c.c)) }

// ZZKvSeqPosMax: llama_kv_self_seq_pos_max (0 for a sequence that holds nothing).
func (c *Context) ZZKvSeqPosMax(seq int) int {
	return int(C.llama_kv_self_seq_pos_max(c.c, C.llama_seq_id(seq)))
}

// ZZKvResetFresh empties the cache and also drops what llama_kv_self_clear leaves behind (per-cell delta,
// has_shift, do_defrag), so that the context is in the state of a newly created one.
func (c *Context) ZZKvResetFresh() {
	if C.zz_verif_kv_reset_fresh(c.c) != 0 {
		panic("zz_verif_kv_reset_fresh: the context has no unified kv cache")
	}
}
func (c *Context) ZZKvUpdate()    { C.llama_kv_self_update(c.c) }
func (c *Context) ZZNCtx() int    { return int(C.llama_n_ctx(c.c)) }
func (c *Context) ZZNBatch() int  { return int(C.llama_n_batch(c.c)) }
func (c *Context) ZZNUBatch() int { return int(C.llama_n_ubatch(c.c)) }
func (c *Context) ZZNSeqMax() int { return int(C.llama_n_seq_max(c.c)) }
func ZZFreeContext(c *Context)    { C.llama_free(c.c) }
