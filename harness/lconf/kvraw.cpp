// Mounted by the lconf harness overlay into package github.com/ollama/ollama/llama as
// llama/zz_verif_kvraw.cpp (next to sampling_ext.cpp, compiled by cgo with the include
// paths of llama.go). Read-only access to llama_kv_cache_unified for the conformance
// check of the fakellama model: the cell array exactly as llama.cpp keeps it.

#include "llama-context.h"
#include "llama-kv-cache.h"

#include <cstdint>

extern "C" int32_t zz_verif_kv_raw(struct llama_context * ctx, int32_t n_cells_max, int32_t n_seq_max,
                                   int32_t * pos, int32_t * delta, int32_t * n_seq, int32_t * seqs, int32_t * info) {
    const llama_kv_cache * kvb = ctx->get_kv_self();
    const llama_kv_cache_unified * kv = dynamic_cast<const llama_kv_cache_unified *>(kvb);
    if (kv == nullptr) {
        return -1;
    }
    if (pos == nullptr) {
        return (int32_t) kv->size; // size query
    }
    if ((int64_t) kv->size > (int64_t) n_cells_max) {
        return -2;
    }
    info[0] = (int32_t) kv->size;
    info[1] = (int32_t) kv->head;
    info[2] = (int32_t) kv->used;
    info[3] = (int32_t) kv->n;
    info[4] = kv->has_shift ? 1 : 0;
    info[5] = kv->do_defrag ? 1 : 0;
    info[6] = kv->recurrent ? 1 : 0;
    info[7] = kv->can_shift ? 1 : 0;
    for (uint32_t i = 0; i < kv->size; ++i) {
        const llama_kv_cell & c = kv->cells[i];
        pos[i]   = c.pos;
        delta[i] = c.delta;
        n_seq[i] = (int32_t) c.seq_id.size();
        int32_t j = 0;
        for (const llama_seq_id s : c.seq_id) { // std::set: ascending
            if (j < n_seq_max) {
                seqs[(int64_t) i*n_seq_max + j] = s;
            }
            j++;
        }
    }
    return (int32_t) kv->size;
}

// Puts the cache into the state of a freshly created context: clear() leaves delta, has_shift and
// do_defrag behind (do_defrag even survives llama_kv_self_update when there is nothing to move), and the
// harness replays every operation sequence from the initial state on a context it re-uses.
extern "C" int32_t zz_verif_kv_reset_fresh(struct llama_context * ctx) {
    llama_kv_cache_unified * kv = dynamic_cast<llama_kv_cache_unified *>(ctx->get_kv_self());
    if (kv == nullptr) {
        return -1;
    }
    kv->clear();
    for (uint32_t i = 0; i < kv->size; ++i) {
        kv->cells[i].delta = 0;
    }
    kv->has_shift = false;
    kv->do_defrag = false;
    return 0;
}
