// lconf: conformance of the fakellama KV-cache model (engine/fakellama) to the REAL
// llama.cpp unified KV cache, reached through the real cgo binding
// github.com/ollama/ollama/llama.
//
// The program writes a tiny llama-architecture GGUF model into scratch, loads it with
// the real library (CPU), and then runs an explicit-state search: ALL operation
// sequences over a small alphabet (Decode / KvCacheSeqRm / KvCacheSeqCp /
// KvCacheSeqAdd on 2-3 sequence ids) up to a depth bound are executed on a real
// llama.Context and on a fakellama Context side by side; after every operation the
// results and the complete cell content are compared. See NOTES.md.
//
// Built by `vx build lconf` as github.com/ollama/ollama/zzverif/cmd/lconf (overlay;
// /repo is not modified); run as part "llamacpp-conformance" of check C07.
package main

import (
	"encoding/binary"
	"encoding/json"
	"errors"
	"fmt"
	"io"
	"math"
	"os"
	"path/filepath"
	"runtime"
	"sort"
	"strconv"
	"strings"
	"sync"
	"time"

	"github.com/ollama/ollama/fs/ggml"
	"github.com/ollama/ollama/llama"
	"github.com/ollama/ollama/zzverif/evid"
	fake "github.com/ollama/ollama/zzverif/fakellama"
)

// ---- tiny model -------------------------------------------------------------------------------

const (
	tmEmbd  = 32
	tmHead  = 2
	tmFF    = 64
	tmLayer = 1
	tmCtx   = 64 // n_ctx_train
)

var tmTokens = []string{"<unk>", "<s>", "</s>", "<0x0A>", "a", "b", "c", "d"}

type f32s []float32

func (f f32s) WriteTo(w io.Writer) (int64, error) {
	b := make([]byte, 4*len(f))
	for i, v := range f {
		binary.LittleEndian.PutUint32(b[4*i:], math.Float32bits(v))
	}
	n, err := w.Write(b)
	return int64(n), err
}

// weights: small deterministic values; norm weights are 1.
func tmWeights(n int, salt int) f32s {
	w := make(f32s, n)
	for i := range w {
		w[i] = 0.02 * float32((i*7+salt*3)%13-6)
	}
	return w
}

func tmOnes(n int) f32s {
	w := make(f32s, n)
	for i := range w {
		w[i] = 1
	}
	return w
}

// writeTinyModel writes a 1-layer llama-architecture GGUF (all tensors F32) that llama.cpp loads and
// evaluates on CPU. ggml.Tensor.Shape is outermost-first (WriteGGUF reverses it into ggml's ne[]).
func writeTinyModel(path string) error {
	nVocab := len(tmTokens)
	kv := ggml.KV{
		"general.architecture":                   "llama",
		"general.name":                           "lconf-tiny",
		"llama.block_count":                      uint32(tmLayer),
		"llama.context_length":                   uint32(tmCtx),
		"llama.embedding_length":                 uint32(tmEmbd),
		"llama.feed_forward_length":              uint32(tmFF),
		"llama.attention.head_count":             uint32(tmHead),
		"llama.attention.head_count_kv":          uint32(tmHead),
		"llama.attention.layer_norm_rms_epsilon": float32(1e-5),
		"llama.rope.dimension_count":             uint32(tmEmbd / tmHead),
		"llama.rope.freq_base":                   float32(10000),
		"llama.vocab_size":                       uint32(nVocab),
		"tokenizer.ggml.model":                   "llama",
		"tokenizer.ggml.tokens":                  tmTokens,
		"tokenizer.ggml.scores":                  []float32{0, 0, 0, 0, -1, -2, -3, -4},
		"tokenizer.ggml.token_type":              []int32{2, 3, 3, 6, 1, 1, 1, 1}, // unknown, control, control, byte, normal...
		"tokenizer.ggml.bos_token_id":            uint32(1),
		"tokenizer.ggml.eos_token_id":            uint32(2),
		"tokenizer.ggml.unknown_token_id":        uint32(0),
		"tokenizer.ggml.add_bos_token":           false,
		"tokenizer.ggml.add_eos_token":           false,
	}
	t := func(name string, data f32s, shape ...uint64) ggml.Tensor {
		n := uint64(1)
		for _, s := range shape {
			n *= s
		}
		if n != uint64(len(data)) {
			panic("tensor " + name + ": shape/data mismatch")
		}
		return ggml.Tensor{Name: name, Kind: 0 /* F32 */, Shape: shape, WriterTo: data}
	}
	V, E, F := uint64(nVocab), uint64(tmEmbd), uint64(tmFF)
	ts := []ggml.Tensor{
		t("token_embd.weight", tmWeights(nVocab*tmEmbd, 1), V, E),
		t("output_norm.weight", tmOnes(tmEmbd), E),
		t("output.weight", tmWeights(nVocab*tmEmbd, 2), V, E),
		t("blk.0.attn_norm.weight", tmOnes(tmEmbd), E),
		t("blk.0.attn_q.weight", tmWeights(tmEmbd*tmEmbd, 3), E, E),
		t("blk.0.attn_k.weight", tmWeights(tmEmbd*tmEmbd, 4), E, E),
		t("blk.0.attn_v.weight", tmWeights(tmEmbd*tmEmbd, 5), E, E),
		t("blk.0.attn_output.weight", tmWeights(tmEmbd*tmEmbd, 6), E, E),
		t("blk.0.ffn_norm.weight", tmOnes(tmEmbd), E),
		t("blk.0.ffn_gate.weight", tmWeights(tmFF*tmEmbd, 7), F, E),
		t("blk.0.ffn_up.weight", tmWeights(tmFF*tmEmbd, 8), F, E),
		t("blk.0.ffn_down.weight", tmWeights(tmFF*tmEmbd, 9), E, F),
	}
	f, err := os.Create(path)
	if err != nil {
		return err
	}
	if err := ggml.WriteGGUF(f, kv, ts); err != nil {
		f.Close()
		return err
	}
	return f.Close()
}

// ---- operations -------------------------------------------------------------------------------

// Op is one operation of the alphabet.
//
//	dec: Decode of B tokens for sequence A at its next positions (1 + max position A holds in the model, or 0)
//	rm : KvCacheSeqRm(A, B, C)
//	cp : KvCacheSeqCp(A, B, C, D)
//	add: KvCacheSeqAdd(A, B, C, D)
type Op struct {
	K string `json:"k"`
	A int    `json:"a"`
	B int    `json:"b"`
	C int    `json:"c,omitempty"`
	D int    `json:"d,omitempty"`
}

func (o Op) String() string {
	switch o.K {
	case "dec":
		return fmt.Sprintf("Decode(seq=%d,k=%d)", o.A, o.B)
	case "rm":
		return fmt.Sprintf("SeqRm(%d,%d,%d)", o.A, o.B, o.C)
	case "cp":
		return fmt.Sprintf("SeqCp(%d,%d,%d,%d)", o.A, o.B, o.C, o.D)
	case "add":
		return fmt.Sprintf("SeqAdd(%d,%d,%d,%d)", o.A, o.B, o.C, o.D)
	}
	return "?" + o.K
}

func opsString(ops []Op) string {
	l := make([]string, len(ops))
	for i, o := range ops {
		l[i] = o.String()
	}
	return strings.Join(l, "; ")
}

// alphabet over sequence ids 0..nSeq-1.
func alphabet(nSeq int) []Op {
	var ops []Op
	for s := 0; s < nSeq; s++ {
		for _, k := range []int{1, 2} {
			ops = append(ops, Op{K: "dec", A: s, B: k})
		}
	}
	for s := 0; s < nSeq; s++ {
		for _, p := range [][2]int{{0, -1}, {1, -1}, {1, 2}, {2, 4}, {-1, 1}} {
			ops = append(ops, Op{K: "rm", A: s, B: p[0], C: p[1]})
		}
	}
	// seq_id < 0: "any sequence" (not used by the runner, but the model implements it)
	ops = append(ops, Op{K: "rm", A: -1, B: 1, C: 2})
	for a := 0; a < nSeq; a++ {
		for b := 0; b < nSeq; b++ {
			if a == b {
				continue
			}
			for _, p := range []int{-1, 1, 2} {
				ops = append(ops, Op{K: "cp", A: a, B: b, C: 0, D: p})
			}
		}
	}
	for s := 0; s < nSeq; s++ {
		// (keep+discard, len, -discard) as ShiftCacheSlot calls it, open and closed ranges; (0,2,-1) is the one
		// shape that pushes a position below 0 (llama.cpp then frees the cell for ALL its sequences)
		for _, p := range [][3]int{{2, -1, -1}, {2, 4, -1}, {1, 3, -1}, {3, -1, -2}, {0, 2, -1}} {
			ops = append(ops, Op{K: "add", A: s, B: p[0], C: p[1], D: p[2]})
		}
	}
	return ops
}

// ---- configuration ----------------------------------------------------------------------------

// Config is one search: initial state, alphabet size, depth, how the real cache is observed.
type Config struct {
	Name  string `json:"name"`
	NCtx  int    `json:"n_ctx"` // as passed to llama.NewContextParams; llama.cpp pads it (GGML_PAD(n_ctx, 32))
	NSeq  int    `json:"n_seq"`
	Depth int    `json:"depth"`
	// Prefill > 0: before the search a filler sequence (id fillerSeq) is decoded at positions
	// 0..Prefill-1 (one batch), then the positions in Holes are removed again: the search starts
	// from a nearly full, fragmented cache so that "no KV slot" and the defrag-and-retry path of
	// llama_decode are reachable within the depth bound.
	Prefill int   `json:"prefill,omitempty"`
	Holes   []int `json:"holes,omitempty"`
	// UpdateEachStep: call llama_kv_self_update after every operation and compare the llama.h
	// kv-cache-view dump (instead of only the raw cell array) with the model.
	UpdateEachStep bool `json:"update_each_step,omitempty"`
}

const (
	nSeqMax   = 4 // n_seq_max of the context, of the batches and of the kv view
	fillerSeq = 3
	batchSize = 64
)

// ---- a real context and a model context side by side --------------------------------------------

type pair struct {
	cfg    Config
	lm     *llama.Model
	lc     *llama.Context
	lb     *llama.Batch
	fm     *fake.Model
	fc     *fake.Context
	size   int // number of cells of the real cache
	nOps   int64
	nFull  int64 // Decode refused with ErrKvCacheFull by both sides
	nMoved int64 // successful real Decode that moved existing cells (llama_decode's defrag-and-retry)
}

func newPair(modelPath string, cfg Config) (*pair, error) {
	lm, err := llama.LoadModelFromFile(modelPath, llama.ModelParams{UseMmap: false})
	if err != nil {
		return nil, err
	}
	lc, err := llama.NewContextWithModel(lm, llama.NewContextParams(cfg.NCtx, batchSize, nSeqMax, 1, false, ""))
	if err != nil {
		return nil, err
	}
	lb, err := llama.NewBatch(batchSize, nSeqMax, 0)
	if err != nil {
		return nil, err
	}
	p := &pair{cfg: cfg, lm: lm, lc: lc, lb: lb}
	p.size = lc.ZZKvRaw(nSeqMax).Size
	p.fm = &fake.Model{Pieces: append([]string{}, tmTokens...)}
	// the model gets as many cells as the real cache really has (n_ctx after llama.cpp's padding)
	p.fc, _ = fake.NewContextWithModel(p.fm, fake.NewContextParams(p.size, batchSize, nSeqMax, 1, false, ""))
	return p, nil
}

// close frees the real context (about 27 MB each: llama.cpp reserves graph meta data for 65536 nodes), batch and model.
func (p *pair) close() {
	p.lb.Free()
	llama.ZZFreeContext(p.lc)
	llama.FreeModel(p.lm)
	p.lc, p.lm, p.lb = nil, nil, nil
}

var pools = map[int][]*pair{}

// pairPool returns n pairs for cfg, creating real contexts only when there are not yet enough for cfg.NCtx.
func pairPool(modelPath string, cfg Config, n int) ([]*pair, error) {
	l := pools[cfg.NCtx]
	for len(l) < n {
		p, err := newPair(modelPath, cfg)
		if err != nil {
			return nil, err
		}
		l = append(l, p)
	}
	pools[cfg.NCtx] = l
	for _, p := range l {
		p.cfg = cfg
		p.nOps, p.nFull, p.nMoved = 0, 0, 0
	}
	return l[:n], nil
}

// observation of the real cache after an operation
type obs struct {
	raw     llama.ZZKvRawInfo
	dump    string // canonical, same format as fakellama's Dump()
	key     string // physical layout + head + do_defrag: everything that decides the future of the cell meta data
	invalid string // a broken invariant of the real cache / of the debugging API, "" if none
	viewDmp string // canonical dump through the llama.h view after llama_kv_self_update ("" if not taken)
}

func canon(cells []llama.ZZCell) string {
	var l []string
	for _, c := range cells {
		if len(c.Seqs) > 0 {
			s := append([]int{}, c.Seqs...)
			sort.Ints(s)
			l = append(l, fmt.Sprintf("p%d%v", c.Pos, s))
		}
	}
	sort.Strings(l)
	return strings.Join(l, " ")
}

func layout(raw llama.ZZKvRawInfo) string {
	var sb strings.Builder
	last := -1
	for i, c := range raw.Cells {
		if len(c.Seqs) > 0 || c.Pos >= 0 {
			last = i
		}
	}
	for i := 0; i <= last; i++ {
		c := raw.Cells[i]
		if len(c.Seqs) == 0 && c.Pos < 0 {
			sb.WriteString("_ ")
			continue
		}
		fmt.Fprintf(&sb, "%d%v ", c.Pos, c.Seqs)
	}
	fmt.Fprintf(&sb, "| head=%d", raw.Head)
	if raw.DoDefrag {
		sb.WriteString(" defrag-pending")
	}
	return sb.String()
}

func (p *pair) observe() obs {
	var o obs
	if p.cfg.UpdateEachStep {
		v := p.lc.ZZKvView(nSeqMax, true)
		o.viewDmp = canon(v.Cells)
		if v.NCells != p.size {
			o.invalid = fmt.Sprintf("view.n_cells=%d, cache size=%d", v.NCells, p.size)
		}
	}
	o.raw = p.lc.ZZKvRaw(nSeqMax)
	o.dump = canon(o.raw.Cells)
	o.key = layout(o.raw)
	used, tokens := 0, 0
	for i, c := range o.raw.Cells {
		if len(c.Seqs) > 0 {
			used++
			tokens += len(c.Seqs)
			if c.Pos < 0 && o.invalid == "" {
				o.invalid = fmt.Sprintf("cell %d has sequences %v but pos %d", i, c.Seqs, c.Pos)
			}
		} else if c.Pos >= 0 && o.invalid == "" {
			o.invalid = fmt.Sprintf("cell %d has no sequence but pos %d", i, c.Pos)
		}
	}
	if o.invalid == "" && (used != o.raw.Used || used != p.lc.ZZKvUsedCells()) {
		o.invalid = fmt.Sprintf("used: counted %d, kv.used %d, llama_kv_self_used_cells %d", used, o.raw.Used, p.lc.ZZKvUsedCells())
	}
	if o.invalid == "" && tokens != p.lc.ZZKvNTokens() {
		o.invalid = fmt.Sprintf("tokens: counted %d, llama_kv_self_n_tokens %d", tokens, p.lc.ZZKvNTokens())
	}
	// the llama.h view WITHOUT llama_kv_self_update: must be the raw cells with pos+delta (see kvview.go)
	if o.invalid == "" {
		v := p.lc.ZZKvView(nSeqMax, false)
		if v.NCells != len(o.raw.Cells) || v.UsedCells != used || v.TokenCount != tokens {
			o.invalid = fmt.Sprintf("view: n_cells %d used %d tokens %d, raw: %d %d %d", v.NCells, v.UsedCells, v.TokenCount, len(o.raw.Cells), used, tokens)
		} else {
			for i, c := range o.raw.Cells {
				if v.Cells[i].Pos != c.Pos+c.Delta || fmt.Sprint(v.Cells[i].Seqs) != fmt.Sprint(c.Seqs) {
					o.invalid = fmt.Sprintf("view cell %d = (pos %d, seqs %v), raw cell = (pos %d, delta %d, seqs %v)", i, v.Cells[i].Pos, v.Cells[i].Seqs, c.Pos, c.Delta, c.Seqs)
					break
				}
			}
		}
	}
	return o
}

func (p *pair) modelPosMax(seq int) int {
	m := -1
	for i := range p.fc.Cells {
		c := &p.fc.Cells[i]
		if c.Pos > m {
			for _, s := range c.Seqs {
				if s == seq {
					m = c.Pos
				}
			}
		}
	}
	return m
}

// short drops the cells held by the filler sequence alone from a canonical dump (messages only).
func short(dump string) string {
	var keep []string
	n := 0
	for _, f := range strings.Split(dump, " p") {
		if strings.HasSuffix(f, fmt.Sprintf("[%d]", fillerSeq)) {
			n++
			continue
		}
		keep = append(keep, f)
	}
	out := strings.Join(keep, " p")
	if out != "" && !strings.HasPrefix(out, "p") {
		out = "p" + out
	}
	if n > 0 {
		out += fmt.Sprintf(" (+%d cells of the filler sequence %d)", n, fillerSeq)
	}
	return strings.TrimSpace(out)
}

// diff is one disagreement between the real library and the model after an operation.
type diff struct {
	What string // rm-result | decode-full | decode-error | cells | view-cells | seq-pos-max | real-invariant
	Msg  string
}

func token(pos int) int { return 4 + pos%4 }

// exec executes op on both sides and compares the results of the calls (not the cells). quiet: part of a prefix
// that has been compared step by step before; nothing is counted.
func (p *pair) exec(op Op, quiet bool) (diffs []diff) {
	p.nOps++
	switch op.K {
	case "dec":
		next := p.modelPosMax(op.A) + 1
		p.lb.Clear()
		fb, _ := fake.NewBatch(batchSize, nSeqMax, 0)
		for i := 0; i < op.B; i++ {
			p.lb.Add(token(next+i), nil, next+i, i == op.B-1, op.A)
			fb.Add(token(next+i), nil, next+i, i == op.B-1, op.A)
		}
		var before llama.ZZKvRawInfo
		if !quiet {
			before = p.lc.ZZKvRaw(nSeqMax)
		}
		errR := p.lc.Decode(p.lb)
		errM := p.fc.Decode(fb)
		fullR, fullM := errors.Is(errR, llama.ErrKvCacheFull), errors.Is(errM, fake.ErrKvCacheFull)
		if fullR && fullM && !quiet {
			p.nFull++
		}
		if errR == nil && !quiet {
			after := p.lc.ZZKvRaw(nSeqMax)
			for i, c := range before.Cells {
				if len(c.Seqs) > 0 && (after.Cells[i].Pos != c.Pos || fmt.Sprint(after.Cells[i].Seqs) != fmt.Sprint(c.Seqs)) {
					p.nMoved++
					break
				}
			}
		}
		if errR != nil && !fullR {
			diffs = append(diffs, diff{"decode-error", fmt.Sprintf("real Decode failed with %v", errR)})
		} else if errM != nil && !fullM {
			diffs = append(diffs, diff{"decode-error", fmt.Sprintf("model Decode failed with %v", errM)})
		} else if fullR != fullM {
			diffs = append(diffs, diff{"decode-full", fmt.Sprintf("ErrKvCacheFull: real %v, model %v", fullR, fullM)})
		}
	case "rm":
		r, m := p.lc.KvCacheSeqRm(op.A, op.B, op.C), p.fc.KvCacheSeqRm(op.A, op.B, op.C)
		if r != m {
			diffs = append(diffs, diff{"rm-result", fmt.Sprintf("KvCacheSeqRm returned %v on the real cache, %v on the model", r, m)})
		}
	case "cp":
		p.lc.KvCacheSeqCp(op.A, op.B, op.C, op.D)
		p.fc.KvCacheSeqCp(op.A, op.B, op.C, op.D)
	case "add":
		p.lc.KvCacheSeqAdd(op.A, op.B, op.C, op.D)
		p.fc.KvCacheSeqAdd(op.A, op.B, op.C, op.D)
	default:
		panic("unknown op " + op.K)
	}
	if quiet && p.cfg.UpdateEachStep {
		p.lc.ZZKvUpdate() // what observe() does first in this configuration: keep the replayed trace identical
	}
	return diffs
}

// apply executes op on both sides and compares results and cells. o is the observation of the real cache afterwards.
func (p *pair) apply(op Op) (o obs, diffs []diff) {
	diffs = p.exec(op, false)
	o = p.observe()
	md := p.fc.Dump()
	if o.invalid != "" {
		diffs = append(diffs, diff{"real-invariant", o.invalid})
	}
	if o.dump != md {
		diffs = append(diffs, diff{"cells", fmt.Sprintf("real cells {%s}, model cells {%s}", short(o.dump), short(md))})
	}
	if p.cfg.UpdateEachStep && o.viewDmp != md {
		diffs = append(diffs, diff{"view-cells", fmt.Sprintf("llama_kv_cache_view after llama_kv_self_update {%s}, model cells {%s}", short(o.viewDmp), short(md))})
	}
	for s := 0; s < nSeqMax; s++ {
		// llama_kv_self_seq_pos_max starts from 0, not -1
		if r, m := p.lc.ZZKvSeqPosMax(s), max(p.modelPosMax(s), 0); r != m {
			diffs = append(diffs, diff{"seq-pos-max", fmt.Sprintf("llama_kv_self_seq_pos_max(%d) = %d, model %d", s, r, m)})
			break
		}
	}
	return o, diffs
}

// reset puts both sides into the initial state of the configuration.
func (p *pair) reset() (obs, error) {
	p.lc.ZZKvResetFresh()
	p.fc.KvCacheClear()
	if p.cfg.Prefill > 0 {
		p.lb.Clear()
		fb, _ := fake.NewBatch(batchSize, nSeqMax, 0)
		for i := 0; i < p.cfg.Prefill; i++ {
			p.lb.Add(token(i), nil, i, i == p.cfg.Prefill-1, fillerSeq)
			fb.Add(token(i), nil, i, i == p.cfg.Prefill-1, fillerSeq)
		}
		if err := p.lc.Decode(p.lb); err != nil {
			return obs{}, fmt.Errorf("prefill: real Decode: %v", err)
		}
		if err := p.fc.Decode(fb); err != nil {
			return obs{}, fmt.Errorf("prefill: model Decode: %v", err)
		}
		for _, h := range p.cfg.Holes {
			if r, m := p.lc.KvCacheSeqRm(fillerSeq, h, h+1), p.fc.KvCacheSeqRm(fillerSeq, h, h+1); !r || !m {
				return obs{}, fmt.Errorf("prefill: SeqRm(%d,%d,%d): real %v model %v", fillerSeq, h, h+1, r, m)
			}
		}
	}
	o := p.observe()
	if md := p.fc.Dump(); o.dump != md || o.invalid != "" {
		return o, fmt.Errorf("initial state: real {%s} model {%s} %s", o.dump, md, o.invalid)
	}
	return o, nil
}

// ---- known differences --------------------------------------------------------------------------
//
// A difference between model and real library that has been analysed and written up in NOTES.md is
// listed here with the exact condition under which it is expected; the search then reports it under
// "known_differences" (not as a violation) and does not expand the successor (the two sides are in
// different states there). Everything else is a violation. Currently: none.

func knownDifference(cfg Config, path []Op, op Op, d diff) string { return "" }

// ---- search ---------------------------------------------------------------------------------------

type node struct {
	path []Op
	key  string
}

type succ struct {
	key      string
	dump     string
	diffs    []diff
	known    []string
	replayKO string // the prefix did not reproduce the recorded state
	changed  bool
}

// runTrace: reset, replay path (checking that it reaches wantKey if non-empty), apply op.
func (p *pair) runTrace(path []Op, wantKey string, op Op) succ {
	cur, err := p.reset()
	if err != nil {
		return succ{replayKO: err.Error()}
	}
	if len(path) > 0 {
		// the prefix is itself a trace that was compared after every step when it was first executed; here it
		// is only re-executed, and must end in exactly the recorded state of the real cache (and of the model)
		for _, q := range path {
			if d := p.exec(q, true); len(d) > 0 {
				return succ{replayKO: fmt.Sprintf("prefix step %s now differs: %s", q, d[0].Msg)}
			}
		}
		cur = p.observe()
		if md := p.fc.Dump(); cur.dump != md || cur.invalid != "" {
			return succ{replayKO: fmt.Sprintf("prefix now ends in real {%s} model {%s} %s", cur.dump, md, cur.invalid)}
		}
	}
	if wantKey != "" && cur.key != wantKey {
		return succ{replayKO: fmt.Sprintf("prefix reached {%s}, recorded {%s}", cur.key, wantKey)}
	}
	o, diffs := p.apply(op)
	return succ{key: o.key, dump: o.dump, diffs: diffs, changed: o.key != cur.key}
}

func sigOf(op Op, what string) string { return "C07/conformance/" + op.K + "/" + what }

type replayCase struct {
	Config Config `json:"config"`
	Ops    []Op   `json:"ops"`
}

func search(r *evid.Run, modelPath string, cfg Config, workers int) map[string]any {
	t0 := time.Now()
	ops := alphabet(cfg.NSeq)
	// the contexts are re-used by all configurations with the same n_ctx (each costs ~27 MB)
	pairs, err := pairPool(modelPath, cfg, workers)
	if err != nil {
		r.Violation("C07/conformance/setup/"+cfg.Name, "cannot create the real context: "+err.Error(), nil)
		return nil
	}
	init0, err := pairs[0].reset()
	if err != nil {
		r.Violation("C07/conformance/setup/initial-state", fmt.Sprintf("[%s] %v", cfg.Name, err), replayCase{cfg, nil})
		return nil
	}
	seen := map[string]struct{}{init0.key: {}}
	canonSeen := map[string]struct{}{init0.dump: {}}
	r.Distinct("state", cfg.Name+"|"+init0.key)
	frontier := []node{{nil, init0.key}}
	perDepth := []map[string]int{}
	var transitions, changedTr, knownCnt, defragPending int64
	completed := 0
	const chunkSize = 2048 // frontier nodes expanded in parallel before their results are merged (bounds memory)
	stopped := false
	for depth := 0; depth < cfg.Depth && len(frontier) > 0 && !stopped; depth++ {
		last := depth == cfg.Depth-1
		var next []node
		newStates := 0
		for c0 := 0; c0 < len(frontier); c0 += chunkSize {
			chunk := frontier[c0:min(c0+chunkSize, len(frontier))]
			if r.Expired() {
				r.NotExhaustive(fmt.Sprintf("[%s] time budget used up inside length %d (%d of %d states of the previous level expanded): all operation sequences up to length %d were compared", cfg.Name, depth+1, c0, len(frontier), depth))
				stopped = true
				break
			}
			res := make([][]succ, len(chunk))
			var wg sync.WaitGroup
			var mu sync.Mutex
			nextJob := 0
			for w := 0; w < workers; w++ {
				wg.Add(1)
				go func(p *pair) {
					defer wg.Done()
					for {
						mu.Lock()
						j := nextJob
						nextJob++
						mu.Unlock()
						if j >= len(chunk) {
							return
						}
						nd := chunk[j]
						out := make([]succ, len(ops))
						for oi, op := range ops {
							s := p.runTrace(nd.path, nd.key, op)
							if len(s.diffs) > 0 || s.replayKO != "" {
								// confirm: the same trace must give the same verdict 4 more times
								for k := 0; k < 4; k++ {
									s2 := p.runTrace(nd.path, nd.key, op)
									if fmt.Sprint(s2.diffs) != fmt.Sprint(s.diffs) || s2.replayKO != s.replayKO {
										s.replayKO = fmt.Sprintf("verdict not reproducible: run 1 {%v %s}, run %d {%v %s}", s.diffs, s.replayKO, k+2, s2.diffs, s2.replayKO)
										break
									}
								}
							}
							out[oi] = s
						}
						res[j] = out
					}
				}(pairs[w])
			}
			wg.Wait()
			// merge in frontier order / alphabet order: representatives do not depend on scheduling
			for j, nd := range chunk {
				for oi, op := range ops {
					s := res[j][oi]
					transitions++
					r.Eval()
					full := append(append(make([]Op, 0, len(nd.path)+1), nd.path...), op)
					if r.WantSample() {
						r.Sample(map[string]any{"config": cfg.Name, "ops": opsString(full), "cells_real_and_model": s.dump})
					} else {
						r.Sample(nil)
					}
					if s.replayKO != "" {
						r.Violation("C07/conformance/replay/not-reproducible", fmt.Sprintf("[%s] %s: %s", cfg.Name, opsString(full), s.replayKO), replayCase{cfg, full})
						continue
					}
					bad := false
					for _, d := range s.diffs {
						bad = true
						if kd := knownDifference(cfg, nd.path, op, d); kd != "" {
							knownCnt++
							r.Add("known_difference_"+kd, 1)
							continue
						}
						r.Violation(sigOf(op, d.What), fmt.Sprintf("[%s, %d cells] after %s: %s", cfg.Name, pairs[0].size, opsString(full), d.Msg), replayCase{cfg, full})
					}
					if bad {
						continue // the two sides are in different states: nothing to expand
					}
					if s.changed {
						changedTr++
					}
					if _, ok := seen[s.key]; ok {
						continue
					}
					seen[s.key] = struct{}{}
					canonSeen[s.dump] = struct{}{}
					newStates++
					r.Distinct("state", cfg.Name+"|"+s.key)
					r.Distinct("canonical_state", s.dump)
					if sharedCell(s.dump) {
						r.Distinct("nontrivial", s.dump)
					}
					if strings.Contains(s.key, "defrag-pending") {
						defragPending++
					}
					if !last {
						next = append(next, node{full, s.key})
					}
				}
			}
		}
		if stopped {
			break
		}
		completed = depth + 1
		perDepth = append(perDepth, map[string]int{"length": depth + 1, "expanded_states": len(frontier), "new_states": newStates})
		frontier = next
	}
	var nOps, nFull, nMoved int64
	for _, p := range pairs {
		nOps += p.nOps
		nFull += p.nFull
		nMoved += p.nMoved
	}
	r.Add("decodes_refused_kv_full_on_both_sides", nFull)
	r.Add("decodes_that_defragmented_the_real_cache", nMoved)
	r.Add("transitions", transitions)
	r.Add("traces_validated_against_impl", transitions)
	r.Add("ops_executed_on_impl", nOps)
	return map[string]any{
		"config": cfg, "alphabet": len(ops), "real_cells": pairs[0].size, "workers": workers,
		"completed_length": completed, "states_layout": len(seen), "states_canonical": len(canonSeen),
		"transitions": transitions, "transitions_changing_state": changedTr, "known_difference_hits": knownCnt, "states_with_pending_defrag_flag": defragPending,
		"per_length": perDepth, "ops_executed_on_impl": nOps, "decodes_refused_kv_full_on_both_sides": nFull, "decodes_that_defragmented_the_real_cache": nMoved, "wall_s": math.Round(time.Since(t0).Seconds()*10) / 10,
	}
}

// sharedCell: the canonical dump has a cell held by more than one sequence ("p3[0 1]").
func sharedCell(dump string) bool {
	for _, f := range strings.Split(dump, "]") {
		if i := strings.IndexByte(f, '['); i >= 0 && strings.Contains(f[i:], " ") {
			return true
		}
	}
	return false
}

// ---- the fixed scenario -----------------------------------------------------------------------------

type scStep struct {
	name string
	run  func(p *pair) string // executes on both sides, returns a result note
}

func seqPositions(cells []llama.ZZCell, seq int) []int {
	var l []int
	for _, c := range cells {
		for _, s := range c.Seqs {
			if s == seq {
				l = append(l, c.Pos)
			}
		}
	}
	sort.Ints(l)
	return l
}

// fixedScenario: fork of a prefix into sequence 1, then the context shift of sequence 0 exactly as
// runner/llamarunner/cache.go ShiftCacheSlot does it (numKeep=1, discard=1, len(inputs)=4).
func fixedScenario(modelPath string) (lines []string, agree bool, seq1 []int, err error) {
	cfg := Config{Name: "fixed", NCtx: 8, NSeq: 2}
	p, err := newPair(modelPath, cfg)
	if err != nil {
		return nil, false, nil, err
	}
	defer p.close()
	if _, err := p.reset(); err != nil {
		return nil, false, nil, err
	}
	say := func(f string, a ...any) { lines = append(lines, fmt.Sprintf(f, a...)) }
	say("real context: n_ctx asked 8, llama_n_ctx %d, kv cells %d, n_batch %d, n_ubatch %d, n_seq_max %d", p.lc.ZZNCtx(), p.size, p.lc.ZZNBatch(), p.lc.ZZNUBatch(), p.lc.ZZNSeqMax())
	agree = true
	dec := func(seq int, pos ...int) scStep {
		return scStep{fmt.Sprintf("Decode(seq %d, positions %v)", seq, pos), func(p *pair) string {
			p.lb.Clear()
			fb, _ := fake.NewBatch(batchSize, nSeqMax, 0)
			for i, q := range pos {
				p.lb.Add(token(q), nil, q, i == len(pos)-1, seq)
				fb.Add(token(q), nil, q, i == len(pos)-1, seq)
			}
			eR, eM := p.lc.Decode(p.lb), p.fc.Decode(fb)
			if (eR == nil) != (eM == nil) {
				agree = false
			}
			return fmt.Sprintf("real err=%v, model err=%v", eR, eM)
		}}
	}
	rm := func(s, p0, p1 int) scStep {
		return scStep{fmt.Sprintf("KvCacheSeqRm(%d,%d,%d)", s, p0, p1), func(p *pair) string {
			r, m := p.lc.KvCacheSeqRm(s, p0, p1), p.fc.KvCacheSeqRm(s, p0, p1)
			if r != m {
				agree = false
			}
			return fmt.Sprintf("real %v, model %v", r, m)
		}}
	}
	cp := func(a, b, p0, p1 int) scStep {
		return scStep{fmt.Sprintf("KvCacheSeqCp(%d,%d,%d,%d)", a, b, p0, p1), func(p *pair) string {
			p.lc.KvCacheSeqCp(a, b, p0, p1)
			p.fc.KvCacheSeqCp(a, b, p0, p1)
			return ""
		}}
	}
	add := func(s, p0, p1, d int) scStep {
		return scStep{fmt.Sprintf("KvCacheSeqAdd(%d,%d,%d,%d)", s, p0, p1, d), func(p *pair) string {
			p.lc.KvCacheSeqAdd(s, p0, p1, d)
			p.fc.KvCacheSeqAdd(s, p0, p1, d)
			return ""
		}}
	}
	steps := []scStep{
		dec(0, 0, 1), dec(0, 2), dec(0, 3),
		rm(1, 0, -1),
		cp(0, 1, 0, 3),
		rm(1, 3, -1),
		rm(0, 1, 2),      // ShiftCacheSlot: KvCacheSeqRm(id, numKeep, numKeep+discard)
		add(0, 2, 4, -1), // ShiftCacheSlot: KvCacheSeqAdd(id, numKeep+discard, len(inputs), -discard)
	}
	for i, st := range steps {
		note := st.run(p)
		raw := p.lc.ZZKvRaw(nSeqMax)
		viewRaw := p.lc.ZZKvView(nSeqMax, false)
		md := p.fc.Dump()
		rd := canon(raw.Cells)
		if rd != md {
			agree = false
		}
		say("step %d: %s   %s", i+1, st.name, note)
		say("    real cells (cell array)        : %s", layout(raw))
		say("    real canonical                 : {%s}", rd)
		say("    llama.h kv view (no kv update) : {%s}%s", canon(viewRaw.Cells), map[bool]string{true: "", false: "   <- view shows pos+delta (pending shift counted twice)"}[canon(viewRaw.Cells) == rd])
		say("    fakellama Dump()               : {%s}   %s", md, map[bool]string{true: "same", false: "DIFFERENT"}[rd == md])
		say("    sequence 0 holds %v, sequence 1 holds %v   (real cache)", seqPositions(raw.Cells, 0), seqPositions(raw.Cells, 1))
	}
	// what the next llama_decode would do first: llama_kv_self_update; the view then shows the true positions
	v := p.lc.ZZKvView(nSeqMax, true)
	raw := p.lc.ZZKvRaw(nSeqMax)
	say("after llama_kv_self_update (K-shift applied, deltas zeroed):")
	say("    llama.h kv view                : {%s}", canon(v.Cells))
	say("    real cells (cell array)        : %s", layout(raw))
	if canon(v.Cells) != canon(raw.Cells) || canon(raw.Cells) != p.fc.Dump() {
		agree = false
	}
	seq1 = seqPositions(raw.Cells, 1)
	say("RESULT: on the real llama.cpp cache sequence 1 now holds positions %v (it was forked with positions [0 1 2] and never touched by the shift of sequence 0); sequence 0 holds %v", seq1, seqPositions(raw.Cells, 0))
	return lines, agree, seq1, nil
}

// ---- main -----------------------------------------------------------------------------------------------

func configs() []Config {
	// empty-cache configurations first (their counterexamples are the smallest); the time budget is global, what was
	// completed is reported per configuration, so the most expensive one goes last
	if evid.Thorough() {
		return []Config{
			{Name: "empty-2seq-kvview", NCtx: 8, NSeq: 2, Depth: 6, UpdateEachStep: true},
			{Name: "empty-3seq", NCtx: 8, NSeq: 3, Depth: 5},
			{Name: "nearfull-2seq-kvview", NCtx: 8, NSeq: 2, Depth: 5, Prefill: 32, Holes: []int{3, 10, 20}, UpdateEachStep: true},
			{Name: "nearfull-3seq", NCtx: 8, NSeq: 3, Depth: 4, Prefill: 32, Holes: []int{3, 10, 11, 20}},
			{Name: "nearfull-2seq", NCtx: 8, NSeq: 2, Depth: 6, Prefill: 32, Holes: []int{3, 10, 20}},
			{Name: "empty-2seq", NCtx: 8, NSeq: 2, Depth: 7}, // ~3.2 million traces: most of the thorough budget
		}
	}
	return []Config{
		{Name: "empty-2seq", NCtx: 8, NSeq: 2, Depth: 5},
		{Name: "empty-3seq", NCtx: 8, NSeq: 3, Depth: 4},
		{Name: "empty-2seq-kvview", NCtx: 8, NSeq: 2, Depth: 5, UpdateEachStep: true},
		{Name: "nearfull-2seq-kvview", NCtx: 8, NSeq: 2, Depth: 4, Prefill: 32, Holes: []int{3, 10, 20}, UpdateEachStep: true},
		{Name: "nearfull-3seq", NCtx: 8, NSeq: 3, Depth: 4, Prefill: 32, Holes: []int{3, 10, 11, 20}},
		{Name: "nearfull-2seq", NCtx: 8, NSeq: 2, Depth: 5, Prefill: 32, Holes: []int{3, 10, 20}},
	}
}

func main() {
	id := os.Getenv("VERIF_ID")
	if id == "" {
		id = "C07"
	}
	r := evid.Start(id, "model_checking")

	scratch, err := os.MkdirTemp("/dev/shm", "lconf-")
	if err != nil {
		fmt.Fprintln(os.Stderr, "lconf: no scratch directory:", err)
		os.Exit(2)
	}
	defer os.RemoveAll(scratch)
	exit := func(code int) { os.RemoveAll(scratch); os.Exit(code) }
	modelPath := filepath.Join(scratch, "tiny-llama.gguf")
	if err := writeTinyModel(modelPath); err != nil {
		fmt.Fprintln(os.Stderr, "lconf: cannot write the tiny model:", err)
		exit(2)
	}
	llama.BackendInit()

	if rp := evid.ReplayPath(); rp != "" {
		var c replayCase
		if err := evid.LoadReplay(rp, &c); err != nil {
			fmt.Fprintln(os.Stderr, "lconf: bad replay file:", err)
			exit(2)
		}
		p, err := newPair(modelPath, c.Config)
		if err != nil {
			fmt.Fprintln(os.Stderr, "lconf:", err)
			exit(2)
		}
		if _, err := p.reset(); err != nil {
			fmt.Println("initial state:", err)
			exit(1)
		}
		failed := false
		for i, op := range c.Ops {
			o, d := p.apply(op)
			fmt.Printf("step %d %s\n   real : %s\n   model: {%s}\n", i+1, op, o.key, p.fc.Dump())
			for _, x := range d {
				fmt.Printf("   DIFFERENCE %s: %s\n", x.What, x.Msg)
				failed = true
			}
		}
		if failed {
			exit(1)
		}
		fmt.Println("no difference on replay")
		exit(0)
	}

	workers := min(8, runtime.NumCPU())
	if evid.Thorough() {
		workers = min(12, runtime.NumCPU())
	}
	if w, err := strconv.Atoi(os.Getenv("LCONF_WORKERS")); err == nil && w > 0 {
		workers = min(w, 16)
	}
	budget := 100 * time.Second
	if evid.Thorough() {
		budget = 13*time.Minute + 30*time.Second
	}
	r.SetDeadline(budget)

	r.Rule("explicit-state search of the product (real llama.cpp KV cache via cgo, fakellama model): from the initial state of each configuration " +
		"ALL sequences over the alphabet {Decode(s,k in 1..2) at the sequence's next position, KvCacheSeqRm(s,(0,-1)|(1,-1)|(1,2)|(2,4)|(-1,1)), KvCacheSeqRm(-1,1,2), " +
		"KvCacheSeqCp(a,b,0,-1|1|2), KvCacheSeqAdd(s,(2,-1,-1)|(2,4,-1)|(1,3,-1)|(3,-1,-2)|(0,2,-1))} up to the configured length are executed, " +
		"breadth first; a sequence is reached by replaying it from the initial state on a re-used context; states are deduplicated on the real " +
		"cache's physical cell layout + head + pending-defrag flag; after every operation SeqRm's result, Decode's ErrKvCacheFull and the complete " +
		"multiset of (pos, sequence ids) of the non-empty cells are compared. Non-trivial states: a cell is shared by more than one sequence.")
	r.Assume("the model gets as many cells as the real cache has (llama.cpp pads n_ctx 8 to 32 cells); fakellama.NewContextWithModel itself does not pad",
		"the real cell content is read from llama_kv_cache_unified::cells directly (read-only C++ helper) and cross-checked at every step against llama.h's "+
			"llama_kv_cache_view, llama_kv_self_used_cells, llama_kv_self_n_tokens and llama_kv_self_seq_pos_max; the view reports pos+delta, i.e. a pending shift twice, until llama_kv_self_update",
		"what a decoded token attends to (the KQ mask) is not observable through the API and is not compared; only the cell meta data is",
		"between traces the re-used real context is reset with kv->clear() plus delta/has_shift/do_defrag zeroed (state of a new context)")

	// fixed scenario: always
	lines, agree, seq1, err := fixedScenario(modelPath)
	if err != nil {
		r.Violation("C07/conformance/setup/tiny-model", "the real library does not load/evaluate the generated model: "+err.Error(), nil)
		r.Finish()
	}
	fmt.Println("---- fixed scenario (real llama.cpp) ----")
	for _, l := range lines {
		fmt.Println(l)
	}
	fmt.Println("-----------------------------------------")
	r.Extra("fixed_scenario", lines)
	r.Extra("fixed_scenario_seq1_positions_real", seq1)
	r.Eval()
	if !agree {
		r.Violation("C07/conformance/fixed-scenario/cells", "model and real library disagree in the fixed fork+shift scenario:\n"+strings.Join(lines, "\n"), nil)
	}

	// create all real contexts now (every configuration uses n_ctx 8) and drop the scratch file at once: the model is
	// loaded without mmap, and a run that is killed later leaves nothing behind
	if _, err := pairPool(modelPath, configs()[0], workers); err != nil {
		r.Violation("C07/conformance/setup/tiny-model", "cannot create the real contexts: "+err.Error(), nil)
		r.Finish()
	}
	os.RemoveAll(scratch)

	var summaries []any
	for _, cfg := range configs() {
		if only := os.Getenv("LCONF_ONLY"); only != "" && only != cfg.Name {
			continue
		}
		if d, err := strconv.Atoi(os.Getenv("LCONF_DEPTH")); err == nil && d > 0 {
			cfg.Depth = d
		}
		s := search(r, modelPath, cfg, workers)
		if s != nil {
			b, _ := json.Marshal(s)
			fmt.Printf("[lconf %s] %s\n", cfg.Name, b)
			summaries = append(summaries, s)
		}
	}
	r.Extra("searches", summaries)
	r.Extra("bounds", map[string]any{"n_ctx": 8, "n_seq_max": nSeqMax, "tier_budget_s": budget.Seconds()})
	os.RemoveAll(scratch)
	r.Finish()
}
