module verif

go 1.24.0
