#!/usr/bin/env python3
"""Regenerates /verif/MANIFEST.json from the table below (kept in one place so it stays valid)."""
import json, os
HERE = os.path.dirname(os.path.dirname(os.path.abspath(__file__)))
props = [json.loads(l) for l in open(os.path.join(HERE, "properties.jsonl"))]
ids = [p["id"] for p in props]

BASELINE = json.load(open("/root/.vp/BASELINE.json"))["cmd"] if os.path.exists("/root/.vp/BASELINE.json") else "cd /repo && go test ./..."

# id -> (category, technique, text, note, design_ref, engine)
CHECKS = {}
def check(id, category, technique, text, note, ref, engine):
    CHECKS[id] = dict(category=category, technique=technique, text=text, note=note, ref=ref, engine=engine)

exec(open(os.path.join(HERE, "tools", "manifest_table.py")).read())

checks = []
for i in ids:
    if i not in CHECKS: continue
    c = CHECKS[i]
    checks.append({
        "property_id": i,
        "quick_cmd": f"bin/vx check {i} --tier quick",
        "thorough_cmd": f"bin/vx check {i} --tier thorough",
        "evidence_file": f"/verif/evidence/{i}.json",
        "replay_cmd_template": "bin/vx replay {path}",
        "engine": c["engine"],
        "level_claimed": {"category": c["category"], "text": c["text"], "design_ref": c["ref"]},
        "level_note": c["note"],
        "technique": c["technique"],
    })
na = [{"property_id": i, "reason": NOT_APPLICABLE.get(i, "check not built yet in this round; see DESIGN.md section 3 for the planned exhaustive harness")} for i in ids if i not in CHECKS]
m = {
    "version": 1,
    "setup_cmd": "./setup.sh",
    "hooks": {
        "guard": "verif-overlay (no build tag in the tree: all hooks are go build -overlay files generated from the current working tree; /repo sources are not modified)",
        "enable": "bin/vx check <id> generates .gen/<id>/overlay.json (instrumented copies + harness files + engine packages under zzverif/) and builds with go build -overlay",
        "baseline_off_cmd": BASELINE,
        "source_commits": [],
        "add_only": True,
    },
    "engines": ENGINES,
    "checks": checks,
    "notes": NOTES,
    "not_applicable": na,
}
json.dump(m, open(os.path.join(HERE, "MANIFEST.json"), "w"), indent=1)
print("MANIFEST.json:", len(checks), "checks,", len(na), "not claimed")
