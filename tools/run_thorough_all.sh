#!/bin/bash
# Runs every check's thorough tier in sequence inside the current directory (a snapshot of /verif); prints one summary line per check.
export VERIF_DIR=$PWD
if [ -n "$VP_RUN_REPO" ]; then export VERIF_REPO=$VP_RUN_REPO; fi
./setup.sh --no-warm >/dev/null 2>&1
for id in "$@"; do
  start=$(date +%s)
  timeout 3000 ./bin/vx check $id --tier thorough > thorough_$id.log 2>&1
  echo "== $id exit=$? wall=$(( $(date +%s) - start ))s"
  grep -E "^VIOLATION|^KNOWN-FINDING|signature:|^\[C" thorough_$id.log | cut -c1-300
done
