// Package instrument rewrites ollama source files so that every concurrency,
// time and (optionally) file-system operation goes through the controlled
// runtime (mcrt). It works on /repo's *current* files at check time and writes
// rewritten copies for `go build -overlay`; /repo is never modified.
//
// Two mechanisms:
//   - import substitution: "sync", "sync/atomic", "time", "context",
//     "golang.org/x/sync/errgroup", ... are replaced by shim packages with the
//     same package name that export the controlled versions (and aliases for
//     everything that needs no control). A member the shim does not know makes
//     the build fail: fail closed.
//   - syntax rewriting (needs go/types only to classify `range`): go statements,
//     channel send / receive / close / range, select.
package instrument

import (
	"bytes"
	"encoding/json"
	"fmt"
	"go/ast"
	"go/format"
	"go/importer"
	"go/parser"
	"go/token"
	"go/types"
	"io"
	"os"
	"os/exec"
	"path/filepath"
	"reflect"
	"sort"
	"strconv"
	"strings"
)

const (
	mcrtPath   = "github.com/ollama/ollama/zzverif/mcrt"
	shimPrefix = "github.com/ollama/ollama/zzverif/shim/"
)

type Options struct {
	// Consts replaces the value of package-level constants/vars: "Name" -> Go expression (applies to every instrumented package).
	Consts map[string]string `json:"consts"`
	// Shims lists the std import paths to substitute (default: sync, sync/atomic, time, context, errgroup, semaphore, math/rand/v2).
	Shims []string `json:"shims"`
	// FS additionally substitutes "os" and "path/filepath" (mcos).
	FS bool `json:"fs"`
	// MapOrder rewrites `range` over maps to a deterministic (sorted) order.
	NoMapOrder bool `json:"no_map_order"`
	// Acc lists designated shared locations "TypeName.field" whose accesses are reported to the race detector.
	Acc []string `json:"acc"`
	// ReplaceImports substitutes further import paths (e.g. the cgo package llama by a pure-Go model of it);
	// the replacement must have the same package name and offer every name the code uses (else: compile error).
	ReplaceImports map[string]string `json:"replace_imports"`
	// Extract copies a run of top-level statements of a function body into a new function of the same package
	// (`func As() error { ...; return nil }`), so that a harness can execute exactly that part of the real code
	// (e.g. the start-up repair sequence inside Serve). The run starts at the first statement that assigns to
	// From and ends before the first later statement that assigns to Until; a marker that is not found is an error.
	Extract []ExtractSpec `json:"extract"`
}

type ExtractSpec struct {
	File  string `json:"file"`
	Func  string `json:"func"`
	From  string `json:"from"`
	Until string `json:"until"`
	As    string `json:"as"`
}

func assignsTo(st ast.Stmt, name string) bool {
	as, ok := st.(*ast.AssignStmt)
	if !ok {
		return false
	}
	for _, l := range as.Lhs {
		if id, ok := l.(*ast.Ident); ok && id.Name == name {
			return true
		}
	}
	return false
}

func extract(af *ast.File, sp ExtractSpec) error {
	for _, d := range af.Decls {
		fd, ok := d.(*ast.FuncDecl)
		if !ok || fd.Recv != nil || fd.Name.Name != sp.Func || fd.Body == nil {
			continue
		}
		from, until := -1, -1
		for i, st := range fd.Body.List {
			if from < 0 && assignsTo(st, sp.From) {
				from = i
			} else if from >= 0 && assignsTo(st, sp.Until) {
				until = i
				break
			}
		}
		if from < 0 || until < 0 {
			return fmt.Errorf("extract %s: statements assigning %q ... %q not found in func %s", sp.As, sp.From, sp.Until, sp.Func)
		}
		body := append([]ast.Stmt{}, fd.Body.List[from:until]...)
		body = append(body, &ast.ReturnStmt{Results: []ast.Expr{ast.NewIdent("nil")}})
		af.Decls = append(af.Decls, &ast.FuncDecl{
			Name: ast.NewIdent(sp.As),
			Type: &ast.FuncType{Params: &ast.FieldList{}, Results: &ast.FieldList{List: []*ast.Field{{Type: ast.NewIdent("error")}}}},
			Body: &ast.BlockStmt{List: body},
		})
		return nil
	}
	return fmt.Errorf("extract %s: func %s not found in %s", sp.As, sp.Func, sp.File)
}

var defaultShims = map[string]string{
	"sync":                        shimPrefix + "sync",
	"sync/atomic":                 shimPrefix + "atomic",
	"time":                        shimPrefix + "time",
	"context":                     shimPrefix + "context",
	"golang.org/x/sync/errgroup":  shimPrefix + "errgroup",
	"golang.org/x/sync/semaphore": shimPrefix + "semaphore",
	"math/rand/v2":                shimPrefix + "randv2",
}

var fsShims = map[string]string{
	"os":            shimPrefix + "os",
	"path/filepath": shimPrefix + "filepath",
}

type listPkg struct {
	Dir        string
	ImportPath string
	Export     string
	GoFiles    []string
	CgoFiles   []string
}

// Package instruments the files of one package and returns original path -> generated path.
func Package(repoDir, pkgDir string, files []string, outDir string, opts Options, env []string) (map[string]string, error) {
	// 1. which files make up the package on this platform, and export data of its dependencies
	cmd := exec.Command("go", "list", "-export", "-deps", "-json=Dir,ImportPath,Export,GoFiles,CgoFiles", "./"+pkgDir)
	cmd.Dir = repoDir
	cmd.Env = env
	var stderr bytes.Buffer
	cmd.Stderr = &stderr
	out, err := cmd.Output()
	if err != nil {
		return nil, fmt.Errorf("go list: %v\n%s", err, stderr.String())
	}
	exports := map[string]string{}
	var self *listPkg
	dec := json.NewDecoder(bytes.NewReader(out))
	absDir := filepath.Join(repoDir, pkgDir)
	for {
		var p listPkg
		if err := dec.Decode(&p); err == io.EOF {
			break
		} else if err != nil {
			return nil, err
		}
		if p.Export != "" {
			exports[p.ImportPath] = p.Export
		}
		if p.Dir == absDir {
			pp := p
			self = &pp
		}
	}
	if self == nil {
		return nil, fmt.Errorf("package %s not found by go list", pkgDir)
	}
	want := map[string]bool{}
	all := len(files) == 1 && files[0] == "*"
	for _, f := range files {
		want[f] = true
	}
	// 2. parse and type-check the whole package
	fset := token.NewFileSet()
	var astFiles []*ast.File
	var names []string
	for _, f := range append(append([]string{}, self.GoFiles...), self.CgoFiles...) {
		af, err := parser.ParseFile(fset, filepath.Join(absDir, f), nil, parser.ParseComments|parser.SkipObjectResolution)
		if err != nil {
			return nil, err
		}
		astFiles = append(astFiles, af)
		names = append(names, f)
	}
	lookup := func(path string) (io.ReadCloser, error) {
		e, ok := exports[path]
		if !ok {
			return nil, fmt.Errorf("no export data for %s", path)
		}
		return os.Open(e)
	}
	info := &types.Info{Types: map[ast.Expr]types.TypeAndValue{}, Uses: map[*ast.Ident]types.Object{}, Defs: map[*ast.Ident]types.Object{}, Selections: map[*ast.SelectorExpr]*types.Selection{}}
	conf := types.Config{Importer: importer.ForCompiler(fset, "gc", lookup), FakeImportC: true, Error: func(error) {}}
	tpkg, _ := conf.Check(self.ImportPath, fset, astFiles, info) // errors tolerated (cgo); missing types make the rewriter refuse below

	// which named struct type declares which field (for the designated-location table)
	owners := map[*types.Var]string{}
	for _, obj := range info.Defs {
		tn, ok := obj.(*types.TypeName)
		if !ok {
			continue
		}
		st, ok := tn.Type().Underlying().(*types.Struct)
		if !ok {
			continue
		}
		for i := 0; i < st.NumFields(); i++ {
			owners[st.Field(i)] = tn.Name() + "." + st.Field(i).Name()
		}
	}
	res := map[string]string{}
	for i, af := range astFiles {
		if !all && !want[names[i]] {
			continue
		}
		if len(self.CgoFiles) > 0 && contains(self.CgoFiles, names[i]) {
			continue
		}
		rw := &rewriter{fset: fset, info: info, opts: opts, file: names[i], pkgDir: pkgDir, fieldOwner: owners, tpkg: tpkg}
		if err := rw.file_(af); err != nil {
			return nil, fmt.Errorf("%s/%s: %v", pkgDir, names[i], err)
		}
		for _, sp := range opts.Extract {
			if sp.File == names[i] {
				if err := extract(af, sp); err != nil {
					return nil, fmt.Errorf("%s/%s: %v", pkgDir, names[i], err)
				}
			}
		}
		var buf bytes.Buffer
		if err := format.Node(&buf, fset, af); err != nil {
			return nil, fmt.Errorf("%s/%s: print: %v", pkgDir, names[i], err)
		}
		outp := filepath.Join(outDir, names[i])
		if err := os.WriteFile(outp, buf.Bytes(), 0o644); err != nil {
			return nil, err
		}
		res[filepath.Join(absDir, names[i])] = outp
	}
	for f := range want {
		if f != "*" && !contains(names, f) {
			return nil, fmt.Errorf("%s/%s: listed for instrumentation but not part of the package", pkgDir, f)
		}
	}
	return res, nil
}

func contains(l []string, s string) bool {
	for _, x := range l {
		if x == s {
			return true
		}
	}
	return false
}

type rewriter struct {
	fset       *token.FileSet
	info       *types.Info
	opts       Options
	file       string
	pkgDir     string
	tmp        int
	usedMC     bool
	usedUnsafe bool
	fieldOwner map[*types.Var]string
	err        error
	accSet     map[string]bool
	inline     map[ast.Expr]string
	tpkg       *types.Package
}

func (r *rewriter) site(p token.Pos) string {
	pos := r.fset.Position(p)
	return fmt.Sprintf("%s/%s:%d", r.pkgDir, r.file, pos.Line)
}

func (r *rewriter) fail(p token.Pos, f string, a ...any) {
	if r.err == nil {
		r.err = fmt.Errorf("%s: %s", r.site(p), fmt.Sprintf(f, a...))
	}
}

func (r *rewriter) name(prefix string) *ast.Ident {
	r.tmp++
	return ast.NewIdent(fmt.Sprintf("_zz%s%d", prefix, r.tmp))
}

func mc(name string) ast.Expr {
	return &ast.SelectorExpr{X: ast.NewIdent("zzmcrt"), Sel: ast.NewIdent(name)}
}

func call(fun ast.Expr, args ...ast.Expr) *ast.CallExpr { return &ast.CallExpr{Fun: fun, Args: args} }

func strLit(s string) ast.Expr { return &ast.BasicLit{Kind: token.STRING, Value: strconv.Quote(s)} }

func define(lhs ast.Expr, rhs ast.Expr) ast.Stmt {
	return &ast.AssignStmt{Lhs: []ast.Expr{lhs}, Tok: token.DEFINE, Rhs: []ast.Expr{rhs}}
}

func assign(lhs ast.Expr, rhs ast.Expr) ast.Stmt {
	return &ast.AssignStmt{Lhs: []ast.Expr{lhs}, Tok: token.ASSIGN, Rhs: []ast.Expr{rhs}}
}

func use(id *ast.Ident) ast.Stmt { return assign(ast.NewIdent("_"), id) }

func (r *rewriter) file_(f *ast.File) error {
	shims := map[string]string{}
	if len(r.opts.Shims) == 0 {
		for k, v := range defaultShims {
			shims[k] = v
		}
	} else {
		for _, s := range r.opts.Shims {
			if v, ok := defaultShims[s]; ok {
				shims[s] = v
			} else if v, ok := fsShims[s]; ok {
				shims[s] = v
			} else {
				return fmt.Errorf("unknown shim %q", s)
			}
		}
	}
	if r.opts.FS {
		for k, v := range fsShims {
			shims[k] = v
		}
	}
	for k, v := range r.opts.ReplaceImports {
		shims[k] = v
	}
	r.accSet = map[string]bool{}
	for _, a := range r.opts.Acc {
		r.accSet[a] = true
	}
	// constants
	if len(r.opts.Consts) > 0 {
		for _, d := range f.Decls {
			gd, ok := d.(*ast.GenDecl)
			if !ok || (gd.Tok != token.CONST && gd.Tok != token.VAR) {
				continue
			}
			for _, s := range gd.Specs {
				vs := s.(*ast.ValueSpec)
				for i, n := range vs.Names {
					if repl, ok := r.opts.Consts[n.Name]; ok && i < len(vs.Values) {
						e, err := parser.ParseExpr(repl)
						if err != nil {
							return fmt.Errorf("const %s: %v", n.Name, err)
						}
						vs.Values[i] = e
					}
				}
			}
		}
	}
	// body rewriting
	for _, d := range f.Decls {
		r.node(d)
	}
	if r.err != nil {
		return r.err
	}
	// imports
	for _, im := range f.Imports {
		p, _ := strconv.Unquote(im.Path.Value)
		if np, ok := shims[p]; ok {
			if im.Name == nil {
				base := p[strings.LastIndexByte(p, '/')+1:]
				if base == "v2" {
					base = "rand"
				}
				im.Name = ast.NewIdent(base)
			}
			im.Path.Value = strconv.Quote(np)
		}
	}
	if r.usedUnsafe {
		spec := &ast.ImportSpec{Name: ast.NewIdent("zzunsafe"), Path: &ast.BasicLit{Kind: token.STRING, Value: strconv.Quote("unsafe")}}
		gd := &ast.GenDecl{Tok: token.IMPORT, Specs: []ast.Spec{spec}}
		f.Decls = append([]ast.Decl{gd}, f.Decls...)
		f.Imports = append(f.Imports, spec)
	}
	if r.usedMC {
		spec := &ast.ImportSpec{Name: ast.NewIdent("zzmcrt"), Path: &ast.BasicLit{Kind: token.STRING, Value: strconv.Quote(mcrtPath)}}
		gd := &ast.GenDecl{Tok: token.IMPORT, Specs: []ast.Spec{spec}}
		f.Decls = append([]ast.Decl{gd}, f.Decls...)
		f.Imports = append(f.Imports, spec)
	}
	// comments would be misplaced by the rewriting; drop all but build constraints / package doc
	var keep []*ast.CommentGroup
	for _, cg := range f.Comments {
		if cg.End() < f.Package {
			keep = append(keep, cg)
		}
	}
	f.Comments = keep
	return nil
}

// node rewrites n in place (children first) and returns nothing; statement and
// expression replacement is done through the reflective walker below.
func (r *rewriter) node(n ast.Node) {
	r.walk(reflect.ValueOf(n))
}

var (
	exprType = reflect.TypeOf((*ast.Expr)(nil)).Elem()
	stmtType = reflect.TypeOf((*ast.Stmt)(nil)).Elem()
	nodeType = reflect.TypeOf((*ast.Node)(nil)).Elem()
)

func (r *rewriter) walk(v reflect.Value) {
	switch v.Kind() {
	case reflect.Ptr, reflect.Interface:
		if v.IsNil() {
			return
		}
		if v.Kind() == reflect.Interface {
			r.walk(v.Elem())
			return
		}
		if _, ok := v.Interface().(ast.Node); !ok {
			return
		}
		// select: handle before children so that comm clauses are not rewritten generically
		if sel, ok := v.Interface().(*ast.SelectStmt); ok {
			_ = sel
		}
		r.walk(v.Elem())
	case reflect.Struct:
		for i := 0; i < v.NumField(); i++ {
			f := v.Field(i)
			ft := f.Type()
			switch {
			case ft == exprType:
				if f.IsNil() {
					continue
				}
				r.walk(f)
				f.Set(reflect.ValueOf(r.expr(f.Interface().(ast.Expr))))
			case ft == stmtType:
				if f.IsNil() {
					continue
				}
				ns := r.stmt(f.Interface().(ast.Stmt))
				f.Set(reflect.ValueOf(ns))
			case ft.Kind() == reflect.Slice && ft.Elem() == stmtType:
				list := make([]ast.Stmt, f.Len())
				for j := 0; j < f.Len(); j++ {
					list[j], _ = f.Index(j).Interface().(ast.Stmt)
				}
				f.Set(reflect.ValueOf(r.stmtList(list)))
			case ft.Kind() == reflect.Slice && ft.Elem() == exprType:
				for j := 0; j < f.Len(); j++ {
					e := f.Index(j)
					if e.IsNil() {
						continue
					}
					r.walk(e)
					e.Set(reflect.ValueOf(r.expr(e.Interface().(ast.Expr))))
				}
			case ft.Kind() == reflect.Slice && ft.Elem().Implements(nodeType):
				for j := 0; j < f.Len(); j++ {
					r.walk(f.Index(j))
				}
			case ft.Kind() == reflect.Slice && ft.Elem().Kind() == reflect.Interface:
				for j := 0; j < f.Len(); j++ {
					r.walk(f.Index(j))
				}
			case ft.Kind() == reflect.Ptr && ft.Implements(nodeType):
				if ft == reflect.TypeOf((*ast.Object)(nil)) || ft == reflect.TypeOf((*ast.Scope)(nil)) {
					continue
				}
				if !f.IsNil() {
					if bs, ok := f.Interface().(*ast.BlockStmt); ok {
						r.block(bs)
					} else {
						r.walk(f)
					}
				}
			}
		}
	}
}

func (r *rewriter) block(b *ast.BlockStmt) {
	b.List = r.stmtList(b.List)
}

// stmtList rewrites a statement list; accesses to designated shared locations
// are reported to the race detector by statements inserted next to the
// statement that performs them (the statement itself keeps its scope).
func (r *rewriter) stmtList(list []ast.Stmt) []ast.Stmt {
	out := make([]ast.Stmt, 0, len(list))
	for _, s := range list {
		if s == nil {
			continue
		}
		var before, after []ast.Stmt
		if len(r.accSet) > 0 {
			before, after = r.accesses(s)
		}
		out = append(out, before...)
		out = append(out, r.stmt(s))
		out = append(out, after...)
	}
	return out
}

// simpleBase: an addressable chain of identifiers, selectors, derefs (no calls, no map index).
func simpleBase(e ast.Expr) bool {
	switch x := e.(type) {
	case *ast.Ident:
		return true
	case *ast.SelectorExpr:
		return simpleBase(x.X)
	case *ast.ParenExpr:
		return simpleBase(x.X)
	case *ast.StarExpr:
		return simpleBase(x.X)
	}
	return false
}

// simpleBaseT is simpleBase plus element selections a[i] / m[k] (simple index; slices, arrays, and maps of
// pointers, whose elements' fields stay addressable).
func (r *rewriter) simpleBaseT(e ast.Expr) bool {
	switch x := e.(type) {
	case *ast.Ident:
		return true
	case *ast.SelectorExpr:
		return r.simpleBaseT(x.X)
	case *ast.ParenExpr:
		return r.simpleBaseT(x.X)
	case *ast.StarExpr:
		return r.simpleBaseT(x.X)
	case *ast.IndexExpr:
		if _, lit := x.Index.(*ast.BasicLit); !r.simpleBaseT(x.X) || !(lit || simpleBase(x.Index)) {
			return false
		}
		tv, ok := r.info.Types[x.X]
		if !ok || tv.Type == nil {
			return false
		}
		t := tv.Type.Underlying()
		if p, ok := t.(*types.Pointer); ok {
			t = p.Elem().Underlying()
		}
		switch u := t.(type) {
		case *types.Slice, *types.Array:
			return true
		case *types.Map:
			_, ptr := u.Elem().Underlying().(*types.Pointer)
			return ptr
		}
	}
	return false
}

func hasCall(e ast.Expr) bool {
	found := false
	ast.Inspect(e, func(n ast.Node) bool {
		if _, ok := n.(*ast.CallExpr); ok {
			found = true
		}
		if _, ok := n.(*ast.FuncLit); ok {
			return false
		}
		return !found
	})
	return found
}

// designated returns "Type.field" (or the package variable name) if e denotes a designated location.
func (r *rewriter) designated(e ast.Expr) string {
	switch x := e.(type) {
	case *ast.SelectorExpr:
		sel := r.info.Selections[x]
		if sel == nil || sel.Kind() != types.FieldVal {
			return ""
		}
		v, ok := sel.Obj().(*types.Var)
		if !ok {
			return ""
		}
		if name, ok := r.fieldOwner[v]; ok && r.simpleBaseT(x.X) && (r.accSet[name] || (r.accSet["*"] && !r.accSet["-"+name] && !syncType(v.Type()))) {
			return name
		}
	case *ast.Ident:
		if obj, ok := r.info.Uses[x].(*types.Var); ok && obj.Parent() != nil && obj.Pkg() != nil && obj.Parent() == obj.Pkg().Scope() && (r.accSet[x.Name] || (r.accSet["*"] && obj.Pkg() == r.tpkg && !r.accSet["-"+x.Name] && !syncType(obj.Type()))) {
			return x.Name
		}
	}
	return ""
}

// syncType: locations of these types synchronise by themselves (their accesses are scheduling points
// with their own clocks); the wildcard leaves them out.
func syncType(t types.Type) bool {
	if p, ok := t.(*types.Pointer); ok {
		t = p.Elem()
	}
	switch u := t.(type) {
	case *types.Chan:
		return true
	case *types.Named:
		if u.Obj().Pkg() != nil {
			switch pp := u.Obj().Pkg().Path(); {
			case pp == "sync", pp == "sync/atomic", pp == "context", strings.Contains(pp, "/shim/"), strings.HasSuffix(pp, "/errgroup"), strings.HasSuffix(pp, "/semaphore"):
				return true
			}
		}
	}
	return false
}

func (r *rewriter) accStmt(e ast.Expr, write bool, pos token.Pos, name string) ast.Stmt {
	r.usedMC = true
	r.usedUnsafe = true
	w := "false"
	if write {
		w = "true"
	}
	addr := &ast.UnaryExpr{Op: token.AND, X: &ast.ParenExpr{X: cloneExpr(e)}}
	return &ast.ExprStmt{X: call(mc("Acc"), call(&ast.SelectorExpr{X: ast.NewIdent("zzunsafe"), Sel: ast.NewIdent("Pointer")}, addr), ast.NewIdent(w), strLit(name+" @ "+r.site(pos)))}
}

// cloneExpr copies an identifier/selector chain (the copy is printed in a different place).
func cloneExpr(e ast.Expr) ast.Expr {
	switch x := e.(type) {
	case *ast.Ident:
		return ast.NewIdent(x.Name)
	case *ast.SelectorExpr:
		return &ast.SelectorExpr{X: cloneExpr(x.X), Sel: ast.NewIdent(x.Sel.Name)}
	case *ast.ParenExpr:
		return &ast.ParenExpr{X: cloneExpr(x.X)}
	case *ast.StarExpr:
		return &ast.StarExpr{X: cloneExpr(x.X)}
	case *ast.IndexExpr:
		return &ast.IndexExpr{X: cloneExpr(x.X), Index: cloneExpr(x.Index)}
	case *ast.BasicLit:
		return &ast.BasicLit{Kind: x.Kind, Value: x.Value}
	}
	return e
}

// accesses collects the designated locations statement s reads or writes in its own
// expressions (not inside nested blocks or function literals).
func (r *rewriter) accesses(s ast.Stmt) (before, after []ast.Stmt) {
	seen := map[string]bool{}
	add := func(e ast.Expr, write, late bool) {
		name := r.designated(e)
		if name == "" {
			return
		}
		key := fmt.Sprint(name, write, r.fset.Position(e.Pos()).Offset)
		if seen[key] {
			return
		}
		seen[key] = true
		st := r.accStmt(e, write, e.Pos(), name)
		if late {
			after = append(after, st)
		} else {
			before = append(before, st)
		}
	}
	written := map[ast.Expr]bool{}
	var reads func(e ast.Expr)
	reads = func(e ast.Expr) {
		if e == nil {
			return
		}
		ast.Inspect(e, func(n ast.Node) bool {
			switch x := n.(type) {
			case *ast.FuncLit:
				return false
			case *ast.BinaryExpr:
				if x.Op == token.LAND || x.Op == token.LOR {
					// the right operand is evaluated conditionally (often behind a nil check of its base):
					// a statement in front of s must not evaluate it; its reads are reported in place
					reads(x.X)
					r.inlineReads(x.Y)
					return false
				}
			case *ast.CallExpr:
				// delete(m, k) writes the map
				if id, ok := x.Fun.(*ast.Ident); ok && id.Name == "delete" && len(x.Args) == 2 {
					add(x.Args[0], true, false)
				}
			case *ast.SelectorExpr:
				if !written[x] {
					add(x, false, false)
				}
			case *ast.Ident:
				if !written[x] {
					add(x, false, false)
				}
			}
			return true
		})
	}
	target := func(lhs ast.Expr, late bool) {
		// x.f = ... / x.f[k] = ... / x.f++ : a write of the designated location
		e := lhs
		if ix, ok := e.(*ast.IndexExpr); ok {
			reads(ix.Index)
			e = ix.X
		}
		if r.designated(e) != "" {
			written[e] = true
			add(e, true, late)
			if se, ok := e.(*ast.SelectorExpr); ok {
				reads(se.X)
			}
			return
		}
		reads(lhs)
	}
	switch x := s.(type) {
	case *ast.ExprStmt:
		reads(x.X)
	case *ast.AssignStmt:
		late := false
		for _, rhs := range x.Rhs {
			if hasCall(rhs) {
				late = true
			}
		}
		for _, l := range x.Lhs {
			target(l, late)
		}
		for _, rhs := range x.Rhs {
			reads(rhs)
		}
	case *ast.IncDecStmt:
		target(x.X, false)
	case *ast.ReturnStmt:
		for _, e := range x.Results {
			reads(e)
		}
	case *ast.SendStmt:
		reads(x.Chan)
		reads(x.Value)
	case *ast.IfStmt:
		if x.Init == nil {
			reads(x.Cond)
		}
	case *ast.RangeStmt:
		reads(x.X)
	case *ast.SwitchStmt:
		if x.Init == nil {
			reads(x.Tag)
		}
	case *ast.DeclStmt:
		if gd, ok := x.Decl.(*ast.GenDecl); ok {
			for _, sp := range gd.Specs {
				if vs, ok := sp.(*ast.ValueSpec); ok {
					for _, v := range vs.Values {
						reads(v)
					}
				}
			}
		}
	}
	return
}

// inlineReads marks the designated locations read inside e for reporting at the place of the read:
// x.f becomes (*zzmcrt.AccP(&(x.f), site)).
func (r *rewriter) inlineReads(e ast.Expr) {
	ast.Inspect(e, func(n ast.Node) bool {
		switch x := n.(type) {
		case *ast.FuncLit:
			return false
		case *ast.UnaryExpr:
			if x.Op == token.AND {
				return false
			}
		case *ast.SelectorExpr, *ast.Ident:
			if name := r.designated(x.(ast.Expr)); name != "" {
				if r.inline == nil {
					r.inline = map[ast.Expr]string{}
				}
				r.inline[x.(ast.Expr)] = name
			}
		}
		return true
	})
}

// expr is called after the children of e were rewritten.
func (r *rewriter) expr(e ast.Expr) ast.Expr {
	if name, ok := r.inline[e]; ok {
		delete(r.inline, e)
		r.usedMC = true
		addr := &ast.UnaryExpr{Op: token.AND, X: &ast.ParenExpr{X: e}}
		return &ast.ParenExpr{X: &ast.StarExpr{X: call(mc("AccP"), addr, strLit(name+" @ "+r.site(e.Pos())))}}
	}
	switch x := e.(type) {
	case *ast.UnaryExpr:
		if x.Op == token.ARROW {
			r.usedMC = true
			return call(mc("Recv"), x.X)
		}
	case *ast.CallExpr:
		if id, ok := x.Fun.(*ast.Ident); ok && id.Name == "close" && len(x.Args) == 1 {
			if obj := r.info.Uses[id]; obj == nil || obj.Parent() == types.Universe {
				r.usedMC = true
				return call(mc("Close"), x.Args[0])
			}
		}
	}
	return e
}

func isRecv(e ast.Expr) (*ast.UnaryExpr, bool) {
	for {
		p, ok := e.(*ast.ParenExpr)
		if !ok {
			break
		}
		e = p.X
	}
	u, ok := e.(*ast.UnaryExpr)
	return u, ok && u.Op == token.ARROW
}

// stmt rewrites one statement (recursively) and returns its replacement.
func (r *rewriter) stmt(s ast.Stmt) ast.Stmt {
	switch x := s.(type) {
	case *ast.SelectStmt:
		return r.selectStmt(x, nil)
	case *ast.LabeledStmt:
		if sel, ok := x.Stmt.(*ast.SelectStmt); ok {
			return r.selectStmt(sel, x.Label)
		}
		x.Stmt = r.stmt(x.Stmt)
		return x
	case *ast.AssignStmt:
		// v, ok := <-ch
		if len(x.Lhs) == 2 && len(x.Rhs) == 1 {
			if u, ok := isRecv(x.Rhs[0]); ok {
				r.walk(reflect.ValueOf(u.X))
				u.X = r.exprTop(u.X)
				for i := range x.Lhs {
					r.walk(reflect.ValueOf(x.Lhs[i]))
				}
				r.usedMC = true
				x.Rhs[0] = call(mc("Recv2"), u.X)
				return x
			}
		}
	case *ast.SendStmt:
		r.walk(reflect.ValueOf(x).Elem())
		r.usedMC = true
		c, v := r.name("c"), r.name("s")
		return &ast.BlockStmt{List: []ast.Stmt{
			define(c, x.Chan),
			define(v, call(mc("ZeroOfS"), c)),
			assign(v, x.Value),
			&ast.ExprStmt{X: call(mc("Send"), c, v)},
		}}
	case *ast.GoStmt:
		return r.goStmt(x)
	case *ast.DeferStmt:
		r.walk(reflect.ValueOf(x))
		if ne, ok := r.expr(x.Call).(*ast.CallExpr); ok {
			x.Call = ne
		}
		return x
	case *ast.RangeStmt:
		return r.rangeStmt(x)
	case *ast.DeclStmt:
		// var v, ok = <-ch
		if gd, ok := x.Decl.(*ast.GenDecl); ok && gd.Tok == token.VAR {
			for _, sp := range gd.Specs {
				vs := sp.(*ast.ValueSpec)
				if len(vs.Names) == 2 && len(vs.Values) == 1 {
					if u, ok := isRecv(vs.Values[0]); ok {
						r.walk(reflect.ValueOf(u.X))
						r.usedMC = true
						vs.Values[0] = call(mc("Recv2"), r.exprTop(u.X))
						return x
					}
				}
			}
		}
	}
	r.walk(reflect.ValueOf(s))
	return s
}

// exprTop applies expr() to an expression whose children were already walked.
func (r *rewriter) exprTop(e ast.Expr) ast.Expr { return r.expr(e) }

func (r *rewriter) rewriteExpr(e ast.Expr) ast.Expr {
	if e == nil {
		return nil
	}
	r.walk(reflect.ValueOf(e))
	return r.expr(e)
}

func (r *rewriter) goStmt(g *ast.GoStmt) ast.Stmt {
	r.usedMC = true
	c := g.Call
	var pre []ast.Stmt
	// evaluate arguments (and a non-literal function value) now, as `go` does
	var args []ast.Expr
	for _, a := range c.Args {
		a = r.rewriteExpr(a)
		t := r.name("a")
		pre = append(pre, define(t, a))
		args = append(args, t)
	}
	var fun ast.Expr
	if fl, ok := c.Fun.(*ast.FuncLit); ok {
		r.block(fl.Body)
		fun = fl
		if len(args) == 0 && (fl.Type.Results == nil || len(fl.Type.Results.List) == 0) {
			return &ast.ExprStmt{X: call(mc("Go"), strLit(r.site(g.Pos())), fl)}
		}
		// (a literal with results, e.g. `go func() (err error) {...}()`, is called inside a plain func())
		fun = &ast.ParenExpr{X: fl}
	} else {
		f := r.rewriteExpr(c.Fun)
		t := r.name("f")
		pre = append(pre, define(t, f))
		fun = t
	}
	inner := &ast.CallExpr{Fun: fun, Args: args, Ellipsis: c.Ellipsis}
	body := &ast.FuncLit{Type: &ast.FuncType{Params: &ast.FieldList{}}, Body: &ast.BlockStmt{List: []ast.Stmt{&ast.ExprStmt{X: inner}}}}
	pre = append(pre, &ast.ExprStmt{X: call(mc("Go"), strLit(r.site(g.Pos())), body)})
	return &ast.BlockStmt{List: pre}
}

func (r *rewriter) rangeStmt(x *ast.RangeStmt) ast.Stmt {
	tv, ok := r.info.Types[x.X]
	x.X = r.rewriteExpr(x.X)
	r.block(x.Body)
	if !ok || tv.Type == nil {
		r.fail(x.Pos(), "cannot classify range expression (no type information)")
		return x
	}
	switch ut := tv.Type.Underlying().(type) {
	case *types.Chan:
		r.usedMC = true
		okv := r.name("ok")
		var lhs ast.Expr = ast.NewIdent("_")
		tok := token.DEFINE
		if x.Key != nil {
			lhs = x.Key
			tok = x.Tok
		}
		recv := &ast.AssignStmt{Lhs: []ast.Expr{lhs, okv}, Tok: tok, Rhs: []ast.Expr{call(mc("Recv2"), x.X)}}
		var list []ast.Stmt
		if tok == token.ASSIGN {
			list = append(list, &ast.DeclStmt{Decl: &ast.GenDecl{Tok: token.VAR, Specs: []ast.Spec{&ast.ValueSpec{Names: []*ast.Ident{okv}, Type: ast.NewIdent("bool")}}}})
		}
		list = append(list, recv, &ast.IfStmt{Cond: &ast.UnaryExpr{Op: token.NOT, X: okv}, Body: &ast.BlockStmt{List: []ast.Stmt{&ast.BranchStmt{Tok: token.BREAK}}}})
		list = append(list, x.Body.List...)
		return &ast.ForStmt{Body: &ast.BlockStmt{List: list}}
	case *types.Map:
		_ = ut
		if r.opts.NoMapOrder {
			return x
		}
		r.usedMC = true
		// for k, v := range m  =>  _m := m; for _, k := range MapKeys(_m) { v, _ok := _m[k]; if !_ok { continue }; body }
		m := r.name("m")
		okv := r.name("ok")
		var key ast.Expr = r.name("k")
		keyTok := token.DEFINE
		if x.Key != nil {
			if id, isId := x.Key.(*ast.Ident); !isId || id.Name != "_" {
				key = x.Key
				keyTok = x.Tok
			}
		}
		var valLhs ast.Expr = ast.NewIdent("_")
		if x.Value != nil {
			valLhs = x.Value
		}
		var list []ast.Stmt
		if x.Tok == token.ASSIGN && x.Value != nil {
			list = append(list, &ast.DeclStmt{Decl: &ast.GenDecl{Tok: token.VAR, Specs: []ast.Spec{&ast.ValueSpec{Names: []*ast.Ident{okv}, Type: ast.NewIdent("bool")}}}})
			list = append(list, &ast.AssignStmt{Lhs: []ast.Expr{valLhs, okv}, Tok: token.ASSIGN, Rhs: []ast.Expr{&ast.IndexExpr{X: m, Index: key}}})
		} else {
			list = append(list, &ast.AssignStmt{Lhs: []ast.Expr{valLhs, okv}, Tok: token.DEFINE, Rhs: []ast.Expr{&ast.IndexExpr{X: m, Index: key}}})
		}
		list = append(list, &ast.IfStmt{Cond: &ast.UnaryExpr{Op: token.NOT, X: okv}, Body: &ast.BlockStmt{List: []ast.Stmt{&ast.BranchStmt{Tok: token.CONTINUE}}}})
		list = append(list, x.Body.List...)
		loop := &ast.RangeStmt{Key: ast.NewIdent("_"), Value: key, Tok: keyTok, X: call(mc("MapKeys"), strLit(r.site(x.Pos())), m), Body: &ast.BlockStmt{List: list}}
		if keyTok == token.ILLEGAL {
			loop.Tok = token.DEFINE
		}
		return &ast.BlockStmt{List: []ast.Stmt{define(m, x.X), loop}}
	}
	return x
}

func (r *rewriter) selectStmt(sel *ast.SelectStmt, label *ast.Ident) ast.Stmt {
	r.usedMC = true
	var pre []ast.Stmt
	var cases []ast.Expr
	var clauses []ast.Stmt
	for i, cl := range sel.Body.List {
		cc := cl.(*ast.CommClause)
		var head []ast.Stmt
		switch comm := cc.Comm.(type) {
		case nil:
			cases = append(cases, call(mc("DefaultCase")))
		case *ast.SendStmt:
			c, v := r.name("c"), r.name("s")
			pre = append(pre, define(c, r.rewriteExpr(comm.Chan)), define(v, call(mc("ZeroOfS"), c)), assign(v, r.rewriteExpr(comm.Value)))
			cases = append(cases, call(mc("SendCase"), c, v))
		case *ast.ExprStmt:
			u, ok := isRecv(comm.X)
			if !ok {
				r.fail(comm.Pos(), "unsupported select case")
				return sel
			}
			c := r.name("c")
			pre = append(pre, define(c, r.rewriteExpr(u.X)))
			cases = append(cases, call(mc("RecvCase"), c, ast.NewIdent("nil"), ast.NewIdent("nil")))
		case *ast.AssignStmt:
			u, ok := isRecv(comm.Rhs[0])
			if !ok || len(comm.Rhs) != 1 {
				r.fail(comm.Pos(), "unsupported select case")
				return sel
			}
			c, v := r.name("c"), r.name("v")
			pre = append(pre, define(c, r.rewriteExpr(u.X)), define(v, call(mc("ZeroOf"), c)), use(v))
			var okArg ast.Expr = ast.NewIdent("nil")
			rhs := []ast.Expr{v}
			if len(comm.Lhs) == 2 {
				okv := r.name("ok")
				pre = append(pre, &ast.DeclStmt{Decl: &ast.GenDecl{Tok: token.VAR, Specs: []ast.Spec{&ast.ValueSpec{Names: []*ast.Ident{okv}, Type: ast.NewIdent("bool")}}}}, use(okv))
				okArg = &ast.UnaryExpr{Op: token.AND, X: okv}
				rhs = append(rhs, okv)
			}
			cases = append(cases, call(mc("RecvCase"), c, &ast.UnaryExpr{Op: token.AND, X: v}, okArg))
			lhs := make([]ast.Expr, len(comm.Lhs))
			for j := range comm.Lhs {
				lhs[j] = r.rewriteExpr(comm.Lhs[j])
			}
			head = append(head, &ast.AssignStmt{Lhs: lhs, Tok: comm.Tok, Rhs: rhs})
			if comm.Tok == token.DEFINE {
				for _, l := range lhs {
					if id, ok := l.(*ast.Ident); ok && id.Name != "_" {
						head = append(head, use(id))
					}
				}
			}
		default:
			r.fail(cc.Pos(), "unsupported select case")
			return sel
		}
		body := make([]ast.Stmt, 0, len(head)+len(cc.Body))
		body = append(body, head...)
		for _, s := range cc.Body {
			body = append(body, r.stmt(s))
		}
		clauses = append(clauses, &ast.CaseClause{List: []ast.Expr{&ast.BasicLit{Kind: token.INT, Value: strconv.Itoa(i)}}, Body: body})
	}
	// a select whose cases all terminate is a terminating statement; keep that property
	clauses = append(clauses, &ast.CaseClause{Body: []ast.Stmt{&ast.ExprStmt{X: call(ast.NewIdent("panic"), strLit("zzmcrt: unreachable select outcome"))}}})
	sw := &ast.SwitchStmt{Tag: call(mc("Select"), cases...), Body: &ast.BlockStmt{List: clauses}}
	var swStmt ast.Stmt = sw
	if label != nil {
		swStmt = &ast.LabeledStmt{Label: label, Stmt: sw}
	}
	return &ast.BlockStmt{List: append(pre, swStmt)}
}

// SortedKeys is a helper for deterministic output in callers.
func SortedKeys(m map[string]string) []string {
	l := make([]string, 0, len(m))
	for k := range m {
		l = append(l, k)
	}
	sort.Strings(l)
	return l
}
