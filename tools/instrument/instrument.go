// Package instrument rewrites ollama source files so that every concurrency,
// time and file-system operation goes through the controlled runtime (mcrt).
package instrument

import "fmt"

type Options struct {
	// Consts replaces the value of package-level constants: "pkgdir.Name" -> Go expression.
	Consts map[string]string `json:"consts"`
}

func Package(repoDir, pkgDir string, files []string, outDir string, opts Options, env []string) (map[string]string, error) {
	return nil, fmt.Errorf("not implemented")
}
