// vx is the driver of the verification machinery in /verif.
//
//	vx check <id> [--tier quick|thorough]   build the harness for property <id> from /repo's
//	                                        current working tree (overlay, instrumented) and run it
//	vx replay <replay-file>                 rebuild and re-run exactly the recorded case
//	vx build <id>                           build only (used by setup to warm caches)
//	vx instrument <id>                      run the instrumenter only and print the generated files
//
// Exit codes of check: 0 held, 1 violation (a VIOLATION line was printed), 2 machinery error.
package main

import (
	"encoding/json"
	"fmt"
	"os"
	"os/exec"
	"path/filepath"
	"sort"
	"strings"
	"time"

	"verif/tools/instrument"
)

type Spec struct {
	ID         string              `json:"id"`
	Use        string              `json:"use"`        // take build description from another harness dir
	Main       string              `json:"main"`       // virtual main package dir, relative to /repo
	Mount      map[string]string   `json:"mount"`      // /verif-relative file -> /repo-relative virtual path
	Engines    []string            `json:"engines"`    // engine/<name> mounted at zzverif/<name>
	Instrument map[string][]string `json:"instrument"` // package dir (repo relative) -> files ("*" = all non-test)
	InstOpts   instrument.Options  `json:"inst_opts"`
	Args       map[string][]string `json:"args"` // per tier
	Env        map[string]string   `json:"env"`
	BuildFlags []string            `json:"build_flags"`
	// Parts: the check consists of several harness runs (each with VERIF_PART=<name>) whose evidence is merged.
	// A part with an empty "use" is this spec's own harness.
	Parts []Part `json:"parts"`
	// Acc (only next to "use"): build the used harness with this list of race-detector locations instead of its own
	// (a build of its own, under .gen/<use>-<id>).
	Acc []string `json:"acc"`
}

// withAcc returns build description b as check s wants it.
func withAcc(s, b *Spec) *Spec {
	if len(s.Acc) == 0 || s == b {
		return b
	}
	c := *b
	c.ID = b.ID + "-" + s.ID
	c.InstOpts.Acc = s.Acc
	return &c
}

type Part struct {
	Name string `json:"name"`
	Use  string `json:"use"`
}

var (
	verifDir = envOr("VERIF_DIR", "/verif")
	repoDir  = envOr("VERIF_REPO", "/repo")
)

func envOr(k, d string) string {
	if v := os.Getenv(k); v != "" {
		return v
	}
	return d
}

func die(code int, f string, a ...any) {
	fmt.Fprintf(os.Stderr, "vx: "+f+"\n", a...)
	os.Exit(code)
}

func readSpec(id string) *Spec {
	b, err := os.ReadFile(filepath.Join(verifDir, "harness", id, "harness.json"))
	if err != nil {
		die(2, "no harness for %s: %v", id, err)
	}
	var s Spec
	if err := json.Unmarshal(b, &s); err != nil {
		die(2, "harness/%s/harness.json: %v", id, err)
	}
	return &s
}

// buildSpecOf returns the build description of one part of s.
func buildSpecOf(s *Spec, p Part) *Spec {
	if p.Use != "" {
		return readSpec(p.Use)
	}
	if s.Use != "" {
		return withAcc(s, readSpec(s.Use))
	}
	return s
}

// mergeParts combines evidence/.parts/<id>.<part>.json into evidence/<id>.json: counts are added, exhaustive is
// the conjunction, rules/samples/assumptions are concatenated, everything else is kept per part.
func mergeParts(s *Spec) {
	var merged map[string]any
	cov := map[string]any{}
	perPart := map[string]any{}
	var rules []string
	var samples, caps, known, viols []any
	var assumptions []any
	seenAss := map[string]bool{}
	exhaustive := true
	var wall float64
	var violations int64
	addList := func(dst *[]any, v any) {
		if l, ok := v.([]any); ok {
			*dst = append(*dst, l...)
		}
	}
	for _, p := range s.Parts {
		raw, err := os.ReadFile(filepath.Join(verifDir, "evidence", ".parts", s.ID+"."+p.Name+".json"))
		if err != nil {
			die(2, "part %s of %s left no evidence: %v", p.Name, s.ID, err)
		}
		var ev map[string]any
		dec := json.NewDecoder(strings.NewReader(string(raw)))
		dec.UseNumber()
		if err := dec.Decode(&ev); err != nil {
			die(2, "evidence of part %s: %v", p.Name, err)
		}
		if merged == nil {
			merged = ev
		}
		if w, ok := ev["wall_s"].(json.Number); ok {
			f, _ := w.Float64()
			wall += f
		}
		if v, ok := ev["violations"].(json.Number); ok {
			n, _ := v.Int64()
			violations += n
		}
		if l, ok := ev["assumptions"].([]any); ok {
			for _, a := range l {
				if !seenAss[fmt.Sprint(a)] {
					seenAss[fmt.Sprint(a)] = true
					assumptions = append(assumptions, a)
				}
			}
		}
		c, _ := ev["coverage"].(map[string]any)
		own := map[string]any{}
		for k, v := range c {
			switch k {
			case "exhaustive":
				if b, ok := v.(bool); !ok || !b {
					exhaustive = false
				}
				own[k] = v
			case "rule":
				rules = append(rules, "["+p.Name+"] "+fmt.Sprint(v))
			case "samples":
				addList(&samples, v)
			case "caps_hit":
				addList(&caps, v)
			case "known_findings_hit":
				addList(&known, v)
			case "violation_signatures":
				addList(&viols, v)
			default:
				if n, ok := v.(json.Number); ok {
					if i, err := n.Int64(); err == nil {
						old, _ := cov[k].(int64)
						cov[k] = old + i
						own[k] = v
						continue
					}
				}
				own[k] = v
			}
		}
		perPart[p.Name] = own
	}
	cov["exhaustive"] = exhaustive
	cov["rule"] = strings.Join(rules, " || ")
	if samples == nil {
		samples = []any{}
	}
	cov["samples"] = samples
	if known == nil {
		known = []any{}
	}
	cov["known_findings_hit"] = known
	if len(caps) > 0 {
		cov["caps_hit"] = caps
	}
	if len(viols) > 0 {
		cov["violation_signatures"] = viols
	}
	cov["parts"] = perPart
	merged["coverage"] = cov
	merged["assumptions"] = assumptions
	merged["wall_s"] = float64(int(wall*100)) / 100
	merged["violations"] = violations
	b, _ := json.MarshalIndent(merged, "", " ")
	if err := os.WriteFile(filepath.Join(verifDir, "evidence", s.ID+".json"), append(b, '\n'), 0o644); err != nil {
		die(2, "%v", err)
	}
	fmt.Printf("[%s merged] parts=%d evaluations=%v distinct_nontrivial=%v exhaustive=%v violations=%d\n", s.ID, len(s.Parts), cov["evaluations"], cov["distinct_nontrivial"], exhaustive, violations)
}

func loadSpec(id string) (*Spec, *Spec) {
	read := func(id string) *Spec {
		b, err := os.ReadFile(filepath.Join(verifDir, "harness", id, "harness.json"))
		if err != nil {
			die(2, "no harness for %s: %v", id, err)
		}
		var s Spec
		if err := json.Unmarshal(b, &s); err != nil {
			die(2, "harness/%s/harness.json: %v", id, err)
		}
		return &s
	}
	s := read(id)
	b := s
	if s.Use != "" {
		b = withAcc(s, read(s.Use))
	}
	return s, b
}

func goEnv() []string {
	env := os.Environ()
	out := env[:0]
	for _, e := range env {
		if strings.HasPrefix(e, "GOFLAGS=") || strings.HasPrefix(e, "GOPROXY=") || strings.HasPrefix(e, "GOSUMDB=") || strings.HasPrefix(e, "GOTOOLCHAIN=") {
			continue
		}
		out = append(out, e)
	}
	return append(out, "GOFLAGS=-mod=mod", "GOPROXY=off")
}

// build returns the path of the harness binary for build-spec b.
func build(b *Spec) string {
	gen := filepath.Join(verifDir, ".gen", b.ID)
	os.MkdirAll(gen, 0o755)
	replace := map[string]string{}
	for src, dst := range b.Mount {
		replace[filepath.Join(repoDir, dst)] = filepath.Join(verifDir, src)
	}
	engines := append([]string{}, b.Engines...)
	for _, e := range engines {
		files, _ := filepath.Glob(filepath.Join(verifDir, "engine", e, "*.go"))
		for _, f := range files {
			if strings.HasSuffix(f, "_test.go") {
				continue
			}
			replace[filepath.Join(repoDir, "zzverif", e, filepath.Base(f))] = f
		}
	}
	if len(b.Instrument) > 0 {
		pkgs := make([]string, 0, len(b.Instrument))
		for p := range b.Instrument {
			pkgs = append(pkgs, p)
		}
		sort.Strings(pkgs)
		for _, p := range pkgs {
			outDir := filepath.Join(gen, "inst", p)
			os.RemoveAll(outDir)
			os.MkdirAll(outDir, 0o755)
			res, err := instrument.Package(repoDir, p, b.Instrument[p], outDir, b.InstOpts, goEnv())
			if err != nil {
				die(2, "instrument %s: %v", p, err)
			}
			for orig, gen := range res {
				replace[orig] = gen
			}
		}
	}
	ov, _ := json.MarshalIndent(map[string]any{"Replace": replace}, "", " ")
	ovPath := filepath.Join(gen, "overlay.json")
	if err := os.WriteFile(ovPath, ov, 0o644); err != nil {
		die(2, "%v", err)
	}
	bin := filepath.Join(gen, "harness.bin")
	args := []string{"build", "-overlay", ovPath, "-o", bin}
	args = append(args, b.BuildFlags...)
	args = append(args, "./"+b.Main)
	cmd := exec.Command("go", args...)
	cmd.Dir = repoDir
	cmd.Env = goEnv()
	out, err := cmd.CombinedOutput()
	if err != nil {
		die(2, "build of harness %s failed (the tree under %s does not compile with the harness):\n%s", b.ID, repoDir, out)
	}
	return bin
}

func run(s *Spec, bin, tier string, extra []string) int { return runPart(s, bin, tier, "", extra) }

func runPart(s *Spec, bin, tier, part string, extra []string) int {
	args := append([]string{}, s.Args[tier]...)
	args = append(args, extra...)
	cmd := exec.Command(bin, args...)
	cmd.Dir = verifDir
	cmd.Stdout = os.Stdout
	cmd.Stderr = os.Stderr
	cmd.Env = append(os.Environ(), "VERIF_DIR="+verifDir, "VERIF_REPO="+repoDir, "VERIF_TIER="+tier, "VERIF_ID="+s.ID, "VERIF_PART="+part)
	for k, v := range s.Env {
		cmd.Env = append(cmd.Env, k+"="+v)
	}
	if err := cmd.Run(); err != nil {
		if ee, ok := err.(*exec.ExitError); ok {
			return ee.ExitCode()
		}
		die(2, "run: %v", err)
	}
	return 0
}

func main() {
	if len(os.Args) < 3 {
		die(2, "usage: vx check|build|replay|instrument <id|file> [--tier quick|thorough]")
	}
	tier := envOr("VERIF_TIER", "quick")
	var rest []string
	for i := 3; i < len(os.Args); i++ {
		if os.Args[i] == "--tier" && i+1 < len(os.Args) {
			tier = os.Args[i+1]
			i++
		} else {
			rest = append(rest, os.Args[i])
		}
	}
	if tier != "quick" && tier != "thorough" {
		die(2, "bad tier %q", tier)
	}
	switch os.Args[1] {
	case "check":
		s, b := loadSpec(os.Args[2])
		if len(s.Parts) > 0 {
			os.RemoveAll(filepath.Join(verifDir, "evidence", ".parts", s.ID+".*"))
			worst := 0
			for _, p := range s.Parts {
				t0 := time.Now()
				pb := buildSpecOf(s, p)
				bin := build(pb)
				fmt.Fprintf(os.Stderr, "vx: built %s harness (part %s) in %.1fs\n", pb.ID, p.Name, time.Since(t0).Seconds())
				os.Remove(filepath.Join(verifDir, "evidence", ".parts", s.ID+"."+p.Name+".json"))
				code := runPart(s, bin, tier, p.Name, rest)
				if code == 1 || (code != 0 && worst != 1) {
					worst = code
				}
				if code > 1 {
					// a part that broke left no trustworthy evidence: nothing to merge
					os.Exit(code)
				}
			}
			mergeParts(s)
			os.Exit(worst)
		}
		t0 := time.Now()
		bin := build(b)
		fmt.Fprintf(os.Stderr, "vx: built %s harness in %.1fs\n", b.ID, time.Since(t0).Seconds())
		os.Exit(run(s, bin, tier, rest))
	case "build":
		s, b := loadSpec(os.Args[2])
		if len(s.Parts) > 0 {
			for _, p := range s.Parts {
				build(buildSpecOf(s, p))
			}
			return
		}
		build(b)
	case "instrument":
		_, b := loadSpec(os.Args[2])
		build(b)
		fmt.Println(filepath.Join(verifDir, ".gen", b.ID, "inst"))
	case "replay":
		path := os.Args[2]
		raw, err := os.ReadFile(path)
		if err != nil {
			die(2, "%v", err)
		}
		var f struct {
			Property string `json:"property"`
			Tier     string `json:"tier"`
			Part     string `json:"part"`
		}
		if err := json.Unmarshal(raw, &f); err != nil || f.Property == "" {
			die(2, "not a replay file: %s", path)
		}
		if f.Tier != "" {
			tier = f.Tier
		}
		s, b := loadSpec(f.Property)
		for _, p := range s.Parts {
			if p.Name == f.Part {
				b = buildSpecOf(s, p)
			}
		}
		bin := build(b)
		abs, _ := filepath.Abs(path)
		os.Exit(runPart(s, bin, tier, f.Part, []string{"--replay", abs}))
	default:
		die(2, "unknown command %q", os.Args[1])
	}
}
