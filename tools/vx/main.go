// vx is the driver of the verification machinery in /verif.
//
//	vx check <id> [--tier quick|thorough]   build the harness for property <id> from /repo's
//	                                        current working tree (overlay, instrumented) and run it
//	vx replay <replay-file>                 rebuild and re-run exactly the recorded case
//	vx build <id>                           build only (used by setup to warm caches)
//	vx instrument <id>                      run the instrumenter only and print the generated files
//
// Exit codes of check: 0 held, 1 violation (a VIOLATION line was printed), 2 machinery error.
package main

import (
	"encoding/json"
	"fmt"
	"os"
	"os/exec"
	"path/filepath"
	"sort"
	"strings"
	"time"

	"verif/tools/instrument"
)

type Spec struct {
	ID         string              `json:"id"`
	Use        string              `json:"use"`        // take build description from another harness dir
	Main       string              `json:"main"`       // virtual main package dir, relative to /repo
	Mount      map[string]string   `json:"mount"`      // /verif-relative file -> /repo-relative virtual path
	Engines    []string            `json:"engines"`    // engine/<name> mounted at zzverif/<name>
	Instrument map[string][]string `json:"instrument"` // package dir (repo relative) -> files ("*" = all non-test)
	InstOpts   instrument.Options  `json:"inst_opts"`
	Args       map[string][]string `json:"args"` // per tier
	Env        map[string]string   `json:"env"`
	BuildFlags []string            `json:"build_flags"`
}

var (
	verifDir = envOr("VERIF_DIR", "/verif")
	repoDir  = envOr("VERIF_REPO", "/repo")
)

func envOr(k, d string) string {
	if v := os.Getenv(k); v != "" {
		return v
	}
	return d
}

func die(code int, f string, a ...any) {
	fmt.Fprintf(os.Stderr, "vx: "+f+"\n", a...)
	os.Exit(code)
}

func loadSpec(id string) (*Spec, *Spec) {
	read := func(id string) *Spec {
		b, err := os.ReadFile(filepath.Join(verifDir, "harness", id, "harness.json"))
		if err != nil {
			die(2, "no harness for %s: %v", id, err)
		}
		var s Spec
		if err := json.Unmarshal(b, &s); err != nil {
			die(2, "harness/%s/harness.json: %v", id, err)
		}
		return &s
	}
	s := read(id)
	b := s
	if s.Use != "" {
		b = read(s.Use)
	}
	return s, b
}

func goEnv() []string {
	env := os.Environ()
	out := env[:0]
	for _, e := range env {
		if strings.HasPrefix(e, "GOFLAGS=") || strings.HasPrefix(e, "GOPROXY=") || strings.HasPrefix(e, "GOSUMDB=") || strings.HasPrefix(e, "GOTOOLCHAIN=") {
			continue
		}
		out = append(out, e)
	}
	return append(out, "GOFLAGS=-mod=mod", "GOPROXY=off")
}

// build returns the path of the harness binary for build-spec b.
func build(b *Spec) string {
	gen := filepath.Join(verifDir, ".gen", b.ID)
	os.MkdirAll(gen, 0o755)
	replace := map[string]string{}
	for src, dst := range b.Mount {
		replace[filepath.Join(repoDir, dst)] = filepath.Join(verifDir, src)
	}
	engines := append([]string{}, b.Engines...)
	for _, e := range engines {
		files, _ := filepath.Glob(filepath.Join(verifDir, "engine", e, "*.go"))
		for _, f := range files {
			if strings.HasSuffix(f, "_test.go") {
				continue
			}
			replace[filepath.Join(repoDir, "zzverif", e, filepath.Base(f))] = f
		}
	}
	if len(b.Instrument) > 0 {
		pkgs := make([]string, 0, len(b.Instrument))
		for p := range b.Instrument {
			pkgs = append(pkgs, p)
		}
		sort.Strings(pkgs)
		for _, p := range pkgs {
			outDir := filepath.Join(gen, "inst", p)
			os.RemoveAll(outDir)
			os.MkdirAll(outDir, 0o755)
			res, err := instrument.Package(repoDir, p, b.Instrument[p], outDir, b.InstOpts, goEnv())
			if err != nil {
				die(2, "instrument %s: %v", p, err)
			}
			for orig, gen := range res {
				replace[orig] = gen
			}
		}
	}
	ov, _ := json.MarshalIndent(map[string]any{"Replace": replace}, "", " ")
	ovPath := filepath.Join(gen, "overlay.json")
	if err := os.WriteFile(ovPath, ov, 0o644); err != nil {
		die(2, "%v", err)
	}
	bin := filepath.Join(gen, "harness.bin")
	args := []string{"build", "-overlay", ovPath, "-o", bin}
	args = append(args, b.BuildFlags...)
	args = append(args, "./"+b.Main)
	cmd := exec.Command("go", args...)
	cmd.Dir = repoDir
	cmd.Env = goEnv()
	out, err := cmd.CombinedOutput()
	if err != nil {
		die(2, "build of harness %s failed (the tree under %s does not compile with the harness):\n%s", b.ID, repoDir, out)
	}
	return bin
}

func run(s *Spec, bin, tier string, extra []string) int {
	args := append([]string{}, s.Args[tier]...)
	args = append(args, extra...)
	cmd := exec.Command(bin, args...)
	cmd.Dir = verifDir
	cmd.Stdout = os.Stdout
	cmd.Stderr = os.Stderr
	cmd.Env = append(os.Environ(), "VERIF_DIR="+verifDir, "VERIF_REPO="+repoDir, "VERIF_TIER="+tier, "VERIF_ID="+s.ID)
	for k, v := range s.Env {
		cmd.Env = append(cmd.Env, k+"="+v)
	}
	if err := cmd.Run(); err != nil {
		if ee, ok := err.(*exec.ExitError); ok {
			return ee.ExitCode()
		}
		die(2, "run: %v", err)
	}
	return 0
}

func main() {
	if len(os.Args) < 3 {
		die(2, "usage: vx check|build|replay|instrument <id|file> [--tier quick|thorough]")
	}
	tier := envOr("VERIF_TIER", "quick")
	var rest []string
	for i := 3; i < len(os.Args); i++ {
		if os.Args[i] == "--tier" && i+1 < len(os.Args) {
			tier = os.Args[i+1]
			i++
		} else {
			rest = append(rest, os.Args[i])
		}
	}
	if tier != "quick" && tier != "thorough" {
		die(2, "bad tier %q", tier)
	}
	switch os.Args[1] {
	case "check":
		s, b := loadSpec(os.Args[2])
		t0 := time.Now()
		bin := build(b)
		fmt.Fprintf(os.Stderr, "vx: built %s harness in %.1fs\n", b.ID, time.Since(t0).Seconds())
		os.Exit(run(s, bin, tier, rest))
	case "build":
		_, b := loadSpec(os.Args[2])
		build(b)
	case "instrument":
		_, b := loadSpec(os.Args[2])
		build(b)
		fmt.Println(filepath.Join(verifDir, ".gen", b.ID, "inst"))
	case "replay":
		path := os.Args[2]
		raw, err := os.ReadFile(path)
		if err != nil {
			die(2, "%v", err)
		}
		var f struct {
			Property string `json:"property"`
			Tier     string `json:"tier"`
		}
		if err := json.Unmarshal(raw, &f); err != nil || f.Property == "" {
			die(2, "not a replay file: %s", path)
		}
		if f.Tier != "" {
			tier = f.Tier
		}
		s, b := loadSpec(f.Property)
		bin := build(b)
		abs, _ := filepath.Abs(path)
		os.Exit(run(s, bin, tier, []string{"--replay", abs}))
	default:
		die(2, "unknown command %q", os.Args[1])
	}
}
