#!/usr/bin/env python3
"""Confirms a seeded change (seeded/<id>/: patch.diff, demo_test.go, meta.json) in a scratch worktree
and runs the registered quick check(s) against it.

  tools/seedtest.py <seed-id> [<check-id> ...]     (default check: the seed's property)

Steps, all in a scratch git worktree of /repo (never /repo itself) and a scratch copy of /verif:
  1. demo passes on the unchanged tree
  2. patch applies, touched packages build, their existing tests pass
  3. demo fails with the patch
  4. quick check(s) with VERIF_REPO=<worktree>: expect exit 1 and a VIOLATION line
Writes seeded/<id>/result.json and prints a summary line."""
import json, os, re, shutil, subprocess, sys, time

VERIF = "/verif"
ENV = dict(os.environ, GOFLAGS="-mod=mod", GOPROXY="off")


def sh(cmd, cwd=None, timeout=1800, env=None):
    p = subprocess.run(cmd, shell=True, cwd=cwd, env=env or ENV, stdout=subprocess.PIPE, stderr=subprocess.STDOUT, timeout=timeout)
    return p.returncode, p.stdout.decode(errors="replace")


def main():
    seed = sys.argv[1]
    sdir = os.path.join(VERIF, "seeded", seed)
    if os.path.exists(os.path.join(sdir, "SUPERSEDED.md")):
        print("%s superseded (see seeded/%s/SUPERSEDED.md); result.json keeps the run on the tree it was written for" % (seed, seed))
        return
    meta = json.load(open(os.path.join(sdir, "meta.json")))
    checks = sys.argv[2:] or [meta["property"]]
    wt = "/tmp/seedcheck-" + seed
    vcopy = "/tmp/verif-seed-" + seed
    sh("git -C /repo worktree remove --force %s" % wt)
    shutil.rmtree(wt, ignore_errors=True)
    rc, out = sh("git -C /repo worktree add --detach %s HEAD" % wt)
    assert rc == 0, out
    res = {"seed": seed, "property": meta["property"], "title": meta.get("title", ""), "ran": []}
    try:
        demo = os.path.join(sdir, "demo_test.go")
        pkg = meta["demo"]["package_dir"].strip("./")
        tests = "|".join(sorted(set(re.findall(r"^func (Test\w+)", open(demo).read(), re.M))))
        target = os.path.join(wt, pkg, "zz_seed_demo_test.go")
        democmd = "timeout 900 go test -vet=off -count=1 -run '%s' ./%s/" % (tests, pkg)
        touched = sorted(set(os.path.dirname(f) for f in re.findall(r"^\+\+\+ b/(\S+)", open(os.path.join(sdir, "patch.diff")).read(), re.M)))
        # 1. demo on the unchanged tree
        shutil.copy(demo, target)
        rc, out = sh(democmd, cwd=wt)
        res["demo_passes_without_change"] = rc == 0
        res["ran"].append(democmd + " (unchanged tree) -> exit %d" % rc)
        os.remove(target)
        # 2. patch, build, existing tests
        rc, out = sh("git apply %s" % os.path.join(sdir, "patch.diff"), cwd=wt)
        res["patch_applies"] = rc == 0
        pk = " ".join("./%s/" % t for t in touched)
        rc, out = sh("go build %s" % pk, cwd=wt)
        res["compiles"] = rc == 0
        tcmd = "timeout 1500 go test -vet=off -count=1 -skip TestSentencePieceEncode %s" % pk
        rc, out = sh(tcmd, cwd=wt)
        res["existing_tests_pass_with_change"] = rc == 0
        res["ran"].append(tcmd + " (with change) -> exit %d" % rc)
        if rc != 0:
            res["existing_tests_output"] = out[-1500:]
        # 3. demo with the patch
        shutil.copy(demo, target)
        rc, out = sh(democmd, cwd=wt)
        res["demo_fails_with_change"] = rc != 0
        res["ran"].append(democmd + " (with change) -> exit %d" % rc)
        os.remove(target)
        # 4. the checks
        shutil.rmtree(vcopy, ignore_errors=True)
        sh("rsync -a --exclude .gen --exclude .git --exclude seeded --exclude replays /verif/ %s/" % vcopy)
        env = dict(ENV, VERIF_DIR=vcopy, VERIF_REPO=wt)
        res["checks"] = {}
        for c in checks:
            t0 = time.time()
            rc, out = sh("timeout 1200 %s/bin/vx check %s --tier quick" % (VERIF, c), cwd=vcopy, env=env)
            sigs = re.findall(r"^\s+signature: (.*)$", out, re.M)
            res["checks"][c] = {"exit": rc, "violation": "VIOLATION property=" in out, "signatures": sigs[:8], "wall_s": round(time.time() - t0, 1),
                                "summary": [l for l in out.splitlines() if l.startswith("[C")][-1:]}
            res["ran"].append("VERIF_REPO=<worktree with change> bin/vx check %s --tier quick -> exit %d" % (c, rc))
        res["detected_by"] = [c for c, v in res["checks"].items() if v["exit"] == 1 and v["violation"]]
    finally:
        sh("git -C /repo worktree remove --force %s" % wt)
        shutil.rmtree(wt, ignore_errors=True)
        shutil.rmtree(vcopy, ignore_errors=True)
    json.dump(res, open(os.path.join(sdir, "result.json"), "w"), indent=1)
    ok = all(res.get(k) for k in ("demo_passes_without_change", "patch_applies", "compiles", "existing_tests_pass_with_change", "demo_fails_with_change"))
    print("%s confirmed=%s detected_by=%s %s" % (seed, ok, res.get("detected_by"), {c: v["signatures"][:2] for c, v in res.get("checks", {}).items()}))


main()
