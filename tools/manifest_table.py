ENGINES = [
 {"name": "evid", "path": "engine/evid", "serves_properties": ["C05"], "kind_free_text": "evidence/violation/known-finding reporting, in-process and subprocess fan-out"},
]
NOTES = "All checks are exhaustive enumerations within the bounds stated in their evidence files, executed on the real code built from /repo's working tree through go build -overlay. See DESIGN.md."
NOT_APPLICABLE = {}

check("C05", "exploration", "exhaustive input-grid enumeration through real WriteGGUF/Decode with a byte-level reference oracle",
      "Every (KV map, tensor list) from a small alphabet chosen to hit padding/offset arithmetic (unaligned sizes, 4 alignments, header pad lengths, block-sorted names, every writer-supported value type) is written by the real WriteGGUF and decoded by the real Decode; keys, values, kinds, reversed shapes, bytes at decoded offsets, alignment and end offset are compared. Complete below the stated bounds; says nothing about larger tensor counts or other value types.",
      "Go compiler/runtime; the harness oracle (reflect.DeepEqual on decoded values; byte comparison).", "DESIGN.md 3/C05", "evid")

ENGINES += [
 {"name": "mcrt", "path": "engine/mcrt", "serves_properties": ["C01", "C02", "C11"], "kind_free_text": "controlled runtime (cooperative scheduler over real goroutines, sync/atomic/channel/select shims, virtual time, contexts), stateless DFS explorer with per-class deviation bounds and happens-before caching, vector-clock race detector"},
 {"name": "instrument", "path": "tools/instrument", "serves_properties": ["C01", "C02", "C11"], "kind_free_text": "go/ast+go/types source rewriter producing go build -overlay files from /repo's current tree (import substitution to shim packages; go/send/recv/close/range/select rewriting)"},
]

_sched_note = "Go toolchain and go build -overlay; the instrumenter's rewrite rules and mcrt shims (unit-tested); scheduling points only at synchronisation/time/mock-runner operations; plain memory accesses between points are atomic; small-scope: 2-3 requests over 3 models per scenario, deviation bounds as in evidence."
check("C01", "model_checking", "stateless model checking of the real Scheduler: exhaustive DFS over thread interleavings (preemption/switch/time/fault bounded) with online monitor",
      "The real server.Scheduler (both loops, timers, helper goroutines, built from the current tree through the instrumenter) is executed under a controlled scheduler; for each of ~20 request scenarios every schedule within the deviation bounds is enumerated (HB-cached DFS). A monitor fires at every runner Close and every grant: no Close while a request holds the runner, no double Close, no grant of a closed/unloaded runner.",
      _sched_note, "DESIGN.md 3/C01", "mcrt")
check("C02", "model_checking", "stateless model checking of the real Scheduler run to quiescence: reply ledger, drain and deadlock oracles on every explored schedule",
      "Same executions as C01, each run until no thread can move and all keep-alive timers have elapsed (virtual time): every un-cancelled request got exactly one reply, queue-full gives an immediate busy error, started==shut down, nothing reported loaded, no pending timers, no scheduler goroutine blocked (deadlock) before or after shutdown.",
      _sched_note, "DESIGN.md 3/C02", "mcrt")
check("C11", "model_checking", "stateless model checking of the real Scheduler with runner-count / one-per-model / reuse / eviction-order / memory-fit monitors",
      "Same executions plus configuration scenarios (MAX_LOADED 1/2/unset, tight GPU memory found by bisection on the real estimator, two GPUs, CPU mode): live runners <= limit, <=1 per model, granted runner's start options match the request, compatible loaded runner reused and idle shortest-keep-alive victim chosen (sequential scenarios, judged only while no keep-alive can have expired), new runner next to loaded ones only on GPUs where PredictServerFit holds for the memory they leave.",
      _sched_note, "DESIGN.md 3/C11", "mcrt")

ENGINES += [
 {"name": "fakeml", "path": "engine/fakeml", "serves_properties": ["C06", "C07", "C14"], "kind_free_text": "in-memory ml.Backend with aliasing views (byte offsets/strides as ggml), lazy graph semantics (Forward/Compute, node limit)"},
]
check("C06", "model_checking", "explicit-state breadth-first search over cache-operation histories of the real kvcache.Causal with a dictionary reference model",
      "For every configuration of a grid (sequences, capacity, batch, cache/mask padding, window, permuted V, shift fn, graph-node limit) every history of Forward / CopyPrefix / Resume(CanResume+truncate) / middle-range Remove up to the stated depth is executed on the real Causal cache (states cloned in-package, deduplicated on a canonical fingerprint of all cells, ranges and stored data). After every Forward the (key,value,mask) the cache returns is decoded per batch token and layer and compared with the reference history set exactly (nothing missing, nothing extra, right position after shifts, padding masked); cache-full errors only when the reference says so.",
      "Go toolchain; fakeml backend semantics (views alias, copies run in forward order); driver follows the documented Cache contract; small scope: <=3 sequences, capacity <=6, depth as in evidence.", "DESIGN.md 3/C06", "fakeml")

check("C07", "model_checking", "exhaustive enumeration of request/batch/cancel event histories on the real ollamarunner.Server under the controlled runtime, with in-model visibility monitor and fresh-runner differential",
      "The real completion handler, processBatch, InputCache and kvcache run on the fakeml backend under mcrt (handlers are managed threads; events submit / one batch / cancel are free choices explored depth-first, ready select cases included). A scripted model decodes, at Compute time, exactly which (token,position) entries the cache exposes for every batch token and compares them with the slot's recorded inputs (M1); slot exclusivity and in-use bookkeeping are checked after every event (M2); each finished request's text must equal what a fresh single-slot runner generates for it (M3); all slots and permits are free at the end (M4).",
      "Go toolchain; instrumenter + mcrt shims; fakeml semantics; events at submit/batch/cancel granularity (the server mutex serialises them); runner/llamarunner (cgo) out of scope; bounds as in evidence.", "DESIGN.md 3/C07", "mcrt")
check("C14", "exploration", "exhaustive enumeration of generated piece sequences x stop sets x limits through the real completion handler/processBatch with a string reference",
      "Every sequence of token pieces up to the stated length (ASCII, multi-character pieces, multi-byte characters split across tokens, an invalid byte), every stop set (all singles, ordered pairs) and prediction limit is generated by a scripted model through the real runner; the streamed pieces, their concatenation and the finish reason are compared with a string-level reference (prefix, ends before a stop and contains none, nothing lost otherwise, whole UTF-8 pieces, reason). runner/common's helpers are also enumerated directly.",
      "Go toolchain; instrumenter + mcrt shims; fakeml; generated text with invalid bytes inside is only checked for whole-UTF-8 pieces/finish reason; llamarunner's cgo loop out of scope.", "DESIGN.md 3/C14", "mcrt")
for e in ENGINES:
    if e["name"] in ("mcrt", "instrument"):
        e["serves_properties"] = sorted(set(e["serves_properties"] + ["C07", "C14"]))

ENGINES += [
 {"name": "mcos", "path": "engine/mcos", "serves_properties": ["C08"], "kind_free_text": "controlled file system: every FS call of instrumented code is a scheduling point; mutating calls are crash points (with write prefixes) and optional fault points; crash image = the scratch directory at that instant"},
]
check("C08", "fault_enumeration", "exhaustive enumeration of source-reader faults, crash points (every mutating FS call and write prefix) and FS-call-level interleavings of concurrent writers on the real blob.DiskCache",
      "Three complete enumerations against one oracle evaluated on every state and every crash image: (1) every reader misbehaviour (short/long/flipped byte at each index/error after k bytes/wrong declared size x read chunking) through Put and every order/abort point/bad chunk of Chunker writes; (2) every crash point, including proper prefixes of each write, of every history of the operation alphabet up to the stated depth, with the directory re-opened by blob.Open; (3) every interleaving within the preemption bound of 2-3 writers of the same blob (also with one crash). Oracle: right size => right sha256, acknowledged store stays retrievable, Link only to a stored blob, Resolve == digest of linked bytes and retrievable.",
      "Go toolchain; instrumenter + mcos/mcrt shims; crash = process death (written data persists); tmpfs scratch directory.", "DESIGN.md 3/C08", "mcos")
for e in ENGINES:
    if e["name"] in ("mcrt", "instrument"):
        e["serves_properties"] = sorted(set(e["serves_properties"] + ["C08"]))

ENGINES += [
 {"name": "fakereg", "path": "engine/fakereg", "serves_properties": ["C09"], "kind_free_text": "in-process registry + CDN http.RoundTripper: requests and body reads are scheduling points with an explorer-chosen fault menu (status errors, resets, truncated/flipped bodies, ignored Range, stalls, broken chunk plans, auth challenges); upload endpoints with an acceptance log"},
]
check("C09", "fault_enumeration", "exhaustive enumeration (deviation-bounded DFS under the controlled runtime) of network faults, chunk plans, cancellation points, chunk completion orders and retry histories of the real Registry.Pull/Push",
      "The real ollama.Registry over the real blob.DiskCache runs against the in-process registry; for each scenario (layers on both sides of the chunking threshold, stream limits, replaced tag, push) every execution of [faulty attempt -> fault-free attempt] within the bounds is run: each request may fail (5xx, reset, truncated/flipped body, ignored Range, stall until the read timeout on the virtual clock), chunk plans may be broken, the client may cancel at any point, chunk goroutines interleave. Oracle after every attempt and at every FS mutation: success => every layer has the manifest's size and sha256 and the name is linked to the served manifest; failure => if the name resolves, to a complete model; linked only after layers are complete; the clean retry succeeds; push: manifest PUT only after every layer was accepted.",
      "Go toolchain; instrumenter + mcrt/mcos/fakereg; legacy push path (server/upload.go) not yet covered; bounds in evidence.", "DESIGN.md 3/C09", "fakereg")
for e in ENGINES:
    if e["name"] in ("mcrt", "instrument", "mcos"):
        e["serves_properties"] = sorted(set(e["serves_properties"] + ["C09"]))

check("C20", "exploration", "exhaustive enumeration of all strings up to length n over class-representative alphabets (plus every code point and code-point pair) through the real BPE and SentencePiece tokenizers",
      "Three tokenizers built through the real constructors (llama3.2 vocabulary from testdata with the tree's llama3 pre-tokenizer, a synthetic byte-complete BPE with adversarial merges behind the mistral3 pre-tokenizer, a synthetic SentencePiece vocabulary with byte fallback); every string up to the stated length over several alphabets (class representatives, special-token literals, whitespace kinds, contractions, {a,b}^n), every code point alone and in context, every code-point pair below a bound; oracle: no error, ids in range, Decode(Encode(s)) == s byte for byte, special literals map to their ids in place, addSpecial only adds BOS/EOS.",
      "Go toolchain; synthetic vocabularies are harness-built; the U+2581/space ambiguity of SentencePiece is an assumption, not a violation.", "DESIGN.md 3/C20", "evid")
for e in ENGINES:
    if e["name"] == "evid":
        e["serves_properties"] = sorted(set(e["serves_properties"] + ["C20"]))

check("C13", "exploration", "exhaustive enumeration of all strings up to length n over a separator/alphanumeric/control alphabet plus structured limit families, through both name parsers, the digest parsers and every path builder, incl. real-directory case-variant lookups",
      "Every string of <= n symbols over a 17-symbol alphabet (separators, dots, backslash, NUL, newline, multi-byte, invalid byte) and structured families around the length limits, scheme/@digest forms and digest shapes is fed to model.ParseName*/Name.*, names.Parse, ParseModelPath/GetManifestPath, GetBlobsPath, blob.ParseDigest/GetFile/nameToPath/manifestPath, Registry.parseNameExtended; oracle: accepted => path confined at the fixed depth with no traversal component, print/parse round trip, cross-parser agreement on fully qualified names, case variants address the same stored model (checked on real directories built with WriteManifest / DiskCache.Link, one- and two-manifest stores), no panics.",
      "Go toolchain; 'accepted' for the names parser means fully qualified after the default mask; two-manifest legacy lookups are repeated 16x because Go map order is not owned in that path.", "DESIGN.md 3/C13", "evid")
for e in ENGINES:
    if e["name"] == "evid":
        e["serves_properties"] = sorted(set(e["serves_properties"] + ["C13"]))

check("C03", "fault_enumeration", "exhaustive enumeration (deviation-bounded DFS under the controlled runtime) of registry/CDN fault sequences, cancellation points, download-goroutine interleavings and retry histories of the real PullModel",
      "The real legacy pull path (PullModel, downloadBlob, blobDownload.Prepare/run/downloadChunk with its tickers, retries and part files; part size scaled to 4 bytes) runs over the controlled file system against the in-process registry with CDN redirect; per scenario every execution of [faulty/interrupted attempt(s) -> fault-free attempt] within the bounds. Oracle after every attempt: success => every layer of the served manifest present with its size and sha256 and the stored manifest equals the served one; failure => if the name resolves, to a complete model (old or new); a fault-free retry after quiescence succeeds; no panic in any goroutine (adversarial Www-Authenticate challenges included).",
      "Go toolchain; instrumenter + mcrt/mcos/fakereg; minDownloadPartSize literal scaled; bounds and per-scenario caps in evidence; a second pull that joins a download whose preparation failed waits until its client gives up (observed, outside the property text).", "DESIGN.md 3/C03", "fakereg")
for e in ENGINES:
    if e["name"] in ("mcrt", "instrument", "mcos", "fakereg"):
        e["serves_properties"] = sorted(set(e["serves_properties"] + ["C03"]))
