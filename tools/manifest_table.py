ENGINES = [
 {"name": "evid", "path": "engine/evid", "serves_properties": ["C05"], "kind_free_text": "evidence/violation/known-finding reporting, in-process and subprocess fan-out"},
]
NOTES = "All checks are exhaustive enumerations within the bounds stated in their evidence files, executed on the real code built from /repo's working tree through go build -overlay. See DESIGN.md."
NOT_APPLICABLE = {}

check("C05", "exploration", "exhaustive input-grid enumeration through real WriteGGUF/Decode with a byte-level reference oracle",
      "Every (KV map, tensor list) from a small alphabet chosen to hit padding/offset arithmetic (unaligned sizes, 4 alignments, header pad lengths, block-sorted names, every writer-supported value type) is written by the real WriteGGUF and decoded by the real Decode; keys, values, kinds, reversed shapes, bytes at decoded offsets, alignment and end offset are compared. Complete below the stated bounds; says nothing about larger tensor counts or other value types.",
      "Go compiler/runtime; the harness oracle (reflect.DeepEqual on decoded values; byte comparison).", "DESIGN.md 3/C05", "evid")
